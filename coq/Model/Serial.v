(* Executable model of what pyoak serializes and deserializes: mashumaro's field-wise to_dict / from_dict
   (by annotation: tuples as lists, enums by value, paths as posix strings), Source/Position/Origin/ASTNode
   _serialize / _deserialize with TYPES dispatch, the No* singletons, the source registry (idx references),
   node re-use through the node registry and the forced id. Definitions only (plus Examples).
   orjson / msgpack / yaml are the identity on [sval] (assumption, DESIGN 2.8). *)
From Oak Require Export Model.SerOpts Model.Encode.

(* ---------- property annotations (the representable kinds) ---------- *)
Inductive pty :=
| TyInt | TyStr | TyBool | TyFloat | TyPath
| TyEnum (name : pystr) (members : list (pystr * pval))   (* member name, member value *)
| TyOpt (t : pty)                                         (* T | None *)
| TyTup (t : pty)                                         (* tuple[T, ...] *)
| TyAny.
Record pdecl := { pd_name : pystr; pd_ty : pty; pd_default : option pval }.
Definition ptab := list (pystr * list pdecl).             (* class -> its property declarations *)

Fixpoint find_pdecl (f : pystr) (l : list pdecl) : option pdecl :=
  match l with
  | [] => None
  | d :: r => if pystr_eqb (pd_name d) f then Some d else find_pdecl f r
  end.
Definition pdecls (pt : ptab) (c : pystr) : list pdecl := match assoc c pt with Some l => l | None => [] end.

(* ---------- results of deserialization ---------- *)
Inductive res (A : Type) := Ok (a : A) | Exc.
Arguments Ok {A} a.
Arguments Exc {A}.
Notation "'dor' x <- e ; k" := (match e with Ok x => k | Exc => Exc end)
  (at level 200, x pattern, e at level 100, k at level 200, right associativity).
Definition of_opt {A} (o : option A) : res A := match o with Some x => Ok x | None => Exc end.
Section OMap.
  Context {A B : Type} (f : A -> option B).
  Fixpoint omap (l : list A) : option (list B) :=
    match l with
    | [] => Some []
    | x :: r => match f x, omap r with Some y, Some t => Some (y :: t) | _, _ => None end
    end.
End OMap.
(* map with a threaded state, stopping at the first exception *)
Fixpoint mapM_st {A B S} (f : A -> S -> res (B * S)) (l : list A) (st : S) : res (list B * S) :=
  match l with
  | [] => Ok ([], st)
  | x :: r => dor (y, st1) <- f x st; dor (ys, st2) <- mapM_st f r st1; Ok (y :: ys, st2)
  end.
(* nesting depth of a value: enough fuel for every deserializer below *)
Fixpoint sval_depth (v : sval) : nat :=
  let fix go (l : list sval) : nat := match l with [] => 0%nat | x :: r => Nat.max (sval_depth x) (go r) end in
  let fix gom (m : list (pystr * sval)) : nat := match m with [] => 0%nat | (_, x) :: r => Nat.max (sval_depth x) (gom r) end in
  match v with
  | JList l => S (go l)
  | JMap m => S (gom m)
  | _ => 1%nat
  end.

(* ---------- property values ---------- *)
Fixpoint is_int_ty (t : pty) : bool := match t with TyInt => true | TyOpt t' => is_int_ty t' | _ => false end.
Definition elem_ty (t : pty) : pty := match t with TyTup e => e | TyOpt (TyTup e) => e | _ => TyAny end.
Definition ser_int (s : slots) (z : Z) : sval := if ints_as_str s then JStr ("i"%char :: decZ z) else JInt z.

Fixpoint ser_pval (s : slots) (t : pty) (v : pval) : sval :=
  match v with
  | VNone => JNull
  | VBool b => JBool b
  | VInt z => if is_int_ty t then ser_int s z else JInt z
  | VStr x => JStr x
  | VEnum _ _ p => ser_pval s TyAny p                      (* enums by value *)
  | VFloat r => JFloat r
  | VPath p => JStr p                                      (* as_posix() *)
  | VTuple l => JList (map (ser_pval s (elem_ty t)) l)     (* tuples as lists *)
  | VFset l => JList (map (ser_pval s TyAny) l)
  end.

Definition parse_int (s : pystr) : option Z :=
  match s with
  | "-"%char :: d => match d with [] => None | _ => if forallb is_digit d then Some (Z.opp (Z.of_N (undecN d))) else None end
  | [] => None
  | d => if forallb is_digit d then Some (Z.of_N (undecN d)) else None
  end.
Definition deser_int (s : slots) (v : sval) : option Z :=
  if ints_as_str s then match v with JStr ("i"%char :: d) => parse_int d | _ => None end
  else match v with JInt z => Some z | _ => None end.

Fixpoint find_member (s : slots) (ms : list (pystr * pval)) (v : sval) : option (pystr * pval) :=
  match ms with
  | [] => None
  | (m, p) :: r => if sval_eqb (ser_pval s TyAny p) v then Some (m, p) else find_member s r v
  end.

Fixpoint deser_pval (s : slots) (t : pty) (v : sval) : option pval :=
  match t with
  | TyInt => option_map VInt (deser_int s v)
  | TyStr => match v with JStr x => Some (VStr x) | _ => None end
  | TyBool => match v with JBool b => Some (VBool b) | _ => None end
  | TyFloat => match v with JFloat r => Some (VFloat r) | _ => None end
  | TyPath => match v with JStr x => Some (VPath x) | _ => None end
  | TyEnum n ms => option_map (fun mp => VEnum n (fst mp) (snd mp)) (find_member s ms v)
  | TyOpt t' => match v with JNull => Some VNone | _ => deser_pval s t' v end
  | TyTup e =>
    match v with
    | JList l =>
      option_map VTuple
        ((fix go (l : list sval) : option (list pval) :=
            match l with
            | [] => Some []
            | x :: r => match deser_pval s e x, go r with Some a, Some b => Some (a :: b) | _, _ => None end
            end) l)
    | _ => None
    end
  | TyAny => match v with
             | JNull => Some VNone | JBool b => Some (VBool b) | JInt z => Some (VInt z)
             | JStr x => Some (VStr x) | JFloat r => Some (VFloat r) | _ => None
             end
  end.

(* ---------- the source registry: Source._sources / _source_idx_to_source (index = position) ---------- *)
Fixpoint index_of (x : source) (reg : list source) : option nat :=
  match reg with
  | [] => None
  | y :: r => if source_eqb y x then Some 0%nat else option_map S (index_of x r)
  end.
(* Source.__post_init__ *)
Definition register1 (x : source) (reg : list source) : list source :=
  match index_of x reg with Some _ => reg | None => reg ++ [x] end.
(* constructing a source object: members of a SourceSet are constructed first; NoSource is never registered *)
Fixpoint register_source (x : source) (reg : list source) : list source :=
  let fix go (l : list source) (reg : list source) : list source :=
    match l with [] => reg | y :: r => go r (register_source y reg) end in
  match x with
  | SNo => reg
  | SSet l => register1 x (go l reg)
  | _ => register1 x reg
  end.
(* constructing an origin object (its sources first; a MultiOrigin builds a SourceSet when the sources differ) *)
Fixpoint register_origin (o : origin) (reg : list source) : list source :=
  let fix go (l : list origin) (reg : list source) : list source :=
    match l with [] => reg | y :: r => go r (register_origin y reg) end in
  match o with
  | ONo => reg
  | OCode s _ | OGen s | OXml s _ | OEntire s => register_source s reg
  | OMulti l =>
    let reg' := go l reg in
    match multi_source (map osource l) with
    | SSet _ as ss => register1 ss reg'
    | _ => reg'
    end
  end.

(* ---------- serialization ---------- *)
Definition kv (k : string) (v : sval) : pystr * sval := (lit k, v).
Definition raw_val (r : option pystr) : sval := match r with Some t => JStr t | None => JNull end.

(* Source._serialize / NoSource._serialize; None = KeyError (source not in the registry) *)
Fixpoint ser_source (s : slots) (reg : list source) (x : source) : option sval :=
  match x with
  | SNo => Some (JMap [])
  | _ =>
    if get_sidx s then option_map (fun i => JMap [kv "idx" (JInt (Z.of_nat i))]) (index_of x reg)
    else match x with
    | SNo => Some (JMap [])
    | SText u ty => Some (JMap (source_post s (lit "Source") [kv "source_uri" (JStr u); kv "source_type" (JStr ty); kv "_raw" JNull]))
    | SMem u raw => Some (JMap (source_post s (lit "MemoryTextSource")
                        [kv "source_uri" (JStr u); kv "source_type" (JStr (lit "<memory>")); kv "_raw" (raw_val raw)]))
    | SFile p => Some (JMap (source_post s (lit "FileSource")
                        [kv "source_uri" (JStr p); kv "source_type" (JStr (lit "File")); kv "_raw" JNull; kv "relative_path" (JStr p)]))
    | SSet l => match omap (ser_source s reg) l with
                | Some vs => Some (JMap (source_post s (lit "SourceSet")
                        [kv "source_uri" (JStr (source_fqn x)); kv "source_type" (JStr (lit "SourceSet")); kv "_raw" JNull;
                         kv "sources" (JList vs)]))
                | None => None
                end
    end
  end.

Definition ser_point (s : slots) (p : point) : sval :=
  JMap (base_post s (lit "CodePoint") [kv "index" (ser_int s (p_idx p)); kv "line" (ser_int s (p_line p)); kv "column" (ser_int s (p_col p))]).
Definition ser_range (s : slots) (r : range) : sval :=
  JMap (base_post s (lit "CodeRange") [kv "start" (ser_point s (r_start r)); kv "end" (ser_point s (r_end r))]).

(* the position object of an origin *)
Fixpoint ser_position (s : slots) (o : origin) : sval :=
  match o with
  | ONo => JMap []
  | OCode _ r => ser_range s r
  | OGen _ => ser_range s empty_range
  | OXml _ p => JMap (base_post s (lit "XMLPath") [kv "xpath" (JStr p)])
  | OEntire _ => JMap (base_post s (lit "EntireSourcePosition") [])
  | OMulti l => JMap (base_post s (lit "PositionSet") [kv "positions" (JList (map (ser_position s) l))])
  end.

Fixpoint ser_origin (s : slots) (reg : list source) (o : origin) : option sval :=
  let simple (cls : string) (src : source) : option sval :=
    match ser_source s reg src with
    | Some sv => Some (JMap (base_post s (lit cls) [kv "source" sv; kv "position" (ser_position s o)]))
    | None => None
    end in
  match o with
  | ONo => Some (JMap [])
  | OCode src _ => simple "CodeOrigin"%string src
  | OGen src => simple "GeneratedCodeOrigin"%string src
  | OXml src _ => simple "XMLFileOrigin"%string src
  | OEntire src => simple "Origin"%string src
  | OMulti l =>
    match ser_source s reg (osource o), omap (ser_origin s reg) l with
    | Some sv, Some vs => Some (JMap (base_post s (lit "MultiOrigin")
                                 [kv "source" sv; kv "position" (ser_position s o); kv "origins" (JList vs)]))
    | _, _ => None
    end
  end.

Fixpoint assoc_nat {A} (k : nat) (l : list (nat * A)) : option A :=
  match l with
  | [] => None
  | (k', v) :: r => if Nat.eqb k' k then Some v else assoc_nat k r
  end.

Section Ser.
  Variable H : pystr -> pystr.
  Variable ct : ctable.
  Variable pt : ptab.
  Variable nv : nvariant.

  Definition cid_of (n : node) : pystr := content_id H ct current n.

  Definition shape_val (sh : kshape) (vs : list sval) : sval :=
    match sh with
    | ShNone => JNull
    | ShOne => match vs with v :: _ => v | [] => JNull end
    | ShMany => JList vs
    end.

  Definition prop_ty (c f : pystr) : pty := match find_pdecl f (pdecls pt c) with Some d => pd_ty d | None => TyAny end.

  (* mashumaro to_dict of a node: fields in dataclass order, then the node hook.
     [ids]: address -> id; [armed]: addresses of nodes one of whose properties raises when serialized.
     None = the call raises at this nested object. *)
  Fixpoint ser_node (s : slots) (reg : list source) (ids : list (nat * pystr)) (armed : list nat) (n : node) : option sval :=
    match n with
    | Node a c o ps ks =>
      match assoc_nat a ids, ser_origin s reg o,
            omap (fun k => option_map (fun vs => (fst k, shape_val (fst (snd k)) vs))
                                      (omap (ser_node s reg ids armed) (snd (snd k)))) ks with
      | Some i, Some ov, Some kvals =>
        if existsb (Nat.eqb a) armed then None else
        let user := map (fun f => (fd_name f,
                                   match fd_role f with
                                   | RProp => match assoc (fd_name f) ps with
                                              | Some v => ser_pval s (prop_ty c (fd_name f)) v
                                              | None => JNull
                                              end
                                   | RChild _ => match assoc (fd_name f) kvals with Some v => v | None => JNull end
                                   end)) (fields_of ct c) in
        Some (JMap (node_post nv s c (get_child_fields ct c)
                      ([kv "id" (JStr i); kv "content_id" (JStr (cid_of n)); kv "origin" ov] ++ user)))
      | _, _, _ => None
      end
    end.

  (* ---------- construction of a tree: ids through the node registry ---------- *)
  Definition mem_str (x : pystr) (l : list pystr) : bool := existsb (pystr_eqb x) l.
  (* _get_next_unique_id: the first id_1, id_2, ... not in use (the loop ends within |used|+1 rounds) *)
  Fixpoint first_free (used : list pystr) (base : pystr) (i fuel : nat) : pystr :=
    let cand := base ++ "_"%char :: dec i in
    match fuel with
    | 0%nat => cand
    | S f => if mem_str cand used then first_free used base (S i) f else cand
    end.
  Definition unique_id (used : list pystr) (base : pystr) : pystr :=
    if mem_str base used then first_free used base 1 (length used) else base.

  (* building the Python objects of a tree term bottom-up (children in field order, each address once):
     state = (address -> id of this copy, ids in the registry, source registry) *)
  Record bstate := { b_ids : list (nat * pystr); b_used : list pystr; b_srcs : list source }.
  Fixpoint build (n : node) (st : bstate) : bstate :=
    match n with
    | Node a c o ps ks =>
      let fix go (l : list node) (st : bstate) : bstate :=
        match l with [] => st | x :: r => go r (build x st) end in
      let fix gok (ks : list (pystr * (kshape * list node))) (st : bstate) : bstate :=
        match ks with [] => st | (_, (_, l)) :: r => gok r (go l st) end in
      match assoc_nat a (b_ids st) with
      | Some _ => st
      | None =>
        let st1 := gok ks st in
        let i := unique_id (b_used st1) (H (id_data H ct current n)) in
        {| b_ids := (a, i) :: b_ids st1; b_used := i :: b_used st1; b_srcs := register_origin o (b_srcs st1) |}
      end
    end.

  (* ---------- deserialization ---------- *)
  Definition jtag (m : list (pystr * sval)) : option pystr :=
    match jget type_key m with Some (JStr c) => Some c | _ => None end.
  Definition tag_is (m : list (pystr * sval)) (c : string) : bool :=
    match jtag m with Some t => pystr_eqb t (lit c) | None => false end.
  Definition is_empty_map (m : list (pystr * sval)) : bool := match m with [] => true | _ => false end.
  Definition jget_str (k : string) (m : list (pystr * sval)) : res pystr :=
    match jget (lit k) m with Some (JStr x) => Ok x | _ => Exc end.

  (* Source._deserialize (origin.py:90-114) *)
  Fixpoint deser_source (fuel : nat) (v : sval) (reg : list source) : res (source * list source) :=
    match fuel with
    | 0%nat => Exc
    | S fuel' =>
      match v with
      | JMap m =>
        if is_empty_map m || tag_is m "NoSource" then Ok (SNo, reg)
        else
          let by_idx (i : nat) (reg : list source) : res (source * list source) :=
            match nth_error reg i with Some r => Ok (r, reg) | None => Exc end in
          match jget (lit "idx") m with
          | Some (JInt z) => if Z.ltb z 0 then Exc else by_idx (Z.to_nat z) reg
          | Some JNull | None =>
            (* super()._deserialize: TYPES dispatch, from_dict, __post_init__ registers; then the registered instance *)
            dor (obj, reg1) <-
              (match jtag m with
               | None => dor u <- jget_str "source_uri" m; dor t <- jget_str "source_type" m; Ok (SText u t, reg)
               | Some c =>
                 if pystr_eqb c (lit "Source") then
                   dor u <- jget_str "source_uri" m; dor t <- jget_str "source_type" m; Ok (SText u t, reg)
                 else if pystr_eqb c (lit "MemoryTextSource") then
                   dor u <- jget_str "source_uri" m;
                   match jget (lit "_raw") m with
                   | Some (JStr r) => Ok (SMem u (Some r), reg)
                   | Some JNull | None => Ok (SMem u None, reg)
                   | _ => Exc
                   end
                 else if pystr_eqb c (lit "FileSource") then
                   dor p <- jget_str "relative_path" m; Ok (SFile p, reg)
                 else if pystr_eqb c (lit "SourceSet") then
                   match jget (lit "sources") m with
                   | Some (JList l) => dor (ys, reg1) <- mapM_st (deser_source fuel') l reg; Ok (SSet ys, reg1)
                   | _ => Exc
                   end
                 else Exc
               end);
            let reg2 := register1 obj reg1 in
            match index_of obj reg2 with Some i => by_idx i reg2 | None => Exc end
          | Some _ => Exc
          end
      | _ => Exc
      end
    end.

  Definition deser_point (s : slots) (v : sval) : res point :=
    match v with
    | JMap m =>
      if match jtag m with Some c => pystr_eqb c (lit "CodePoint") | None => true end then
        match jget (lit "index") m, jget (lit "line") m, jget (lit "column") m with
        | Some i, Some l, Some c =>
          match deser_int s i, deser_int s l, deser_int s c with
          | Some i', Some l', Some c' => of_opt (mk_point i' l' c')
          | _, _, _ => Exc
          end
        | _, _, _ => Exc
        end
      else Exc
    | _ => Exc
    end.
  Definition deser_range (s : slots) (v : sval) : res range :=
    match v with
    | JMap m =>
      if tag_is m "CodeRange" then
        match jget (lit "start") m, jget (lit "end") m with
        | Some a, Some b => dor a' <- deser_point s a; dor b' <- deser_point s b; of_opt (mk_range a' b')
        | _, _ => Exc
        end
      else Exc
    | _ => Exc
    end.

  (* Origin._deserialize (origin.py:204-209) + from_dict of the subclass named by the tag; init=False fields
     (position of GeneratedCodeOrigin, source/position of MultiOrigin) are not read *)
  Fixpoint deser_origin (fuel : nat) (s : slots) (v : sval) (reg : list source) : res (origin * list source) :=
    match fuel with
    | 0%nat => Exc
    | S fuel' =>
      match v with
      | JMap m =>
        if is_empty_map m || tag_is m "NoOrigin" then Ok (ONo, reg)
        else
          let src (reg : list source) : res (source * list source) :=
            match jget (lit "source") m with Some sv => deser_source fuel' sv reg | None => Exc end in
          match jtag m with
          | None => Exc
          | Some c =>
            if pystr_eqb c (lit "CodeOrigin") then
              dor (sc, reg1) <- src reg;
              match jget (lit "position") m with
              | Some pv => dor r <- deser_range s pv; Ok (OCode sc r, reg1)
              | None => Exc
              end
            else if pystr_eqb c (lit "GeneratedCodeOrigin") then
              dor (sc, reg1) <- src reg; Ok (OGen sc, reg1)
            else if pystr_eqb c (lit "XMLFileOrigin") then
              dor (sc, reg1) <- src reg;
              match jget (lit "position") m with
              | Some (JMap pm) => if tag_is pm "XMLPath" then dor p <- jget_str "xpath" pm; Ok (OXml sc p, reg1) else Exc
              | _ => Exc
              end
            else if pystr_eqb c (lit "Origin") then
              dor (sc, reg1) <- src reg;
              match jget (lit "position") m with
              | Some (JMap pm) => if tag_is pm "EntireSourcePosition" then Ok (OEntire sc, reg1) else Exc
              | _ => Exc
              end
            else if pystr_eqb c (lit "MultiOrigin") then
              match jget (lit "origins") m with
              | Some (JList l) =>
                dor (os, reg1) <- mapM_st (deser_origin fuel' s) l reg;
                if Nat.ltb (length os) 2 then Exc else
                Ok (OMulti os, match multi_source (map osource os) with SSet _ as ss => register1 ss reg1 | _ => reg1 end)
              | _ => Exc
              end
            else Exc
          end
      | _ => Exc
      end
    end.

  (* how ASTNode._deserialize is written. current = /repo; dv_force = false is the mutant deser_no_force_id *)
  Record dvariant := { dv_force : bool }.
  Definition current_dv : dvariant := {| dv_force := true |}.

  (* state of one deserialization call *)
  Record dstate := { ds_srcs : list source;
                     ds_reg : list (pystr * node);           (* NODE_REGISTRY: id -> live node *)
                     ds_ids : list (nat * (pystr * pystr));  (* address -> (id, content_id) of nodes created *)
                     ds_next : nat }.                        (* next fresh address *)

  Fixpoint reg_find (i : pystr) (reg : list (pystr * node)) : option node :=
    match reg with
    | [] => None
    | (k, n) :: r => if pystr_eqb k i then Some n else reg_find i r
    end.

  (* ASTNode._deserialize (node.py:280-305) + from_dict of the class named by the tag *)
  Fixpoint deser_node (dv : dvariant) (fuel : nat) (s : slots) (v : sval) (st : dstate) : res (node * dstate) :=
    match fuel with
    | 0%nat => Exc
    | S fuel' =>
      match v with
      | JMap m =>
        dor i <- jget_str "id" m;
        match reg_find i (ds_reg st) with
        | Some n => Ok (n, st)
        | None =>
          match jtag m with
          | None => Exc
          | Some c =>
            match find_class ct c with
            | None => Exc
            | Some _ =>
              dor (o, srcs1) <- (match jget (lit "origin") m with
                                 | Some ov => deser_origin fuel' s ov (ds_srcs st)
                                 | None => Ok (ONo, ds_srcs st)
                                 end);
              let st0 := {| ds_srcs := srcs1; ds_reg := ds_reg st; ds_ids := ds_ids st; ds_next := ds_next st |} in
              let fix fields (fs : list fdecl) (st : dstate)
                : res (list (pystr * pval) * list (pystr * (kshape * list node)) * dstate) :=
                match fs with
                | [] => Ok ([], [], st)
                | f :: r =>
                  match fd_role f with
                  | RProp =>
                    match find_pdecl (fd_name f) (pdecls pt c) with
                    | None => Exc
                    | Some d =>
                      dor pv <- (if fd_init f then
                                   match jget (fd_name f) m with
                                   | Some x => of_opt (deser_pval s (pd_ty d) x)
                                   | None => of_opt (pd_default d)
                                   end
                                 else of_opt (pd_default d));
                      dor (ps, ks, st1) <- fields r st; Ok ((fd_name f, pv) :: ps, ks, st1)
                    end
                  | RChild k =>
                    match jget (fd_name f) m with
                    | None => Exc
                    | Some x =>
                      dor (kv1, st1) <-
                        (match k, x with
                         | KOpt true, JNull => Ok ((ShNone, []), st)
                         | KOpt _, _ => dor (y, st1) <- deser_node dv fuel' s x st; Ok ((ShOne, [y]), st1)
                         | KTup, JList l => dor (ys, st1) <- mapM_st (deser_node dv fuel' s) l st; Ok ((ShMany, ys), st1)
                         | KTup, _ => Exc
                         end);
                      dor (ps, ks, st2) <- fields r st1; Ok (ps, (fd_name f, kv1) :: ks, st2)
                    end
                  end
                end in
              dor (ps, ks, st1) <- fields (fields_of ct c) st0;
              (* the constructor: __post_init__ computes both ids and registers; then the id is forced *)
              let a := ds_next st1 in
              let n := Node a c o ps ks in
              let own := unique_id (map fst (ds_reg st1)) (H (id_data H ct current n)) in
              let fin := if dv_force dv then i else own in
              Ok (n, {| ds_srcs := ds_srcs st1; ds_reg := (fin, n) :: ds_reg st1;
                        ds_ids := (a, (fin, cid_of n)) :: ds_ids st1; ds_next := S a |})
            end
          end
        end
      | _ => Exc
      end
    end.

  (* Source.load_serialized_sources *)
  Fixpoint load_sources (fuel : nat) (l : list sval) (reg : list source) : res (list source) :=
    match l with
    | [] => Ok reg
    | x :: r => dor (_, reg1) <- deser_source fuel x reg; load_sources fuel r reg1
    end.
  (* Source.all_as_dict (a call without options per source) *)
  Definition all_as_dict (reg : list source) : option (list sval) := omap (ser_source slots0 reg) reg.
End Ser.
