(* match/xpath.py: XPathTransformer (steps -> elements), _match_node_element, _match_node_xpath (bottom-up over
   a Tree), ASTXpath.match / findall (top-down work list below a synthetic root) and node.find.  Definitions only.
   The text -> steps parser (lark grammar) is property C17's; here an xpath is its list of steps. *)
From Oak Require Export Model.TreeQ.

(* one "/" field_spec? index_spec? class_spec? of the grammar *)
Inductive idxspec := IAbsent | IEmpty (* "[]" *) | IVal (k : nat).
Record step := { st_field : option pystr; st_index : idxspec; st_class : option pystr }.
(* ASTXpath(text): a text that does not start with "/" gets "//" prepended (= one empty step in front) *)
Record xpath := { xp_relative : bool; xp_steps : list step }.

Record element := { e_cls : pystr; e_field : option pystr; e_index : option nat; e_any : bool }.

(* XPathTransformer.element / .self / .index_spec: (parent_field, parent_index, type or None) *)
Definition raw := (option pystr * option nat * option pystr)%type.
Definition tr_element (s : step) : raw :=
  match st_field s, st_index s, st_class s with
  | None, IAbsent, None => (None, None, None)                                   (* len(args) == 0 *)
  | f, i, c =>
    (f, match i with IVal k => Some k | _ => None end (* arg if arg > -1 else None *),
     Some (match c with Some c' => c' | None => astnode end))
  end.

(* ret[-1] = ASTXpathElement(..., True); ret is kept reversed here (head = ret[-1]); None = IndexError *)
Definition set_last_any (acc : list element) : option (list element) :=
  match acc with
  | [] => None
  | e :: r => Some ({| e_cls := e_cls e; e_field := e_field e; e_index := e_index e; e_any := true |} :: r)
  end.
(* XPathTransformer.xpath over reversed(args): an element without class (an empty step) marks ret[-1] as
   `anywhere` and is skipped; [acc] = reversed ret *)
Fixpoint tx (rargs : list raw) (acc : list element) : option (list element) :=
  match rargs with
  | [] => Some acc
  | (pf, pi, None) :: rest => match set_last_any acc with Some acc' => tx rest acc' | None => None end
  | (pf, pi, Some c) :: rest => tx rest ({| e_cls := c; e_field := pf; e_index := pi; e_any := false |} :: acc)
  end.

Definition empty_step : step := {| st_field := None; st_index := IAbsent; st_class := None |}.
(* self._elements (root first); self._elements_reversed = rev of it *)
Definition to_elements (x : xpath) : option (list element) :=
  tx (rev (map tr_element ((if xp_relative x then [empty_step] else []) ++ xp_steps x))) [].
(* the grammar demands a class on the last step (rule `self`) *)
Definition well_formed (x : xpath) : bool :=
  match rev (xp_steps x) with
  | s :: _ => match st_class s with Some _ => true | None => false end
  | [] => false
  end.

Definition opt_ok {A} (eqb : A -> A -> bool) (c v : option A) : bool :=
  match c with
  | None => true
  | Some x => match v with Some y => eqb x y | None => false end
  end.
(* _match_node_element(n_info, element) *)
Definition match_node_element (ct : ctable) (n : node) (field : option pystr) (idx : option nat) (e : element) : bool :=
  subclass ct (cls n) (e_cls e) && opt_ok pystr_eqb (e_field e) field && opt_ok Nat.eqb (e_index e) idx.

(* `for ancestor in tree.get_ancestors(node): if _match_node_xpath(...): return True` then `return False`;
   [err]: the generator ends by raising KeyError *)
Fixpoint any_res {A} (f : A -> option (res bool)) (l : list A) (err : bool) : option (res bool) :=
  match l with
  | [] => Some (if err then KeyError else Ok false)
  | a :: r =>
    match f a with
    | Some (Ok false) => any_res f r err
    | o => o
    end
  end.

(* _match_node_xpath(tree, node, elements); elements leaf first; None = out of fuel / elements[0] on [] *)
Fixpoint match_node_xpath (ct : ctable) (t : ptree) (x : node) (els : list element) : option (res bool) :=
  match els with
  | [] => None
  | e :: tail =>
    match get_parent_info t x with
    | KeyError => Some KeyError
    | ValueError => Some ValueError
    | Ok pinfo =>
      if negb (match_node_element ct x (option_map ti_field pinfo)
                                  (match pinfo with Some ti => ti_index ti | None => None end) e)
      then Some (Ok false)
      else
        match tail with
        | [] => Some (Ok (e_any e || match pinfo with None => true | Some _ => false end))
        | _ :: _ =>
          match pinfo with
          | None => Some (Ok false)
          | Some ti =>
            if e_any e then
              match ancestors_gen t x with
              | None => None
              | Some (l, err) => any_res (fun a => match_node_xpath ct t a tail) l err
              end
            else match_node_xpath ct t (ti_parent ti) tail
          end
        end
    end
  end.

(* ASTXpath.match(root, node); [els] root first as to_elements gives them *)
Definition xmatch (ct : ctable) (root : node) (els : list element) (x : node) : option (res bool) :=
  match tree_build ct root with
  | None => None
  | Some t => if is_in_tree t x then match_node_xpath ct t x (rev els) else Some ValueError
  end.

(* ---------------- findall ---------------- *)
Record winfo := { w_node : node; w_parent : option node; w_field : option pystr; w_index : option nat }.

Fixpoint max_addr (n : node) : nat :=
  match n with
  | Node a _ _ _ ks => Nat.max a (list_max (map (fun k => list_max (map max_addr (snd (snd k)))) ks))
  end.
Definition dummy_name : pystr := lit "_DUMMY_XPATH_ROOT".
(* _DUMMY_XPATH_ROOT(root): a new object *)
Definition mk_dummy (root : node) : node :=
  Node (S (max_addr root)) dummy_name ONo [] [(lit "child", (ShOne, [root]))].
Definition dummy_info (d root : node) : tinfo :=
  {| ti_node := root; ti_parent := d; ti_field := lit "child"; ti_index := None |}.

(* n.get_child_nodes_with_field() for a work node: the synthetic root's class is not in the class table,
   its only child field is `child` *)
Definition w_children (ct : ctable) (d root n : node) : list tinfo :=
  if same n d then [dummy_info d root] else infos ct n.
(* n.dfs() for a work node *)
Definition w_dfs (ct : ctable) (d root n : node) : option (list tinfo) :=
  dfs_td ct no_prune all_pos (S (size root)) (w_children ct d root n) [].

(* c_info, with `if c_info.parent is dummy_root: c_info = _NodeTraversalInfo(c_info.node, None, None, None)` *)
Definition to_winfo (d : node) (ti : tinfo) : winfo :=
  if same (ti_parent ti) d then {| w_node := ti_node ti; w_parent := None; w_field := None; w_index := None |}
  else {| w_node := ti_node ti; w_parent := Some (ti_parent ti); w_field := Some (ti_field ti); w_index := ti_index ti |}.

(* dict key equality of the (node, parent, field, findex) tuples: nodes by identity (registered nodes have
   pairwise different ids, hence different hashes) *)
Definition opt_eqb {A} (eqb : A -> A -> bool) (a b : option A) : bool :=
  match a, b with
  | None, None => true
  | Some x, Some y => eqb x y
  | _, _ => false
  end.
Definition winfo_eqb (a b : winfo) : bool :=
  same (w_node a) (w_node b) && opt_eqb same (w_parent a) (w_parent b)
  && opt_eqb pystr_eqb (w_field a) (w_field b) && opt_eqb Nat.eqb (w_index a) (w_index b).
(* `if c_info not in new_work: new_work[c_info] = None` *)
Definition oset_add (w : winfo) (l : list winfo) : list winfo :=
  if existsb (winfo_eqb w) l then l else l ++ [w].

Definition w_match (ct : ctable) (w : winfo) (e : element) : bool :=
  match_node_element ct (w_node w) (w_field w) (w_index w) e.
Definition fa_insert (ct : ctable) (d : node) (e : element) (cands : list tinfo) (new_work : list winfo) : list winfo :=
  fold_left (fun nw ti => let c := to_winfo d ti in if w_match ct c e then oset_add c nw else nw) cands new_work.
Definition fa_cands (ct : ctable) (d root : node) (e : element) (w : winfo) : option (list tinfo) :=
  if e_any e then w_dfs ct d root (w_node w) else Some (w_children ct d root (w_node w)).
(* one round of `for el in self._elements` *)
Definition fa_step (ct : ctable) (d root : node) (work : list winfo) (e : element) : option (list winfo) :=
  fold_left (fun acc w => match acc with
                          | None => None
                          | Some nw => match fa_cands ct d root e w with
                                       | None => None
                                       | Some cs => Some (fa_insert ct d e cs nw)
                                       end
                          end) work (Some []).
Definition fa_work (ct : ctable) (root : node) (els : list element) : option (list winfo) :=
  let d := mk_dummy root in
  fold_left (fun wk e => match wk with None => None | Some w => fa_step ct d root w e end) els
            (Some [{| w_node := d; w_parent := None; w_field := None; w_index := None |}]).
(* list(ASTXpath.findall(root)); [els] root first, never empty (with no element `new_work` is unbound: None) *)
Definition findall (ct : ctable) (root : node) (els : list element) : option (list node) :=
  match els with
  | [] => None
  | _ => option_map (map w_node) (fa_work ct root els)
  end.
(* node.find: next(findall) or None on StopIteration *)
Definition find (ct : ctable) (root : node) (els : list element) : option (option node) :=
  option_map (@hd_error node) (findall ct root els).

(* ---------------- examples ---------------- *)
Definition ostr (s : string) : option pystr := match s with EmptyString => None | _ => Some (lit s) end.
Definition st (f : string) (i : idxspec) (c : string) : step :=   (* "" = absent *)
  {| st_field := ostr f; st_index := i; st_class := ostr c |}.
Definition run_findall (ct : ctable) (root : node) (x : xpath) : option (list nat) :=
  match to_elements x with Some els => option_map (map addr) (findall ct root els) | None => None end.
Definition run_match (ct : ctable) (root : node) (x : xpath) (n : node) : option (res bool) :=
  match to_elements x with Some els => xmatch ct root els n | None => None end.

(* "//L" ; "/P/@items[2]L" ; "@child P//L" ; "/@child P" (D6: must not find the root) ; "//@items[]" is ill-formed *)
Example ex_find1 : run_findall ex_ct ex_root {| xp_relative := false; xp_steps := [empty_step; st "" IAbsent "L"] |}
                   = Some [3; 4; 5; 6].
Proof. vm_compute. reflexivity. Qed.
Example ex_find2 : run_findall ex_ct ex_root
                     {| xp_relative := false; xp_steps := [st "" IAbsent "P"; st "items" (IVal 2) "L"] |}
                   = Some [6].
Proof. vm_compute. reflexivity. Qed.
Example ex_find3 : run_findall ex_ct ex_root
                     {| xp_relative := true; xp_steps := [st "child" IAbsent "P"; empty_step; st "" IAbsent "L"] |}
                   = Some [3].
Proof. vm_compute. reflexivity. Qed.
Example ex_find4 : run_findall ex_ct ex_root {| xp_relative := false; xp_steps := [st "child" IAbsent "P"] |}
                   = Some [].
Proof. vm_compute. reflexivity. Qed.
Example ex_match3 : map (run_match ex_ct ex_root
                     {| xp_relative := true; xp_steps := [st "child" IAbsent "P"; empty_step; st "" IAbsent "L"] |})
                     [ex_leaf 3 "L"; ex_leaf 4 "L"; ex_leaf 7 "L"]
                   = [Some (Ok true); Some (Ok false); Some ValueError].
Proof. vm_compute. reflexivity. Qed.
Example ex_illformed : to_elements {| xp_relative := false; xp_steps := [st "" IAbsent "L"; empty_step] |} = None.
Proof. vm_compute. reflexivity. Qed.
