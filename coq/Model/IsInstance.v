(* C13 model: pyoak/typing.py:417 is_instance (statement order kept) and node.py:87 _check_runtime_types /
   node.py:205 the gate in __post_init__. *)
From Oak Require Export Model.Classify.

Definition is_float_scal (t : ty) : bool := match t with TScalar SFloat => true | _ => false end.
Definition is_int_scal (t : ty) : bool := match t with TScalar SInt => true | _ => false end.
Definition is_boolv (v : val) : bool := match v with XBool _ => true | _ => false end.
Definition is_int_or_float (v : val) : bool := match v with XInt _ | XBool _ | XFloat _ => true | _ => false end.
Definition is_nonev (v : val) : bool := match v with XNone => true | _ => false end.

(* Variant flag (DESIGN 2.6) v_nti (D21): [false] = the code in /repo: a NewType object left inside an accepted
   annotation (get_field_types only unwraps the outermost one) fails every test of is_instance and the value is
   reported invalid; [true] = what the property demands: a NewType stands for its supertype. *)
Section WithEnv.
Variable e : henv.
Variable v_nti : bool.
(* [fixed12 = true]: the code in /repo; [false]: the code before the repair of D12 (commit "is_instance handles
   False and bools in unions"): `type_ is int and value is True or value is False` without parentheses, and no
   union test before the raw isinstance.  Only used by the _refuted theorems. *)
Variable fixed12 : bool.

(* isinstance(v, X | Y | ...) evaluated by CPython member by member: True at the first member that matches,
   TypeError (-> `pass`) when a member that cannot be used with isinstance is reached first *)
Fixpoint raw_union (v : val) (ts : list ty) : bool :=
  match ts with
  | [] => false
  | a :: r => match py_isinstance e v a with
              | Some true => true
              | Some false => raw_union v r
              | None => false
              end
  end.
Definition is_true (v : val) : bool := match v with XBool true => true | _ => false end.
Definition is_false (v : val) : bool := match v with XBool false => true | _ => false end.

Fixpoint is_instance (t : ty) (v : val) {struct t} : bool :=
  (* 428: if type_ is int and (value is True or value is False): return False *)
  if (if fixed12 then is_int_scal t && is_boolv v else (is_int_scal t && is_true v) || is_false v) then false
  (* 431: if is_union(type_): return any(is_instance(value, t) for t in get_args(type_)) *)
  else match t with
  | TUnion ts =>
    if fixed12 then existsb (fun a => is_instance a v) ts
    else raw_union v ts || existsb (fun a => is_instance a v) ts     (* pre-repair: raw isinstance first, 448 after *)
  | TNewType a => v_nti && is_instance a v     (* code: isinstance raises TypeError, every later test is False *)
  | _ =>
  (* 434-441: numeric tower, then the raw isinstance; TypeError -> pass *)
  if (is_float_scal t && is_int_or_float v)
     || match py_isinstance e v t with Some b => b | None => false end then true
  (* 442: if type_ == Any *)
  else match t with TAny => true | _ =>
  (* 445: is_optional(type_) and value is None - only unions are optional, handled above;
     448: second is_union test - dead for the same reason *)
  if is_optional t && is_nonev v then true else
  (* 451: if is_collection(type_) *)
  if is_collection t then
    match t with
    | TBare c => inst_con c v                  (* orig is None (or no args): isinstance(value, type_) *)
    | TScalar _ => false                       (* bytes: isinstance(value, bytes), no bytes in the pool *)
    | TTuple ts =>
      if negb (inst_con CTuple v) then false   (* not isinstance(value, orig) *)
      else match ts with
           | [] => Nat.eqb (length (items v)) 0                             (* len(args) == 0 *)
           | _ => if negb (Nat.eqb (length ts) (length (items v))) then false  (* len(args) != len(value) *)
                  else zip_all (fun a x => is_instance a x) ts (items v)        (* all(... zip(value, args)) *)
           end
    | TTupleVar a =>
      if negb (inst_con CTuple v) then false
      else forallb (fun x => is_instance a x) (items v)
    | TGen c ts =>
      if negb (inst_con c v) then false
      else match ts with
           | [] => true                        (* not args *)
           | [a] => forallb (fun x => is_instance a x) (items v)
           | _ => false                        (* RuntimeError("Unexpected collection type"): needs a Mapping value,
                                                  inst_con CMapping is false for every value of the pool *)
           end
    | _ => false
    end
  else
  (* 485: if is_literal(type_): return value in get_args(type_) *)
  match t with
  | TLiteral vs => existsb (fun x => py_eq v x) vs
  | _ => false                                 (* 488 type[...] is outside the grammar; 493 return False *)
  end
  end
  end.

(* node.py:87 _check_runtime_types over the (field name, resolved type, value) triples of get_cls_all_fields
   minus id / content_id, in field order *)
Definition check_fields (fs : list (pystr * ty * val)) : list pystr :=
  map (fun x => fst (fst x)) (filter (fun x => negb (is_instance (snd (fst x)) (snd x))) fs).

(* types.py:28 _TYPE_TO_ALL_FIELDS = {**child fields, **properties}: the check visits the child fields first *)
Definition is_child_ty (t : ty) : bool := match classify true t with VChild => true | _ => false end.
Definition all_fields_order (fs : list (pystr * ty * val)) : list (pystr * ty * val) :=
  filter (fun x => is_child_ty (snd (fst x))) fs ++ filter (fun x => negb (is_child_ty (snd (fst x)))) fs.

Inductive built := Built (fs : list (pystr * val)) | RaisedInvalidTypes (bad : list pystr).
(* node.py:205: the check is gated by config.RUNTIME_TYPE_CHECK; everything after the gate is the same code *)
Definition construct (switch : bool) (fs : list (pystr * ty * val)) : built :=
  if switch then
    match check_fields (all_fields_order fs) with
    | [] => Built (map (fun x => (fst (fst x), snd x)) fs)
    | bad => RaisedInvalidTypes bad
    end
  else Built (map (fun x => (fst (fst x), snd x)) fs).
End WithEnv.
