(* The deprecated parent-aware nodes of pyoak/legacy/node.py (AwareASTNode) as a state machine.
   Definitions only (plus Examples).  Shared by C18 and C19.

   A heap of MUTABLE cells (address = index = creation order), each carrying what the Python object carries:
   class, origin (by its fqn string: the only thing the code reads), the dataclass fields (properties by value,
   child fields by address), id, original_id, id_collision_with, the three parent slots (_parent_id /
   _parent_field / _parent_index), _xpath and content_id; and the registry AwareASTNode._nodes (id -> address).
   The code is transcribed AS IT IS, statement by statement, including the rollback paths that do not roll
   back: the defects are theorems (Props/C18.v, Props/C19.v: *_refuted), not repairs.

   Not modelled (outside C18/C19): serialization; the deserialization branches of __post_init__ that read a
   constructor-supplied original_id / id_collision_with (every call modelled here passes None, as replace()
   and duplicate() do); the weakness of the registry (the harness keeps every node it created or received
   alive, and a node that never reaches the program is never registered - see design.d/C18.md);
   _is_field_child decides "child field" by the runtime value, here by the class table (the histories are
   well typed: a child field holds nodes / None / a sequence of nodes, a property field a str or int).

   Loops that need not terminate in Python (_reset_content_id walks .parent; recursion over child fields)
   take fuel = size of the heap + 1, which is exact: a chain of distinct nodes cannot be longer.  Fuel
   exhaustion is the outcome [Div] = "this call does not return" (for cyclic parent chains the real call hangs,
   for cyclic child fields it dies with RecursionError): such operations are inadmissible. *)
From Coq Require Import List String Ascii ZArith Bool Arith Lia.
From Oak Require Export Base.PyStr Base.Term.
Import ListNotations.

(* ---------- values, class table ---------- *)
Inductive lval := LS (s : pystr) | LI (z : Z).
Definition lval_str (v : lval) : pystr := match v with LS s => s | LI z => decZ z end.   (* str(val) *)

Inductive fval :=
| FP (v : lval)                  (* property *)
| FOne (o : option nat)          (* single child field: None or a node *)
| FSeq (l : list nat).           (* tuple / list child field *)

Inductive fkind := KProp (compare : bool) | KReq | KOpt | KSeq.
Record fdecl := { fd_name : pystr; fd_kind : fkind;
                  fd_types : list pystr (* classes admitted by the annotation of a child field *) }.
Record cdecl := { cd_name : pystr; cd_fields : list fdecl }.
Definition ctable := list cdecl.

Record cell := { c_cls : pystr; c_org : pystr; c_fs : list (pystr * fval);
                 c_id : pystr; c_oid : option pystr; c_coll : option pystr;
                 c_pid : option pystr; c_pf : option pystr; c_pi : option nat; c_xp : option pystr;
                 c_cid : pystr }.
Record st := { heap : list cell; reg : list (pystr * nat) }.
Definition empty_st : st := {| heap := []; reg := [] |}.

Definition UNSET : pystr := lit "~~~UNSET~~~".

(* ---------- outcome monad: partial effects survive an exception ---------- *)
Inductive err :=
| EDup     (* ASTNodeDuplicateChildrenError *)
| EPar     (* ASTNodeParentCollisionError *)
| EReg     (* ASTNodeRegistryCollisionError *)
| EIdc     (* ASTNodeIDCollisionError *)
| ERep     (* ASTNodeReplaceError *)
| ERw      (* ASTNodeReplaceWithError *)
| ETr      (* ASTTransformError *)
| ECrash.  (* any other Python exception (KeyError, AttributeError, TypeError, RuntimeError, AssertionError) *)
Inductive res (A : Type) := Ok (s : st) (a : A) | Er (s : st) (e : err) | Div.
Arguments Ok {A}. Arguments Er {A}. Arguments Div {A}.
Definition bind {A B} (r : res A) (k : st -> A -> res B) : res B :=
  match r with Ok s a => k s a | Er s e => Er s e | Div => Div end.
Notation "'let*' ( s , x ) := e 'in' k" := (bind e (fun s x => k))
  (at level 200, s name, x pattern, e at level 100, k at level 200, right associativity).

(* ---------- assoc lists, heap and registry primitives ---------- *)
Fixpoint assoc {A} (k : pystr) (l : list (pystr * A)) : option A :=
  match l with [] => None | (j, v) :: r => if pystr_eqb k j then Some v else assoc k r end.
Fixpoint remove_key {A} (k : pystr) (l : list (pystr * A)) : list (pystr * A) :=
  match l with [] => [] | (j, v) :: r => if pystr_eqb k j then remove_key k r else (j, v) :: remove_key k r end.
Fixpoint set_key {A} (k : pystr) (v : A) (l : list (pystr * A)) : list (pystr * A) :=
  match l with [] => [(k, v)] | (j, w) :: r => if pystr_eqb k j then (k, v) :: r else (j, w) :: set_key k v r end.
Fixpoint set_nth {A} (n : nat) (x : A) (l : list A) : list A :=
  match l, n with [], _ => [] | _ :: r, 0 => x :: r | y :: r, S m => y :: set_nth m x r end.
Definition opt_pystr_eqb (a b : option pystr) : bool :=
  match a, b with Some x, Some y => pystr_eqb x y | None, None => true | _, _ => false end.

Definition cell_at (s : st) (a : nat) : option cell := nth_error (heap s) a.
Definition dummy : cell :=
  {| c_cls := []; c_org := []; c_fs := []; c_id := []; c_oid := None; c_coll := None;
     c_pid := None; c_pf := None; c_pi := None; c_xp := None; c_cid := [] |}.
Definition cellD (s : st) (a : nat) : cell := nth a (heap s) dummy.
Definition upd (s : st) (a : nat) (f : cell -> cell) : st :=
  match cell_at s a with
  | Some c => {| heap := set_nth a (f c) (heap s); reg := reg s |}
  | None => s
  end.
Definition id_of (s : st) (a : nat) : pystr := c_id (cellD s a).
Definition reg_get (s : st) (i : pystr) : option nat := assoc i (reg s).
Definition reg_set (s : st) (i : pystr) (a : nat) : st := {| heap := heap s; reg := set_key i a (reg s) |}.
Definition reg_pop (s : st) (i : pystr) : st := {| heap := heap s; reg := remove_key i (reg s) |}.

Definition with_parent (pid pf : option pystr) (pi : option nat) (c : cell) : cell :=
  {| c_cls := c_cls c; c_org := c_org c; c_fs := c_fs c; c_id := c_id c; c_oid := c_oid c; c_coll := c_coll c;
     c_pid := pid; c_pf := pf; c_pi := pi; c_xp := c_xp c; c_cid := c_cid c |}.
Definition with_xp (x : option pystr) (c : cell) : cell :=
  {| c_cls := c_cls c; c_org := c_org c; c_fs := c_fs c; c_id := c_id c; c_oid := c_oid c; c_coll := c_coll c;
     c_pid := c_pid c; c_pf := c_pf c; c_pi := c_pi c; c_xp := x; c_cid := c_cid c |}.
Definition with_cid (x : pystr) (c : cell) : cell :=
  {| c_cls := c_cls c; c_org := c_org c; c_fs := c_fs c; c_id := c_id c; c_oid := c_oid c; c_coll := c_coll c;
     c_pid := c_pid c; c_pf := c_pf c; c_pi := c_pi c; c_xp := c_xp c; c_cid := x |}.
Definition with_ids (i : pystr) (o k : option pystr) (c : cell) : cell :=
  {| c_cls := c_cls c; c_org := c_org c; c_fs := c_fs c; c_id := i; c_oid := o; c_coll := k;
     c_pid := c_pid c; c_pf := c_pf c; c_pi := c_pi c; c_xp := c_xp c; c_cid := c_cid c |}.
Definition with_fs (fs : list (pystr * fval)) (c : cell) : cell :=
  {| c_cls := c_cls c; c_org := c_org c; c_fs := fs; c_id := c_id c; c_oid := c_oid c; c_coll := c_coll c;
     c_pid := c_pid c; c_pf := c_pf c; c_pi := c_pi c; c_xp := c_xp c; c_cid := c_cid c |}.

(* _clear_parent: the three parent slots and _xpath *)
Definition clear_parent (s : st) (a : nat) : st := upd s a (fun c => with_xp None (with_parent None None None c)).
(* _set_parent(parent, field, index): stores parent.id as it is at the time of the call *)
Definition set_parent (s : st) (a p : nat) (f : pystr) (i : option nat) : st :=
  upd s a (with_parent (Some (id_of s p)) (Some f) i).

(* ---------- the properties node.parent / detached / is_attached_root / is_attached_subtree ---------- *)
Definition parent (s : st) (a : nat) : option nat :=
  match c_pid (cellD s a) with None => None | Some pid => reg_get s pid end.
Definition detached (s : st) (a : nat) : bool :=
  match reg_get s (id_of s a) with Some b => negb (Nat.eqb b a) | None => true end.
Definition is_attached_root (s : st) (a : nat) : bool :=
  match parent s a with None => negb (detached s a) | Some _ => false end.
Definition is_attached_subtree (s : st) (a : nat) : bool :=
  match parent s a with None => false | Some _ => negb (detached s a) end.

(* ---------- get_child_nodes_with_field / get_child_nodes ---------- *)
Fixpoint index_from {A} (i : nat) (l : list A) : list (nat * A) :=
  match l with [] => [] | x :: r => (i, x) :: index_from (S i) r end.
Definition edge := (nat * pystr * option nat)%type.
Definition fkids (f : pystr * fval) : list edge :=
  match snd f with
  | FP _ => []
  | FOne None => []
  | FOne (Some a) => [(a, fst f, None)]
  | FSeq l => map (fun p => (snd p, fst f, Some (fst p))) (index_from 0 l)
  end.
Definition kids_wf (c : cell) : list edge := flat_map fkids (c_fs c).
Definition kids (c : cell) : list nat := map (fun e => fst (fst e)) (kids_wf c).
Definition skids_wf (s : st) (a : nat) : list edge := kids_wf (cellD s a).
Definition skids (s : st) (a : nat) : list nat := kids (cellD s a).

(* ---------- digests ---------- *)
Definition props_of (c : cell) : list (pystr * lval) :=
  flat_map (fun f => match snd f with FP v => [(fst f, v)] | _ => [] end) (c_fs c).
Definition name_leb {A} (x y : pystr * A) : bool := pystr_leb (fst x) (fst y).
(* key of sorted(..., key=lambda x: (x[1].name, x[2] or -1)) *)
Definition idx_key (i : option nat) : Z := match i with None => (-1)%Z | Some 0 => (-1)%Z | Some n => Z.of_nat n end.
Definition edge_leb (x y : edge) : bool :=
  let '(_, f, i) := x in let '(_, g, j) := y in
  if pystr_eqb f g then Z.leb (idx_key i) (idx_key j) else pystr_leb f g.
Definition sorted_kids (c : cell) : list edge := isort edge_leb (kids_wf c).

Section Machine.
  Variable H : pystr -> pystr.          (* hashlib.sha256(...).hexdigest() of the concatenated updates *)
  Variable ct : ctable.

  Definition fdecls (cls : pystr) : list fdecl :=
    match find (fun d => pystr_eqb (cd_name d) cls) ct with Some d => cd_fields d | None => [] end.
  Definition fdecl_of (cls f : pystr) : option fdecl :=
    find (fun d => pystr_eqb (fd_name d) f) (fdecls cls).
  Definition is_compare (cls f : pystr) : bool :=
    match fdecl_of cls f with Some d => match fd_kind d with KProp false => false | _ => true end | None => true end.

  Definition prop_data (ps : list (pystr * lval)) : pystr :=
    flat_map (fun p => lit ":" ++ fst p ++ lit "=" ++ lval_str (snd p)) (isort name_leb ps).
  Definition kid_data (val : nat -> pystr) (c : cell) : pystr :=
    flat_map (fun e => let '(k, f, i) := e in
                       lit ":" ++ f ++ lit "[" ++ decZ (idx_key i) ++ lit "]=" ++ val k) (sorted_kids c).
  (* the bytes hashed for the id (all properties, children by id) *)
  Definition id_data (s : st) (a : nat) : pystr :=
    let c := cellD s a in
    c_cls c ++ lit ":" ++ c_org c ++ prop_data (props_of c) ++ kid_data (id_of s) c.
  (* the bytes hashed for the content_id (comparable properties, children by content_id) *)
  Definition cid_data (s : st) (a : nat) : pystr :=
    let c := cellD s a in
    c_cls c ++ prop_data (filter (fun p => is_compare (c_cls c) (fst p)) (props_of c))
            ++ kid_data (fun k => c_cid (cellD s k)) c.
  Definition set_cid (s : st) (a : nat) : st := upd s a (with_cid (H (cid_data s a))).

  (* _reset_content_id: node = self; while node is not None: node._set_content_id(); node = node.parent *)
  Fixpoint reset_cid (fuel : nat) (s : st) (a : nat) : res unit :=
    match fuel with
    | 0 => Div
    | S f => let s1 := set_cid s a in
             match parent s1 a with None => Ok s1 tt | Some p => reset_cid f s1 p end
    end.
  Definition fuel_of (s : st) : nat := S (length (heap s)).

  (* _get_next_unique_id *)
  Definition cand (d : pystr) (k : nat) : pystr := d ++ lit "_" ++ dec k.
  Fixpoint next_unique_from (d : pystr) (cur : pystr) (k fuel : nat) (s : st) : option pystr :=
    match reg_get s cur with
    | None => Some cur
    | Some _ => match fuel with 0 => None | S f => next_unique_from d (cand d k) (S k) f s end
    end.
  Definition next_unique (d : pystr) (s : st) : option pystr := next_unique_from d d 1 (S (length (reg s))) s.

  (* _check_unique_children: first child whose id was already seen *)
  Fixpoint has_dup_id (s : st) (seen : list pystr) (ks : list nat) : bool :=
    match ks with
    | [] => false
    | k :: r => if existsb (pystr_eqb (id_of s k)) seen then true else has_dup_id s (id_of s k :: seen) r
    end.

  (* _attach_inner: Some c = "child c collided with another parent".  The loop over the children is a function
     of its own ([rec] = the recursive call on a detached child), so that lemmas about it do not need the fuel. *)
  Fixpoint attach_loop (rec : st -> nat -> res (option nat)) (a : nat) (s : st) (ks : list edge) : res (option nat) :=
    match ks with
    | [] => Ok s None
    | (k, fn, i) :: r =>
      if detached s k then
        match rec s k with
        | Ok s1 None => attach_loop rec a (set_parent s1 k a fn i) r
        | other => other
        end
      else if negb (is_attached_root s k) then Ok s (Some k)
      else attach_loop rec a (set_parent s k a fn i) r
    end.
  Fixpoint attach_inner (fuel : nat) (s : st) (a : nat) : res (option nat) :=
    match fuel with
    | 0 => Div
    | S f =>
      match reg_get s (id_of s a) with
      | Some _ => Er s EReg
      | None =>
        match attach_loop (attach_inner f) a s (skids_wf s a) with
        | Ok s1 None => Ok (reg_set s1 (id_of s1 a) a) None
        | other => other
        end
      end
    end.
  Definition attach_ (s : st) (a : nat) : res unit :=
    match attach_inner (fuel_of s) s a with
    | Ok s1 None => Ok s1 tt
    | Ok s1 (Some _) => Er s1 EPar
    | Er s1 e => Er s1 e
    | Div => Div
    end.

  (* attach() *)
  Definition op_attach (s : st) (a : nat) : res unit :=
    if negb (detached s a) then Ok s tt else attach_ s a.

  (* detach(only_self); the loop over the children as a function of its own ([rec] = c.detach()) *)
  Fixpoint detach_loop (rec : st -> nat -> res bool) (only_self : bool) (s : st) (ks : list nat) : res unit :=
    match ks with
    | [] => Ok s tt
    | k :: r => let s1 := clear_parent s k in
                if only_self then detach_loop rec only_self s1 r
                else match rec s1 k with
                     | Ok s2 _ => detach_loop rec only_self s2 r
                     | Er s2 e => Er s2 e
                     | Div => Div
                     end
    end.
  Fixpoint detach (fuel : nat) (only_self : bool) (s : st) (a : nat) : res bool :=
    match fuel with
    | 0 => Div
    | S f =>
      if detached s a then Ok s true
      else if negb (is_attached_root s a) then Ok s false
      else
        match detach_loop (detach f false) only_self s (skids s a) with
        | Ok s1 _ => match reg_get s1 (id_of s1 a) with          (* _nodes.pop(self.id): KeyError when absent *)
                     | Some _ => Ok (reg_pop s1 (id_of s1 a)) true
                     | None => Er s1 ECrash
                     end
        | Er s1 e => Er s1 e
        | Div => Div
        end
    end.
  Definition op_detach (only_self : bool) (s : st) (a : nat) : res bool := detach (fuel_of s) only_self s a.

  (* the dataclass __init__ + __post_init__ (original_id / id_collision_with arguments are None) *)
  Definition construct (s : st) (cls org : pystr) (fs : list (pystr * fval)) (idarg : option pystr)
             (ensure_unique as_dup create_detached : bool) : res nat :=
    let a := length (heap s) in
    let c0 := {| c_cls := cls; c_org := org; c_fs := fs;
                 c_id := match idarg with Some i => i | None => UNSET end; c_oid := None; c_coll := None;
                 c_pid := None; c_pf := None; c_pi := None; c_xp := None; c_cid := UNSET |} in
    let s0 := {| heap := heap s ++ [c0]; reg := reg s |} in
    if has_dup_id s0 [] (kids c0) then Er s0 EDup else
    let base := if pystr_eqb (c_id c0) UNSET then H (id_data s0 a) else c_id c0 in
    let decided : option (option (pystr * option pystr * option pystr)) :=
      (* None: the _N loop ran out (impossible); Some None: ASTNodeIDCollisionError *)
      if create_detached then Some (Some (base, None, None))
      else match reg_get s0 base with
           | None => Some (Some (base, None, None))
           | Some _ =>
             if negb ensure_unique || as_dup then
               match next_unique base s0 with
               | Some n => Some (Some (n, (if as_dup then None else Some base), (if as_dup then Some base else None)))
               | None => None
               end
             else Some None
           end in
    match decided with
    | None => Div
    | Some None => Er s0 EIdc
    | Some (Some (new_id, coll, oid)) =>
      let s1 := upd s0 a (fun c => with_xp None (with_parent None None None (with_ids new_id oid coll c))) in
      if create_detached then Ok (set_cid s1 a) a
      else match attach_ s1 a with
           | Ok s2 _ => Ok (set_cid s2 a) a
           | Er s2 e => Er s2 e
           | Div => Div
           end
    end.

  (* _replace_child(self = p, old, field, index, new) *)
  Definition replace_child (s : st) (p old : nat) (f : pystr) (i : option nat) (new : option nat) : res unit :=
    let cp := cellD s p in
    let after_field : res unit :=
      match i with
      | Some ix =>
        match assoc f (c_fs cp) with
        | Some (FSeq l) =>
          match new with
          | Some n => Ok (upd s p (with_fs (set_key f (FSeq (firstn ix l ++ n :: skipn (S ix) l)) (c_fs cp)))) tt
          | None =>
            let s1 := upd s p (with_fs (set_key f (FSeq (firstn ix l ++ skipn (S ix) l)) (c_fs cp))) in
            (* for c in orig_seq[index+1:]: c._set_parent(self, field, c.parent_index - 1) *)
            (fix shift (s : st) (cs : list nat) : res unit :=
               match cs with
               | [] => Ok s tt
               | c :: r => match c_pi (cellD s c) with
                           | Some j => shift (set_parent s c p f (Some (j - 1))) r
                           | None => Er s ECrash                    (* None - 1: TypeError *)
                           end
               end) s1 (skipn (S ix) l)
          end
        | _ => Er s ECrash
        end
      | None =>
        match assoc f (c_fs cp) with
        | Some (FOne _) => Ok (upd s p (with_fs (set_key f (FOne new) (c_fs cp)))) tt
        | _ => Er s ECrash
        end
      end in
    let* (s2, _) := after_field in
    let s3 := match new with Some n => set_parent s2 n p f i | None => s2 end in
    let changed := match new with
                   | None => true
                   | Some n => negb (pystr_eqb (c_cid (cellD s3 old)) (c_cid (cellD s3 n)))
                   end in
    if changed then reset_cid (fuel_of s3) s3 p else Ok s3 tt.

  (* replace( **changes ) *)
  Inductive chval := CV (v : fval) | COrg (fqn : pystr) | CBad.
  Definition allowed_key (cls k : pystr) : bool :=
    pystr_eqb k (lit "origin") || match fdecl_of cls k with Some _ => true | None => false end.
  Definition apply_changes (fs : list (pystr * fval)) (ch : list (pystr * chval)) : list (pystr * fval) :=
    map (fun f => match assoc (fst f) ch with Some (CV v) => (fst f, v) | _ => f end) fs.
  Definition changed_org (org : pystr) (ch : list (pystr * chval)) : pystr :=
    match assoc (lit "origin") ch with Some (COrg o) => o | _ => org end.

  Definition op_replace (s : st) (a : nat) (ch : list (pystr * chval)) : res nat :=
    let c := cellD s a in
    if negb (forallb (fun kv => allowed_key (c_cls c) (fst kv)) ch) then Er s ERep else
    let cur_parent := parent s a in
    let cur_pf := c_pf c in
    let cur_pi := c_pi c in
    let s1 := match cur_parent with Some _ => clear_parent s a | None => s end in
    let was_attached := negb (detached s1 a) in
    let* (s2, _) := (if was_attached then op_detach true s1 a else Ok s1 true) in
    let c2 := cellD s2 a in
    match construct s2 (c_cls c2) (changed_org (c_org c2) ch) (apply_changes (c_fs c2) ch) (Some (c_id c2))
                    false false (negb was_attached) with
    | Er s3 e =>
      let s4 := if was_attached then reg_set s3 (id_of s3 a) a else s3 in
      let s5 := match cur_parent, cur_pf with
                | Some p, Some f => set_parent s4 a p f cur_pi
                | _, _ => s4
                end in
      match cur_parent, cur_pf with
      | Some _, None => Er s4 ECrash                           (* assert cur_parent_field is not None *)
      | _, _ => Er s5 e
      end
    | Div => Div
    | Ok s3 r =>
      let* (s4, _) := match cur_parent, cur_pf with
                      | Some p, Some f => replace_child s3 p a f cur_pi (Some r)
                      | Some _, None => Er s3 ECrash
                      | None, _ => Ok s3 tt
                      end in
      let ca := cellD s4 a in
      Ok (upd s4 r (fun c => with_ids (c_id c) (c_oid ca) (c_coll ca) c)) r
    end.

  (* replace_with(new) *)
  Definition flip_ids (s : st) (a new : nat) : st * bool :=
    (* pops new from the registry when attached, then new.original_id = new.id; new.id = self.id *)
    let new_was_attached := negb (detached s new) in
    let s1 := if new_was_attached then reg_pop s (id_of s new) else s in
    let s2 := upd s1 new (fun c => with_ids (id_of s1 a) (Some (c_id c)) (c_coll c) c) in
    (s2, new_was_attached).

  Definition op_replace_with (s : st) (a : nat) (new : option nat) : res unit :=
    if match new with Some n => is_attached_subtree s n | None => false end then Er s ERw else
    match parent s a with
    | Some p =>
      match c_pf (cellD s a) with
      | None => Er s ECrash                                    (* RuntimeError "This is a bug" *)
      | Some f =>
        match fdecl_of (c_cls (cellD s p)) f with
        | None => Er s ECrash
        | Some d =>
          match fd_kind d with
          | KProp _ => Er s ECrash
          | k =>
            let type_ok :=
              match new with
              | None => match k with KReq => false | _ => true end
              | Some n => existsb (pystr_eqb (c_cls (cellD s n))) (fd_types d)
              end in
            if negb type_ok then Er s ERw else
            let cur_pi := c_pi (cellD s a) in
            let s1 := clear_parent s a in
            let* (s2, _) := op_detach false s1 a in
            let* (s5, _) :=
              match new with
              | None => Ok s2 tt
              | Some n =>
                let '(s3, new_was_attached) := flip_ids s2 a n in
                match attach_ s3 n with
                | Ok s4 _ => Ok s4 tt
                | Div => Div
                | Er s4 _ =>
                  (* rollback: self._set_parent(...); self._attach("replace"); registry[new.id] = new; raise *)
                  let s5 := set_parent s4 a p f cur_pi in
                  match attach_ s5 a with
                  | Ok s6 _ =>
                    let s7 := if new_was_attached then reg_set s6 (id_of s6 n) n else s6 in
                    Er s7 ERw
                  | Er s6 e => Er s6 e            (* the handler itself raises: that error escapes *)
                  | Div => Div
                  end
                end
              end in
            replace_child s5 p a f cur_pi new
          end
        end
      end
    | None =>
      match new with
      | Some n =>
        let was_attached := negb (detached s a) in
        let* (s1, _) := (if was_attached then op_detach false s a else Ok s true) in
        let '(s2, new_was_attached) := flip_ids s1 a n in
        match attach_ s2 n with
        | Ok s3 _ => Ok s3 tt
        | Div => Div
        | Er s3 _ =>
          let* (s4, _) := (if was_attached then attach_ s3 a else Ok s3 tt) in
          let s5 := if new_was_attached then reg_set s4 (id_of s4 n) n else s4 in
          Er s5 ERw
        end
      | None => let* (s1, _) := op_detach false s a in Ok s1 tt
      end
    end.

  (* duplicate(as_detached_clone) *)
  Fixpoint duplicate (fuel : nat) (as_detached : bool) (s : st) (a : nat) : res nat :=
    match fuel with
    | 0 => Div
    | S f =>
      let c := cellD s a in
      let fix dup_list (s : st) (l : list nat) : res (list nat) :=
        match l with
        | [] => Ok s []
        | k :: r => let* (s1, k') := duplicate f as_detached s k in
                    let* (s2, r') := dup_list s1 r in Ok s2 (k' :: r')
        end in
      let fix dup_fields (s : st) (fs : list (pystr * fval)) : res (list (pystr * fval)) :=
        match fs with
        | [] => Ok s []
        | (n, v) :: r =>
          let* (s1, v') := match v with
                           | FP x => Ok s (FP x)
                           | FOne None => Ok s (FOne None)
                           | FOne (Some k) => let* (s1, k') := duplicate f as_detached s k in Ok s1 (FOne (Some k'))
                           | FSeq l => let* (s1, l') := dup_list s l in Ok s1 (FSeq l')
                           end in
          let* (s2, r') := dup_fields s1 r in Ok s2 ((n, v') :: r')
        end in
      let* (s1, fs') := dup_fields s (c_fs c) in
      let c1 := cellD s1 a in
      let* (s2, r) := construct s1 (c_cls c1) (c_org c1) fs' (Some (c_id c1)) false false as_detached in
      let ca := cellD s2 a in
      let cr := cellD s2 r in
      Ok (upd s2 r (fun c => with_ids (c_id c)
                                      (if pystr_eqb (c_id cr) (c_id ca) then c_oid ca else Some (c_id ca))
                                      (c_coll ca) c)) r
    end.
  Definition op_duplicate (as_detached : bool) (s : st) (a : nat) : res nat := duplicate (fuel_of s) as_detached s a.

  (* calculate_xpath / _set_xpath *)
  Fixpoint set_xpath (fuel : nat) (s : st) (a : nat) (pxp : pystr) : res unit :=
    match fuel with
    | 0 => Div
    | S f =>
      let c := cellD s a in
      match c_pf c with
      | None => Er s ECrash                                    (* RuntimeError *)
      | Some pf =>
        let xp := pxp ++ lit "/@" ++ pf ++ lit "[" ++ (match c_pi c with Some (S n) => dec (S n) | _ => lit "0" end)
                      ++ lit "]" ++ c_cls c in
        let s1 := upd s a (with_xp (Some xp)) in
        (fix loop (s : st) (ks : list nat) : res unit :=
           match ks with
           | [] => Ok s tt
           | k :: r => let* (s2, _) := set_xpath f s k xp in loop s2 r
           end) s1 (skids s1 a)
      end
    end.
  Definition op_calc_xpath (s : st) (a : nat) : res bool :=
    if negb (is_attached_root s a) then Ok s false else
    let xp := lit "/@root[0]" ++ c_cls (cellD s a) in
    let* (s1, _) := (fix loop (s : st) (ks : list nat) : res unit :=
                       match ks with
                       | [] => Ok s tt
                       | k :: r => let* (s2, _) := set_xpath (fuel_of s) s k xp in loop s2 r
                       end) s (skids s a) in
    Ok (upd s1 a (with_xp (Some xp))) true.

  (* ---------- read-only queries ---------- *)
  Fixpoint ancestors (fuel : nat) (s : st) (a : nat) : option (list nat) :=
    match fuel with
    | 0 => None
    | S f => match parent s a with
             | None => Some []
             | Some p => match ancestors f s p with Some l => Some (p :: l) | None => None end
             end
    end.
  Definition get_depth (s : st) (a : nat) : option nat :=
    match ancestors (fuel_of s) s a with Some l => Some (length l) | None => None end.
  (* dataclass __eq__ (eq=True): same class, then the tuple of compare=True fields: origin, own fields;
     tuple comparison short-cuts on identical objects and stops at the first unequal element *)
  Fixpoint deep_eq (fuel : nat) (s : st) (a b : nat) : option bool :=
    match fuel with
    | 0 => None
    | S f =>
      if Nat.eqb a b then Some true else
      let ca := cellD s a in
      let cb := cellD s b in
      if negb (pystr_eqb (c_cls ca) (c_cls cb)) then Some false else
      if negb (pystr_eqb (c_org ca) (c_org cb)) then Some false else
      let fix seq_eq (x y : list nat) : option bool :=
        match x, y with
        | [], [] => Some true
        | k :: x', j :: y' => match deep_eq f s k j with
                              | Some true => seq_eq x' y'
                              | other => other
                              end
        | _, _ => Some false
        end in
      (fix fields_eq (x y : list (pystr * fval)) : option bool :=
         match x, y with
         | [], [] => Some true
         | (n, v) :: x', (_, w) :: y' =>
           let here : option bool :=
             if negb (is_compare (c_cls ca) n) then Some true else
             match v, w with
             | FP p, FP q => Some (match p, q with
                                   | LS u, LS t => pystr_eqb u t
                                   | LI u, LI t => Z.eqb u t
                                   | _, _ => false end)
             | FOne None, FOne None => Some true
             | FOne (Some k), FOne (Some j) => deep_eq f s k j
             | FSeq l, FSeq m => if Nat.eqb (length l) (length m) then seq_eq l m else Some false
             | _, _ => Some false
             end in
           match here with
           | Some true => fields_eq x' y'
           | other => other
           end
         | _, _ => Some false
         end) (c_fs ca) (c_fs cb)
    end.
  (* self.is_ancestor(node): if node.parent is None: False; elif node.parent == self: True; else recurse *)
  Fixpoint is_ancestor_from (fuel : nat) (s : st) (p a : nat) : option bool :=
    match fuel with
    | 0 => None
    | S f => match parent s a with
             | None => Some false
             | Some q => match deep_eq (fuel_of s) s q p with
                         | Some true => Some true
                         | Some false => is_ancestor_from f s p q
                         | None => None
                         end
             end
    end.
  Definition is_ancestor (s : st) (p a : nat) : option bool := is_ancestor_from (fuel_of s) s p a.

  (* ---------- user callbacks of the two transformation classes: a finite rule language ---------- *)
  Inductive action :=
  | AGeneric                                  (* visitor: generic_visit; transformer: return node *)
  | AKeep                                     (* return node *)
  | ARemove                                   (* return None *)
  | ASet (p : pystr) (v : lval)               (* visitor: node.replace(p=v, ** self._transform_children(node));
                                                 transformer: node.replace(p=v) *)
  | AFresh (cls org : pystr) (fs : list (pystr * fval))   (* return a newly constructed (attached) node *)
  | ARaise.                                   (* raise ValueError *)
  Record rule := { r_cls : pystr; r_when : option (pystr * lval); r_act : action }.
  Definition lval_eqb (a b : lval) : bool :=
    match a, b with LS x, LS y => pystr_eqb x y | LI x, LI y => Z.eqb x y | _, _ => false end.
  Definition rule_matches (c : cell) (r : rule) : bool :=
    pystr_eqb (r_cls r) (c_cls c) &&
    match r_when r with
    | None => true
    | Some (p, v) => match assoc p (c_fs c) with Some (FP w) => lval_eqb v w | _ => false end
    end.
  Definition action_for (rules : list rule) (c : cell) : action :=
    match find (rule_matches c) rules with Some r => r_act r | None => AGeneric end.

  (* ASTTransformVisitor.transform; [made] collects the nodes the callbacks constructed, in order *)
  Definition out := (option nat * list nat)%type.
  Definition wrap_tr {A} (r : res A) : res A := match r with Er s _ => Er s ETr | x => x end.

  Fixpoint vtransform (fuel : nat) (rules : list rule) (s : st) (node : nat) (made : list nat) : res out :=
    match fuel with
    | 0 => Div
    | S f =>
      (* _transform_children: the generator reads each field when it reaches it *)
      let tchildren (s : st) (n : nat) (made : list nat) : res (list (pystr * chval) * list nat) :=
        (fix fields (s : st) (fns : list pystr) (made : list nat) : res (list (pystr * chval) * list nat) :=
           match fns with
           | [] => Ok s ([], made)
           | fn :: rest =>
             let* (s1, here) :=
               match assoc fn (c_fs (cellD s n)) with
               | Some (FOne (Some k)) =>
                 let* (s1, o) := vtransform f rules s k made in
                 let changed := match fst o with Some k' => negb (Nat.eqb k' k) | None => true end in
                 Ok s1 ((if changed then [(fn, CV (FOne (fst o)))] else []), snd o)
               | Some (FSeq l) =>
                 let* (s1, acc) :=
                   (fix elems (s : st) (l : list nat) (acc : list nat * bool * list nat)
                      : res (list nat * bool * list nat) :=
                      match l with
                      | [] => Ok s acc
                      | k :: r =>
                        let '(news, ch, made) := acc in
                        let* (s1, o) := vtransform f rules s k made in
                        match fst o with
                        | Some k' => elems s1 r (news ++ [k'], ch || negb (Nat.eqb k' k), snd o)
                        | None => elems s1 r (news, true, snd o)
                        end
                      end) s l ([], false, made) in
                 let '(news, ch, made1) := acc in
                 Ok s1 ((if ch then [(fn, CV (FSeq news))] else []), made1)
               | _ => Ok s ([], made)
               end in
             let* (s2, more) := fields s1 rest (snd here) in
             Ok s2 (fst here ++ fst more, snd more)
           end) s (map fst (c_fs (cellD s n))) made in
      let orig := if detached s node then None else Some node in
      (* node.duplicate(as_detached_clone=True) stands before the try: its errors escape unwrapped *)
      let* (s0, work) := match orig with
                         | Some _ => op_duplicate true s node
                         | None => Ok s node
                         end in
      let visited : res out :=
        match action_for rules (cellD s0 work) with
        | AKeep => Ok s0 (Some work, made)
        | ARemove => Ok s0 (None, made)
        | ARaise => Er s0 ECrash
        | AFresh cls org fs =>
          let* (s1, n) := construct s0 cls org fs None false false false in Ok s1 (Some n, made ++ [n])
        | AGeneric =>
          let* (s1, cm) := tchildren s0 work made in
          match fst cm with
          | [] => Ok s1 (Some work, snd cm)
          | ch => let* (s2, r) := op_replace s1 work ch in Ok s2 (Some r, snd cm)
          end
        | ASet p v =>
          let* (s1, cm) := tchildren s0 work made in
          (* changes = {p: v}; changes.update(children): a later key wins, [assoc] finds the first *)
          let* (s2, r) := op_replace s1 work (fst cm ++ [(p, CV (FP v))]) in Ok s2 (Some r, snd cm)
        end in
      wrap_tr (let* (s1, o) := visited in
               match orig with
               | Some on => let* (s2, _) := op_replace_with s1 on (fst o) in Ok s2 o
               | None => Ok s1 o
               end)
    end.
  Definition op_vtransform (rules : list rule) (s : st) (a : nat) : res out :=
    vtransform (fuel_of s) rules s a [].

  (* dfs(bottom_up=True) with the default filter / prune: left-to-right post-order, computed completely
     before the first node is handed out (the generator fills yield_queue first) *)
  Fixpoint postorder (fuel : nat) (s : st) (a : nat) : option (list nat) :=
    match fuel with
    | 0 => None
    | S f =>
      (fix go (ks : list nat) : option (list nat) :=
         match ks with
         | [] => Some [a]
         | k :: r => match postorder f s k, go r with
                     | Some x, Some y => Some (x ++ y)
                     | _, _ => None
                     end
         end) (skids s a)
    end.

  (* ASTTransformer.execute *)
  Definition op_execute (rules : list rule) (s : st) (root : nat) : res out :=
    match postorder (fuel_of s) s root with
    | None => Div
    | Some order =>
      (fix go (s : st) (l : list nat) (made : list nat) : res out :=
         match l with
         | [] => Ok s (Some root, made)
         | child :: r =>
           let* (s1, nm) :=
             match action_for rules (cellD s child) with
             | AGeneric | AKeep => Ok s (Some child, made)
             | ARemove => Ok s (None, made)
             | ARaise => Er s ECrash
             | ASet p v => let* (s1, n) := op_replace s child [(p, CV (FP v))] in Ok s1 (Some n, made)
             | AFresh cls org fs =>
               let* (s1, n) := construct s cls org fs None false false false in Ok s1 (Some n, made ++ [n])
             end in
           let new := fst nm in
           if Nat.eqb child root then Ok s1 nm
           else
             let differs := match new with Some n => negb (Nat.eqb n child) | None => true end in
             let other_id := match new with
                             | Some n => negb (pystr_eqb (id_of s1 n) (id_of s1 child))
                             | None => true
                             end in
             if differs && other_id
             then let* (s2, _) := wrap_tr (op_replace_with s1 child new) in go s2 r (snd nm)
             else go s1 r (snd nm)
         end) s order []
    end.

  (* ---------- the operations of a history ---------- *)
  Inductive op :=
  | ONew (cls org : pystr) (fs : list (pystr * fval)) (idarg : option pystr) (ensure_unique as_dup create_detached : bool)
  | OAttach (a : nat)
  | ODetach (a : nat)
  | ODetachSelf (a : nat)
  | OReplace (a : nat) (ch : list (pystr * chval))
  | OReplaceWith (a : nat) (new : option nat)
  | ODuplicate (a : nat) (as_detached : bool)
  | OCalcXpath (a : nat)
  | OVisitor (a : nat) (rules : list rule)
  | OTransformer (a : nat) (rules : list rule).

  Inductive obs :=
  | RNone                                   (* returned None *)
  | RBool (b : bool)
  | RNode (a : nat)
  | ROut (o : option nat) (made : list nat) (* a transformation: result, nodes the callbacks constructed *)
  | RErr (e : err)
  | RDiv.

  Definition lift {A} (f : A -> obs) (s : st) (r : res A) : st * obs :=
    match r with Ok s1 a => (s1, f a) | Er s1 e => (s1, RErr e) | Div => (s, RDiv) end.

  Definition step (s : st) (o : op) : st * obs :=
    match o with
    | ONew cls org fs idarg e d cd => lift RNode s (construct s cls org fs idarg e d cd)
    | OAttach a => lift (fun _ => RNone) s (op_attach s a)
    | ODetach a => lift RBool s (op_detach false s a)
    | ODetachSelf a => lift RBool s (op_detach true s a)
    | OReplace a ch => lift RNode s (op_replace s a ch)
    | OReplaceWith a new => lift (fun _ => RNone) s (op_replace_with s a new)
    | ODuplicate a d => lift RNode s (op_duplicate d s a)
    | OCalcXpath a => lift RBool s (op_calc_xpath s a)
    | OVisitor a rules => lift (fun o => ROut (fst o) (snd o)) s (op_vtransform rules s a)
    | OTransformer a rules => lift (fun o => ROut (fst o) (snd o)) s (op_execute rules s a)
    end.

  (* ---------- admissibility (the premise of C18): the call returns, and afterwards no node object sits at
     two positions of attached nodes ---------- *)
  Definition attached_addrs (s : st) : list nat :=
    filter (fun a => negb (detached s a)) (seq 0 (length (heap s))).
  Definition positions (s : st) : list nat := flat_map (skids s) (attached_addrs s).
  Fixpoint nodupb (l : list nat) : bool :=
    match l with [] => true | x :: r => negb (existsb (Nat.eqb x) r) && nodupb r end.
  Definition one_position (s : st) : bool := nodupb (positions s).
  Definition admissible (s : st) (o : op) : bool :=
    match step s o with
    | (_, RDiv) => false
    | (s1, _) => one_position s1
    end.
End Machine.
