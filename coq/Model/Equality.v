(* ASTNode.__eq__ (= _eq_fn, node.py:64-76), __ne__ and the origins it walks. Definitions only. *)
From Oak Require Export Model.Encode Model.Traverse.

(* zip(strict=True) over the two dfs() streams, comparing origins: the first unequal pair returns False;
   running out of one stream before the other raises ValueError (None) *)
Fixpoint zip_strict (l l' : list origin) : option bool :=
  match l, l' with
  | [], [] => Some true
  | x :: r, y :: r' => if origin_eqb x y then zip_strict r r' else Some false
  | _, _ => None
  end.

Inductive eqres := EqTrue | EqFalse | EqValueError | EqFuel.

Section Eq.
  Variable H : pystr -> pystr.
  Variable ct : ctable.
  Variable vr : variant.

  Definition stream_origins (n : node) : option (list origin) :=
    option_map (map (fun ti => norigin (ti_node ti)))
               (dfs ct (fun _ => false) (fun _ => true) (size n) false n).

  Definition eqn (a b : node) : eqres :=
    if pystr_eqb (cls a) (cls b) then                               (* other.__class__ is self.__class__ *)
      if pystr_eqb (content_id H ct vr a) (content_id H ct vr b) && origin_eqb (norigin a) (norigin b) then
        match stream_origins a, stream_origins b with
        | Some la, Some lb =>
          match zip_strict la lb with
          | Some true => EqTrue
          | Some false => EqFalse
          | None => EqValueError
          end
        | _, _ => EqFuel
        end
      else EqFalse
    else EqFalse.

  (* a != b : Python derives it from __eq__ *)
  Definition neqn (a b : node) : eqres :=
    match eqn a b with EqTrue => EqFalse | EqFalse => EqTrue | r => r end.
End Eq.

(* the origins of a tree in pre-order, root first: the declarative list of "positions" *)
Fixpoint all_origins (n : node) : list origin :=
  match n with
  | Node _ _ o _ ks =>
    o :: (fix fields (ks : list (pystr * (kshape * list node))) : list origin :=
            match ks with
            | [] => []
            | (_, (sh, l)) :: ks' =>
              (match sh with
               | ShNone => []
               | ShOne => match l with x :: _ => all_origins x | [] => [] end
               | ShMany => (fix elems (l : list node) : list origin :=
                              match l with [] => [] | x :: l' => all_origins x ++ elems l' end) l
               end) ++ fields ks'
            end) ks
  end.

Fixpoint forallb2 {A} (p : A -> A -> bool) (l l' : list A) : bool :=
  match l, l' with
  | [], [] => true
  | x :: r, y :: r' => p x y && forallb2 p r r'
  | _, _ => false
  end.
