(* The node registry as a state machine (node.py: NODE_REGISTRY, _get_next_unique_id, __post_init__ id
   assignment, get / get_any, detach / detach_self / replace, duplicate; dataclasses.replace; constructions that
   are rejected by a subclass's own __post_init__ AFTER the node was given its id and registered).
   Definitions only (plus Examples).  Shared by C03, C14 and C10.

   Heap of immutable cells (address = index = creation order; children by address), a registry
   id -> address that is weak (an entry disappears when its node is no longer reachable from the program's
   variables: CPython frees acyclic garbage at the last reference drop), and the program's variables. *)
From Oak Require Export Model.Encode.

Definition kidsr := list (pystr * (kshape * list nat)).      (* child fields, declaration order, by address *)
Record cell := { k_cls : pystr; k_org : origin; k_props : list (pystr * pval); k_kids : kidsr;
                 k_id : pystr; k_cid : pystr }.
(* as_dict of a tree: a VALUE carrying the id of every node (the JSON itself is C04's Model/Serial.v) *)
Inductive sval := SNode (i : pystr) (c : pystr) (o : origin) (ps : list (pystr * pval))
                        (ks : list (pystr * (kshape * list sval))).

Record st := { heap : list cell;
               reg : list (pystr * nat);        (* NODE_REGISTRY: id -> address *)
               vars : list (option nat);        (* the program's variables (roots) *)
               det : list nat;                  (* ghost: addresses detached / replaced away so far *)
               gone : list nat;                 (* ghost: addresses found unreachable at some collection *)
               slots : list (nat * sval) }.     (* dicts produced by as_dict and kept by the program (latest first): plain
                                                   values, NOT references - a slot keeps no node alive *)

Definition init_st (nvars : nat) : st :=
  {| heap := []; reg := []; vars := repeat None nvars; det := []; gone := []; slots := [] |}.

Definition cell_at (s : st) (a : nat) : option cell := nth_error (heap s) a.
Definition all_kids (c : cell) : list nat := flat_map (fun k => snd (snd k)) (k_kids c).

(* pre-order of the tree under an address (a shared node is listed at each occurrence).  Children have
   smaller addresses than their parent, so the fuel [length heap] is never exhausted. *)
Fixpoint pre (hp : list cell) (fuel : nat) (a : nat) : list nat :=
  match fuel with
  | 0 => []
  | S f => match nth_error hp a with
           | None => []
           | Some c => a :: flat_map (pre hp f) (all_kids c)
           end
  end.
Definition tree_of (s : st) (a : nat) : list nat := pre (heap s) (length (heap s)) a.

Definition memb (a : nat) (l : list nat) : bool := existsb (Nat.eqb a) l.
Definition smemb (a : pystr) (l : list pystr) : bool := existsb (pystr_eqb a) l.

(* ---------- the dictionary ---------- *)
Fixpoint lookup (i : pystr) (r : list (pystr * nat)) : option nat :=
  match r with
  | [] => None
  | (j, a) :: r' => if pystr_eqb i j then Some a else lookup i r'
  end.
Fixpoint remove_id (i : pystr) (r : list (pystr * nat)) : list (pystr * nat) :=
  match r with
  | [] => []
  | (j, a) :: r' => if pystr_eqb i j then remove_id i r' else (j, a) :: remove_id i r'
  end.
Definition keys (r : list (pystr * nat)) : list pystr := map fst r.

(* _get_next_unique_id together with the `new_id in NODE_REGISTRY` test before it: candidates are
   base, base_1, base_2, ...; the first one that is not a key is taken.  [fuel] makes the loop total. *)
Definition cand (d : pystr) (k : nat) : pystr :=
  match k with 0 => d | _ => d ++ lit "_" ++ dec k end.
Fixpoint next_unique (d : pystr) (k fuel : nat) (r : list (pystr * nat)) : option pystr :=
  match lookup (cand d k) r with
  | None => Some (cand d k)
  | Some _ => match fuel with 0 => None | S f => next_unique d (S k) f r end
  end.

(* ---------- weak references: collection ---------- *)
Definition roots (s : st) : list nat :=
  flat_map (fun v => match v with Some a => [a] | None => [] end) (vars s).
Definition reachable_set (s : st) : list nat := flat_map (tree_of s) (roots s).
Definition reachable (s : st) (a : nat) : bool := memb a (reachable_set s).
Definition gc (s : st) : st :=
  let live := reachable_set s in
  {| heap := heap s;
     reg := filter (fun e => memb (snd e) live) (reg s);
     vars := vars s; det := det s;
     gone := filter (fun a => negb (memb a live) || memb a (gone s)) (seq 0 (length (heap s)));
     slots := slots s |}.

(* ---------- operations ---------- *)
Definition loc := (nat * nat)%type.              (* (variable, position in the pre-order of its tree) *)
Inductive cval := CProp (v : pval) | COrigin (o : origin) | CKids (sh : kshape) (ls : list loc).
Inductive op :=
| New (dst : nat) (c : pystr) (o : origin) (ps : list (pystr * pval)) (ks : list (pystr * (kshape * list loc)))
| Dup (dst : nat) (src : loc)
| DcReplace (dst : nat) (src : loc) (ch : list (pystr * cval))     (* dataclasses.replace *)
| Replace (dst : nat) (src : loc) (ch : list (pystr * cval))       (* x.replace *)
| Detach (x : loc)
| DetachSelf (x : loc)
| Drop (v : nat)                                                    (* del variable (+ gc.collect()) *)
| Read (x : loc) (kind : nat)                                       (* any read-only library call *)
| AsDict (src : loc) (slot : nat)                                   (* slot = x.as_dict(): a value, no reference *)
| AsObj (slot : nat) (dst : nat).                                   (* dst = Cls.as_obj(slot) *)

Inductive errkind := EValue | EType.
Inductive obs :=
| OkNone                      (* returned None *)
| OkNode (a : nat)            (* returned a node *)
| OkBool (b : bool)
| Raised (e : errkind)
| Skipped                     (* a locator does not resolve (empty variable, index out of range): nothing is done *)
| Bad                         (* ill-formed operation (unknown class, wrong shape): inadmissible input *)
| FuelOut.                    (* a fuelled loop ran out: proved impossible under the invariant *)

Definition resolve (s : st) (l : loc) : option nat :=
  match nth_error (vars s) (fst l) with
  | Some (Some r) => nth_error (tree_of s r) (snd l)
  | _ => None
  end.

Fixpoint set_nth {A} (n : nat) (x : A) (l : list A) : list A :=
  match l, n with
  | [], _ => []
  | _ :: r, 0 => x :: r
  | y :: r, S m => y :: set_nth m x r
  end.
Definition set_var (s : st) (v : nat) (x : option nat) : st :=
  {| heap := heap s; reg := reg s; vars := set_nth v x (vars s); det := det s; gone := gone s; slots := slots s |}.
Definition set_reg (s : st) (r : list (pystr * nat)) (d : list nat) : st :=
  {| heap := heap s; reg := r; vars := vars s; det := d; gone := gone s; slots := slots s |}.
Definition set_slot (s : st) (k : nat) (v : sval) : st :=
  {| heap := heap s; reg := reg s; vars := vars s; det := det s; gone := gone s; slots := (k, v) :: slots s |}.
Fixpoint slot_get (k : nat) (l : list (nat * sval)) : option sval :=
  match l with
  | [] => None
  | (j, v) :: r => if Nat.eqb k j then Some v else slot_get k r
  end.

Fixpoint mapM_st {S A B} (f : S -> A -> option (S * B)) (s : S) (l : list A) : option (S * list B) :=
  match l with
  | [] => Some (s, [])
  | x :: r => match f s x with
              | None => None
              | Some (s1, y) => match mapM_st f s1 r with
                                | None => None
                                | Some (s2, ys) => Some (s2, y :: ys)
                                end
              end
  end.

(* outcome of a construction (possibly of a whole subtree): built; a user __post_init__ raised AFTER the base class's
   __post_init__ had given the new node its id and registered it (state = everything built so far, the half-built
   node included); a fuelled loop ran out *)
Inductive dres (A : Type) := DOk (s : st) (x : A) | DLate (s : st) | DFuel.
Arguments DOk {A} s x. Arguments DLate {A} s. Arguments DFuel {A}.

Fixpoint mapM_d {A B} (f : st -> A -> dres B) (s : st) (l : list A) : dres (list B) :=
  match l with
  | [] => DOk s []
  | x :: r => match f s x with
              | DFuel => DFuel
              | DLate s1 => DLate s1
              | DOk s1 y => match mapM_d f s1 r with
                            | DFuel => DFuel
                            | DLate s2 => DLate s2
                            | DOk s2 ys => DOk s2 (y :: ys)
                            end
              end
  end.

Definition shape_okr (k : ckind) (sh : kshape) (n : nat) : bool :=
  match k, sh, n with
  | KOpt true, ShNone, 0 => true
  | KOpt _, ShOne, 1 => true
  | KTup, ShMany, _ => true
  | _, _, _ => false
  end.

(* every dataclass field of class c, in dataclasses.fields order *)
Definition all_fields (ct : ctable) (c : pystr) : list fdecl := f_id :: f_cid :: f_origin :: fields_of ct c.

Section Machine.
  Variable H : pystr -> pystr.
  Variable ct : ctable.
  (* a user subclass may validate in its own __post_init__ AFTER super().__post_init__() (which has computed the ids and
     registered the node): [late s a] = that validation raises (ValueError) for the node at address a, just built and
     registered in state s.  Arbitrary: it may read the node, its children, its id, the registry. *)
  Variable late : st -> nat -> bool.
  Variable fixed : bool.      (* true: the code in /repo - detach_self / detach / replace after the D4 repair and
                                 _deserialize after the forced-id repair; false: the code before these repairs (pop by
                                 id, whoever holds it; force the serialized id over whoever holds it) *)

  Definition kd_of (hp : list cell) (ks : kidsr) : kid_digests :=
    map (fun k => (fst k, (fst (snd k),
           map (fun a => match nth_error hp a with
                         | Some c => (k_cid c, ofqn (k_org c))
                         | None => ([], [])
                         end) (snd (snd k))))) ks.

  (* __init__ + __post_init__: digests, id assignment, registration *)
  Definition alloc (s : st) (c : pystr) (o : origin) (ps : list (pystr * pval)) (ks : kidsr) : option (st * nat) :=
    let kd := kd_of (heap s) ks in
    let cid := H (cid_data_of ct current c ps kd) in
    let base := H (id_data_of ct current c o ps kd) in
    match next_unique base 0 (length (reg s)) (reg s) with
    | None => None
    | Some i =>
      let a := length (heap s) in
      Some ({| heap := heap s ++ [{| k_cls := c; k_org := o; k_props := ps; k_kids := ks; k_id := i; k_cid := cid |}];
               reg := (i, a) :: reg s; vars := vars s; det := det s; gone := gone s; slots := slots s |}, a)
    end.

  (* the whole constructor call: ASTNode.__post_init__ (alloc), then the subclass's own validation *)
  Definition construct (s : st) (c : pystr) (o : origin) (ps : list (pystr * pval)) (ks : kidsr) : dres nat :=
    match alloc s c o ps ks with
    | None => DFuel
    | Some (s', a) => if late s' a then DLate s' else DOk s' a
    end.

  (* detach_self *)
  Definition detach_self (s : st) (a : nat) : st * bool :=
    match cell_at s a with
    | None => (s, false)
    | Some c =>
      match lookup (k_id c) (reg s) with
      | None => (set_reg s (reg s) (a :: det s), false)
      | Some b =>
        if fixed && negb (Nat.eqb a b)
        then (set_reg s (reg s) (a :: det s), false)
        else (set_reg s (remove_id (k_id c) (reg s)) (a :: det s), true)
      end
    end.

  (* detach: self.detach_self(); for ni in self.dfs(): ni.node.detach_self() *)
  Definition detach (s : st) (a : nat) : st :=
    fold_left (fun s x => fst (detach_self s x)) (tree_of s a) s.

  (* duplicate: children first (iter_child_fields order, left to right), then dataclasses.replace of self with the copies *)
  Fixpoint dup (fuel : nat) (s : st) (a : nat) : dres nat :=
    match fuel with
    | 0 => DFuel
    | S f =>
      match cell_at s a with
      | None => DFuel
      | Some c =>
        match mapM_d (fun s k => match mapM_d (dup f) s (snd (snd k)) with
                                 | DOk s' l => DOk s' (fst k, (fst (snd k), l))
                                 | DLate s' => DLate s'
                                 | DFuel => DFuel
                                 end) s (k_kids c) with
        | DFuel => DFuel
        | DLate s1 => DLate s1            (* a copy further down failed: the exception propagates *)
        | DOk s1 ks' => construct s1 (k_cls c) (k_org c) (k_props c) ks'
        end
      end
    end.

  (* ---------- arguments of constructions ---------- *)
  Fixpoint mapO {A B} (f : A -> option B) (l : list A) : option (list B) :=
    match l with
    | [] => Some []
    | x :: r => match f x, mapO f r with Some y, Some t => Some (y :: t) | _, _ => None end
    end.
  Inductive res (A : Type) := RSkip | RBad | ROk (x : A).
  Arguments RSkip {A}. Arguments RBad {A}. Arguments ROk {A} x.

  (* the constructor call with every field of the class, in declaration order; children by locator *)
  Definition new_args (s : st) (c : pystr) (ps : list (pystr * pval)) (ks : list (pystr * (kshape * list loc)))
    : res kidsr :=
    match find_class ct c with
    | None => RBad
    | Some _ =>
      if zip_ok (fun f p => pystr_eqb (fd_name f) (fst p)) (prop_fields ct c) ps
         && zip_ok (fun f (k : pystr * (kshape * list loc)) =>
                      pystr_eqb (fd_name f) (fst k) && shape_okr (child_kind f) (fst (snd k)) (length (snd (snd k))))
                   (child_fields ct c) ks
      then match mapO (fun k : pystr * (kshape * list loc) =>
                         option_map (fun l => (fst k, (fst (snd k), l))) (mapO (resolve s) (snd (snd k)))) ks with
           | Some ks' => ROk ks'
           | None => RSkip
           end
      else RBad
    end.

  (* ---------- dataclasses.replace ---------- *)
  Fixpoint nodup_keys (l : list pystr) : bool :=
    match l with [] => true | x :: r => negb (smemb x r) && nodup_keys r end.

  (* change values with the child locators resolved *)
  Inductive rval := VProp (v : pval) | VOrigin (o : origin) | VKids (v : kshape * list nat).
  Definition resolve_cval (s : st) (cv : cval) : option rval :=
    match cv with
    | CProp v => Some (VProp v)
    | COrigin o => Some (VOrigin o)
    | CKids sh ls => match mapO (resolve s) ls with Some l => Some (VKids (sh, l)) | None => None end
    end.
  (* admissibility: the value given for a known init field has the field's type *)
  Definition change_ok (c : pystr) (e : pystr * cval) : bool :=
    match find (fun f => pystr_eqb (fd_name f) (fst e)) (all_fields ct c) with
    | None => true
    | Some f =>
      if negb (fd_init f) then true
      else if pystr_eqb (fst e) (lit "origin") then match snd e with COrigin _ => true | _ => false end
      else match fd_role f, snd e with
           | RProp, CProp _ => true
           | RChild k, CKids sh ls => shape_okr k sh (length ls)
           | _, _ => false
           end
    end.
  Definition changes (s : st) (c : pystr) (ch : list (pystr * cval)) : res (list (pystr * rval)) :=
    if nodup_keys (map fst ch) && forallb (change_ok c) ch then
      match mapO (fun e : pystr * cval => option_map (fun v => (fst e, v)) (resolve_cval s (snd e))) ch with
      | Some l => ROk l
      | None => RSkip
      end
    else RBad.

  (* the loop over fields(obj): a non-init field named in changes raises ValueError; then the constructor
     call raises TypeError for a keyword that is no field *)
  Definition dc_check (c : pystr) (ks : list pystr) : option errkind :=
    let fs := all_fields ct c in
    if existsb (fun f => negb (fd_init f) && smemb (fd_name f) ks) fs then Some EValue
    else if existsb (fun k => negb (smemb k (map fd_name fs))) ks then Some EType
    else None.

  (* changes[f.name] = getattr(obj, f.name) for the init fields not named *)
  Definition new_origin (c : cell) (ch : list (pystr * rval)) : origin :=
    match assoc (lit "origin") ch with Some (VOrigin o) => o | _ => k_org c end.
  Definition new_props (c : cell) (ch : list (pystr * rval)) : list (pystr * pval) :=
    map (fun p => match assoc (fst p) ch with Some (VProp v) => (fst p, v) | _ => p end) (k_props c).
  Definition new_kids (c : cell) (ch : list (pystr * rval)) : kidsr :=
    map (fun k => match assoc (fst k) ch with Some (VKids v) => (fst k, v) | _ => k end) (k_kids c).

  Definition dc_replace (s : st) (a : nat) (ch : list (pystr * rval)) : st * obs :=
    match cell_at s a with
    | None => (s, Skipped)
    | Some c =>
      match dc_check (k_cls c) (map fst ch) with
      | Some e => (s, Raised e)
      | None => match construct s (k_cls c) (new_origin c ch) (new_props c ch) (new_kids c ch) with
                | DOk s' a' => (s', OkNode a')
                | DLate s' => (s', Raised EValue)   (* the new node exists and is registered when the exception leaves *)
                | DFuel => (s, FuelOut)
                end
      end
    end.

  Definition dict_set (k : pystr) (v : nat) (r : list (pystr * nat)) : list (pystr * nat) := (k, v) :: remove_id k r.

  (* ASTNode.replace: ori_n = self if self.detach_self() else None (before the repair: the popped entry,
     whoever it was); on an exception NODE_REGISTRY[ori_n.id] = ori_n *)
  Definition replace (s : st) (a : nat) (ch : list (pystr * rval)) : st * obs :=
    match cell_at s a with
    | None => (s, Skipped)
    | Some c =>
      let ori := match lookup (k_id c) (reg s) with
                 | Some b => if fixed && negb (Nat.eqb a b) then None else Some b
                 | None => None
                 end in
      let s1 := fst (detach_self s a) in
      match dc_replace s1 a ch with
      | (s2, Raised e) =>
          match ori with
          | Some b => let i := match cell_at s b with Some cb => k_id cb | None => k_id c end in
                      (set_reg s2 (dict_set i b (reg s2)) (det s), Raised e)
          | None => (s2, Raised e)
          end
      | r => r
      end
    end.

  (* ---------- as_dict / as_obj (node.py `_deserialize`; the JSON itself is C04's Model/Serial.v) ---------- *)
  (* as_dict of the tree under address a *)
  Fixpoint ser (hp : list cell) (fuel : nat) (a : nat) : option sval :=
    match fuel with
    | 0 => None
    | S f => match nth_error hp a with
             | None => None
             | Some c =>
               match mapO (fun k : pystr * (kshape * list nat) =>
                             option_map (fun l => (fst k, (fst (snd k), l))) (mapO (ser hp f) (snd (snd k)))) (k_kids c) with
               | Some ks => Some (SNode (k_id c) (k_cls c) (k_org c) (k_props c) ks)
               | None => None
               end
             end
    end.
  Definition ser_st (s : st) (a : nat) : option sval := ser (heap s) (S a) a.

  Definition with_id (c : cell) (i : pystr) : cell :=
    {| k_cls := k_cls c; k_org := k_org c; k_props := k_props c; k_kids := k_kids c; k_id := i; k_cid := k_cid c |}.

  (* the forced-id branch: `if new_obj.id != value["id"] and NODE_REGISTRY.get(value["id"]) is None:`
       NODE_REGISTRY.pop(new_obj.id); object.__setattr__(new_obj, "id", i); NODE_REGISTRY[i] = new_obj.
     fx = true: the code in /repo - the serialized id is forced only WHILE IT IS FREE, otherwise the new node keeps the
     unique id it has just been given; fx = false: the code before that repair - the id is forced over whatever entry
     it has meanwhile got (only a node read further down the same value can have taken it).
     Ghost: a node whose entry is overwritten is recorded in `det` (the library has unregistered it). *)
  Definition force_id (fx : bool) (s : st) (a : nat) (cl : cell) (i : pystr) : st :=
    if fx && (match lookup i (reg s) with Some _ => true | None => false end) then s else
    let r1 := remove_id (k_id cl) (reg s) in
    {| heap := set_nth a (with_id cl i) (heap s);
       reg := dict_set i a r1;
       vars := vars s;
       det := match lookup i r1 with Some b => b :: det s | None => det s end;
       gone := gone s;
       slots := slots s |}.

  (* ASTNode._deserialize: a registered id is answered by the registered node (WHATEVER node that is); otherwise the
     children are read (declaration order), then the node is built (fresh id by the usual rule, the class's own
     validation included) and, when the fresh id differs from the serialized one, the serialized id is forced *)
  Fixpoint deser (fuel : nat) (s : st) (v : sval) : dres nat :=
    match fuel with
    | 0 => DFuel
    | S f =>
      match v with
      | SNode i c o ps ks =>
        match lookup i (reg s) with
        | Some b => DOk s b                       (* existing_node = NODE_REGISTRY.get(value["id"]) *)
        | None =>
          match mapM_d (fun s k => match mapM_d (deser f) s (snd (snd k)) with
                                   | DOk s' l => DOk s' (fst k, (fst (snd k), l))
                                   | DLate s' => DLate s'
                                   | DFuel => DFuel
                                   end) s ks with
          | DFuel => DFuel
          | DLate s1 => DLate s1
          | DOk s1 ks' =>
            match construct s1 c o ps ks' with
            | DFuel => DFuel
            | DLate s2 => DLate s2                (* from_dict -> __init__ -> the class's validation raised *)
            | DOk s2 a =>
              match cell_at s2 a with
              | None => DFuel
              | Some cl => if pystr_eqb (k_id cl) i then DOk s2 a else DOk (force_id fixed s2 a cl i) a
              end
            end
          end
        end
      end
    end.

  Fixpoint sdepth (v : sval) : nat :=
    match v with
    | SNode _ _ _ _ ks => S (fold_right (fun k m => fold_right (fun x m' => Nat.max (sdepth x) m') m (snd (snd k))) 0 ks)
    end.

  (* Cls.as_obj(v): the fuel S (sdepth v) is never exhausted (Proofs/RegistryProofs.v, asobj_no_fuel) *)
  Definition asobj (s : st) (v : sval) : dres nat := deser (S (sdepth v)) s v.

  (* the result is bound to a variable of the program *)
  Definition bind (dst : nat) (r : st * obs) : st * obs :=
    match r with
    | (s, OkNode a) => (set_var s dst (Some a), OkNode a)
    | _ => r
    end.

  Definition step_raw (s : st) (o : op) : st * obs :=
    match o with
    | New dst c og ps ks =>
      if negb (Nat.ltb dst (length (vars s))) then (s, Bad) else
      match new_args s c ps ks with
      | RBad => (s, Bad)
      | RSkip => (s, Skipped)
      | ROk ks' => match construct s c og ps ks' with
                   | DOk s' a => bind dst (s', OkNode a)
                   | DLate s' => (s', Raised EValue)
                   | DFuel => (s, FuelOut)
                   end
      end
    | Dup dst src =>
      if negb (Nat.ltb dst (length (vars s))) then (s, Bad) else
      match resolve s src with
      | None => (s, Skipped)
      | Some a => match dup (length (heap s)) s a with
                  | DOk s' a' => bind dst (s', OkNode a')
                  | DLate s' => (s', Raised EValue)
                  | DFuel => (s, FuelOut)
                  end
      end
    | DcReplace dst src ch =>
      if negb (Nat.ltb dst (length (vars s))) then (s, Bad) else
      match resolve s src with
      | None => (s, Skipped)
      | Some a =>
        match cell_at s a with
        | None => (s, Skipped)
        | Some c => match changes s (k_cls c) ch with
                    | RBad => (s, Bad)
                    | RSkip => (s, Skipped)
                    | ROk ch' => bind dst (dc_replace s a ch')
                    end
        end
      end
    | Replace dst src ch =>
      if negb (Nat.ltb dst (length (vars s))) then (s, Bad) else
      match resolve s src with
      | None => (s, Skipped)
      | Some a =>
        match cell_at s a with
        | None => (s, Skipped)
        | Some c => match changes s (k_cls c) ch with
                    | RBad => (s, Bad)
                    | RSkip => (s, Skipped)
                    | ROk ch' => bind dst (replace s a ch')
                    end
        end
      end
    | Detach x =>
      match resolve s x with
      | None => (s, Skipped)
      | Some a => (detach s a, OkNone)
      end
    | DetachSelf x =>
      match resolve s x with
      | None => (s, Skipped)
      | Some a => let (s', b) := detach_self s a in (s', OkBool b)
      end
    | Drop v => (set_var s v None, OkNone)
    | Read x _ =>
      match resolve s x with
      | None => (s, Skipped)
      | Some _ => (s, OkNone)
      end
    | AsDict src slot =>
      match resolve s src with
      | None => (s, Skipped)
      | Some a => match ser_st s a with
                  | Some v => (set_slot s slot v, OkNone)
                  | None => (s, FuelOut)
                  end
      end
    | AsObj slot dst =>
      if negb (Nat.ltb dst (length (vars s))) then (s, Bad) else
      match slot_get slot (slots s) with
      | None => (s, Skipped)                      (* nothing was ever serialized into this slot *)
      | Some v => match asobj s v with
                  | DOk s' a => bind dst (s', OkNode a)
                  | DLate s' => (s', Raised EValue)
                  | DFuel => (s, FuelOut)
                  end
      end
    end.

  (* after every operation whatever became unreachable is gone from the weak registry *)
  Definition step (s : st) (o : op) : st * obs :=
    let (s', r) := step_raw s o in (gc s', r).

  Definition run (s : st) (l : list op) : st := fold_left (fun s o => fst (step s o)) l s.

  (* ---------- lookups: get_any, get ---------- *)
  Definition get_any (s : st) (i : pystr) : option nat := lookup i (reg s).
  Definition get (s : st) (cls : pystr) (i : pystr) (strict : bool) : option nat :=
    match lookup i (reg s) with
    | None => None
    | Some a =>
      match cell_at s a with
      | None => None
      | Some c => if strict then (if pystr_eqb (k_cls c) cls then Some a else None)
                  else (if subclass ct (k_cls c) cls then Some a else None)
      end
    end.

  (* _eq_fn: same class, same content_id, same origin, then origins pairwise along zip(dfs, dfs, strict=True);
     None = the ValueError of zip when the two walks have different lengths *)
  Fixpoint zip_origins (s : st) (la lb : list nat) : option bool :=
    match la, lb with
    | [], [] => Some true
    | x :: la', y :: lb' =>
      match cell_at s x, cell_at s y with
      | Some cx, Some cy => if origin_eqb (k_org cx) (k_org cy) then zip_origins s la' lb' else Some false
      | _, _ => None
      end
    | _, _ => None
    end.
  Definition node_eq (s : st) (a b : nat) : option bool :=
    match cell_at s a, cell_at s b with
    | Some ca, Some cb =>
      if pystr_eqb (k_cls ca) (k_cls cb) && pystr_eqb (k_cid ca) (k_cid cb) && origin_eqb (k_org ca) (k_org cb)
      then zip_origins s (tl (tree_of s a)) (tl (tree_of s b))
      else Some false
    | _, _ => None
    end.
End Machine.
Arguments RSkip {A}. Arguments RBad {A}. Arguments ROk {A} x.
Arguments asobj : simpl never.
Arguments ser_st : simpl never.

(* no class validates after the base __post_init__ *)
Definition no_late : st -> nat -> bool := fun _ _ => false.

(* the validations the correspondence run generates: class k (and its subclasses, which inherit __post_init__)
   raises ValueError after super().__post_init__() when the property f holds exactly the value v / when the id the
   node has just been given ends with suf *)
Inductive vrule := VReject (k f : pystr) (v : pval) | VIdSuffix (k suf : pystr).
Definition ends_with (suf x : pystr) : bool :=
  Nat.leb (length suf) (length x) && pystr_eqb (skipn (length x - length suf) x) suf.
Definition late_of (ct : ctable) (rules : list vrule) (s : st) (a : nat) : bool :=
  match cell_at s a with
  | None => false
  | Some c =>
    existsb (fun r => match r with
                      | VReject k f v => subclass ct (k_cls c) k &&
                                         match assoc f (k_props c) with Some w => pval_eqb w v | None => false end
                      | VIdSuffix k suf => subclass ct (k_cls c) k && ends_with suf (k_id c)
                      end) rules
  end.

(* ---------- the tree under an address, as a tree of Model/Node.v (design 2.2) ----------
   children have smaller addresses than their parent, so the fuel [S a] is never exhausted (Proofs/RegistryReify.v) *)
Fixpoint reify (hp : list cell) (fuel : nat) (a : nat) : node :=
  match fuel with
  | 0 => Node a [] ONo [] []
  | S f => match nth_error hp a with
           | None => Node a [] ONo [] []
           | Some c => Node a (k_cls c) (k_org c) (k_props c)
                         (map (fun k => (fst k, (fst (snd k), map (reify hp f) (snd (snd k))))) (k_kids c))
           end
  end.
Definition reify_st (s : st) (a : nat) : node := reify (heap s) (S a) a.
