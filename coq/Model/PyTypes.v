(* Annotation terms (the type grammar of C11) and runtime values (the pool of C13), with the tables of
   CPython 3.12 / typing behaviour that pyoak/typing.py relies on:  get_origin / get_args, which forms
   make issubclass / isinstance raise TypeError, the is_* helpers of typing.py:41-160.
   The tables are "modelled, not verified" (DESIGN 2.8); they are tied by the C11 / C13 correspondence runs
   (and were read off notes/probes/p8.py and the probe table reproduced in design.d/C11.md). *)
From Oak Require Export Base.PyStr.

Inductive scal := SInt | SStr | SBool | SFloat | SBytes.
(* generic containers.  Printed as: tuple frozenset typing.Sequence typing.Mapping list dict set *)
Inductive con := CTuple | CFrozenset | CSequence | CMapping | CList | CDict | CSet.

(* runtime values offered to a field *)
Inductive val :=
| XNone | XBool (b : bool) | XInt (z : Z)
| XFloat (tok : pystr)            (* a non-integral float, identified by its repr; never equal to an int *)
| XStr (s : pystr)                (* ASCII *)
| XEnum (cls member : pystr)
| XNode (cls : pystr)             (* an instance of node class cls *)
| XTuple (l : list val) | XList (l : list val) | XFset (l : list val).

(* annotation terms, as the *resolved typing object* unless TFwd occurs *)
Inductive ty :=
| TScalar (k : scal)
| TAny
| TNoneT                          (* type(None); printed `None` at top level and inside unions *)
| TLiteral (vs : list val)        (* Literal[v1, ...], scalar values *)
| TEnum (c : pystr)               (* an Enum class *)
| TNewType (t : ty)               (* NewType("N", t) *)
| TUnion (ts : list ty)           (* Union[...] / Optional[...] / a | b : normalised by Python (flat, >= 2 members) *)
| TTuple (ts : list ty)           (* tuple[a, b]; TTuple [] is tuple[()] *)
| TTupleVar (t : ty)              (* tuple[t, ...] *)
| TGen (c : con) (args : list ty) (* c[args], c <> tuple *)
| TBare (c : con)                 (* unparameterised tuple, frozenset, Sequence, ... *)
| TNode (c : pystr)               (* a node class object *)
| TFwd (c : pystr).               (* the *string* "c" standing for node class c, left inside a non-string annotation *)

(* ---------- node class hierarchy: class -> its strict superclasses below ASTNode ---------- *)
Definition henv := list (pystr * list pystr).
Fixpoint supers (e : henv) (c : pystr) : list pystr :=
  match e with
  | [] => []
  | (k, s) :: r => if pystr_eqb k c then s else supers r c
  end.
Definition node_sub (e : henv) (c d : pystr) : bool := pystr_eqb c d || existsb (pystr_eqb d) (supers e c).

(* ---------- typing.py helpers on annotation terms ---------- *)
Definition is_noneT (t : ty) : bool := match t with TNoneT => true | _ => false end.
Definition is_union (t : ty) : bool := match t with TUnion _ => true | _ => false end.          (* typing.py:59 *)
Definition is_optional (t : ty) : bool :=                                                         (* typing.py:83 *)
  match t with TUnion ts => existsb is_noneT ts | _ => false end.
Definition is_tuple (t : ty) : bool :=                                                            (* typing.py:72 *)
  match t with TTuple _ | TTupleVar _ | TBare CTuple => true | _ => false end.
Definition con_mutable (c : con) : bool := match c with CList | CDict | CSet => true | _ => false end.
Definition is_mutable_collection (t : ty) : bool :=                                               (* typing.py:150 *)
  match t with TGen c _ | TBare c => con_mutable c | _ => false end.
Definition is_collection (t : ty) : bool :=                                                       (* typing.py:96 *)
  match t with
  | TTuple _ | TTupleVar _ | TGen _ _ | TBare _ => true
  | TScalar SBytes => true        (* issubclass(bytes, Collection); str is excluded explicitly *)
  | _ => false                    (* issubclass raises TypeError or answers False *)
  end.
Definition is_new_type (t : ty) : bool := match t with TNewType _ => true | _ => false end.
Definition is_literal (t : ty) : bool := match t with TLiteral _ => true | _ => false end.
Fixpoint unwrap_newtype (t : ty) : ty := match t with TNewType a => unwrap_newtype a | _ => t end.  (* typing.py:131 *)

(* issubclass(t, ASTNode): Some b = answers b, None = raises TypeError.
   classes answer; builtin generic aliases (tuple[..], frozenset[..], list[..]) answer False;
   typing aliases (typing.Sequence, typing.Mapping, with or without arguments), unions, Literal, NewType
   objects and str instances raise. *)
Definition typing_alias (c : con) : bool := match c with CSequence | CMapping => true | _ => false end.
Definition sub_node (t : ty) : option bool :=
  match t with
  | TNode _ => Some true
  | TScalar _ | TAny | TNoneT | TEnum _ => Some false
  | TTuple _ | TTupleVar _ => Some false
  | TGen c _ | TBare c => if typing_alias c then None else Some false
  | TLiteral _ | TNewType _ | TUnion _ | TFwd _ => None
  end.
Definition is_node_class (t : ty) : bool := match sub_node t with Some true => true | _ => false end.

(* ---------- Python == on the scalar values that may occur in a Literal ---------- *)
Definition py_eq (a b : val) : bool :=
  match a, b with
  | XNone, XNone => true
  | XBool x, XBool y => Bool.eqb x y
  | XBool x, XInt z | XInt z, XBool x => Z.eqb z (if x then 1 else 0)%Z    (* True == 1 *)
  | XInt x, XInt y => Z.eqb x y
  | XFloat x, XFloat y => pystr_eqb x y
  | XStr x, XStr y => pystr_eqb x y
  | XEnum c m, XEnum d n => pystr_eqb c d && pystr_eqb m n
  | _, _ => false
  end.

(* raw isinstance(v, t): Some b / None = TypeError.  Unions are never offered (is_instance tests is_union
   first), parameterised generics, Literal, NewType, Any and str objects raise. *)
Definition inst_con (c : con) (v : val) : bool :=
  match c, v with
  | CTuple, XTuple _ => true
  | CFrozenset, XFset _ => true
  | CSequence, (XTuple _ | XList _ | XStr _) => true
  | CList, XList _ => true
  | _, _ => false                  (* no mapping / set values in the pool *)
  end.
Definition inst_scal (k : scal) (v : val) : bool :=
  match k, v with
  | SInt, (XInt _ | XBool _) => true      (* bool is a subclass of int *)
  | SBool, XBool _ => true
  | SFloat, XFloat _ => true
  | SStr, XStr _ => true
  | _, _ => false
  end.
Definition py_isinstance (e : henv) (v : val) (t : ty) : option bool :=
  match t with
  | TScalar k => Some (inst_scal k v)
  | TNoneT => Some (match v with XNone => true | _ => false end)
  | TEnum c => Some (match v with XEnum d _ => pystr_eqb c d | _ => false end)
  | TNode c => Some (match v with XNode d => node_sub e d c | _ => false end)
  | TBare c => Some (inst_con c v)
  | TAny | TLiteral _ | TNewType _ | TUnion _ | TTuple _ | TTupleVar _ | TGen _ _ | TFwd _ => None
  end.

(* the items a value yields when iterated (only called on instances of the origin container) *)
Definition items (v : val) : list val :=
  match v with
  | XTuple l | XList l | XFset l => l
  | XStr s => map (fun c => XStr [c]) s
  | _ => []
  end.

(* all(f(item, t) for item, t in zip(value, args)): stops at the end of the shorter list *)
Definition zip_all (f : ty -> val -> bool) : list ty -> list val -> bool :=
  fix go (ts : list ty) (vs : list val) {struct ts} : bool :=
    match ts, vs with
    | a :: ts', x :: vs' => f a x && go ts' vs'
    | _, _ => true
    end.

(* ---------- admissibility of an annotation term as a Python object the generator can print ---------- *)
Definition scalar_val (v : val) : bool :=
  match v with XBool _ | XInt _ | XStr _ | XEnum _ _ => true | _ => false end.
Definition con_arity_ok (c : con) (n : nat) : bool :=
  match c with
  | CTuple => false
  | CMapping | CDict => Nat.eqb n 2
  | _ => Nat.eqb n 1
  end.
(* under_nt: inside a NewType (whose supertype is evaluated eagerly at module level: no strings there) *)
Fixpoint wf_ty (under_nt : bool) (t : ty) : bool :=
  match t with
  | TLiteral vs => negb (Nat.eqb (length vs) 0) && forallb scalar_val vs
  | TNewType a => negb (is_noneT a) && wf_ty true a      (* NewType("N", None): mashumaro refuses the class *)
  | TUnion ts => Nat.leb 2 (length ts) && forallb (fun a => negb (is_union a)) ts && forallb (wf_ty under_nt) ts
  | TTuple ts => forallb (wf_ty under_nt) ts
  | TTupleVar a => wf_ty under_nt a
  | TGen c ts => con_arity_ok c (length ts) && forallb (wf_ty under_nt) ts
  | TFwd _ => negb under_nt
  | _ => true
  end.

(* class names mentioned *)
Fixpoint names_of (t : ty) : list pystr :=
  match t with
  | TNode c | TFwd c => [c]
  | TNewType a | TTupleVar a => names_of a
  | TUnion ts | TTuple ts | TGen _ ts => flat_map names_of ts
  | _ => []
  end.
(* names that must be bound when an unquoted annotation is *executed* (class body / NewType definition) *)
Fixpoint eager_names (t : ty) : list pystr :=
  match t with
  | TNode c => [c]
  | TNewType a | TTupleVar a => eager_names a
  | TUnion ts | TTuple ts | TGen _ ts => flat_map eager_names ts
  | _ => []
  end.
(* names under a NewType (bound at module level, before every generated class) *)
Fixpoint nt_names (t : ty) : list pystr :=
  match t with
  | TNewType a => names_of a
  | TTupleVar a => nt_names a
  | TUnion ts | TTuple ts | TGen _ ts => flat_map nt_names ts
  | _ => []
  end.
