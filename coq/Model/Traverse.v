(* dfs / bfs / gather of node.py:522-662 as the literal stack / queue machines, with fuel. Definitions only. *)
From Oak Require Export Model.Access.

Record tinfo := { ti_node : node; ti_parent : node; ti_field : pystr; ti_index : option nat }.

Section Trav.
  Variable ct : ctable.

  (* NodeTraversalInfo(c, parent, f, i) for (c, f, i) in parent.get_child_nodes_with_field() *)
  Definition infos (p : node) : list tinfo :=
    map (fun t => {| ti_node := fst (fst t); ti_parent := p; ti_field := snd (fst t); ti_index := snd t |})
        (get_child_nodes_with_field ct p false).

  Variables (prune filt : tinfo -> bool).   (* prune=None is (fun _ => false), filter=None is (fun _ => true) *)

  (* top-down: build_stack is a Python list used as a stack; children are pushed reversed, so the first
     child is popped first. Modelled as a cons-stack onto which the children are prepended in order.
     yield_queue.append = cons onto acc, reversed at the end. *)
  Fixpoint dfs_td (fuel : nat) (stack : list tinfo) (acc : list tinfo) : option (list tinfo) :=
    match stack with
    | [] => Some (rev acc)
    | ti :: st =>
      match fuel with
      | 0 => None
      | S f =>
        let acc' := if filt ti then ti :: acc else acc in
        if prune ti then dfs_td f st acc'
        else dfs_td f (infos (ti_node ti) ++ st) acc'
      end
    end.

  (* bottom-up: children are pushed in order (last child popped first), yield_queue.appendleft = cons,
     and the queue is read from the left: no final reversal. *)
  Fixpoint dfs_bu (fuel : nat) (stack : list tinfo) (acc : list tinfo) : option (list tinfo) :=
    match stack with
    | [] => Some acc
    | ti :: st =>
      match fuel with
      | 0 => None
      | S f =>
        let acc' := if filt ti then ti :: acc else acc in
        if prune ti then dfs_bu f st acc'
        else dfs_bu f (rev (infos (ti_node ti)) ++ st) acc'
      end
    end.

  Definition dfs (fuel : nat) (bottom_up : bool) (n : node) : option (list tinfo) :=
    if bottom_up then dfs_bu fuel (rev (infos n)) [] else dfs_td fuel (infos n) [].

  (* bfs: deque; popleft, extend on the right *)
  Fixpoint bfs_run (fuel : nat) (queue : list tinfo) (acc : list tinfo) : option (list tinfo) :=
    match queue with
    | [] => Some (rev acc)
    | ti :: q =>
      match fuel with
      | 0 => None
      | S f =>
        let acc' := if filt ti then ti :: acc else acc in
        if prune ti then bfs_run f q acc'
        else bfs_run f (q ++ infos (ti_node ti)) acc'
      end
    end.
  Definition bfs (fuel : nat) (n : node) : option (list tinfo) := bfs_run fuel (infos n) [].
End Trav.

(* gather: dfs top-down with the class filter and the extra filter *)
Definition class_filter (ct : ctable) (classes : list pystr) (exact : bool) (ti : tinfo) : bool :=
  if exact then existsb (pystr_eqb (cls (ti_node ti))) classes
  else existsb (subclass ct (cls (ti_node ti))) classes.
Definition gather (ct : ctable) (fuel : nat) (classes : list pystr) (exact : bool)
           (extra prune : tinfo -> bool) (n : node) : option (list node) :=
  option_map (map ti_node)
    (dfs ct prune (fun ti => class_filter ct classes exact ti && extra ti) fuel false n).
