(* Python values held in property fields, and immutable tree nodes. Definitions only. *)
From Oak Require Export Base.PyStr Model.ClassTable Model.Origin.

Inductive pval :=
| VNone
| VBool (b : bool)
| VInt (z : Z)
| VStr (s : pystr)
| VEnum (cls member : pystr) (payload : pval)
| VFloat (repr : pystr)            (* a float, by its repr; never interpreted *)
| VPath (posix : pystr)
| VTuple (l : list pval)
| VFset (l : list pval).           (* in iteration order *)

Fixpoint pval_eqb (a b : pval) : bool :=
  let fix go (x y : list pval) : bool :=
    match x, y with
    | [], [] => true
    | p :: x', q :: y' => pval_eqb p q && go x' y'
    | _, _ => false
    end in
  match a, b with
  | VNone, VNone => true
  | VBool x, VBool y => Bool.eqb x y
  | VInt x, VInt y => Z.eqb x y
  | VStr x, VStr y => pystr_eqb x y
  | VEnum c m p, VEnum c' m' p' => pystr_eqb c c' && pystr_eqb m m' && pval_eqb p p'
  | VFloat x, VFloat y => pystr_eqb x y
  | VPath x, VPath y => pystr_eqb x y
  | VTuple x, VTuple y => go x y
  | VFset x, VFset y => go x y
  | _, _ => false
  end.

(* str(type(v)) *)
Definition tytag (v : pval) : pystr :=
  match v with
  | VNone => lit "<class 'NoneType'>"
  | VBool _ => lit "<class 'bool'>"
  | VInt _ => lit "<class 'int'>"
  | VStr _ => lit "<class 'str'>"
  | VEnum c _ _ => lit "<enum '" ++ c ++ lit "'>"
  | VFloat _ => lit "<class 'float'>"
  | VPath _ => lit "<class 'pathlib.PosixPath'>"
  | VTuple _ => lit "<class 'tuple'>"
  | VFset _ => lit "<class 'frozenset'>"
  end.

(* repr of a str: quote choice and escapes of CPython's unicode_repr for ASCII; bytes >= 128 pass through
   (true of printable non-ASCII code points) *)
Definition has_char (c : ascii) (s : pystr) : bool := existsb (Ascii.eqb c) s.
Definition hex2 (n : nat) : pystr := [hexdigit (n / 16); hexdigit (n mod 16)].
Definition esc_char (q : ascii) (c : ascii) : pystr :=
  let n := nat_of_ascii c in
  if Ascii.eqb c q then ["\"%char; c]
  else if Nat.eqb n 92 then ["\"%char; "\"%char]
  else if Nat.eqb n 10 then ["\"%char; "n"%char]
  else if Nat.eqb n 13 then ["\"%char; "r"%char]
  else if Nat.eqb n 9 then ["\"%char; "t"%char]
  else if Nat.ltb n 32 || Nat.eqb n 127 then "\"%char :: "x"%char :: hex2 n
  else [c].
Definition str_repr (s : pystr) : pystr :=
  let q := if has_char "'"%char s && negb (has_char """"%char s) then """"%char else "'"%char in
  q :: flat_map (esc_char q) s ++ [q].

Fixpoint join_with (sep : pystr) (l : list pystr) : pystr :=
  match l with
  | [] => []
  | [x] => x
  | x :: r => x ++ sep ++ join_with sep r
  end.

Fixpoint py_repr (v : pval) : pystr :=
  match v with
  | VNone => lit "None"
  | VBool true => lit "True"
  | VBool false => lit "False"
  | VInt z => decZ z
  | VStr s => str_repr s
  | VEnum c m p => lit "<" ++ c ++ lit "." ++ m ++ lit ": " ++ py_repr p ++ lit ">"
  | VFloat r => r
  | VPath p => lit "PosixPath(" ++ str_repr p ++ lit ")"
  | VTuple l =>
      lit "(" ++ join_with (lit ", ") (map py_repr l) ++ (match l with [_] => lit "," | _ => []  end) ++ lit ")"
  | VFset l =>
      match l with
      | [] => lit "frozenset()"
      | _ => lit "frozenset({" ++ join_with (lit ", ") (map py_repr l) ++ lit "})"
      end
  end.

(* str(v) *)
Definition py_str (v : pval) : pystr :=
  match v with
  | VStr s => s
  | VEnum c m _ => c ++ lit "." ++ m
  | VPath p => p
  | _ => py_repr v
  end.

(* ---------- nodes ---------- *)
Inductive kshape := ShNone | ShOne | ShMany.      (* field value: None / a node / a tuple of nodes *)

Inductive node :=
  Node (a : nat)                                   (* object identity *)
       (c : pystr)                                 (* class name *)
       (o : origin)
       (ps : list (pystr * pval))                  (* property fields, declaration order *)
       (ks : list (pystr * (kshape * list node))). (* child fields, declaration order *)

Definition addr (n : node) : nat := match n with Node a _ _ _ _ => a end.
Definition cls (n : node) : pystr := match n with Node _ c _ _ _ => c end.
Definition norigin (n : node) : origin := match n with Node _ _ o _ _ => o end.
Definition nprops (n : node) : list (pystr * pval) := match n with Node _ _ _ ps _ => ps end.
Definition nkids (n : node) : list (pystr * (kshape * list node)) := match n with Node _ _ _ _ ks => ks end.

(* children held by one field value, with their index: None for a single child, 0.. for tuples *)
Fixpoint number_from {A} (i : nat) (l : list A) : list (A * nat) :=
  match l with [] => [] | x :: r => (x, i) :: number_from (S i) r end.
Definition field_children {A} (v : kshape * list A) : list (A * option nat) :=
  match v with
  | (ShNone, _) => []
  | (ShOne, l) => map (fun n => (n, None)) (firstn 1 l)
  | (ShMany, l) => map (fun p => (fst p, Some (snd p))) (number_from 0 l)
  end.

Fixpoint size (n : node) : nat :=
  match n with
  | Node _ _ _ _ ks => S (list_sum (map (fun k => list_sum (map size (snd (snd k)))) ks))
  end.

Fixpoint assoc {A} (k : pystr) (l : list (pystr * A)) : option A :=
  match l with
  | [] => None
  | (k', v) :: r => if pystr_eqb k' k then Some v else assoc k r
  end.

(* shape conformance of a node to its class declaration (what the dataclass constructor + annotations give) *)
Definition shape_ok (k : ckind) (v : kshape * list node) : bool :=
  match k, v with
  | KOpt true, (ShNone, []) => true
  | KOpt _, (ShOne, [_]) => true
  | KTup, (ShMany, _) => true
  | _, _ => false
  end.
Fixpoint zip_ok {A B} (p : A -> B -> bool) (x : list A) (y : list B) : bool :=
  match x, y with
  | [], [] => true
  | a :: x', b :: y' => p a b && zip_ok p x' y'
  | _, _ => false
  end.
Definition child_kind (f : fdecl) : ckind := match fd_role f with RChild k => k | RProp => KTup end.
Fixpoint wf_node (ct : ctable) (n : node) : bool :=
  match n with
  | Node _ c _ ps ks =>
    zip_ok (fun f p => pystr_eqb (fd_name f) (fst p)) (prop_fields ct c) ps
    && zip_ok (fun f k => pystr_eqb (fd_name f) (fst k) && shape_ok (child_kind f) (snd k)) (child_fields ct c) ks
    && forallb (fun k => forallb (wf_node ct) (snd (snd k))) ks
  end.
