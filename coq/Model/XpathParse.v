(* The xpath text: lexer and parser for xpath_grammar (match/xpath.py) as lark's LALR parser reads it, the
   embedded XPathTransformer (class lookup at the moment the class_spec rule is reduced, i.e. when the following
   token has been read and is "/" or the end), and ASTXpath.__init__'s error mapping.  Definitions only.
   The terminals "/", "@", "[", "]", CNAME, DIGIT never share a first character, so the contextual lexer
   chooses as a plain left-to-right lexer does; WS = [ \t\f\r\n]+ is ignored between tokens. *)
From Oak Require Export Model.PatParse.
From Coq Require Import List Bool Ascii Arith NArith.
Import ListNotations.

Inductive xtok := XSlash | XAt | XLb | XRb | XName (s : pystr) | XDigit (c : ascii) | XBad.

(* one pass over the characters; acc = the CNAME being read (reversed) *)
Definition flush (acc : option pystr) (k : list xtok) : list xtok :=
  match acc with Some n => XName (rev n) :: k | None => k end.
Fixpoint xlex (s : pystr) (acc : option pystr) : list xtok :=
  match s with
  | [] => flush acc []
  | c :: r =>
    match acc with
    | Some n => if cname_char c then xlex r (Some (c :: n)) else
                  flush acc (if is_ws c then xlex r None
                             else if Ascii.eqb c "/" then XSlash :: xlex r None
                             else if Ascii.eqb c "@" then XAt :: xlex r None
                             else if Ascii.eqb c "[" then XLb :: xlex r None
                             else if Ascii.eqb c "]" then XRb :: xlex r None
                             else [XBad])
    | None =>
      if is_ws c then xlex r None
      else if Ascii.eqb c "/" then XSlash :: xlex r None
      else if Ascii.eqb c "@" then XAt :: xlex r None
      else if Ascii.eqb c "[" then XLb :: xlex r None
      else if Ascii.eqb c "]" then XRb :: xlex r None
      else if cname_start c then xlex r (Some [c])
      else if is_digit c then XDigit c :: xlex r None
      else [XBad]
    end
  end.

(* one location step: "/" field_spec? index_spec? class_spec? *)
Record xstep := { xs_field : option pystr; xs_index : option pystr (* the DIGIT* inside [ ] *); xs_cls : option pystr }.

Inductive xerr := XSyntax | XUnknownClass | XNotNode.
Inductive xphase := PStart | PSlash | PAt | PField | PIdx | PIdxDone | PCls.
Record xst := { x_done : list xstep (* reversed *); x_f : option pystr; x_i : option pystr (* reversed digits *);
                x_c : option pystr; x_ph : xphase }.
Definition xinit : xst := {| x_done := []; x_f := None; x_i := None; x_c := None; x_ph := PStart |}.
Definition cur_step (st : xst) : xstep :=
  {| xs_field := x_f st; xs_index := option_map (@rev ascii) (x_i st); xs_cls := x_c st |}.

Section XParse.
  Variable chk : pystr -> option perr.            (* check_and_get_ast_node_type: None = a node class *)

  Definition xerr_of (e : perr) : xerr := match e with ENotNode => XNotNode | _ => XUnknownClass end.
  (* class_spec callback of the step being closed *)
  Definition close_step (st : xst) : list xstep + xerr :=
    match x_c st with
    | Some c => match chk c with Some e => inr (xerr_of e) | None => inl (cur_step st :: x_done st) end
    | None => inl (cur_step st :: x_done st)
    end.

  Definition xtrans (st : xst) (t : xtok) : xst + xerr :=
    let syn := inr XSyntax in
    let with_ph ph := inl {| x_done := x_done st; x_f := x_f st; x_i := x_i st; x_c := x_c st; x_ph := ph |} in
    match t with
    | XBad => syn
    | XSlash =>
      match x_ph st with
      | PStart => inl {| x_done := []; x_f := None; x_i := None; x_c := None; x_ph := PSlash |}
      | PAt | PIdx => syn
      | _ => match close_step st with
             | inl d => inl {| x_done := d; x_f := None; x_i := None; x_c := None; x_ph := PSlash |}
             | inr e => inr e
             end
      end
    | XAt => match x_ph st with PSlash => with_ph PAt | _ => syn end
    | XLb => match x_ph st with
             | PSlash | PField => inl {| x_done := x_done st; x_f := x_f st; x_i := Some []; x_c := None; x_ph := PIdx |}
             | _ => syn
             end
    | XDigit d => match x_ph st with
                  | PIdx => inl {| x_done := x_done st; x_f := x_f st; x_i := option_map (cons d) (x_i st); x_c := None; x_ph := PIdx |}
                  | _ => syn
                  end
    | XRb => match x_ph st with PIdx => with_ph PIdxDone | _ => syn end
    | XName n =>
      match x_ph st with
      | PAt => inl {| x_done := x_done st; x_f := Some n; x_i := None; x_c := None; x_ph := PField |}
      | PSlash | PField | PIdxDone =>
        inl {| x_done := x_done st; x_f := x_f st; x_i := x_i st; x_c := Some n; x_ph := PCls |}
      | _ => syn
      end
    end.

  Fixpoint xrun (ts : list xtok) (st : xst) : list xstep + xerr :=
    match ts with
    | [] => match x_ph st with
            | PCls => match close_step st with inl d => inl (rev d) | inr e => inr e end   (* self needs a class *)
            | _ => inr XSyntax
            end
    | t :: r => match xtrans st t with inl st' => xrun r st' | inr e => inr e end
    end.

  (* ASTXpath.__init__: relative paths get "//" in front *)
  Definition xnormalize (s : pystr) : pystr :=
    match s with "/"%char :: _ => s | _ => "/"%char :: "/"%char :: s end.
  Definition xparse (s : pystr) : list xstep + xerr := xrun (xlex (xnormalize s) None) xinit.
End XParse.

(* ------------------------------------------------------------------ XPathTransformer.xpath: the element list *)
Record xelem := { xe_cls : pystr; xe_field : option pystr; xe_index : option N; xe_anywhere : bool }.
Definition set_last_anywhere (l : list xelem) : list xelem :=
  match rev l with
  | e :: r => rev ({| xe_cls := xe_cls e; xe_field := xe_field e; xe_index := xe_index e; xe_anywhere := true |} :: r)
  | [] => []
  end.
(* element(): no children at all = (None, None, None); otherwise the class defaults to ASTNode,
   "[]" is index -1 = no index *)
Definition step_is_empty (s : xstep) : bool :=
  match xs_field s, xs_index s, xs_cls s with None, None, None => true | _, _, _ => false end.
Definition elem_of (s : xstep) : xelem :=
  {| xe_cls := match xs_cls s with Some c => c | None => astnode end;
     xe_field := xs_field s;
     xe_index := match xs_index s with Some (d :: ds) => Some (undecN (d :: ds)) | _ => None end;
     xe_anywhere := false |}.
Fixpoint xp_build (rsteps : list xstep) (ret : list xelem) : list xelem :=
  match rsteps with
  | [] => ret
  | s :: r => if step_is_empty s then xp_build r (set_last_anywhere ret) else xp_build r (ret ++ [elem_of s])
  end.
(* self._elements (root downwards) *)
Definition xp_elements (steps : list xstep) : list xelem := rev (xp_build (rev steps) []).

Definition xpath_compile (ct : ctable) (s : pystr) : list xelem + xerr :=
  match xparse (check_class ct) s with
  | inl steps => inl (xp_elements steps)
  | inr e => inr e
  end.
