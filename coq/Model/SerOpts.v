(* Executable model of the option handling of pyoak/serialize.py (+ the __post_serialize__ hooks of
   node.py and origin.py): the two class-level slots, the set / run / clear-in-finally wrapper of
   as_dict / as_obj, and the shaping of every nested mapping. Definitions only (plus Examples). *)
From Oak Require Export Base.PyStr.

(* ---------- JSON-like values (what to_dict produces; dicts keep insertion order) ---------- *)
Inductive sval :=
| JNull
| JBool (b : bool)
| JInt (z : Z)
| JFloat (repr : pystr)                 (* a float, by its repr; never interpreted *)
| JStr (s : pystr)
| JList (l : list sval)
| JMap (kv : list (pystr * sval)).

Fixpoint sval_eqb (a b : sval) : bool :=
  let fix go (x y : list sval) : bool :=
    match x, y with
    | [], [] => true
    | p :: x', q :: y' => sval_eqb p q && go x' y'
    | _, _ => false
    end in
  let fix gom (x y : list (pystr * sval)) : bool :=
    match x, y with
    | [], [] => true
    | (k, p) :: x', (k', q) :: y' => pystr_eqb k k' && sval_eqb p q && gom x' y'
    | _, _ => false
    end in
  match a, b with
  | JNull, JNull => true
  | JBool x, JBool y => Bool.eqb x y
  | JInt x, JInt y => Z.eqb x y
  | JFloat x, JFloat y => pystr_eqb x y
  | JStr x, JStr y => pystr_eqb x y
  | JList x, JList y => go x y
  | JMap x, JMap y => gom x y
  | _, _ => false
  end.

(* dict helpers on ordered association lists *)
Fixpoint jget (k : pystr) (kv : list (pystr * sval)) : option sval :=
  match kv with
  | [] => None
  | (k', v) :: r => if pystr_eqb k' k then Some v else jget k r
  end.
(* d[k] = v : replace in place when the key exists, append otherwise *)
Fixpoint jset (k : pystr) (v : sval) (kv : list (pystr * sval)) : list (pystr * sval) :=
  match kv with
  | [] => [(k, v)]
  | (k', v') :: r => if pystr_eqb k' k then (k', v) :: r else (k', v') :: jset k v r
  end.
(* d.pop(k, None) *)
Definition jpop (k : pystr) (kv : list (pystr * sval)) : list (pystr * sval) :=
  filter (fun p => negb (pystr_eqb (fst p) k)) kv.

(* ---------- the options of one call (serialization_options: a dict) ---------- *)
Inductive adialect := DExplorer | DTest.           (* ASTSerializationDialects *)
(* the four keys pyoak reads; None = key absent from the dict *)
Record optdict := { od_skip : option bool;         (* SerializationOption.SKIP_CLASS *)
                    od_sort : option bool;         (* SerializationOption.SORT_KEYS *)
                    od_dial : option adialect;     (* AST_SERIALIZE_DIALECT_KEY *)
                    od_sidx : option bool }.       (* SOURCE_OPTIMIZED_SERIALIZATION_KEY *)
Definition od_empty : optdict := {| od_skip := None; od_sort := None; od_dial := None; od_sidx := None |}.
Definition orelse {A} (b a : option A) : option A := match b with Some x => Some x | None => a end.
(* dict.update *)
Definition od_update (a b : optdict) : optdict :=
  {| od_skip := orelse (od_skip b) (od_skip a); od_sort := orelse (od_sort b) (od_sort a);
     od_dial := orelse (od_dial b) (od_dial a); od_sidx := orelse (od_sidx b) (od_sidx a) |}.

(* mashumaro dialects: the two built-in ones (no effect on the value kinds modelled) and one user dialect
   used as a probe: serialization_strategy = {int: "i" + decimal} *)
Inductive mdialect := MOrjson | MMsgpack | MUser.

(* DataClassSerializeMixin.__serialization_options / __mashumaro_dialect *)
Record slots := { sl_opts : optdict; sl_md : option mdialect }.
Definition slots0 : slots := {| sl_opts := od_empty; sl_md := None |}.

(* .get(key, False) *)
Definition bget (o : option bool) : bool := match o with Some b => b | None => false end.
Definition get_skip (s : slots) : bool := bget (od_skip (sl_opts s)).
Definition get_sort (s : slots) : bool := bget (od_sort (sl_opts s)).
Definition get_sidx (s : slots) : bool := bget (od_sidx (sl_opts s)).
Definition is_explorer (s : slots) : bool := match od_dial (sl_opts s) with Some DExplorer => true | _ => false end.
Definition is_test (s : slots) : bool := match od_dial (sl_opts s) with Some DTest => true | _ => false end.
Definition ints_as_str (s : slots) : bool := match sl_md s with Some MUser => true | _ => false end.

(* ---------- as_dict / as_obj : set (update), run, clear in finally ---------- *)
Inductive outcome (A : Type) := Return (v : A) | Raise.
Arguments Return {A} v.
Arguments Raise {A}.

(* how the wrapper is written. current = /repo. The other settings are the calibration mutants. *)
Record wrapper := { w_finally : bool;        (* the clearing sits in a finally block *)
                    w_clear_deser : bool }.  (* as_obj clears at all *)
Definition current_w : wrapper := {| w_finally := true; w_clear_deser := true |}.

Inductive direction := DirSer | DirDeser.

Definition set_slots (s : slots) (given : option optdict) (md : option mdialect) : slots :=
  {| sl_opts := match given with Some o => od_update (sl_opts s) o | None => sl_opts s end;
     sl_md := md |}.

(* one call; [run] stands for self._serialize() / cls._deserialize(value): it reads the slots and either
   returns or raises (at whatever nested object) *)
Definition call {A} (w : wrapper) (dir : direction) (given : option optdict) (md : option mdialect)
           (run : slots -> outcome A) (s : slots) : slots * outcome A :=
  let s1 := set_slots s given md in
  let r := run s1 in
  let clears := match dir with DirSer => true | DirDeser => w_clear_deser w end in
  match r with
  | Return _ => (if clears then slots0 else s1, r)
  | Raise => (if clears && w_finally w then slots0 else s1, r)
  end.

(* the format front-ends: bytes are decoded BEFORE as_obj is entered (from_json: orjson.loads(value) is an
   argument of the call), so undecodable input raises without touching the slots *)
Definition call_decoded {A} (w : wrapper) (decodable : bool) (given : option optdict) (md : option mdialect)
           (run : slots -> outcome A) (s : slots) : slots * outcome A :=
  if decodable then call w DirDeser given md run s else (s, Raise).

(* ---------- __post_serialize__ ---------- *)
Definition type_key : pystr := lit "__type".
Definition key_leb (a b : pystr * sval) : bool := pystr_leb (fst a) (fst b).
Definition sort_items (d : list (pystr * sval)) : list (pystr * sval) := isort key_leb d.

(* DataClassSerializeMixin.__post_serialize__ (serialize.py:88-105) *)
Definition base_post (s : slots) (cls : pystr) (d : list (pystr * sval)) : list (pystr * sval) :=
  (if get_skip s then [] else [(type_key, JStr cls)]) ++ (if get_sort s then sort_items d else d).

(* the stub the test dialect writes into out["origin"]["source"] (node.py:316-331).
   [fixed] = true: the code after the D20/D21 repair (keys in sorted order, no tag under SKIP_CLASS);
   false: the literal before it (tag always, source_uri before source_type). *)
Definition test_stub (fixed : bool) (s : slots) : sval :=
  if fixed then
    JMap ((if get_skip s then [] else [(type_key, JStr (lit "Source"))])
          ++ [(lit "source_type", JStr []); (lit "source_uri", JStr [])])
  else JMap [(type_key, JStr (lit "Source")); (lit "source_uri", JStr []); (lit "source_type", JStr [])].
(* out.get("origin", {})["source"] = stub *)
Definition stub_origin_source (stub : sval) (out : list (pystr * sval)) : list (pystr * sval) :=
  match jget (lit "origin") out with
  | Some (JMap o) => jset (lit "origin") (JMap (jset (lit "source") stub o)) out
  | _ => out
  end.

(* which repairs the node hook contains. current = /repo. *)
Record nvariant := { v_d16 : bool;     (* _children is added before the base hook sorts *)
                     v_stub : bool }.  (* D20/D21: the test stub honours skip_class and sort_keys *)
Definition current_nv : nvariant := {| v_d16 := true; v_stub := true |}.

(* ASTNode.__post_serialize__ (node.py:307-333) *)
Definition children_key : pystr := lit "_children".
Definition node_post (nv : nvariant) (s : slots) (cls : pystr) (child_fields : list pystr) (d : list (pystr * sval))
  : list (pystr * sval) :=
  let ch := (children_key, JList (map JStr child_fields)) in
  let out :=
    if is_explorer s then
      if v_d16 nv then base_post s cls (d ++ [ch]) else base_post s cls d ++ [ch]
    else base_post s cls d in
  if is_test s then stub_origin_source (test_stub (v_stub nv) s) out else out.

(* Source.__post_serialize__ (origin.py:80-83) *)
Definition source_post (s : slots) (cls : pystr) (d : list (pystr * sval)) : list (pystr * sval) :=
  jpop (lit "_raw") (base_post s cls d).

(* ---------- observables / checkers on outputs ---------- *)
(* ordered key lists of every nested mapping, in pre-order *)
Fixpoint key_lists (v : sval) : list (list pystr) :=
  let fix go (l : list sval) : list (list pystr) :=
    match l with [] => [] | x :: r => key_lists x ++ go r end in
  let fix gom (kv : list (pystr * sval)) : list (list pystr) :=
    match kv with [] => [] | (_, x) :: r => key_lists x ++ gom r end in
  match v with
  | JList l => go l
  | JMap kv => map fst kv :: gom kv
  | _ => []
  end.

(* a predicate holds of the key list of EVERY nested mapping *)
Inductive all_maps (P : list (pystr * sval) -> Prop) : sval -> Prop :=
| am_null : all_maps P JNull
| am_bool b : all_maps P (JBool b)
| am_int z : all_maps P (JInt z)
| am_float r : all_maps P (JFloat r)
| am_str s : all_maps P (JStr s)
| am_list l : Forall (all_maps P) l -> all_maps P (JList l)
| am_map kv : P kv -> Forall (fun p => all_maps P (snd p)) kv -> all_maps P (JMap kv).

Fixpoint all_mapsb (p : list (pystr * sval) -> bool) (v : sval) : bool :=
  let fix go (l : list sval) : bool :=
    match l with [] => true | x :: r => all_mapsb p x && go r end in
  let fix gom (kv : list (pystr * sval)) : bool :=
    match kv with [] => true | (_, x) :: r => all_mapsb p x && gom r end in
  match v with
  | JList l => go l
  | JMap kv => p kv && gom kv
  | _ => true
  end.

Fixpoint sorted_keys (l : list pystr) : bool :=
  match l with
  | [] => true
  | x :: r => match r with [] => true | y :: _ => pystr_leb x y && sorted_keys r end
  end.
(* "lists the type tag first and the remaining keys in sorted order" *)
Definition tag_first_sorted (kv : list (pystr * sval)) : bool :=
  match kv with
  | [] => true
  | (k, _) :: r => if pystr_eqb k type_key then sorted_keys (map fst r) else sorted_keys (map fst kv)
  end.
Definition has_tag (kv : list (pystr * sval)) : bool := existsb (fun p => pystr_eqb (fst p) type_key) kv.
Definition no_tag (kv : list (pystr * sval)) : bool := negb (has_tag kv).
(* "carries one, other than the empty placeholders and index references" *)
Definition is_idx_ref (kv : list (pystr * sval)) : bool :=
  match kv with [(k, JInt _)] => pystr_eqb k (lit "idx") | _ => false end.
Definition tagged_or_placeholder (kv : list (pystr * sval)) : bool :=
  match kv with
  | [] => true
  | (k, _) :: _ => pystr_eqb k type_key || is_idx_ref kv
  end.

(* malformed input "at any depth": the k-th nested mapping (pre-order) gets an unknown class name, or,
   [drop_id], loses its "id" key *)
Inductive corruption := CBadType | CDropId | CNotAMap.
Definition corrupt_map (c : corruption) (kv : list (pystr * sval)) : sval :=
  match c with
  | CBadType => JMap (jset type_key (JStr (lit "NoSuchClass__")) kv)
  | CDropId => JMap (jpop (lit "id") kv)
  | CNotAMap => JInt 5
  end.
(* returns the remaining count (None = done) and the new value *)
Fixpoint corrupt (c : corruption) (v : sval) (k : nat) : option nat * sval :=
  let fix go (l : list sval) (k : option nat) : option nat * list sval :=
    match l with
    | [] => (k, [])
    | x :: r =>
      match k with
      | None => (None, l)
      | Some k' => let '(k1, x') := corrupt c x k' in let '(k2, r') := go r k1 in (k2, x' :: r')
      end
    end in
  let fix gom (kv : list (pystr * sval)) (k : option nat) : option nat * list (pystr * sval) :=
    match kv with
    | [] => (k, [])
    | (f, x) :: r =>
      match k with
      | None => (None, kv)
      | Some k' => let '(k1, x') := corrupt c x k' in let '(k2, r') := gom r k1 in (k2, (f, x') :: r')
      end
    end in
  match v with
  | JList l => let '(k', l') := go l (Some k) in (k', JList l')
  | JMap kv =>
    match k with
    | 0 => (None, corrupt_map c kv)
    | S k' => let '(k2, kv') := gom kv (Some k') in (k2, JMap kv')
    end
  | _ => (Some k, v)
  end.

Example ex_base_post_sorted :
  base_post {| sl_opts := {| od_skip := None; od_sort := Some true; od_dial := None; od_sidx := None |}; sl_md := None |}
            (lit "A") [(lit "b", JInt 1); (lit "a", JInt 2)]
  = [(type_key, JStr (lit "A")); (lit "a", JInt 2); (lit "b", JInt 1)].
Proof. vm_compute. reflexivity. Qed.
