(* Executable model of pyoak/origin.py: code points, ranges, sources, origins, + / merge / concat, fqn.
   Definitions only (plus Examples); proofs live in Proofs/OriginProofs.v. *)
From Oak Require Export Base.PyStr.
Local Open Scope Z_scope.

(* ---------- CodePoint (origin.py:493-537) ---------- *)
Record point := { p_idx : Z; p_line : Z; p_col : Z }.

(* CodePoint.__post_init__ *)
Definition mk_point (i l c : Z) : option point :=
  if i <? 0 then None else if l <? 1 then None else if c <? 0 then None
  else Some {| p_idx := i; p_line := l; p_col := c |}.

Definition p_lt (a b : point) : bool := p_idx a <? p_idx b.      (* __lt__ *)
Definition p_le (a b : point) : bool := p_idx a <=? p_idx b.     (* __le__ *)
(* a > b and a >= b are evaluated by Python through the reflected methods of b *)
Definition p_gt (a b : point) : bool := p_lt b a.
Definition p_ge (a b : point) : bool := p_le b a.
Definition point_eqb (a b : point) : bool :=                     (* dataclass __eq__ *)
  (p_idx a =? p_idx b) && (p_line a =? p_line b) && (p_col a =? p_col b).

(* builtin min(a, b): b if b < a else a ; max(a, b): b if b > a else a *)
Definition pmin (a b : point) : point := if p_lt b a then b else a.
Definition pmax (a b : point) : point := if p_gt b a then b else a.

(* ---------- CodeRange (origin.py:540-590) ---------- *)
Record range := { r_start : point; r_end : point }.

Definition mk_range (s e : point) : option range :=              (* __post_init__: start > end raises *)
  if p_gt s e then None else Some {| r_start := s; r_end := e |}.

Definition overlaps (a b : range) : bool := p_ge (r_end a) (r_start b) && p_le (r_start a) (r_end b).
Definition contains (a b : range) : bool := p_le (r_start a) (r_start b) && p_le (r_end b) (r_end a).
Definition r_lt (a b : range) : bool := p_lt (r_end a) (r_start b).
Definition r_le (a b : range) : bool := p_le (r_end a) (r_start b).
Definition hull (a b : range) : option range :=                  (* __add__ *)
  mk_range (pmin (r_start a) (r_start b)) (pmax (r_end a) (r_end b)).
Definition range_eqb (a b : range) : bool :=
  point_eqb (r_start a) (r_start b) && point_eqb (r_end a) (r_end b).
Definition range_fqn (r : range) : pystr := decZ (p_idx (r_start r)) ++ lit "-" ++ decZ (p_idx (r_end r)).

Definition empty_point : point := {| p_idx := 0; p_line := 1; p_col := 0 |}.
Definition empty_range : range := {| r_start := empty_point; r_end := empty_point |}.

(* ---------- sources ---------- *)
(* raw text of a memory source is kept as a list of characters (one element per code point) and is
   not part of source equality (compare=False) *)
Inductive source :=
| SNo
| SText (uri ty : pystr)                     (* TextSource / Source(source_uri, source_type) *)
| SMem (uri : pystr) (raw : option pystr)    (* MemoryTextSource(source_uri=uri, _raw=raw) *)
| SFile (posix : pystr)                      (* FileSource(Path) *)
| SSet (l : list source).

Fixpoint source_eqb (a b : source) : bool :=
  let fix go (x y : list source) : bool :=
    match x, y with
    | [], [] => true
    | p :: x', q :: y' => source_eqb p q && go x' y'
    | _, _ => false
    end in
  match a, b with
  | SNo, SNo => true
  | SText u t, SText u' t' => pystr_eqb u u' && pystr_eqb t t'
  | SMem u _, SMem u' _ => pystr_eqb u u'
  | SFile p, SFile p' => pystr_eqb p p'
  | SSet l, SSet l' => go l l'
  | _, _ => false
  end.

Fixpoint join (sep : pystr) (l : list pystr) : pystr :=
  match l with
  | [] => []
  | [x] => x
  | x :: r => x ++ sep ++ join sep r
  end.

Fixpoint source_fqn (s : source) : pystr :=
  match s with
  | SNo => lit "NoSource"
  | SText u _ => u
  | SMem u _ => u
  | SFile p => p
  | SSet l => lit "SourceSet(" ++ join (lit "||") (map source_fqn l) ++ lit ")"
  end.

Definition source_raw (s : source) : option pystr :=
  match s with SMem _ r => r | _ => None end.

(* ---------- origins ---------- *)
Inductive origin :=
| ONo
| OCode (s : source) (r : range)             (* CodeOrigin *)
| OGen (s : source)                          (* GeneratedCodeOrigin; position = EMPTY_CODE_RANGE *)
| OXml (s : source) (xpath : pystr)          (* XMLFileOrigin *)
| OEntire (s : source)                       (* Origin(source, EntireSourcePosition()) *)
| OMulti (l : list origin).                  (* MultiOrigin(origins=l); source/position derived *)

Fixpoint origin_eqb (a b : origin) : bool :=
  let fix go (x y : list origin) : bool :=
    match x, y with
    | [], [] => true
    | p :: x', q :: y' => origin_eqb p q && go x' y'
    | _, _ => false
    end in
  match a, b with
  | ONo, ONo => true
  | OCode s r, OCode s' r' => source_eqb s s' && range_eqb r r'
  | OGen s, OGen s' => source_eqb s s'
  | OXml s p, OXml s' p' => source_eqb s s' && pystr_eqb p p'
  | OEntire s, OEntire s' => source_eqb s s'
  | OMulti l, OMulti l' => go l l'
  | _, _ => false
  end.

Definition all_same_source (first : source) (rest : list source) : bool :=
  forallb (fun s => source_eqb s first) rest.

(* MultiOrigin.__post_init__: common source or a SourceSet in operand order *)
Definition multi_source (srcs : list source) : source :=
  match srcs with
  | [] => SNo
  | s0 :: rest => if all_same_source s0 rest then s0 else SSet srcs
  end.

Fixpoint osource (o : origin) : source :=
  match o with
  | ONo => SNo
  | OCode s _ | OGen s | OXml s _ | OEntire s => s
  | OMulti l => multi_source (map osource l)
  end.

Fixpoint pos_fqn (o : origin) : pystr :=
  match o with
  | ONo => lit "NoPosition"
  | OCode _ r => range_fqn r
  | OGen _ => range_fqn empty_range
  | OXml _ p => p
  | OEntire _ => lit "(entire source)"
  | OMulti l => lit "PositionSet(" ++ join (lit "||") (map pos_fqn l) ++ lit ")"
  end.

Definition ofqn (o : origin) : pystr :=
  match o with
  | ONo => lit "NoOrigin"
  | _ => source_fqn (osource o) ++ lit "::" ++ pos_fqn o
  end.

(* position of a CodeOrigin instance (CodeOrigin or its subclass GeneratedCodeOrigin) *)
Definition code_pos (o : origin) : option (source * range) :=
  match o with
  | OCode s r => Some (s, r)
  | OGen s => Some (s, empty_range)
  | _ => None
  end.

(* merge_origins (origin.py:732-757) *)
Definition flatten1 (o : origin) : list origin :=
  match o with
  | ONo => []
  | OMulti l => l
  | _ => [o]
  end.
Definition merge (l : list origin) : origin :=
  match l with
  | [o] => o
  | _ => match flat_map flatten1 l with
         | [] => ONo
         | [o] => o
         | l' => OMulti l'
         end
  end.

(* Origin.__add__ / CodeOrigin.__add__ (origin.py:221, 688-695). None = the constructor of the hull raised. *)
Definition add (a b : origin) : option origin :=
  match code_pos a, code_pos b with
  | Some (sa, ra), Some (sb, rb) =>
      if source_eqb sa sb && overlaps ra rb
      then match hull ra rb with Some h => Some (OCode sa h) | None => None end
      else Some (merge [a; b])
  | _, _ => Some (merge [a; b])
  end.

(* concat_origins (origin.py:760-774) *)
Fixpoint concat_from (acc : origin) (l : list origin) : option origin :=
  match l with
  | [] => Some acc
  | o :: r => match add acc o with Some acc' => concat_from acc' r | None => None end
  end.
Definition concat (o : origin) (l : list origin) : option origin := concat_from o l.

(* str slice code[a:b] for 0 <= a, 0 <= b *)
Definition slice (text : pystr) (a b : Z) : pystr :=
  firstn (Z.to_nat (b - a)) (skipn (Z.to_nat a) text).

(* get_raw: CodeOrigin slices a str source; everything else is None, MultiOrigin lists its members' *)
Inductive rawv := RNone | RStr (s : pystr) | RList (l : list rawv).
Fixpoint get_raw (o : origin) : rawv :=
  match o with
  | OCode s r => match source_raw s with
                 | Some t => RStr (slice t (p_idx (r_start r)) (p_idx (r_end r)))
                 | None => RNone
                 end
  | OMulti l => RList (map get_raw l)
  | _ => RNone
  end.

(* ---------- well-formedness (what the constructors guarantee) ---------- *)
Definition wf_point (p : point) : Prop := 0 <= p_idx p /\ 1 <= p_line p /\ 0 <= p_col p.
Definition wf_range (r : range) : Prop := wf_point (r_start r) /\ wf_point (r_end r) /\ p_idx (r_start r) <= p_idx (r_end r).
Definition simple (o : origin) : bool := match o with ONo | OMulti _ => false | _ => true end.
(* a flat origin: not a multi, or a multi of at least two simple members *)
Definition flat (o : origin) : Prop :=
  match o with
  | OMulti l => (2 <= length l)%nat /\ forallb simple l = true
  | _ => True
  end.
