(* The pattern text: a hand-written lexer/parser for PATTERN_DEF_GRAMMAR (match/grammar.py) as lark's LALR parser
   with the contextual lexer reads it, and the three entry points of pattern.py with their error mapping.
   Definitions only.
   Lexing is done on demand by the parser (that is what "contextual" means: in every parser state only the
   terminals that can follow are tried).  In this grammar the terminals that can follow each other never share a
   first character, so the choice is always decided by the next character:
     WS (ignored between tokens): [ \t\f\r\n]+          CNAME: [_A-Za-z][_A-Za-z0-9]*   (CLASS, FIELD_NAME)
     CAPTURE_KEY: [_a-z]*[a-z]  (regex backtracking: the longest run of [_a-z] minus its trailing underscores)
     NONE: the four characters None                      ANY: *
     ESCAPED_STRING: the opening quote up to the first quote preceded by an even number of backslashes, no newline inside. *)
From Oak Require Export Model.Pattern.
From Oak Require Import Base.Term.
From Coq Require Import List Bool Ascii Arith.
Import ListNotations.

Definition is_ws (c : ascii) : bool :=
  let n := nat_of_ascii c in Nat.eqb n 32 || Nat.eqb n 9 || Nat.eqb n 12 || Nat.eqb n 13 || Nat.eqb n 10.
Definition is_lower (c : ascii) : bool := let n := nat_of_ascii c in Nat.leb 97 n && Nat.leb n 122.
Definition is_upper (c : ascii) : bool := let n := nat_of_ascii c in Nat.leb 65 n && Nat.leb n 90.
Definition is_us (c : ascii) : bool := Nat.eqb (nat_of_ascii c) 95.
Definition cname_start (c : ascii) : bool := is_us c || is_lower c || is_upper c.
Definition cname_char (c : ascii) : bool := cname_start c || is_digit c.
Definition capkey_char (c : ascii) : bool := is_us c || is_lower c.

Fixpoint skip_ws (s : pystr) : pystr :=
  match s with
  | c :: r => if is_ws c then skip_ws r else s
  | [] => []
  end.

(* CNAME *)
Definition lex_cname (s : pystr) : option (pystr * pystr) :=
  match s with
  | c :: r => if cname_start c then let '(a, b) := span cname_char r in Some (c :: a, b) else None
  | [] => None
  end.

(* CAPTURE_KEY: drop the trailing underscores of the run; they stay in the input *)
Fixpoint strip_us (rev_run : pystr) (back : pystr) : pystr * pystr :=
  match rev_run with
  | c :: r => if is_us c then strip_us r (c :: back) else (rev rev_run, back)
  | [] => ([], back)
  end.
Definition lex_capkey (s : pystr) : option (pystr * pystr) :=
  let '(run, rest) := span capkey_char s in
  let '(key, back) := strip_us (rev run) [] in
  match key with
  | [] => None
  | _ => Some (key, back ++ rest)
  end.

(* ESCAPED_STRING after its opening quote: the raw inner text; odd = an odd number of backslashes just before *)
Fixpoint lex_string (s : pystr) (odd : bool) : option (pystr * pystr) :=
  match s with
  | [] => None
  | c :: r =>
    let n := nat_of_ascii c in
    if Nat.eqb n 10 then None
    else if Nat.eqb n 34 then
      if odd then match lex_string r false with Some (a, b) => Some (c :: a, b) | None => None end
      else Some ([], r)
    else match lex_string r (if Nat.eqb n 92 then negb odd else false) with
         | Some (a, b) => Some (c :: a, b)
         | None => None
         end
  end.

(* optional capture: "->" CAPTURE_KEY *)
Definition p_capture (s : pystr) : option (option pystr * pystr) :=
  match skip_ws s with
  | "-"%char :: ">"%char :: r =>
    match lex_capkey (skip_ws r) with
    | Some (k, rest) => Some (Some k, rest)
    | None => None
    end
  | _ => Some (None, s)
  end.

(* CLASS ("|" CLASS)*  after the first CLASS *)
Fixpoint p_more_classes (fuel : nat) (s : pystr) : option (list pystr * pystr) :=
  match fuel with
  | 0 => None
  | S k =>
    match skip_ws s with
    | "|"%char :: r =>
      match lex_cname (skip_ws r) with
      | Some (c, rest) =>
        match p_more_classes k rest with
        | Some (cs, rest') => Some (c :: cs, rest')
        | None => None
        end
      | None => None
      end
    | _ => Some ([], s)
    end
  end.

Definition p_class_spec (s : pystr) : option (option (list pystr) * pystr) :=
  match skip_ws s with
  | "*"%char :: r => Some (None, r)
  | s' =>
    match lex_cname s' with
    | Some (c, rest) =>
      match p_more_classes (S (length rest)) rest with
      | Some (cs, rest') => Some (Some (c :: cs), rest')
      | None => None
      end
    | None => None
    end
  end.

(* tree / field_spec* / sequence / value, by descent; every call consumes input, fuel = length of the text *)
Fixpoint p_tree (fuel : nat) (s : pystr) {struct fuel} : option (pat * pystr) :=
  match fuel with
  | 0 => None
  | S k =>
    match skip_ws s with
    | "("%char :: r =>
      match p_class_spec r with
      | Some (cls, r1) =>
        match p_fields k r1 with
        | Some (fs, r2) => Some (PTree cls fs, r2)
        | None => None
        end
      | None => None
      end
    | _ => None
    end
  end
with p_fields (fuel : nat) (s : pystr) {struct fuel} : option (list (pystr * fspec) * pystr) :=
  match fuel with
  | 0 => None
  | S k =>
    match skip_ws s with
    | ")"%char :: r => Some ([], r)
    | "@"%char :: r =>
      match lex_cname (skip_ws r) with
      | Some (f, r1) =>
        match (match skip_ws r1 with
               | "="%char :: r2 =>
                 match skip_ws r2 with
                 | "["%char :: r3 =>
                   match p_seq k r3 with
                   | Some (items, tail, r4) =>
                     match p_capture r4 with
                     | Some (cap, r5) => Some (FSeq items tail cap, r5)
                     | None => None
                     end
                   | None => None
                   end
                 | _ =>
                   match p_value k r2 with
                   | Some (v, r4) =>
                     match p_capture r4 with
                     | Some (cap, r5) => Some (FVal v cap, r5)
                     | None => None
                     end
                   | None => None
                   end
                 end
               | _ =>
                 match p_capture r1 with
                 | Some (cap, r5) => Some (FAny cap, r5)
                 | None => None
                 end
               end) with
        | Some (spec, r6) =>
          match p_fields k r6 with
          | Some (fs, r7) => Some ((f, spec) :: fs, r7)
          | None => None
          end
        | None => None
        end
      | None => None
      end
    | _ => None
    end
  end
with p_seq (fuel : nat) (s : pystr) {struct fuel}
  : option (list (vpat * option pystr) * option (option pystr) * pystr) :=
  match fuel with
  | 0 => None
  | S k =>
    match skip_ws s with
    | "]"%char :: r => Some ([], None, r)
    | "*"%char :: r =>
      match p_capture r with
      | Some (cap, r1) =>
        match skip_ws r1 with
        | "]"%char :: r2 => Some ([], Some cap, r2)
        | _ => None
        end
      | None => None
      end
    | _ =>
      match p_value k s with
      | Some (v, r1) =>
        match p_capture r1 with
        | Some (cap, r2) =>
          match p_seq k r2 with
          | Some (items, tail, r3) => Some ((v, cap) :: items, tail, r3)
          | None => None
          end
        | None => None
        end
      | None => None
      end
    end
  end
with p_value (fuel : nat) (s : pystr) {struct fuel} : option (vpat * pystr) :=
  match fuel with
  | 0 => None
  | S k =>
    match skip_ws s with
    | "("%char :: _ =>
      match p_tree k s with
      | Some (p, r) => Some (VTree p, r)
      | None => None
      end
    | "$"%char :: r =>
      match lex_capkey (skip_ws r) with
      | Some (x, r1) => Some (VVar x, r1)
      | None => None
      end
    | "N"%char :: "o"%char :: "n"%char :: "e"%char :: r => Some (VNoneP, r)
    | """"%char :: r =>
      match lex_string r false with
      | Some (re, r1) => Some (VRegex re, r1)
      | None => None
      end
    | _ => None
    end
  end.

(* pattern_def_parser.parse(text): start symbol tree, then only white space *)
Definition parse_pattern (s : pystr) : option pat :=
  match p_tree (4 + 2 * length s) s with
  | Some (p, rest) => match skip_ws rest with [] => Some p | _ => None end
  | None => None
  end.

(* ------------------------------------------------------------------ entry points *)
Section Entry.
  Variable ct : ctable.
  Variable re_ok : pystr -> bool.

  (* parse, then PatternDefInterpreter().visit *)
  Definition compile_text (s : pystr) : matcher + perr :=
    match parse_pattern s with
    | None => inr ESyntax
    | Some p => compile ct re_ok true p
    end.

  (* validate_pattern: (True, "Valid pattern definition") | (False, message) *)
  Definition validate_pattern (s : pystr) : option perr :=
    match compile_text s with inl _ => None | inr e => Some e end.

  (* NodeMatcher.from_pattern with _MATCHER_CACHE *)
  Definition pcache := cache pystr matcher.
  Definition from_pattern (c : pcache) (s : pystr) : pcache * (matcher + perr) :=
    from_key pystr matcher perr pystr_eqb compile_text c s.

  (* MultiPatternMatcher.__init__ *)
  Inductive multi_err := MNamesNotUnique | MIncorrect (bad : list (pystr * perr)).
  Fixpoint nodupb (l : list pystr) : bool :=
    match l with [] => true | x :: r => negb (mem x r) && nodupb r end.
  Fixpoint multi_compile (c : pcache) (defs : list (pystr * pystr))
    : pcache * list (pystr * matcher) * list (pystr * perr) :=
    match defs with
    | [] => (c, [], [])
    | (name, text) :: r =>
      let '(c1, res) := from_pattern c text in
      let '(c2, good, bad) := multi_compile c1 r in
      match res with
      | inl m => (c2, (name, m) :: good, bad)
      | inr e => (c2, good, (name, e) :: bad)
      end
    end.
  Definition multi_new (c : pcache) (defs : list (pystr * pystr)) : pcache * (list (pystr * matcher) + multi_err) :=
    if negb (nodupb (map fst defs)) then (c, inr MNamesNotUnique)
    else let '(c', good, bad) := multi_compile c defs in
         match bad with
         | [] => (c', inl good)
         | _ => (c', inr (MIncorrect bad))
         end.
End Entry.
