(* Class tables: what a family of ASTNode dataclasses declares. Definitions only. *)
From Oak Require Export Base.PyStr.

Inductive ckind := KOpt (optional : bool) | KTup.          (* X / X|None ; tuple[X, ...] or tuple[X, Y] *)
Inductive frole := RProp | RChild (k : ckind).
Record fdecl := { fd_name : pystr; fd_role : frole; fd_compare : bool; fd_init : bool; fd_kwonly : bool }.
Record cdecl := { cd_name : pystr;
                  cd_bases : list pystr;    (* MRO tail, nearest base first, ASTNode excluded *)
                  cd_own : list fdecl }.    (* fields declared (or overridden) in this class, in order *)
Definition ctable := list cdecl.

Fixpoint find_class (ct : ctable) (c : pystr) : option cdecl :=
  match ct with
  | [] => None
  | d :: r => if pystr_eqb (cd_name d) c then Some d else find_class r c
  end.

(* dataclasses merge: walk the MRO from the most basic class; a re-declared field keeps its
   original position and takes the new declaration *)
Fixpoint upsert (f : fdecl) (l : list fdecl) : list fdecl :=
  match l with
  | [] => [f]
  | g :: r => if pystr_eqb (fd_name g) (fd_name f) then f :: r else g :: upsert f r
  end.
Definition merge_fields (acc own : list fdecl) : list fdecl := fold_left (fun a f => upsert f a) own acc.

Definition own_of (ct : ctable) (c : pystr) : list fdecl :=
  match find_class ct c with Some d => cd_own d | None => [] end.

(* user fields of class c (the three built-in fields id, content_id, origin are handled separately) *)
Definition fields_of (ct : ctable) (c : pystr) : list fdecl :=
  match find_class ct c with
  | None => []
  | Some d => fold_left (fun acc b => merge_fields acc (own_of ct b)) (rev (cd_name d :: cd_bases d)) []
  end.

Definition is_prop (f : fdecl) : bool := match fd_role f with RProp => true | _ => false end.
Definition is_child (f : fdecl) : bool := negb (is_prop f).
Definition prop_fields (ct : ctable) (c : pystr) : list fdecl := filter is_prop (fields_of ct c).
Definition child_fields (ct : ctable) (c : pystr) : list fdecl := filter is_child (fields_of ct c).

(* isinstance(obj of class c, d): d is c or one of its bases; everything is an ASTNode *)
Definition astnode : pystr := lit "ASTNode".
Definition subclass (ct : ctable) (c d : pystr) : bool :=
  pystr_eqb d astnode || pystr_eqb c d ||
  match find_class ct c with
  | Some cd => existsb (pystr_eqb d) (cd_bases cd)
  | None => false
  end.
(* the MRO without object: own class, bases, ASTNode *)
Definition mro (ct : ctable) (c : pystr) : list pystr :=
  match find_class ct c with
  | Some cd => c :: cd_bases cd ++ [astnode]
  | None => [c; astnode]
  end.

Definition by_name (f g : fdecl) : bool := pystr_leb (fd_name f) (fd_name g).
Definition sort_fields (l : list fdecl) : list fdecl := isort by_name l.
