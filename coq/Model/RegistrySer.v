(* as_dict / as_obj as far as the REGISTRY is concerned (node.py `_deserialize`; the JSON itself is C04's Model/Serial.v).
   Since the third round the definitions live in Model/Registry.v, because `AsDict src slot` / `AsObj slot dst` are
   operations of `step` / `run` there:
     sval, ser, ser_st   the id-carrying value of a held tree (as_dict)
     with_id, force_id   the forced-id branch; `force_id true` = the code in /repo (the serialized id is forced only while
                         it is free, otherwise the new node keeps the unique id it was just given), `force_id false` = the
                         code before the repair (overwrite whatever entry the id has meanwhile got)
     deser               ASTNode._deserialize: a registered id is answered by the registered node (WHATEVER node that is),
                         otherwise the children are read, then the node is built (fresh id by the usual rule, the class's
                         own validation included) and the serialized id is forced when the fresh one differs
     sdepth              the fuel `S (sdepth v)` used by `step_raw` (Proofs/RegistrySerProofs.v: never exhausted)
   This file re-exports them and keeps worked examples (vm_compute). *)
From Oak Require Export Model.Registry.

Definition ser_ct : ctable :=
  [{| cd_name := lit "A"; cd_bases := [];
      cd_own := [{| fd_name := lit "v"; fd_role := RProp; fd_compare := true; fd_init := true; fd_kwonly := false |}] |};
   {| cd_name := lit "B"; cd_bases := [];
      cd_own := [{| fd_name := lit "xs"; fd_role := RChild KTup; fd_compare := true; fd_init := true; fd_kwonly := false |}] |}].
Definition ser_H (s : pystr) : pystr := firstn 2 (rev s).
Definition ser_leaf (dst : nat) (v : Z) : op := New dst (lit "A") ONo [(lit "v", VInt v)] [].

(* x = A(1); y = A(2); p = B((x, y)); d = p.as_dict(); del p, y; q = B.as_obj(d): x is alive and comes back as the very
   same object (address 0), y and p are new objects (addresses 3, 4) carrying the serialized ids *)
Definition ser_ops : list op :=
  [ser_leaf 0 1; ser_leaf 1 2; New 2 (lit "B") ONo [] [(lit "xs", (ShMany, [(0, 0); (1, 0)]))];
   AsDict (2, 0) 0; Drop 2; Drop 1; AsObj 0 3].
Example ser_partly_alive :
  let s := run ser_H ser_ct (fun _ _ => false) true (init_st 4) ser_ops in
  vars s = [Some 0; None; None; Some 4] /\ tree_of s 4 = [4; 0; 3] /\ length (heap s) = 5 /\
  option_map k_id (cell_at s 4) = option_map k_id (cell_at s 2) /\
  option_map k_id (cell_at s 3) = option_map k_id (cell_at s 1) /\
  map snd (reg s) = [4; 3; 0].
Proof. vm_compute. repeat split. Qed.
(* while everything is alive the very same object comes back and nothing is built *)
Example ser_all_alive :
  let s := run ser_H ser_ct (fun _ _ => false) true (init_st 4)
               [ser_leaf 0 1; ser_leaf 1 2; New 2 (lit "B") ONo [] [(lit "xs", (ShMany, [(0, 0); (1, 0)]))]; AsDict (2, 0) 7; AsObj 7 3] in
  vars s = [Some 0; Some 1; Some 2; Some 2] /\ length (heap s) = 3.
Proof. vm_compute. repeat split. Qed.
