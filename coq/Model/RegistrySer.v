(* as_dict / as_obj as far as the REGISTRY is concerned (node.py:258-283 `_deserialize`; the JSON itself is C04's
   Model/Serial.v).  A serialized tree is a value carrying the id of every node.  Reading it back returns the
   registered node when the id is registered (WHATEVER node that is), otherwise builds the children, then the node
   (fresh id by the usual rule, the class's own validation included) and, when the fresh id differs from the
   serialized one, pops the fresh id, writes the serialized id into the new node and registers it under that id -
   overwriting whatever entry the id has meanwhile got (it can only have got one from a node read further down the same
   value).  Definitions only. *)
From Oak Require Export Model.Registry.

Inductive sval := SNode (i : pystr) (c : pystr) (o : origin) (ps : list (pystr * pval))
                        (ks : list (pystr * (kshape * list sval))).

(* as_dict of the tree under address a *)
Fixpoint ser (hp : list cell) (fuel : nat) (a : nat) : option sval :=
  match fuel with
  | 0 => None
  | S f => match nth_error hp a with
           | None => None
           | Some c =>
             match mapO (fun k : pystr * (kshape * list nat) =>
                           option_map (fun l => (fst k, (fst (snd k), l))) (mapO (ser hp f) (snd (snd k)))) (k_kids c) with
             | Some ks => Some (SNode (k_id c) (k_cls c) (k_org c) (k_props c) ks)
             | None => None
             end
           end
  end.
Definition ser_st (s : st) (a : nat) : option sval := ser (heap s) (S a) a.

Definition with_id (c : cell) (i : pystr) : cell :=
  {| k_cls := k_cls c; k_org := k_org c; k_props := k_props c; k_kids := k_kids c; k_id := i; k_cid := k_cid c |}.

(* NODE_REGISTRY.pop(new_obj.id); object.__setattr__(new_obj, "id", i); NODE_REGISTRY[i] = new_obj.
   Ghost: a node whose entry is overwritten is recorded in `det` (the library has unregistered it). *)
Definition force_id (s : st) (a : nat) (cl : cell) (i : pystr) : st :=
  let r1 := remove_id (k_id cl) (reg s) in
  {| heap := set_nth a (with_id cl i) (heap s);
     reg := dict_set i a r1;
     vars := vars s;
     det := match lookup i r1 with Some b => b :: det s | None => det s end;
     gone := gone s |}.

Section Deser.
  Variable H : pystr -> pystr.
  Variable ct : ctable.
  Variable late : st -> nat -> bool.

  Fixpoint deser (fuel : nat) (s : st) (v : sval) : dres nat :=
    match fuel with
    | 0 => DFuel
    | S f =>
      match v with
      | SNode i c o ps ks =>
        match lookup i (reg s) with
        | Some b => DOk s b                       (* existing_node = NODE_REGISTRY.get(value["id"]) *)
        | None =>
          match mapM_d (fun s k => match mapM_d (deser f) s (snd (snd k)) with
                                   | DOk s' l => DOk s' (fst k, (fst (snd k), l))
                                   | DLate s' => DLate s'
                                   | DFuel => DFuel
                                   end) s ks with
          | DFuel => DFuel
          | DLate s1 => DLate s1
          | DOk s1 ks' =>
            match construct H ct late s1 c o ps ks' with
            | DFuel => DFuel
            | DLate s2 => DLate s2                (* from_dict -> __init__ -> the class's validation raised *)
            | DOk s2 a =>
              match cell_at s2 a with
              | None => DFuel
              | Some cl => if pystr_eqb (k_id cl) i then DOk s2 a else DOk (force_id s2 a cl i) a
              end
            end
          end
        end
      end
    end.

  Fixpoint sdepth (v : sval) : nat :=
    match v with
    | SNode _ _ _ _ ks => S (fold_right (fun k m => fold_right (fun x m' => Nat.max (sdepth x) m') m (snd (snd k))) 0 ks)
    end.
End Deser.
