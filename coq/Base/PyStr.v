(* Python strings as the list of their UTF-8 bytes; decimal rendering; comparison. *)
From Coq Require Export String Ascii List Arith ZArith Lia Bool.
From Coq Require Import DecimalString Decimal DecimalNat.
Export ListNotations.
Open Scope list_scope.

Definition pystr := list ascii.
Definition lit (s : string) : pystr := list_ascii_of_string s.

Definition ascii_eqb (a b : ascii) : bool := Ascii.eqb a b.

Fixpoint pystr_eqb (a b : pystr) : bool :=
  match a, b with
  | [], [] => true
  | x :: a', y :: b' => Ascii.eqb x y && pystr_eqb a' b'
  | _, _ => false
  end.

Lemma pystr_eqb_spec a b : reflect (a = b) (pystr_eqb a b).
Proof.
  revert b; induction a as [|x a IH]; intros [|y b]; simpl; try (constructor; congruence).
  destruct (Ascii.eqb_spec x y) as [->|N]; simpl.
  - destruct (IH b) as [->|N]; constructor; congruence.
  - constructor; congruence.
Qed.

Lemma pystr_eqb_refl a : pystr_eqb a a = true.
Proof. destruct (pystr_eqb_spec a a); congruence. Qed.

Lemma pystr_eqb_eq a b : pystr_eqb a b = true <-> a = b.
Proof. destruct (pystr_eqb_spec a b); split; congruence. Qed.

Lemma pystr_eqb_neq a b : pystr_eqb a b = false <-> a <> b.
Proof. destruct (pystr_eqb_spec a b); split; congruence. Qed.

(* byte-wise lexicographic order = code point order for UTF-8 *)
Fixpoint pystr_leb (a b : pystr) : bool :=
  match a, b with
  | [], _ => true
  | _ :: _, [] => false
  | x :: a', y :: b' =>
      let nx := nat_of_ascii x in let ny := nat_of_ascii y in
      if Nat.ltb nx ny then true else if Nat.ltb ny nx then false else pystr_leb a' b'
  end.

Definition pystr_ltb (a b : pystr) : bool := pystr_leb a b && negb (pystr_eqb a b).

Lemma lit_inj a b : lit a = lit b -> a = b.
Proof.
  unfold lit. intro E. apply (f_equal string_of_list_ascii) in E.
  now rewrite !string_of_list_ascii_of_string in E.
Qed.

(* ---------- decimal ---------- *)
Definition dec (n : nat) : pystr := lit (NilZero.string_of_uint (Nat.to_uint n)).
Definition decZ (z : Z) : pystr :=
  match z with
  | Z0 => lit "0"
  | Zpos p => lit (NilZero.string_of_uint (Pos.to_uint p))
  | Zneg p => "-"%char :: lit (NilZero.string_of_uint (Pos.to_uint p))
  end.

Definition is_digit (c : ascii) : bool :=
  let n := nat_of_ascii c in (Nat.leb 48 n && Nat.leb n 57)%bool.

Lemma digits_string_of_uint d : forallb is_digit (lit (NilEmpty.string_of_uint d)) = true.
Proof. induction d; simpl; auto. Qed.

Lemma dec_digits n : forallb is_digit (dec n) = true.
Proof.
  unfold dec, NilZero.string_of_uint. destruct (Nat.to_uint n); try reflexivity;
    apply (digits_string_of_uint (_ _)).
Qed.

Lemma to_uint_nonnil n : Nat.to_uint n <> Nil.
Proof.
  intro H. assert (E : n = 0).
  { rewrite <- (DecimalNat.Unsigned.of_to n), H. reflexivity. }
  subst n. vm_compute in H. discriminate.
Qed.

Lemma dec_inj n m : dec n = dec m -> n = m.
Proof.
  unfold dec. intros E. apply lit_inj in E. apply (f_equal NilZero.uint_of_string) in E.
  rewrite !NilZero.usu in E by apply to_uint_nonnil.
  injection E as E. now apply DecimalNat.Unsigned.to_uint_inj.
Qed.

Lemma dec_nonempty n : dec n <> [].
Proof.
  unfold dec, NilZero.string_of_uint.
  destruct (Nat.to_uint n) eqn:E; try discriminate.
Qed.

(* parse decimal digits (no sign) *)
Definition digit_val (c : ascii) : nat := nat_of_ascii c - 48.
Fixpoint undec_acc (s : pystr) (acc : N) : N :=
  match s with
  | [] => acc
  | c :: r => undec_acc r (acc * 10 + N.of_nat (digit_val c))%N
  end.
Definition undecN (s : pystr) : N := undec_acc s 0%N.

(* ---------- generic split lemma: a separator that satisfies no P splits uniquely ---------- *)
Lemma split_unique (P : ascii -> bool) (sep : ascii) :
  P sep = false ->
  forall (a b x y : pystr), forallb P a = true -> forallb P b = true ->
    a ++ sep :: x = b ++ sep :: y -> a = b /\ x = y.
Proof.
  intros Hsep. induction a as [|c a IH]; intros b x y Ha Hb E.
  - destruct b as [|d b]; simpl in *.
    + injection E as ->. auto.
    + injection E as <- _. apply andb_prop in Hb as [Hd _]. congruence.
  - destruct b as [|d b]; simpl in *.
    + injection E as -> _. apply andb_prop in Ha as [Hc _]. congruence.
    + injection E as -> E. apply andb_prop in Ha as [_ Ha]. apply andb_prop in Hb as [_ Hb].
      destruct (IH b x y Ha Hb E) as [-> ->]. auto.
Qed.

Lemma app_eq_prefix {A} : forall a b x y : list A, a ++ x = b ++ y ->
  (exists t, b = a ++ t /\ x = t ++ y) \/ (exists t, a = b ++ t /\ y = t ++ x).
Proof.
  induction a as [|c a IH]; intros b x y E; simpl in *.
  - left. exists b. auto.
  - destruct b as [|d b]; simpl in *.
    + right. exists (c :: a). auto.
    + injection E as -> E. destruct (IH _ _ _ E) as [[t [-> ->]]|[t [-> ->]]].
      * left; exists t; auto.
      * right; exists t; auto.
Qed.

(* ---------- code point length on UTF-8 bytes ---------- *)
Definition is_cont (c : ascii) : bool :=
  match c with Ascii _ _ _ _ _ _ b6 b7 => b7 && negb b6 end.
Fixpoint cplen (s : pystr) : nat :=
  match s with [] => 0 | c :: r => (if is_cont c then 0 else 1) + cplen r end.
Lemma cplen_app a b : cplen (a ++ b) = cplen a + cplen b.
Proof. induction a; simpl; lia. Qed.

(* ---------- hex ---------- *)
Definition hexval (c : ascii) : option nat :=
  let n := nat_of_ascii c in
  if (Nat.leb 48 n && Nat.leb n 57)%bool then Some (n - 48)
  else if (Nat.leb 97 n && Nat.leb n 102)%bool then Some (n - 87)
  else None.
Fixpoint unhex (s : pystr) : option pystr :=
  match s with
  | [] => Some []
  | a :: b :: r =>
      match hexval a, hexval b, unhex r with
      | Some x, Some y, Some t => Some (ascii_of_nat (16 * x + y) :: t)
      | _, _, _ => None
      end
  | _ => None
  end.
Definition hexdigit (n : nat) : ascii :=
  if Nat.ltb n 10 then ascii_of_nat (48 + n) else ascii_of_nat (87 + n).
Fixpoint tohex (s : pystr) : pystr :=
  match s with
  | [] => []
  | c :: r => let n := nat_of_ascii c in hexdigit (n / 16) :: hexdigit (n mod 16) :: tohex r
  end.
Definition hx (s : string) : pystr :=
  match unhex (lit s) with Some r => r | None => [] end.

Definition is_hex (c : ascii) : bool := match hexval c with Some _ => true | None => false end.

(* insertion sort, stable, by a key order *)
Section Sort.
  Context {A : Type} (leb : A -> A -> bool).
  Fixpoint insert_sorted (x : A) (l : list A) : list A :=
    match l with
    | [] => [x]
    | y :: r => if leb x y then x :: l else y :: insert_sorted x r
    end.
  Definition isort (l : list A) : list A := fold_right insert_sorted [] l.
End Sort.
