(* Generic case format: inputs and outputs of every run_Cxx entry point travel as [term],
   written as printable ASCII text.  Parser and printer are Gallina, so that the extracted
   driver and the in-kernel evaluation (vm_compute) read exactly the same text. *)
From Oak Require Export Base.PyStr.

Inductive term :=
| TInt (z : Z)
| TStr (s : pystr)
| TCon (c : pystr) (args : list term)
| TList (l : list term).

(* ---------- equality ---------- *)
Fixpoint term_eqb (a b : term) : bool :=
  let fix go (x y : list term) : bool :=
    match x, y with
    | [], [] => true
    | p :: x', q :: y' => term_eqb p q && go x' y'
    | _, _ => false
    end in
  match a, b with
  | TInt x, TInt y => Z.eqb x y
  | TStr x, TStr y => pystr_eqb x y
  | TCon c x, TCon d y => pystr_eqb c d && go x y
  | TList x, TList y => go x y
  | _, _ => false
  end.

(* ---------- printer ----------
   int:  123  -5          str: "6869" (hex of the bytes)
   con:  (Name a b)       list: [a b]                                        *)
Definition sp : ascii := " "%char.
Fixpoint print_term (t : term) : pystr :=
  let fix go (l : list term) : pystr :=
    match l with
    | [] => []
    | x :: r => sp :: print_term x ++ go r
    end in
  match t with
  | TInt z => decZ z
  | TStr s => """"%char :: tohex s ++ [""""%char]
  | TCon c args => "("%char :: c ++ go args ++ [")"%char]
  | TList l => "["%char :: go l ++ ["]"%char]
  end.

(* ---------- tokenizer ---------- *)
Inductive tok := KLP | KRP | KLB | KRB | KInt (z : Z) | KStr (s : pystr) | KName (s : pystr) | KBad.

Definition is_name_char (c : ascii) : bool :=
  let n := nat_of_ascii c in
  (Nat.leb 48 n && Nat.leb n 57) || (Nat.leb 65 n && Nat.leb n 90)
  || (Nat.leb 97 n && Nat.leb n 122) || Nat.eqb n 95 || Nat.eqb n 46.

Fixpoint span (p : ascii -> bool) (s : pystr) : pystr * pystr :=
  match s with
  | [] => ([], [])
  | c :: r => if p c then let '(a, b) := span p r in (c :: a, b) else ([], s)
  end.

Lemma span_length p s : length (snd (span p s)) <= length s.
Proof. induction s as [|c r IH]; simpl; auto. destruct (p c); simpl; auto.
  destruct (span p r); simpl in *; lia. Qed.

Fixpoint tokenize (fuel : nat) (s : pystr) : list tok :=
  match fuel with
  | 0 => []
  | S f =>
    match s with
    | [] => []
    | c :: r =>
      if Ascii.eqb c " " then tokenize f r
      else if Ascii.eqb c "(" then KLP :: tokenize f r
      else if Ascii.eqb c ")" then KRP :: tokenize f r
      else if Ascii.eqb c "[" then KLB :: tokenize f r
      else if Ascii.eqb c "]" then KRB :: tokenize f r
      else if Ascii.eqb c """" then
        let '(h, rest) := span is_hex r in
        match rest with
        | q :: rest' =>
            if Ascii.eqb q """" then
              match unhex h with Some b => KStr b :: tokenize f rest' | None => [KBad] end
            else [KBad]
        | [] => [KBad]
        end
      else if Ascii.eqb c "-" then
        let '(d, rest) := span is_digit r in
        match d with [] => [KBad] | _ => KInt (Z.opp (Z.of_N (undecN d))) :: tokenize f rest end
      else if is_digit c then
        let '(d, rest) := span is_digit s in
        KInt (Z.of_N (undecN d)) :: tokenize f rest
      else if is_name_char c then
        let '(d, rest) := span is_name_char s in
        KName d :: tokenize f rest
      else [KBad]
    end
  end.

(* ---------- parser: shift/reduce over the token list ---------- *)
Inductive pframe := PCon (name : pystr) (rev_args : list term) | PList (rev_items : list term).

Definition push_item (t : term) (st : list pframe) : option (list pframe) + term :=
  match st with
  | [] => inr t
  | PCon n a :: st' => inl (Some (PCon n (t :: a) :: st'))
  | PList a :: st' => inl (Some (PList (t :: a) :: st'))
  end.

Fixpoint parse_toks (ts : list tok) (st : list pframe) : option term :=
  match ts with
  | [] => None
  | k :: ts' =>
    let item t :=
      match push_item t st with
      | inr r => match ts' with [] => Some r | _ => None end
      | inl (Some st') => parse_toks ts' st'
      | inl None => None
      end in
    match k with
    | KLP => match ts' with
             | KName n :: ts'' => parse_toks ts'' (PCon n [] :: st)
             | _ => None
             end
    | KLB => parse_toks ts' (PList [] :: st)
    | KInt z => item (TInt z)
    | KStr s => item (TStr s)
    | KName _ => None
    | KBad => None
    | KRP => match st with
             | PCon n a :: st' =>
               match push_item (TCon n (rev a)) st' with
               | inr r => match ts' with [] => Some r | _ => None end
               | inl (Some st'') => parse_toks ts' st''
               | inl None => None
               end
             | _ => None
             end
    | KRB => match st with
             | PList a :: st' =>
               match push_item (TList (rev a)) st' with
               | inr r => match ts' with [] => Some r | _ => None end
               | inl (Some st'') => parse_toks ts' st''
               | inl None => None
               end
             | _ => None
             end
    end
  end.

Definition parse_term (s : pystr) : option term := parse_toks (tokenize (S (length s)) s) [].

(* ---------- small construction / destruction helpers used by the Run files ---------- *)
Definition tcon (name : string) (args : list term) : term := TCon (lit name) args.
Definition tbool (b : bool) : term := if b then tcon "T" [] else tcon "F" [].
Definition tnone : term := tcon "None" [].
Definition tnat (n : nat) : term := TInt (Z.of_nat n).
Definition topt {A} (f : A -> term) (o : option A) : term :=
  match o with Some x => tcon "Some" [f x] | None => tnone end.
Definition terr (msg : string) : term := tcon "ModelError" [TStr (lit msg)].

Definition is_con (name : string) (t : term) : option (list term) :=
  match t with
  | TCon c args => if pystr_eqb c (lit name) then Some args else None
  | _ => None
  end.
Definition get_bool (t : term) : option bool :=
  match t with
  | TCon c [] => if pystr_eqb c (lit "T") then Some true
                 else if pystr_eqb c (lit "F") then Some false else None
  | _ => None
  end.
Definition get_int (t : term) : option Z := match t with TInt z => Some z | _ => None end.
Definition get_nat (t : term) : option nat :=
  match t with TInt z => if Z.leb 0 z then Some (Z.to_nat z) else None | _ => None end.
Definition get_str (t : term) : option pystr := match t with TStr s => Some s | _ => None end.
Definition get_list (t : term) : option (list term) := match t with TList l => Some l | _ => None end.
Definition get_opt {A} (f : term -> option A) (t : term) : option (option A) :=
  match t with
  | TCon c [] => if pystr_eqb c (lit "None") then Some None else None
  | TCon c [x] => if pystr_eqb c (lit "Some") then
                    match f x with Some v => Some (Some v) | None => None end else None
  | _ => None
  end.

Fixpoint map_opt {A B} (f : A -> option B) (l : list A) : option (list B) :=
  match l with
  | [] => Some []
  | x :: r => match f x, map_opt f r with
              | Some y, Some t => Some (y :: t)
              | _, _ => None
              end
  end.

Notation "'do' x <- e ; k" := (match e with Some x => k | None => None end)
  (at level 200, x pattern, e at level 100, k at level 200, right associativity).

(* The uniform entry point type: digest oracle, input, output. *)
Definition runner := (pystr -> pystr) -> term -> term.

Definition run_line (r : runner) (H : pystr -> pystr) (line : pystr) : pystr :=
  match parse_term line with
  | Some t => print_term (r H t)
  | None => print_term (terr "unparsable input")
  end.

(* digest oracle from a finite table, used for in-kernel re-evaluation *)
Fixpoint tab_lookup (tab : list (pystr * pystr)) (x : pystr) : pystr :=
  match tab with
  | [] => []
  | (k, v) :: r => if pystr_eqb k x then v else tab_lookup r x
  end.
