(* C07 entry point: for one tree and a list of xpaths: findall (in the order yielded), find, match(root, n) for every node. *)
From Oak Require Import Run.Codec Model.Xpath Run.RunC06.

Definition idx_of_term (t : term) : option idxspec :=
  match t with
  | TCon c [] => if name_is c "IAbsent" then Some IAbsent else if name_is c "IEmpty" then Some IEmpty else None
  | TCon c [k] => if name_is c "IVal" then option_map IVal (get_nat k) else None
  | _ => None
  end.
Definition step_of_term (t : term) : option step :=
  match is_con "St" t with
  | Some [f; i; c] =>
    do f' <- get_opt get_str f; do i' <- idx_of_term i; do c' <- get_opt get_str c;
    Some {| st_field := f'; st_index := i'; st_class := c' |}
  | _ => None
  end.
Definition xpath_of_term (t : term) : option xpath :=
  match is_con "XP" t with
  | Some [r; TList ss] => do r' <- get_bool r; do ss' <- map_opt step_of_term ss;
                          Some {| xp_relative := r'; xp_steps := ss' |}
  | _ => None
  end.

Definition known_class (ct : ctable) (c : pystr) : bool :=
  pystr_eqb c astnode || match find_class ct c with Some _ => true | None => false end.
Definition admissible (ct : ctable) (x : xpath) : bool :=
  well_formed x && forallb (fun s => match st_class s with Some c => known_class ct c | None => true end) (xp_steps x).

Definition eval_xpath (ct : ctable) (root : node) (ns : list node) (x : xpath) : term :=
  if negb (admissible ct x) then tcon "IllFormed" []
  else
    match to_elements x with
    | None => tcon "IllFormed" []
    | Some els =>
      tcon "R" [ tfuel (fun l => TList (map taddr l)) (findall ct root els);
                 tfuel (topt taddr) (find ct root els);
                 TList (map (fun n => tfuel (tres tbool) (xmatch ct root els n)) ns) ]
    end.

Definition run_C07 (_ : pystr -> pystr) (t : term) : term :=
  match is_con "C07" t with
  | Some [ctt; nt; TList xts] =>
    match ctable_of_term ctt, node_of_term nt, map_opt xpath_of_term xts with
    | Some ct, Some root, Some xs =>
      if negb (wf_node ct root) then terr "node does not conform to the class table"
      else
        match tree_nodes ct root with
        | Some ns =>
          if negb (nodupb (map addr ns)) then terr "inadmissible: a node object occurs twice"
          else if existsb (fun x => negb (admissible ct x)) xs then terr "inadmissible: ill-formed xpath"
          else TList (map (eval_xpath ct root ns) xs)
        | None => terr "C07: out of fuel"
        end
    | _, _, _ => terr "C07: cannot decode"
    end
  | _ => terr "C07: bad input"
  end.
