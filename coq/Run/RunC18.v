(* C18 / C19 entry point: runs a history of legacy operations on Model/Legacy.v and prints what the harness
   observes on the real objects after every step.

   Input  (L18 classtable [op ...]).  Nodes are named by their index in the POOL = the list of node objects the
   program holds: every operation argument i means pool[i mod |pool|]; after a step the pool grows by the nodes
   the callbacks constructed, the returned node, and every node newly reachable through child fields (fixed
   discovery order, mirrored by harness/props/c18.py).
   Output (Run [step ...] queries); a step is (St result [changed node views] |pool|) ; the list ends early with
   (Inadmissible why) when the operation does not return or leaves one object at two positions of attached
   nodes, and after a step that died with an undocumented exception (Err Crash).

   The digest is the free one: H pre = 0x01 ++ pre ++ 0x02.  The harness replaces, innermost first, every
   bracketed preimage by the real hashlib.sha256 hex digest, so ids and content_ids are compared with the
   implementation's byte for byte without SHA-256 being modelled (the runner's oracle argument is unused). *)
From Oak Require Import Model.Legacy.
From Coq Require Import List String Ascii ZArith Bool Arith.
Import ListNotations.

Definition Hsym (pre : pystr) : pystr := (Ascii.ascii_of_nat 1 :: pre) ++ [Ascii.ascii_of_nat 2].

(* ---------- decoding ---------- *)
Definition lval_of_term (t : term) : option lval :=
  match is_con "S" t, is_con "I" t with
  | Some [x], _ => do s <- get_str x; Some (LS s)
  | _, Some [x] => do z <- get_int x; Some (LI z)
  | _, _ => None
  end.
(* child references are pool indices at this stage *)
Definition fval_of_term (t : term) : option fval :=
  match is_con "P" t, is_con "One" t, is_con "Seq" t with
  | Some [x], _, _ => do v <- lval_of_term x; Some (FP v)
  | _, Some [x], _ => do o <- get_opt get_nat x; Some (FOne o)
  | _, _, Some [x] => do l <- get_list x; do ns <- map_opt get_nat l; Some (FSeq ns)
  | _, _, _ => None
  end.
Definition named {A} (f : term -> option A) (t : term) : option (pystr * A) :=
  match t with
  | TList [n; v] => do s <- get_str n; do x <- f v; Some (s, x)
  | _ => None
  end.
Definition fields_of_term (t : term) : option (list (pystr * fval)) :=
  do l <- get_list t; map_opt (named fval_of_term) l.
Definition kind_of_term (t : term) : option fkind :=
  match is_con "KProp" t with
  | Some [b] => do c <- get_bool b; Some (KProp c)
  | _ => match is_con "KReq" t, is_con "KOpt" t, is_con "KSeq" t with
         | Some [], _, _ => Some KReq
         | _, Some [], _ => Some KOpt
         | _, _, Some [] => Some KSeq
         | _, _, _ => None
         end
  end.
Definition fdecl_of_term (t : term) : option fdecl :=
  match is_con "F" t with
  | Some [n; k; ts] => do s <- get_str n; do kk <- kind_of_term k; do l <- get_list ts; do tys <- map_opt get_str l;
                       Some {| fd_name := s; fd_kind := kk; fd_types := tys |}
  | _ => None
  end.
Definition cdecl_of_term (t : term) : option cdecl :=
  match is_con "Cls" t with
  | Some [n; fs] => do s <- get_str n; do l <- get_list fs; do ds <- map_opt fdecl_of_term l;
                    Some {| cd_name := s; cd_fields := ds |}
  | _ => None
  end.
Definition chval_of_term (t : term) : option chval :=
  match is_con "V" t, is_con "Org" t, is_con "Bad" t with
  | Some [x], _, _ => do v <- fval_of_term x; Some (CV v)
  | _, Some [x], _ => do s <- get_str x; Some (COrg s)
  | _, _, Some [] => Some CBad
  | _, _, _ => None
  end.
Definition action_of_term (t : term) : option action :=
  match t with
  | TCon c args =>
    if pystr_eqb c (lit "Generic") then Some AGeneric
    else if pystr_eqb c (lit "Keep") then Some AKeep
    else if pystr_eqb c (lit "Remove") then Some ARemove
    else if pystr_eqb c (lit "Raise") then Some ARaise
    else if pystr_eqb c (lit "Set") then
      match args with [p; v] => do s <- get_str p; do x <- lval_of_term v; Some (ASet s x) | _ => None end
    else if pystr_eqb c (lit "Fresh") then
      match args with
      | [cl; org; fs] => do c' <- get_str cl; do o <- get_str org; do f <- fields_of_term fs; Some (AFresh c' o f)
      | _ => None
      end
    else None
  | _ => None
  end.
Definition rule_of_term (t : term) : option rule :=
  match is_con "R" t with
  | Some [cl; w; a] =>
    do c <- get_str cl;
    do wh <- get_opt (named lval_of_term) w;
    do act <- action_of_term a;
    Some {| r_cls := c; r_when := wh; r_act := act |}
  | _ => None
  end.
Definition rules_of_term (t : term) : option (list rule) := do l <- get_list t; map_opt rule_of_term l.

(* operations over pool indices: the same [op] type, addresses read as indices until [resolve_op] *)
Definition op_of_term (t : term) : option op :=
  match t with
  | TCon c args =>
    if pystr_eqb c (lit "New") then
      match args with
      | [cl; org; fs; idt; e; d; cd] =>
        do c' <- get_str cl; do o <- get_str org; do f <- fields_of_term fs; do i <- get_opt get_str idt;
        do e' <- get_bool e; do d' <- get_bool d; do cd' <- get_bool cd; Some (ONew c' o f i e' d' cd')
      | _ => None
      end
    else if pystr_eqb c (lit "Attach") then match args with [x] => do a <- get_nat x; Some (OAttach a) | _ => None end
    else if pystr_eqb c (lit "Detach") then match args with [x] => do a <- get_nat x; Some (ODetach a) | _ => None end
    else if pystr_eqb c (lit "DetachSelf") then match args with [x] => do a <- get_nat x; Some (ODetachSelf a) | _ => None end
    else if pystr_eqb c (lit "Replace") then
      match args with
      | [x; ch] => do a <- get_nat x; do l <- get_list ch; do chs <- map_opt (named chval_of_term) l; Some (OReplace a chs)
      | _ => None
      end
    else if pystr_eqb c (lit "ReplaceWith") then
      match args with [x; y] => do a <- get_nat x; do n <- get_opt get_nat y; Some (OReplaceWith a n) | _ => None end
    else if pystr_eqb c (lit "Dup") then
      match args with [x; d] => do a <- get_nat x; do b <- get_bool d; Some (ODuplicate a b) | _ => None end
    else if pystr_eqb c (lit "Xpath") then match args with [x] => do a <- get_nat x; Some (OCalcXpath a) | _ => None end
    else if pystr_eqb c (lit "Visitor") then
      match args with [x; r] => do a <- get_nat x; do rs <- rules_of_term r; Some (OVisitor a rs) | _ => None end
    else if pystr_eqb c (lit "Transformer") then
      match args with [x; r] => do a <- get_nat x; do rs <- rules_of_term r; Some (OTransformer a rs) | _ => None end
    else None
  | _ => None
  end.

(* ---------- pool ---------- *)
Definition memb (a : nat) (l : list nat) : bool := existsb (Nat.eqb a) l.
Definition pick (pool : list nat) (i : nat) : nat := nth (i mod (List.length pool)) pool 0.
Definition res_fval (pool : list nat) (v : fval) : fval :=
  match v with
  | FP x => FP x
  | FOne o => FOne (option_map (pick pool) o)
  | FSeq l => FSeq (map (pick pool) l)
  end.
Definition res_fields (pool : list nat) (fs : list (pystr * fval)) := map (fun f => (fst f, res_fval pool (snd f))) fs.
Definition res_rule (pool : list nat) (r : rule) : rule :=
  {| r_cls := r_cls r; r_when := r_when r;
     r_act := match r_act r with AFresh c o fs => AFresh c o (res_fields pool fs) | a => a end |}.
Definition uses_pool (o : op) : bool :=
  match o with
  | ONew _ _ fs _ _ _ _ => existsb (fun f => match snd f with FOne (Some _) => true | FSeq (_ :: _) => true | _ => false end) fs
  | _ => true
  end.
Definition resolve_op (pool : list nat) (o : op) : op :=
  match o with
  | ONew c g fs i e d cd => ONew c g (res_fields pool fs) i e d cd
  | OAttach a => OAttach (pick pool a)
  | ODetach a => ODetach (pick pool a)
  | ODetachSelf a => ODetachSelf (pick pool a)
  | OReplace a ch => OReplace (pick pool a)
                              (map (fun kv => (fst kv, match snd kv with CV v => CV (res_fval pool v) | x => x end)) ch)
  | OReplaceWith a n => OReplaceWith (pick pool a) (option_map (pick pool) n)
  | ODuplicate a d => ODuplicate (pick pool a) d
  | OCalcXpath a => OCalcXpath (pick pool a)
  | OVisitor a rs => OVisitor (pick pool a) (map (res_rule pool) rs)
  | OTransformer a rs => OTransformer (pick pool a) (map (res_rule pool) rs)
  end.

(* discovery of newly reachable nodes: depth-first through child fields in field order *)
Fixpoint visit (fuel : nat) (s : st) (n : nat) (acc : list nat * list nat) : list nat * list nat :=
  match fuel with
  | 0 => acc
  | S f =>
    let '(seen, pool) := acc in
    if memb n seen then acc
    else fold_left (fun acc k => visit f s k acc) (skids s n)
                   (n :: seen, if memb n pool then pool else pool ++ [n])
  end.
Definition discover (s : st) (pool roots : list nat) : list nat :=
  snd (fold_left (fun acc r => visit (S (List.length (heap s))) s r acc) (roots ++ pool) ([], pool)).

(* ---------- observation ---------- *)
Fixpoint index_of (a : nat) (l : list nat) (i : nat) : Z :=
  match l with [] => (-1)%Z | x :: r => if Nat.eqb x a then Z.of_nat i else index_of a r (S i) end.
Definition tix (pool : list nat) (a : nat) : term := TInt (index_of a pool 0).
Definition tostr (o : option pystr) : term := topt TStr o.
Definition tlval (v : lval) : term := match v with LS s => tcon "S" [TStr s] | LI z => tcon "I" [TInt z] end.
Definition tfval (pool : list nat) (v : fval) : term :=
  match v with
  | FP x => tcon "P" [tlval x]
  | FOne o => tcon "One" [topt (tix pool) o]
  | FSeq l => tcon "Seq" [TList (map (tix pool) l)]
  end.
Definition node_view (s : st) (pool : list nat) (a : nat) : term :=
  let c := cellD s a in
  tcon "Nd" [ tix pool a; TStr (c_cls c); TStr (c_org c); TStr (c_id c); tostr (c_oid c); tostr (c_coll c);
              tbool (negb (detached s a));
              topt (tix pool) (parent s a); tostr (c_pf c); topt tnat (c_pi c);
              topt (tix pool) (reg_get s (c_id c));
              TStr (c_cid c); tostr (c_xp c);
              TList (map (fun f => TList [TStr (fst f); tfval pool (snd f)]) (c_fs c)) ].

Definition terr_kind (e : err) : term :=
  tcon "Err" [tcon (match e with
                    | EDup => "DuplicateChildren" | EPar => "ParentCollision" | EReg => "RegistryCollision"
                    | EIdc => "IDCollision" | ERep => "Replace" | ERw => "ReplaceWith" | ETr => "Transform"
                    | ECrash => "Crash" end) []].
Definition tobs (pool : list nat) (o : obs) : term :=
  match o with
  | RNone => tcon "None" []
  | RBool b => tcon "B" [tbool b]
  | RNode a => tcon "N" [tix pool a]
  | ROut r made => tcon "Out" [topt (tix pool) r; TList (map (tix pool) made)]
  | RErr e => terr_kind e
  | RDiv => tcon "Div" []
  end.
Definition obs_roots (o : obs) : list nat :=
  match o with
  | RNode a => [a]
  | ROut r made => made ++ match r with Some a => [a] | None => [] end
  | _ => []
  end.

Fixpoint delta (prev cur : list term) : list term :=
  match prev, cur with
  | p :: prev', c :: cur' => if term_eqb p c then delta prev' cur' else c :: delta prev' cur'
  | [], cur => cur
  | _, [] => []
  end.

(* The registry is a WeakValueDictionary and the program holds exactly the pool (plus what is reachable from it):
   a node constructed during a step that ends up neither returned nor inside a held tree (a callback's node of a
   failed transformation; the result of child.replace() inside ASTTransformer.execute when the child has no
   parent) is garbage as soon as the call returns, and the registry forgets it. *)
Definition purge (old_size : nat) (s1 : st) (pool1 : list nat) : st :=
  {| heap := heap s1;
     reg := filter (fun e => Nat.ltb (snd e) old_size || memb (snd e) pool1) (reg s1) |}.
Definition after_step (s s1 : st) (pool : list nat) (ob : obs) : st * list nat :=
  let pool1 := discover s1 pool (obs_roots ob) in
  (purge (List.length (heap s)) s1 pool1, pool1).

Section Run.
  Variable ct : ctable.

  Fixpoint run_ops (s : st) (pool : list nat) (prev : list term) (ops : list op) : list term :=
    match ops with
    | [] => []
    | o :: rest =>
      if uses_pool o && Nat.eqb (List.length pool) 0 then tcon "Skip" [] :: run_ops s pool prev rest
      else
        let ro := resolve_op pool o in
        match step Hsym ct s ro with
        | (_, RDiv) => [tcon "Inadmissible" [tcon "Diverges" []]]
        | (s1, ob) =>
          if negb (one_position s1) then [tcon "Inadmissible" [tcon "TwoPositions" []]]
          else
            let '(s2, pool1) := after_step s s1 pool ob in
            let cur := map (node_view s2 pool1) pool1 in
            let st_term := tcon "St" [tobs pool1 ob; TList (delta prev cur); tnat (List.length pool1)] in
            match ob with
            | RErr ECrash => [st_term]
            | _ => st_term :: run_ops s2 pool1 cur rest
            end
        end
    end.

  (* final state of the admissible prefix, for the queries *)
  Fixpoint final_state (s : st) (pool : list nat) (ops : list op) : st * list nat :=
    match ops with
    | [] => (s, pool)
    | o :: rest =>
      if uses_pool o && Nat.eqb (List.length pool) 0 then final_state s pool rest
      else
        match step Hsym ct s (resolve_op pool o) with
        | (_, RDiv) => (s, pool)
        | (s1, ob) =>
          if negb (one_position s1) then (s, pool)
          else let '(s2, pool1) := after_step s s1 pool ob in
               match ob with RErr ECrash => (s2, pool1) | _ => final_state s2 pool1 rest end
        end
    end.

  Definition tob {A} (f : A -> term) (o : option A) : term := match o with Some x => f x | None => tcon "Cyc" [] end.
  Definition queries (s : st) (pool : list nat) : term :=
    tcon "Q" [ TList (map (fun a => tob tnat (get_depth s a)) pool);
               TList (map (fun a => tob (fun l => TList (map (tix pool) l)) (ancestors (fuel_of s) s a)) pool);
               TList (map (fun p => TList (map (fun a => tob tbool (is_ancestor ct s p a)) pool)) pool) ].
End Run.

Definition run_legacy (t : term) : term :=
  match is_con "L18" t with
  | Some [ctt; opst] =>
    match (do l <- get_list ctt; map_opt cdecl_of_term l), (do l <- get_list opst; map_opt op_of_term l) with
    | Some ct, Some ops =>
      let '(sf, pf) := final_state ct empty_st [] ops in
      tcon "Run" [TList (run_ops ct empty_st [] [] ops); queries ct sf pf]
    | _, _ => terr "L18: cannot decode class table or operations"
    end
  | _ => terr "L18: bad input"
  end.

Definition run_C18 (_ : pystr -> pystr) (t : term) : term := run_legacy t.
