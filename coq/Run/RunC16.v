(* C16 entry point: a history of serialization / deserialization calls with options on one tree.
   (C16 ct ptab tree [call...]) ->  (Hist fresh-default-output [(R outcome slots-after)...]) *)
From Oak Require Import Run.SerCodec.

Inductive fmt := FDict | FJson | FMsgpack | FYaml.
Definition fmt_of_term (t : term) : option fmt :=
  match t with
  | TCon c [] => if name_is c "Dict" then Some FDict else if name_is c "Json" then Some FJson
                 else if name_is c "Msgpack" then Some FMsgpack else if name_is c "Yaml" then Some FYaml else None
  | _ => None
  end.
(* to_json / to_msgpck fix the mashumaro dialect; as_dict / as_obj / to_yaml / from_yaml pass the caller's *)
Definition md_eff (f : fmt) (md : option mdialect) : option mdialect :=
  match f with FJson => Some MOrjson | FMsgpack => Some MMsgpack | _ => md end.

Definition corruption_of_term (t : term) : option corruption :=
  match t with
  | TCon c [] => if name_is c "CBadType" then Some CBadType else if name_is c "CDropId" then Some CDropId
                 else if name_is c "CNotAMap" then Some CNotAMap else None
  | _ => None
  end.

Definition twin_offset : nat := 1000.

Section Run.
  Variable H : pystr -> pystr.
  Variable ct : ctable.
  Variable pt : ptab.
  Variable tree : node.

  Definition st1 : bstate := build H ct tree {| b_ids := []; b_used := []; b_srcs := [] |}.
  Definition tree2 : node := readdr twin_offset tree.
  Definition st2 : bstate := build H ct tree2 {| b_ids := []; b_used := b_used st1; b_srcs := b_srcs st1 |}.
  Definition sreg : list source := b_srcs st2.
  Definition nreg : list (pystr * node) :=
    flat_map (fun n => match assoc_nat (addr n) (b_ids st1) with Some i => [(i, n)] | None => [] end) (subnodes tree).

  Definition do_ser (s : slots) (armed : list nat) : outcome sval :=
    match ser_node H ct pt current_nv s sreg (b_ids st1) armed tree with Some v => Return v | None => Raise end.

  (* the input of a deserialization call: the twin's default serialization (under the call's mashumaro
     dialect), corrupted at the k-th nested mapping *)
  Definition deser_input (md : option mdialect) (cor : option (nat * corruption)) : option sval :=
    match ser_node H ct pt current_nv {| sl_opts := od_empty; sl_md := md |} sreg (b_ids st2) [] tree2 with
    | Some v => Some (match cor with Some (k, c) => snd (corrupt c v k) | None => v end)
    | None => None
    end.
  Definition do_deser (input : sval) (s : slots) : outcome unit :=
    match deser_node H ct pt current_dv (S (sval_depth input)) s input
            {| ds_srcs := sreg; ds_reg := nreg; ds_ids := []; ds_next := 9000 |} with
    | Ok _ => Return tt
    | Exc => Raise
    end.

  Definition step (s : slots) (c : term) : option (slots * term) :=
    match c with
    | TCon k [f; given; md; x] =>
      do f' <- fmt_of_term f; do given' <- get_opt optdict_of_term given; do md' <- get_opt mdialect_of_term md;
      let md'' := md_eff f' md' in
      if name_is k "Ser" then
        do armed <- match x with TList l => map_opt get_nat l | _ => None end;
        let '(s', r) := call current_w DirSer given' md'' (fun s1 => do_ser s1 armed) s in
        Some (s', tcon "R" [match r with
                            | Return v => tcon "Return" [tdig H (match f' with FYaml => sort_all v | _ => v end)]
                            | Raise => tcon "Raise" []
                            end; term_of_slots s'])
      else if name_is k "Deser" then
        do bad_cor <- match x with
                      | TCon b [] => if name_is b "BadBytes" then Some (true, None)
                                     else if name_is b "None" then Some (false, None) else None
                      | TCon b [TCon _ [n; kind]] =>
                        if name_is b "Some" then do n' <- get_nat n; do kind' <- corruption_of_term kind; Some (false, Some (n', kind'))
                        else None
                      | _ => None
                      end;
        do input <- deser_input md'' (snd bad_cor);
        let '(s', r) := call_decoded current_w (negb (fst bad_cor)) given' md'' (do_deser input) s in
        Some (s', tcon "R" [match r with Return _ => tcon "Return" [] | Raise => tcon "Raise" [] end; term_of_slots s'])
      else None
    | _ => None
    end.

  Fixpoint exec_hist (s : slots) (cs : list term) : option (list term) :=
    match cs with
    | [] => Some []
    | c :: r => do sr <- step s c; do rest <- exec_hist (fst sr) r; Some (snd sr :: rest)
    end.
End Run.

Definition run_C16 (H : pystr -> pystr) (t : term) : term :=
  match is_con "C16" t with
  | Some [ctt; ptt; nt; TList calls] =>
    match ctable_of_term ctt, ptab_of_term ptt, node_of_term nt with
    | Some ct, Some pt, Some n =>
      if negb (wf_node ct n && props_declared pt n) then terr "C16: tree does not conform to the class table"
      else
        match do_ser H ct pt n slots0 [], exec_hist H ct pt n slots0 calls with
        | Return fresh, Some obs => tcon "Hist" [tdig H fresh; TList obs]
        | _, _ => terr "C16: undecodable call or inadmissible tree"
        end
    | _, _, _ => terr "C16: cannot decode class table, property table or tree"
    end
  | _ => terr "C16: bad input"
  end.
