(* C09 entry point.
   (C09 ct strict [(M "Cls" action)...] tree next)  ->  (Tr result [calls...] (T))
       action: (AKeep) (AGeneric) (ASetProp "f" v) (AGenSetProp "f" v) (AReplaceBy node) (AReplaceNew node) (ARemove) (ARaise)
       result: (RNode node) | (RNone) | (RErr);  calls: [addr (Some "Cls")|(None)] in call order
       addresses >= next in the result are objects created by the transformation (renumbered by the harness)
   (C09D ct strict ["Cls"...] ["Cls"...]) -> (Disp [(Some "Cls")|(None) ...])   which visit_<Cls> accept() picks per queried class *)
From Oak Require Import Run.Codec Model.Visitor Spec.RewriteSpec.

Fixpoint term_of_node (n : node) : term :=
  match n with
  | Node a c o ps ks =>
    tcon "N" [tnat a; TStr c; term_of_origin o;
              TList (map (fun p => tcon "P" [TStr (fst p); term_of_pval (snd p)]) ps);
              TList (map (fun k => tcon "K" [TStr (fst k);
                                             match fst (snd k) with ShNone => tcon "ShNone" [] | ShOne => tcon "ShOne" [] | ShMany => tcon "ShMany" [] end;
                                             TList (map term_of_node (snd (snd k)))]) ks)]
  end.

Definition action_of_term (t : term) : option action :=
  match t with
  | TCon c args =>
    if name_is c "AKeep" then Some AKeep
    else if name_is c "AGeneric" then Some AGeneric
    else if name_is c "ARemove" then Some ARemove
    else if name_is c "ARaise" then Some ARaise
    else if name_is c "ASetProp" then
      match args with [TStr f; v] => option_map (ASetProp f) (pval_of_term v) | _ => None end
    else if name_is c "AGenSetProp" then
      match args with [TStr f; v] => option_map (AGenSetProp f) (pval_of_term v) | _ => None end
    else if name_is c "AReplaceBy" then
      match args with [n] => option_map AReplaceBy (node_of_term n) | _ => None end
    else if name_is c "AReplaceNew" then
      match args with [n] => option_map AReplaceNew (node_of_term n) | _ => None end
    else None
  | _ => None
  end.
Definition method_of_term (t : term) : option (pystr * action) :=
  match is_con "M" t with
  | Some [TStr c; a] => option_map (fun a' => (c, a')) (action_of_term a)
  | _ => None
  end.

Definition term_of_result (r : result) : term :=
  match r with
  | RNode n => tcon "RNode" [term_of_node n]
  | RNone => tcon "RNone" []
  | RErr => tcon "RErr" []
  end.
Definition term_of_call (c : nat * option pystr) : term := TList [tnat (fst c); topt TStr (snd c)].

(* admissibility: an address denotes one object, and every existing object is older than the counter *)
Definition coherentb (U : list node) : bool :=
  let tu := map (fun x => (addr x, term_of_node x)) U in
  forallb (fun x => forallb (fun y => negb (Nat.eqb (fst x) (fst y)) || term_eqb (snd x) (snd y)) tu) tu.
Definition belowb (b : nat) (U : list node) : bool := forallb (fun x => Nat.ltb (addr x) b) U.

(* a property-replacing rule must not name a child field of some class (replace() would then install a non-node value) *)
Definition setprop_ok (ct : ctable) (ms : methods) : bool :=
  let is_child_name f := existsb (fun c => existsb (fun d => pystr_eqb (fd_name d) f) (child_fields ct (cd_name c))) ct in
  forallb (fun m => match snd m with
                    | ASetProp f _ | AGenSetProp f _ => negb (is_child_name f)
                    | _ => true
                    end) ms.

Definition run_C09 (_ : pystr -> pystr) (t : term) : term :=
  match t with
  | TCon c args =>
    if name_is c "C09" then
      match args with
      | [ctt; st; TList mt; nt; nx] =>
        match ctable_of_term ctt, get_bool st, map_opt method_of_term mt, node_of_term nt, get_nat nx with
        | Some ct, Some strict, Some ms, Some n, Some b =>
          if negb (wf_tree ct n) then terr "tree does not conform to the class table"
          else if negb (setprop_ok ct ms) then terr "a property rule names a child field"
          else if negb (nodupb (map fst ms)) then terr "a visit method is defined twice"
          else if negb (belowb b (universe ms n)) then terr "an input address is not below the allocation counter"
          else if negb (coherentb (universe ms n)) then terr "one address, two different nodes"
          else
            match transform ct strict ms n {| next := b; calls := [] |} with
            | Some (s, r) => tcon "Tr" [term_of_result r; TList (map term_of_call (rev (calls s))); tbool true]
            | None => terr "out of fuel"
            end
        | _, _, _, _, _ => terr "C09: cannot decode"
        end
      | _ => terr "C09: bad arguments"
      end
    else if name_is c "C09D" then
      match args with
      | [ctt; st; TList hs; TList qs] =>
        match ctable_of_term ctt, get_bool st, map_opt get_str hs, map_opt get_str qs with
        | Some ct, Some strict, Some has, Some queries =>
          tcon "Disp" [TList (map (fun q => topt TStr (dispatch ct strict (fun c => existsb (pystr_eqb c) has) q)) queries)]
        | _, _, _, _ => terr "C09D: cannot decode"
        end
      | _ => terr "C09D: bad arguments"
      end
    else terr "C09: bad input"
  | _ => terr "C09: bad input"
  end.
