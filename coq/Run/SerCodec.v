(* term <-> the vocabulary of Model/SerOpts.v and Model/Serial.v. Shared by RunC16 and RunC04. *)
From Oak Require Export Run.Codec Model.Serial.

Fixpoint term_of_sval (v : sval) : term :=
  let fix gom (m : list (pystr * sval)) : list term :=
    match m with [] => [] | (k, x) :: r => tcon "KV" [TStr k; term_of_sval x] :: gom r end in
  match v with
  | JNull => tcon "JNull" []
  | JBool b => tcon "JBool" [tbool b]
  | JInt z => tcon "JInt" [TInt z]
  | JFloat r => tcon "JFloat" [TStr r]
  | JStr s => tcon "JStr" [TStr s]
  | JList l => tcon "JList" [TList (map term_of_sval l)]
  | JMap m => tcon "JMap" [TList (gom m)]
  end.

(* compact text of a value (length-prefixed strings, no escaping): what travels to the harness *)
Fixpoint render (v : sval) (acc : pystr) : pystr :=
  match v with
  | JNull => "n"%char :: acc
  | JBool true => "t"%char :: acc
  | JBool false => "f"%char :: acc
  | JInt z => "i"%char :: decZ z ++ ";"%char :: acc
  | JFloat r => "d"%char :: dec (length r) ++ ":"%char :: r ++ acc
  | JStr s => "s"%char :: dec (length s) ++ ":"%char :: s ++ acc
  | JList l =>
    "["%char :: (fix go (l : list sval) : pystr :=
                   match l with [] => "]"%char :: acc | x :: r => render x (go r) end) l
  | JMap m =>
    "{"%char :: (fix gom (m : list (pystr * sval)) : pystr :=
                   match m with
                   | [] => "}"%char :: acc
                   | (k, x) :: r => dec (length k) ++ ":"%char :: k ++ render x (gom r)
                   end) m
  end.
Definition hexd (a b c d : bool) : ascii :=
  match d, c, b, a with
  | false, false, false, false => "0"%char
  | false, false, false, true => "1"%char
  | false, false, true, false => "2"%char
  | false, false, true, true => "3"%char
  | false, true, false, false => "4"%char
  | false, true, false, true => "5"%char
  | false, true, true, false => "6"%char
  | false, true, true, true => "7"%char
  | true, false, false, false => "8"%char
  | true, false, false, true => "9"%char
  | true, false, true, false => "a"%char
  | true, false, true, true => "b"%char
  | true, true, false, false => "c"%char
  | true, true, false, true => "d"%char
  | true, true, true, false => "e"%char
  | true, true, true, true => "f"%char
  end.
Fixpoint fast_hex (s : pystr) : pystr :=
  match s with
  | [] => []
  | Ascii b0 b1 b2 b3 b4 b5 b6 b7 :: r => hexd b4 b5 b6 b7 :: hexd b0 b1 b2 b3 :: fast_hex r
  end.
(* what travels to the harness: salted digests of the rendering (H is the harness's blake2b oracle; the text is cut in four
   salted quarters so that a one-byte digest size still compares 32 bits) *)
Definition tdig (H : pystr -> pystr) (v : sval) : term :=
  let r := render v [] in
  let n := Nat.div (length r) 4 in
  TStr (H ("0"%char :: firstn n r) ++ H ("1"%char :: firstn n (skipn n r))
        ++ H ("2"%char :: firstn n (skipn (2 * n) r)) ++ H ("3"%char :: skipn (3 * n) r)).
(* printed as the constructor name H<hex>: Base.Term's string printer converts every byte through unary nat *)
Definition tsval (v : sval) : term := TCon ("H"%char :: fast_hex (render v [])) [].

(* yaml.dump sorts the keys of every mapping: for that format key order is not an observable *)
Fixpoint sort_all (v : sval) : sval :=
  let fix gom (m : list (pystr * sval)) : list (pystr * sval) :=
    match m with [] => [] | (k, x) :: r => (k, sort_all x) :: gom r end in
  match v with
  | JList l => JList (map sort_all l)
  | JMap m => JMap (sort_items (gom m))
  | _ => v
  end.

Fixpoint pty_of_term (t : term) : option pty :=
  match t with
  | TCon c args =>
    if name_is c "TyInt" then Some TyInt
    else if name_is c "TyStr" then Some TyStr
    else if name_is c "TyBool" then Some TyBool
    else if name_is c "TyFloat" then Some TyFloat
    else if name_is c "TyPath" then Some TyPath
    else if name_is c "TyAny" then Some TyAny
    else if name_is c "TyOpt" then match args with [x] => option_map TyOpt (pty_of_term x) | _ => None end
    else if name_is c "TyTup" then match args with [x] => option_map TyTup (pty_of_term x) | _ => None end
    else if name_is c "TyEnum" then
      match args with
      | [TStr n; TList ms] =>
        do ms' <- map_opt (fun m => match m with
                                    | TCon _ [TStr k; v] => option_map (fun v' => (k, v')) (pval_of_term v)
                                    | _ => None end) ms;
        Some (TyEnum n ms')
      | _ => None
      end
    else None
  | _ => None
  end.
Definition pdecl_of_term (t : term) : option pdecl :=
  match is_con "PD" t with
  | Some [TStr n; ty; d] =>
    do ty' <- pty_of_term ty; do d' <- get_opt pval_of_term d;
    Some {| pd_name := n; pd_ty := ty'; pd_default := d' |}
  | _ => None
  end.
Definition ptab_of_term (t : term) : option ptab :=
  match t with
  | TList l => map_opt (fun x => match is_con "PC" x with
                                 | Some [TStr c; TList ds] => do ds' <- map_opt pdecl_of_term ds; Some (c, ds')
                                 | _ => None end) l
  | _ => None
  end.

Definition adialect_of_term (t : term) : option adialect :=
  match t with
  | TCon c [] => if name_is c "DExplorer" then Some DExplorer else if name_is c "DTest" then Some DTest else None
  | _ => None
  end.
Definition optdict_of_term (t : term) : option optdict :=
  match is_con "Opts" t with
  | Some [a; b; c; d] =>
    do a' <- get_opt get_bool a; do b' <- get_opt get_bool b; do c' <- get_opt adialect_of_term c; do d' <- get_opt get_bool d;
    Some {| od_skip := a'; od_sort := b'; od_dial := c'; od_sidx := d' |}
  | _ => None
  end.
Definition mdialect_of_term (t : term) : option mdialect :=
  match t with
  | TCon c [] => if name_is c "MOrjson" then Some MOrjson else if name_is c "MMsgpack" then Some MMsgpack
                 else if name_is c "MUser" then Some MUser else None
  | _ => None
  end.
Definition term_of_adialect (d : adialect) : term := match d with DExplorer => tcon "DExplorer" [] | DTest => tcon "DTest" [] end.
Definition term_of_mdialect (d : mdialect) : term :=
  match d with MOrjson => tcon "MOrjson" [] | MMsgpack => tcon "MMsgpack" [] | MUser => tcon "MUser" [] end.
Definition term_of_slots (s : slots) : term :=
  tcon "Slots" [tcon "Opts" [topt tbool (od_skip (sl_opts s)); topt tbool (od_sort (sl_opts s));
                             topt term_of_adialect (od_dial (sl_opts s)); topt tbool (od_sidx (sl_opts s))];
                topt term_of_mdialect (sl_md s)].

(* admissibility of a tree for the serialization models: conforms to the class table, every property is declared *)
Fixpoint props_declared (pt : ptab) (n : node) : bool :=
  match n with
  | Node _ c _ ps ks =>
    forallb (fun p => match find_pdecl (fst p) (pdecls pt c) with Some _ => true | None => false end) ps
    && forallb (fun k => forallb (props_declared pt) (snd (snd k))) ks
  end.

(* every node of a tree, pre-order, each position *)
Fixpoint subnodes (n : node) : list node :=
  match n with
  | Node _ _ _ _ ks => n :: flat_map (fun k => flat_map subnodes (snd (snd k))) ks
  end.

(* the same tree term at other addresses: a twin copy *)
Fixpoint readdr (d : nat) (n : node) : node :=
  match n with
  | Node a c o ps ks => Node (a + d) c o ps (map (fun k => (fst k, (fst (snd k), map (readdr d) (snd (snd k))))) ks)
  end.
