(* C20 entry point.  Three kinds of input:
   (C20T ct root start prune_set filter_set classes exact)
       start: address of the node the traversals start from; prune_set / filter_set: addresses for which
       prune(node) is True / filter(node) is False.  Output: eleven streams of (node, parent, field, index).
   (C20X ct root [xpath ...])
       Output: the xpath attribute of every node after root.calculate_xpath(), and per xpath either
       (DefinitionError) or the verdict of ASTXpath(x).match(n) for every node n of the tree.
   (C20B text)    a text outside the grammar: (DefinitionError). *)
From Oak Require Import Run.Codec Model.LegacyTrav Model.LegacyXpath.

(* ---------- decoding ---------- *)
Definition lidx_of_term (t : term) : option idxspec :=
  match t with
  | TCon c [] => if name_is c "IAbsent" then Some IAbsent else if name_is c "IEmpty" then Some IEmpty else None
  | TCon c [k] => if name_is c "IVal" then option_map IVal (get_nat k) else None
  | _ => None
  end.
Definition lstep_of_term (t : term) : option step :=
  match is_con "St" t with
  | Some [f; i; c] =>
    do f' <- get_opt get_str f; do i' <- lidx_of_term i; do c' <- get_opt get_str c;
    Some {| st_field := f'; st_index := i'; st_class := c' |}
  | _ => None
  end.
Definition lxpath_of_term (t : term) : option xpath :=
  match is_con "XP" t with
  | Some [r; TList ss] => do r' <- get_bool r; do ss' <- map_opt lstep_of_term ss;
                          Some {| xp_relative := r'; xp_steps := ss' |}
  | _ => None
  end.

(* names in an xpath AST must be printable as CNAME tokens ((letter | "_") (letter | digit | "_")* ): anything else
   (only a shrinker produces it) is inadmissible *)
Definition is_letter_ (c : ascii) : bool :=
  let n := nat_of_ascii c in
  (Nat.leb 65 n && Nat.leb n 90) || (Nat.leb 97 n && Nat.leb n 122) || Nat.eqb n 95.
Definition is_digit_ (c : ascii) : bool := let n := nat_of_ascii c in Nat.leb 48 n && Nat.leb n 57.
Definition is_cname (s : pystr) : bool :=
  match s with
  | [] => false
  | c :: r => is_letter_ c && forallb (fun x => is_letter_ x || is_digit_ x) r
  end.
Definition opt_cname (o : option pystr) : bool := match o with Some s => is_cname s | None => true end.
Definition printable_xpath (x : xpath) : bool :=
  forallb (fun s => opt_cname (st_field s) && opt_cname (st_class s)) (xp_steps x).

(* ---------- the objects of the attached tree, with the path leading to each (pre-order) ---------- *)
Fixpoint all_paths (ct : ctable) (fuel : nat) (n : node) : list (list tinfo) :=
  match fuel with
  | 0 => []
  | S f => [] :: flat_map (fun ti => map (cons ti) (all_paths ct f (ti_node ti))) (infos ct n)
  end.
Definition obj_of_path (root : node) (l : list tinfo) : lobj :=
  match rev l with
  | [] => root_obj root
  | ti :: _ => of_tinfo ti
  end.
Fixpoint lnodupb (l : list nat) : bool :=
  match l with
  | [] => true
  | a :: r => negb (existsb (Nat.eqb a) r) && lnodupb r
  end.

Definition admissible_tree (ct : ctable) (root : node) : option term :=
  if negb (wf_node ct root) then Some (terr "node does not conform to the class table")
  else if negb (ct_child_init ct) then Some (terr "inadmissible: a child field with init=False")
  else if negb (lnodupb (map (fun l => addr (lo_node (obj_of_path root l))) (all_paths ct (size root) root)))
  then Some (terr "inadmissible: a node object occurs twice, not an attached legacy tree")
  else None.

(* ---------- encoding ---------- *)
Definition tobj (o : lobj) : term :=
  match lo_pos o with
  | None => TList [taddr (lo_node o); tnone; tnone; tnone]
  | Some (p, f, i) => TList [taddr (lo_node o); tcon "Some" [taddr p]; tcon "Some" [TStr f]; term_of_idx i]
  end.
Definition tlstream (o : option (list lobj)) : term :=
  match o with Some l => TList (map tobj l) | None => terr "out of fuel" end.

Definition lin_set (s : list nat) (o : lobj) : bool := existsb (Nat.eqb (addr (lo_node o))) s.

Definition run_trav (ct : ctable) (root : node) (start : nat) (prs fls : list nat) (classes : list pystr) (exact : bool) : term :=
  match find (fun o => Nat.eqb (addr (lo_node o)) start)
             (map (obj_of_path root) (all_paths ct (size root) root)) with
  | None => terr "start node is not in the tree"
  | Some s =>
    let prune := lin_set prs in
    let filt := fun o => negb (lin_set fls o) in
    let none := fun _ : lobj => false in
    let all := fun _ : lobj => true in
    let k := size (lo_node s) in
    tcon "Trav"
      [ tlstream (ldfs ct none all k false false s);
        tlstream (ldfs ct none all k true false s);
        tlstream (lbfs ct none all k false s);
        tlstream (ldfs ct prune filt k false false s);
        tlstream (ldfs ct prune filt k true false s);
        tlstream (lbfs ct prune filt k false s);
        tlstream (ldfs ct prune filt k false true s);
        tlstream (ldfs ct prune filt k true true s);
        tlstream (lbfs ct prune filt k true s);
        tlstream (lgather ct k classes exact filt prune false s);
        tlstream (lgather ct k classes (negb exact) all none true s) ]
  end.

Definition eval_lxpath (ct : ctable) (root : node) (paths : list (list tinfo)) (x : xpath) : term :=
  match legacy_compile ct x with
  | None => tcon "DefinitionError" []
  | Some els =>
    tcon "M" [TList (map (fun l => TList [taddr (lo_node (obj_of_path root l)); tbool (lmatch ct (lchain root l) els)]) paths)]
  end.

Definition run_xpaths (ct : ctable) (root : node) (xs : list xpath) : term :=
  let paths := all_paths ct (size root) root in
  match calculate_xpath ct (size root) (root_obj root) with
  | None => terr "out of fuel"
  | Some XpNoParentField => tcon "RuntimeError" []
  | Some (XpOk L) =>
    tcon "XR" [ TList (map (fun p => TList [taddr (lo_node (fst p)); TStr (snd p)]) L);
                TList (map (eval_lxpath ct root paths) xs) ]
  end.

Definition run_C20 (_ : pystr -> pystr) (t : term) : term :=
  match t with
  | TCon c args =>
    if name_is c "C20T" then
      match args with
      | [ctt; nt; st; TList pr; TList fl; TList cs; ex] =>
        match ctable_of_term ctt, node_of_term nt, get_nat st, map_opt get_nat pr, map_opt get_nat fl,
              map_opt get_str cs, get_bool ex with
        | Some ct, Some root, Some start, Some prs, Some fls, Some classes, Some exact =>
          match admissible_tree ct root with
          | Some e => e
          | None => run_trav ct root start prs fls classes exact
          end
        | _, _, _, _, _, _, _ => terr "C20T: cannot decode"
        end
      | _ => terr "C20T: bad input"
      end
    else if name_is c "C20X" then
      match args with
      | [ctt; nt; TList xts] =>
        match ctable_of_term ctt, node_of_term nt, map_opt lxpath_of_term xts with
        | Some ct, Some root, Some xs =>
          match admissible_tree ct root with
          | Some e => e
          | None => if forallb printable_xpath xs then run_xpaths ct root xs
                    else terr "inadmissible: a field or class name that is not a CNAME"
          end
        | _, _, _ => terr "C20X: cannot decode"
        end
      | _ => terr "C20X: bad input"
      end
    else if name_is c "C20B" then
      match args with
      | [TStr _] => tcon "DefinitionError" []
      | _ => terr "C20B: bad input"
      end
    else terr "C20: bad input"
  | _ => terr "C20: bad input"
  end.
