(* term <-> class tables, values, nodes. Shared by the Run files. *)
From Oak Require Export Base.Term Model.Node Run.RunC15.

Definition name_is (c : pystr) (s : string) : bool := pystr_eqb c (lit s).

Definition role_of_term (t : term) : option frole :=
  match t with
  | TCon c [] =>
    if name_is c "Prop" then Some RProp
    else if name_is c "One" then Some (RChild (KOpt false))
    else if name_is c "Opt" then Some (RChild (KOpt true))
    else if name_is c "Tup" then Some (RChild KTup)
    else None
  | _ => None
  end.
Definition fdecl_of_term (t : term) : option fdecl :=
  match is_con "F" t with
  | Some [TStr n; r; cmp; ini; kw] =>
    do r' <- role_of_term r; do c <- get_bool cmp; do i <- get_bool ini; do k <- get_bool kw;
    Some {| fd_name := n; fd_role := r'; fd_compare := c; fd_init := i; fd_kwonly := k |}
  | _ => None
  end.
Definition cdecl_of_term (t : term) : option cdecl :=
  match is_con "Cls" t with
  | Some [TStr n; TList bs; TList fs] =>
    do bs' <- map_opt get_str bs; do fs' <- map_opt fdecl_of_term fs;
    Some {| cd_name := n; cd_bases := bs'; cd_own := fs' |}
  | _ => None
  end.
Definition ctable_of_term (t : term) : option ctable :=
  match is_con "CT" t with
  | Some [TList l] => map_opt cdecl_of_term l
  | _ => None
  end.

Fixpoint pval_of_term (t : term) : option pval :=
  let fix go (l : list term) : option (list pval) :=
    match l with
    | [] => Some []
    | x :: r => match pval_of_term x, go r with Some a, Some b => Some (a :: b) | _, _ => None end
    end in
  match t with
  | TCon c args =>
    if name_is c "VNone" then match args with [] => Some VNone | _ => None end
    else if name_is c "VBool" then match args with [b] => option_map VBool (get_bool b) | _ => None end
    else if name_is c "VInt" then match args with [TInt z] => Some (VInt z) | _ => None end
    else if name_is c "VStr" then match args with [TStr s] => Some (VStr s) | _ => None end
    else if name_is c "VEnum" then
      match args with [TStr k; TStr m; p] => option_map (VEnum k m) (pval_of_term p) | _ => None end
    else if name_is c "VFloat" then match args with [TStr s] => Some (VFloat s) | _ => None end
    else if name_is c "VPath" then match args with [TStr s] => Some (VPath s) | _ => None end
    else if name_is c "VTuple" then match args with [TList l] => option_map VTuple (go l) | _ => None end
    else if name_is c "VFset" then match args with [TList l] => option_map VFset (go l) | _ => None end
    else None
  | _ => None
  end.

Definition shape_of_term (t : term) : option kshape :=
  match t with
  | TCon c [] => if name_is c "ShNone" then Some ShNone else if name_is c "ShOne" then Some ShOne
                 else if name_is c "ShMany" then Some ShMany else None
  | _ => None
  end.

(* (N addr cls origin [(name val)...] [(name shape [kids])...]) *)
Fixpoint node_of_term (t : term) : option node :=
  let fix go (l : list term) : option (list node) :=
    match l with
    | [] => Some []
    | x :: r => match node_of_term x, go r with Some a, Some b => Some (a :: b) | _, _ => None end
    end in
  let fix gok (l : list term) : option (list (pystr * (kshape * list node))) :=
    match l with
    | [] => Some []
    | TCon _ [TStr f; sh; TList kids] :: r =>
      match shape_of_term sh, go kids, gok r with
      | Some s, Some ks, Some rest => Some ((f, (s, ks)) :: rest)
      | _, _, _ => None
      end
    | _ => None
    end in
  match t with
  | TCon c [a; TStr k; o; TList ps; TList ks] =>
    if name_is c "N" then
      do a' <- get_nat a; do o' <- origin_of_term o;
      do ps' <- map_opt (fun p => match p with
                                  | TCon _ [TStr f; v] => option_map (fun v' => (f, v')) (pval_of_term v)
                                  | _ => None end) ps;
      do ks' <- gok ks;
      Some (Node a' k o' ps' ks')
    else None
  | _ => None
  end.

Fixpoint term_of_pval (v : pval) : term :=
  match v with
  | VNone => tcon "VNone" []
  | VBool b => tcon "VBool" [tbool b]
  | VInt z => tcon "VInt" [TInt z]
  | VStr s => tcon "VStr" [TStr s]
  | VEnum c m p => tcon "VEnum" [TStr c; TStr m; term_of_pval p]
  | VFloat s => tcon "VFloat" [TStr s]
  | VPath s => tcon "VPath" [TStr s]
  | VTuple l => tcon "VTuple" [TList (map term_of_pval l)]
  | VFset l => tcon "VFset" [TList (map term_of_pval l)]
  end.

Definition term_of_idx (i : option nat) : term := topt tnat i.
Definition taddr (n : node) : term := tnat (addr n).

