(* C04 entry point: serialize a tree and read it back under a given liveness of the original nodes.
   (C04 ct ptab tree copies [retained addr...] given-opts fresh-sources fmt) -> (RT ser (Ok tree' eq) | (Exc)) *)
From Oak Require Import Run.SerCodec.

Definition twin_offset : nat := 1000.
Definition fresh_base : nat := 9000.

(* == of two nodes: class, origin, property values, children, position-wise (addresses ignored) *)
Fixpoint props_eqb (x y : list (pystr * pval)) : bool :=
  match x, y with
  | [], [] => true
  | (k, p) :: x', (k', q) :: y' => pystr_eqb k k' && pval_eqb p q && props_eqb x' y'
  | _, _ => false
  end.
Fixpoint node_eqb (a b : node) : bool :=
  match a, b with
  | Node _ c o ps ks, Node _ c' o' ps' ks' =>
    let fix go (x y : list node) : bool :=
      match x, y with
      | [], [] => true
      | p :: x', q :: y' => node_eqb p q && go x' y'
      | _, _ => false
      end in
    let fix gok (x y : list (pystr * (kshape * list node))) : bool :=
      match x, y with
      | [], [] => true
      | (f, (sh, l)) :: x', (f', (sh', l')) :: y' =>
        pystr_eqb f f' && match sh, sh' with ShNone, ShNone | ShOne, ShOne | ShMany, ShMany => true | _, _ => false end
        && go l l' && gok x' y'
      | _, _ => false
      end in
    pystr_eqb c c' && origin_eqb o o' && props_eqb ps ps' && gok ks ks'
  end.

Fixpoint nodup_nat (l : list nat) (seen : list nat) : list nat :=
  match l with
  | [] => []
  | x :: r => if existsb (Nat.eqb x) seen then nodup_nat r seen else x :: nodup_nat r (x :: seen)
  end.
Fixpoint pos_of (x : nat) (l : list nat) : nat :=
  match l with [] => 0 | y :: r => if Nat.eqb y x then 0 else S (pos_of x r) end.

Definition tshape (s : kshape) : term :=
  match s with ShNone => tcon "ShNone" [] | ShOne => tcon "ShOne" [] | ShMany => tcon "ShMany" [] end.

Section Run.
  Variable H : pystr -> pystr.
  Variable ct : ctable.
  Variable pt : ptab.
  Variable tree : node.

  (* twin copies built (and kept alive) before the tree *)
  Fixpoint build_twins (k : nat) (st : bstate) (acc : list (pystr * node)) : bstate * list (pystr * node) :=
    match k with
    | 0 => (st, acc)
    | S k' =>
      let '(st', acc') := build_twins k' st acc in
      let tw := readdr (twin_offset * k) tree in
      let st'' := build H ct tw {| b_ids := []; b_used := b_used st'; b_srcs := b_srcs st' |} in
      (st'', acc' ++ flat_map (fun n => match assoc_nat (addr n) (b_ids st'') with Some i => [(i, n)] | None => [] end) (subnodes tw))
    end.

  Definition obs_tree (ids : list (nat * (pystr * pystr))) (news : list nat) : node -> term :=
    fix obs (n : node) : term :=
      match n with
      | Node a c o ps ks =>
        if Nat.ltb a fresh_base then tcon "Same" [tnat a]
        else
          let ic := match assoc_nat a ids with Some p => p | None => ([], []) end in
          tcon "New" [tnat (pos_of a news); TStr c; TStr (fst ic); TStr (snd ic); term_of_origin o;
                      TList (map (fun p => tcon "P" [TStr (fst p); term_of_pval (snd p)]) ps);
                      TList (map (fun k => tcon "K" [TStr (fst k); tshape (fst (snd k)); TList (map obs (snd (snd k)))]) ks)]
      end.

  Definition run (copies : nat) (retained : list nat) (given : option optdict) (fresh_sources : bool) : term :=
    let '(stw, twins) := build_twins copies {| b_ids := []; b_used := []; b_srcs := [] |} [] in
    let st := build H ct tree {| b_ids := []; b_used := b_used stw; b_srcs := b_srcs stw |} in
    let s_call := set_slots slots0 given None in
    match ser_node H ct pt current_nv s_call (b_srcs st) (b_ids st) [] tree with
    | None => tcon "RT" [tcon "Raise" []; tcon "Exc" []]
    | Some v =>
      let srcs :=
        if fresh_sources then
          match all_as_dict (b_srcs st) with
          | Some ds => load_sources (S (fold_right Nat.max 0 (map sval_depth ds))) ds []
          | None => Exc
          end
        else Ok (b_srcs st) in
      let alive := flat_map subnodes (filter (fun n => existsb (Nat.eqb (addr n)) retained) (subnodes tree)) in
      (* address 999 in the retained list = the twin copies are dropped before reading back *)
      let twins := if existsb (Nat.eqb 999) retained then [] else twins in
      let nreg := twins ++ flat_map (fun n => match assoc_nat (addr n) (b_ids st) with Some i => [(i, n)] | None => [] end) alive in
      tcon "RT" [tdig H v;
        match srcs with
        | Exc => tcon "Exc" []
        | Ok srcs' =>
          match deser_node H ct pt current_dv (S (sval_depth v)) s_call v
                  {| ds_srcs := srcs'; ds_reg := nreg; ds_ids := []; ds_next := fresh_base |} with
          | Exc => tcon "Exc" []
          | Ok (n', st') =>
            let news := nodup_nat (filter (fun a => negb (Nat.ltb a fresh_base)) (map addr (subnodes n'))) [] in
            tcon "Ok" [obs_tree (ds_ids st') news n'; tbool (node_eqb tree n')]
          end
        end]
    end.
End Run.

Definition run_C04 (H : pystr -> pystr) (t : term) : term :=
  match is_con "C04" t with
  | Some [ctt; ptt; nt; copies; TList retained; given; fs; _] =>
    match ctable_of_term ctt, ptab_of_term ptt, node_of_term nt, get_nat copies, map_opt get_nat retained,
          get_opt optdict_of_term given, get_bool fs with
    | Some ct, Some pt, Some n, Some k, Some ret, Some g, Some fsb =>
      if negb (wf_node ct n && props_declared pt n) then terr "C04: tree does not conform to the class table"
      else if negb (forallb (fun m => Nat.ltb (addr m) twin_offset) (subnodes n)) then terr "C04: address out of range"
      else run H ct pt n k ret g fsb
    | _, _, _, _, _, _, _ => terr "C04: cannot decode the case"
    end
  | _ => terr "C04: bad input"
  end.
