(* C17 entry point: the model reads the TEXT itself.
   (Pat ct text [(RE regex compiles)...] [root...] [target addr...])
       -> (PatRes validate from_pattern multi probes)    probes = [result per target] | (NoProbe)
   (Xp ct text) -> (XpOk [(E cls field index anywhere)...]) | (XpErr kind)
   re.compile is an oracle: the harness supplies, for every quoted string that can occur in the text, whether
   Python compiles it.  Matching behaviour is only computed when every regex of the accepted pattern is in the
   computable family of Run/RunC08.v. *)
From Oak Require Import Run.Codec Model.Pattern Model.PatParse Model.XpathParse Run.RunC08.
From Coq Require Import List ZArith Bool Ascii.
Import ListNotations.

Fixpoint regexes_pat (p : pat) : list pystr :=
  match p with PTree _ fs => flat_map (fun f => regexes_fspec (snd f)) fs end
with regexes_fspec (s : fspec) : list pystr :=
  match s with
  | FAny _ => []
  | FVal v _ => regexes_vpat v
  | FSeq items _ _ => flat_map (fun it => regexes_vpat (fst it)) items
  end
with regexes_vpat (v : vpat) : list pystr :=
  match v with VTree p => regexes_pat p | VRegex r => [r] | _ => [] end.

Definition term_of_status (o : option perr) : term :=
  match o with None => tcon "Ok" [] | Some e => term_of_perr e end.
Definition term_of_xerr (e : xerr) : term :=
  match e with XSyntax => tcon "Syntax" [] | XUnknownClass => tcon "UnknownClass" [] | XNotNode => tcon "NotNode" [] end.
Definition term_of_xelem (e : xelem) : term :=
  tcon "E" [TStr (xe_cls e); topt TStr (xe_field e); topt (fun n => TInt (Z.of_N n)) (xe_index e); tbool (xe_anywhere e)].

Definition run_C17 (H : pystr -> pystr) (t : term) : term :=
  match is_con "Xp" t with
  | Some [ctt; TStr text] =>
    match ctable_of_term ctt with
    | Some ct =>
      match xpath_compile ct text with
      | inl els => tcon "XpOk" [TList (map term_of_xelem els)]
      | inr e => tcon "XpErr" [term_of_xerr e]
      end
    | None => terr "C17: cannot decode the class table"
    end
  | _ =>
    match is_con "Pat" t with
    | Some [ctt; TStr text; TList res; TList rts; TList tgs] =>
      match ctable_of_term ctt,
            map_opt (fun r => match is_con "RE" r with
                              | Some [TStr x; b] => option_map (fun b' => (x, b')) (get_bool b)
                              | _ => None
                              end) res,
            map_opt node_of_term rts, map_opt get_nat tgs with
      | Some ct, Some table, Some roots, Some targets =>
        let re_ok r := match assoc r table with Some b => b | None => false end in
        let known := match parse_pattern text with
                     | Some p => forallb (fun r => match assoc r table with Some _ => true | None => false end) (regexes_pat p)
                     | None => true
                     end in
        if negb known then terr "C17: a regex of the text is missing from the oracle table"
        else if negb (forallb (wf_node ct) roots) then terr "C17: a node does not conform to the class table"
        else
          let st_validate := validate_pattern ct re_ok text in
          let st_from := match snd (from_pattern ct re_ok [] text) with inl _ => None | inr e => Some e end in
          let st_again :=      (* the same text once more, now through the cache *)
              let c1 := fst (from_pattern ct re_ok [] text) in
              match snd (from_pattern ct re_ok c1 text) with inl _ => None | inr e => Some e end in
          let st_multi := match snd (multi_new ct re_ok [] [(lit "r", text)]) with
                          | inl _ => tcon "Ok" []
                          | inr MNamesNotUnique => tcon "NamesNotUnique" []
                          | inr (MIncorrect bad) => tcon "Incorrect" [TList (map (fun b => term_of_perr (snd b)) bad)]
                          end in
          let probes :=
              match parse_pattern text, compile_text ct re_ok text, map_opt (fun a => find_in a roots) targets with
              | Some p, inl m, Some tnodes =>
                if pat_adm ct p
                then TList (map (fun n => term_of_res (run H ct lit_re_match trunc_repr true m (XN n) [])) tnodes)
                else tcon "NoProbe" []
              | _, _, _ => tcon "NoProbe" []
              end in
          tcon "PatRes" [term_of_status st_validate; term_of_status st_from; term_of_status st_again; st_multi; probes]
      | _, _, _, _ => terr "C17: cannot decode"
      end
    | _ => terr "C17: bad input"
    end
  end.
