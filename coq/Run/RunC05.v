(* C05 entry point. Input: (C05 ct node prune_set filter_set classes exact)
   prune_set / filter_set: lists of addresses (of the yielded node) for which prune(...) is True / filter(...) is False. *)
From Oak Require Import Run.Codec Model.Traverse.

Definition in_set (s : list nat) (ti : tinfo) : bool := existsb (Nat.eqb (addr (ti_node ti))) s.
Definition tinfo_term (ti : tinfo) : term :=
  TList [taddr (ti_node ti); taddr (ti_parent ti); TStr (ti_field ti); term_of_idx (ti_index ti)].
Definition tstream (o : option (list tinfo)) : term :=
  match o with Some l => TList (map tinfo_term l) | None => terr "out of fuel" end.

Definition run_C05 (_ : pystr -> pystr) (t : term) : term :=
  match is_con "C05" t with
  | Some [ctt; nt; TList pr; TList fl; TList cs; ex] =>
    match ctable_of_term ctt, node_of_term nt, map_opt get_nat pr, map_opt get_nat fl, map_opt get_str cs, get_bool ex with
    | Some ct, Some n, Some prs, Some fls, Some classes, Some exact =>
      if negb (wf_node ct n) then terr "node does not conform to the class table" else
      let prune := in_set prs in
      let filt := fun ti => negb (in_set fls ti) in
      let none := fun _ : tinfo => false in
      let all := fun _ : tinfo => true in
      tcon "Trav"
        [ tstream (dfs ct none all (size n) false n);
          tstream (dfs ct none all (size n) true n);
          tstream (bfs ct none all (size n) n);
          tstream (dfs ct prune filt (size n) false n);
          tstream (dfs ct prune filt (size n) true n);
          tstream (bfs ct prune filt (size n) n);
          match gather ct (size n) classes exact filt prune n with
          | Some l => TList (map taddr l) | None => terr "out of fuel" end;
          match gather ct (size n) classes (negb exact) all none n with
          | Some l => TList (map taddr l) | None => terr "out of fuel" end ]
    | _, _, _, _, _, _ => terr "C05: cannot decode"
    end
  | _ => terr "C05: bad input"
  end.
