(* Entry point of the C15 model for the correspondence check: term -> term. *)
From Oak Require Import Base.Term Model.Origin.
Local Open Scope Z_scope.

Definition point_of_term (t : term) : option point :=
  match is_con "P" t with
  | Some [TInt i; TInt l; TInt c] => Some {| p_idx := i; p_line := l; p_col := c |}
  | _ => None
  end.
Definition range_of_term (t : term) : option range :=
  match is_con "R" t with
  | Some [a; b] => do s <- point_of_term a; do e <- point_of_term b; Some {| r_start := s; r_end := e |}
  | _ => None
  end.

Fixpoint source_of_term (t : term) : option source :=
  let fix go (l : list term) : option (list source) :=
    match l with
    | [] => Some []
    | x :: r => match source_of_term x, go r with Some a, Some b => Some (a :: b) | _, _ => None end
    end in
  match t with
  | TCon c args =>
    if pystr_eqb c (lit "SNo") then match args with [] => Some SNo | _ => None end
    else if pystr_eqb c (lit "SText") then match args with [TStr u; TStr ty] => Some (SText u ty) | _ => None end
    else if pystr_eqb c (lit "SMem") then
      match args with [TStr u; r] => do raw <- get_opt get_str r; Some (SMem u raw) | _ => None end
    else if pystr_eqb c (lit "SFile") then match args with [TStr p] => Some (SFile p) | _ => None end
    else if pystr_eqb c (lit "SSet") then match args with [TList l] => do l' <- go l; Some (SSet l') | _ => None end
    else None
  | _ => None
  end.

Fixpoint origin_of_term (t : term) : option origin :=
  let fix go (l : list term) : option (list origin) :=
    match l with
    | [] => Some []
    | x :: r => match origin_of_term x, go r with Some a, Some b => Some (a :: b) | _, _ => None end
    end in
  match t with
  | TCon c args =>
    if pystr_eqb c (lit "ONo") then match args with [] => Some ONo | _ => None end
    else if pystr_eqb c (lit "OCode") then
      match args with [s; r] => do s' <- source_of_term s; do r' <- range_of_term r; Some (OCode s' r') | _ => None end
    else if pystr_eqb c (lit "OGen") then
      match args with [s] => do s' <- source_of_term s; Some (OGen s') | _ => None end
    else if pystr_eqb c (lit "OXml") then
      match args with [s; TStr p] => do s' <- source_of_term s; Some (OXml s' p) | _ => None end
    else if pystr_eqb c (lit "OEntire") then
      match args with [s] => do s' <- source_of_term s; Some (OEntire s') | _ => None end
    else if pystr_eqb c (lit "OMulti") then
      match args with [TList l] => do l' <- go l; Some (OMulti l') | _ => None end
    else None
  | _ => None
  end.

Definition term_of_point (p : point) : term := tcon "P" [TInt (p_idx p); TInt (p_line p); TInt (p_col p)].
Definition term_of_range (r : range) : term := tcon "R" [term_of_point (r_start r); term_of_point (r_end r)].
Fixpoint term_of_source (s : source) : term :=
  match s with
  | SNo => tcon "SNo" []
  | SText u ty => tcon "SText" [TStr u; TStr ty]
  | SMem u raw => tcon "SMem" [TStr u; topt TStr raw]
  | SFile p => tcon "SFile" [TStr p]
  | SSet l => tcon "SSet" [TList (map term_of_source l)]
  end.
Fixpoint term_of_origin (o : origin) : term :=
  match o with
  | ONo => tcon "ONo" []
  | OCode s r => tcon "OCode" [term_of_source s; term_of_range r]
  | OGen s => tcon "OGen" [term_of_source s]
  | OXml s p => tcon "OXml" [term_of_source s; TStr p]
  | OEntire s => tcon "OEntire" [term_of_source s]
  | OMulti l => tcon "OMulti" [TList (map term_of_origin l)]
  end.
Fixpoint term_of_raw (r : rawv) : term :=
  match r with
  | RNone => tnone
  | RStr s => tcon "Str" [TStr s]
  | RList l => TList (map term_of_raw l)
  end.

Definition tres {A} (f : A -> term) (o : option A) : term :=
  match o with Some x => tcon "Ok" [f x] | None => tcon "Err" [] end.

(* what is observed of a resulting origin: structure, fqn, source, raw *)
Definition obs_origin (o : origin) : term :=
  tcon "Obs" [term_of_origin o; TStr (ofqn o); term_of_source (osource o); term_of_raw (get_raw o)].

Definition run_C15 (_ : pystr -> pystr) (t : term) : term :=
  match t with
  | TCon c args =>
    if pystr_eqb c (lit "MkPoint") then
      match args with
      | [TInt i; TInt l; TInt k] => tres term_of_point (mk_point i l k)
      | _ => terr "MkPoint args"
      end
    else if pystr_eqb c (lit "MkRange") then
      match args with
      | [TInt i; TInt l; TInt k; TInt i'; TInt l'; TInt k'] =>
        tres term_of_range
          (do s <- mk_point i l k; do e <- mk_point i' l' k'; mk_range s e)
      | _ => terr "MkRange args"
      end
    else if pystr_eqb c (lit "Rel") then
      match args with
      | [a; b] =>
        match range_of_term a, range_of_term b with
        | Some ra, Some rb =>
          tcon "Rel" [tbool (r_lt ra rb); tbool (r_le ra rb); tbool (contains ra rb); tbool (overlaps ra rb);
                      tres term_of_range (hull ra rb); TStr (range_fqn ra);
                      tbool (range_eqb ra rb); tbool (p_gt (r_start ra) (r_start rb)); tbool (p_ge (r_end ra) (r_end rb))]
        | _, _ => terr "Rel ranges"
        end
      | _ => terr "Rel args"
      end
    else if pystr_eqb c (lit "Add") then
      match args with
      | [a; b] =>
        match origin_of_term a, origin_of_term b with
        | Some oa, Some ob => tres obs_origin (add oa ob)
        | _, _ => terr "Add origins"
        end
      | _ => terr "Add args"
      end
    else if pystr_eqb c (lit "Merge") then
      match args with
      | [TList l] =>
        match map_opt origin_of_term l with
        | Some os => tres obs_origin (Some (merge os))
        | None => terr "Merge origins"
        end
      | _ => terr "Merge args"
      end
    else if pystr_eqb c (lit "Concat") then
      match args with
      | [a; TList l] =>
        match origin_of_term a, map_opt origin_of_term l with
        | Some oa, Some os => tres obs_origin (concat oa os)
        | _, _ => terr "Concat origins"
        end
      | _ => terr "Concat args"
      end
    else if pystr_eqb c (lit "Eq") then
      match args with
      | [a; b] =>
        match origin_of_term a, origin_of_term b with
        | Some oa, Some ob => tbool (origin_eqb oa ob)
        | _, _ => terr "Eq origins"
        end
      | _ => terr "Eq args"
      end
    else terr "unknown op"
  | _ => terr "not an op"
  end.
