(* C12 entry point: all accessor results for one (class table, node). *)
From Oak Require Import Run.Codec Model.Access.

Definition flags_of_nat (k : nat) : pflags :=
  {| skip_id := Nat.testbit k 0; skip_origin := Nat.testbit k 1; skip_content_id := Nat.testbit k 2;
     skip_non_compare := Nat.testbit k 3; skip_non_init := Nat.testbit k 4 |}.

Definition tnames (l : list fdecl) : term := TList (map (fun f => TStr (fd_name f)) l).
Definition tedge (e : node * pystr * option nat) : term :=
  match e with (n, f, i) => TList [taddr n; TStr f; term_of_idx i] end.
Definition tshape (s : kshape) : term :=
  match s with ShNone => tcon "ShNone" [] | ShOne => tcon "ShOne" [] | ShMany => tcon "ShMany" [] end.

Definition run_C12 (_ : pystr -> pystr) (t : term) : term :=
  match is_con "C12" t with
  | Some [ctt; nt] =>
    match ctable_of_term ctt, node_of_term nt with
    | Some ct, Some n =>
      if negb (wf_node ct n) then terr "node does not conform to the class table"
      else
      tcon "Acc"
        [ TList (map (fun k => TList [tnames (get_properties_fields true ct (cls n) (flags_of_nat k) false);
                                      tnames (get_properties_fields true ct (cls n) (flags_of_nat k) true);
                                      tnames (get_property_fields true ct (cls n) (flags_of_nat k))]) (seq 0 32));
          TList (map (fun p => TList [TStr (fst p); topt term_of_pval (snd p)]) (to_properties_dict true ct n));
          TList (map tedge (get_child_nodes_with_field ct n false));
          TList (map tedge (get_child_nodes_with_field ct n true));
          TList (map taddr (get_child_nodes ct n false));
          TList (map taddr (get_child_nodes ct n true));
          TList (map taddr (children ct n));
          TList (map (fun p => TList [TStr (fst p); tshape (fst (snd p)); TList (map taddr (snd (snd p)))]) (iter_child_fields ct n false));
          TList (map (fun p => TList [TStr (fst p); tshape (fst (snd p)); TList (map taddr (snd (snd p)))]) (iter_child_fields ct n true));
          TList (map TStr (get_child_fields ct (cls n)));
          tnames (fields_of ct (cls n)) ]
    | _, _ => terr "C12: cannot decode class table or node"
    end
  | _ => terr "C12: bad input"
  end.
