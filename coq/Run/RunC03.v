(* Entry point of the registry state machine (C03; C14 and C10 reuse it through Run/RunC14.v, Run/RunC10.v):
   one case = one whole history; after every operation everything the three properties speak about is emitted. *)
From Oak Require Import Run.Codec Model.Registry.

(* ---------- decoding ---------- *)
Definition loc_of_term (t : term) : option loc :=
  match is_con "L" t with
  | Some [v; k] => do v' <- get_nat v; do k' <- get_nat k; Some (v', k')
  | _ => None
  end.
Definition cval_of_term (t : term) : option cval :=
  match t with
  | TCon c args =>
    if name_is c "CProp" then match args with [v] => option_map CProp (pval_of_term v) | _ => None end
    else if name_is c "COrigin" then match args with [o] => option_map COrigin (origin_of_term o) | _ => None end
    else if name_is c "CKids" then
      match args with
      | [sh; TList ls] => do sh' <- shape_of_term sh; do ls' <- map_opt loc_of_term ls; Some (CKids sh' ls')
      | _ => None
      end
    else None
  | _ => None
  end.
Definition change_of_term (t : term) : option (pystr * cval) :=
  match is_con "Ch" t with
  | Some [TStr n; v] => do v' <- cval_of_term v; Some (n, v')
  | _ => None
  end.
Definition prop_of_term (t : term) : option (pystr * pval) :=
  match is_con "P" t with
  | Some [TStr n; v] => do v' <- pval_of_term v; Some (n, v')
  | _ => None
  end.
Definition kidl_of_term (t : term) : option (pystr * (kshape * list loc)) :=
  match is_con "K" t with
  | Some [TStr n; sh; TList ls] => do sh' <- shape_of_term sh; do ls' <- map_opt loc_of_term ls; Some (n, (sh', ls'))
  | _ => None
  end.
Definition op_of_term (t : term) : option op :=
  match t with
  | TCon c args =>
    if name_is c "New" then
      match args with
      | [d; TStr k; o; TList ps; TList ks] =>
        do d' <- get_nat d; do o' <- origin_of_term o; do ps' <- map_opt prop_of_term ps;
        do ks' <- map_opt kidl_of_term ks; Some (New d' k o' ps' ks')
      | _ => None
      end
    else if name_is c "Dup" then
      match args with [d; l] => do d' <- get_nat d; do l' <- loc_of_term l; Some (Dup d' l') | _ => None end
    else if name_is c "DcReplace" then
      match args with
      | [d; l; TList ch] => do d' <- get_nat d; do l' <- loc_of_term l; do ch' <- map_opt change_of_term ch;
                            Some (DcReplace d' l' ch')
      | _ => None
      end
    else if name_is c "Replace" then
      match args with
      | [d; l; TList ch] => do d' <- get_nat d; do l' <- loc_of_term l; do ch' <- map_opt change_of_term ch;
                            Some (Replace d' l' ch')
      | _ => None
      end
    else if name_is c "Detach" then match args with [l] => option_map Detach (loc_of_term l) | _ => None end
    else if name_is c "DetachSelf" then match args with [l] => option_map DetachSelf (loc_of_term l) | _ => None end
    else if name_is c "Drop" then match args with [v] => option_map Drop (get_nat v) | _ => None end
    else if name_is c "Read" then
      match args with [l; k] => do l' <- loc_of_term l; do k' <- get_nat k; Some (Read l' k') | _ => None end
    else if name_is c "AsDict" then
      match args with [l; k] => do l' <- loc_of_term l; do k' <- get_nat k; Some (AsDict l' k') | _ => None end
    else if name_is c "AsObj" then
      match args with [k; d] => do k' <- get_nat k; do d' <- get_nat d; Some (AsObj k' d') | _ => None end
    else None
  | _ => None
  end.

(* validations of user subclasses (run after super().__post_init__()) *)
Definition vrule_of_term (t : term) : option vrule :=
  match t with
  | TCon c args =>
    if name_is c "VReject" then
      match args with [TStr k; TStr f; v] => do v' <- pval_of_term v; Some (VReject k f v') | _ => None end
    else if name_is c "VIdSuffix" then
      match args with [TStr k; TStr suf] => Some (VIdSuffix k suf) | _ => None end
    else None
  | _ => None
  end.

(* ---------- observation ---------- *)
(* how a node is named on both sides: first variable (ascending) whose tree contains it, and its first
   position in the pre-order of that tree *)
Fixpoint index_of (a : nat) (l : list nat) (k : nat) : option nat :=
  match l with
  | [] => None
  | x :: r => if Nat.eqb a x then Some k else index_of a r (S k)
  end.
Fixpoint desig_in (s : st) (a : nat) (vs : list (option nat)) (v : nat) : option (nat * nat) :=
  match vs with
  | [] => None
  | None :: r => desig_in s a r (S v)
  | Some root :: r =>
    match index_of a (tree_of s root) 0 with
    | Some k => Some (v, k)
    | None => desig_in s a r (S v)
    end
  end.
Definition tdesig1 (s : st) (a : nat) : term :=
  match desig_in s a (vars s) 0 with
  | Some (v, k) => tcon "At" [tnat v; tnat k]
  | None => tcon "Unheld" []
  end.
Definition tdesig (s : st) (o : option nat) : term :=
  match o with None => tnone | Some a => tdesig1 s a end.

Definition tshape (s : kshape) : term :=
  match s with ShNone => tcon "ShNone" [] | ShOne => tcon "ShOne" [] | ShMany => tcon "ShMany" [] end.

Section Obs.
  Variable H : pystr -> pystr.
  Variable ct : ctable.
  Variable late : st -> nat -> bool.

  Definition tcell (s : st) (a : nat) : term :=
    match cell_at s a with
    | None => tcon "NoCell" []
    | Some c =>
      tcon "Nd" [TStr (k_cls c); term_of_origin (k_org c);
                 TList (map (fun p => tcon "P" [TStr (fst p); term_of_pval (snd p)]) (k_props c));
                 TList (map (fun k => tcon "K" [TStr (fst k); tshape (fst (snd k));
                                               TList (map (tdesig1 s) (snd (snd k)))]) (k_kids c));
                 TStr (k_id c); TStr (k_cid c)]
    end.

  Definition id_of (s : st) (a : nat) : pystr := match cell_at s a with Some c => k_id c | None => [] end.
  Definition cls_of (s : st) (a : nat) : pystr := match cell_at s a with Some c => k_cls c | None => [] end.

  (* per variable: ids and get_any at every position; class lookups for the root *)
  Definition tvar (s : st) (v : option nat) : term :=
    match v with
    | None => tnone
    | Some r =>
      tcon "Some"
        [TList (map (fun a => TList [TStr (id_of s a); tdesig s (get_any s (id_of s a))]) (tree_of s r));
         TList (map (fun cn => TList [tdesig s (get ct s cn (id_of s r) true); tdesig s (get ct s cn (id_of s r) false)])
                    (map cd_name ct ++ [astnode]))]
    end.

  Fixpoint add_seen (seen : list nat) (l : list nat) : list nat * list nat :=   (* (seen', newly seen) *)
    match l with
    | [] => (seen, [])
    | a :: r => if memb a seen then add_seen seen r
                else let '(s', n) := add_seen (seen ++ [a]) r in (s', a :: n)
    end.

  Definition tresult (s : st) (o : obs) : term :=
    match o with
    | OkNone => tcon "OkNone" []
    | OkNode a => tcon "OkNode" [tdesig1 s a]
    | OkBool b => tcon "OkBool" [tbool b]
    | Raised EValue => tcon "Raised" [TStr (lit "ValueError")]
    | Raised EType => tcon "Raised" [TStr (lit "TypeError")]
    | Skipped => tcon "Skipped" []
    | Bad => tcon "Bad" []
    | FuelOut => tcon "FuelOut" []
    end.

  Definition list_eqb (a b : list nat) : bool :=
    Nat.eqb (length a) (length b) && forallb (fun p => Nat.eqb (fst p) (snd p)) (combine a b).

  Definition all_positions (s : st) : list nat := flat_map (tree_of s) (roots s).

  (* C10: registry membership of a node, and the operations that are specified to change it for an existing node *)
  Definition is_reg (s : st) (a : nat) : bool :=
    match get_any s (id_of s a) with Some b => Nat.eqb a b | None => false end.
  Definition member_exempt (o : op) (r : obs) : bool :=
    match o, r with
    | Detach _, _ | DetachSelf _, _ => true
    | Replace _ _ _, OkNode _ => true
    | _, _ => false
    end.
  Definition member_ok (s0 : st) (o : op) (s : st) (r : obs) : bool :=
    member_exempt o r ||
    forallb (fun a => negb (memb a (all_positions s)) || Bool.eqb (is_reg s0 a) (is_reg s a)) (all_positions s0).

  (* C14: what is observed of a copy; C03/C10: of the result of as_obj (position by position: an object seen before - the
     live original - or a new one) *)
  Definition textra (s0 : st) (seen0 : list nat) (o : op) (s : st) (r : obs) : term :=
    match o, r with
    | Dup _ src, OkNode a' =>
      match resolve s0 src with
      | Some a =>
        tcon "XDup" [tbool (forallb (fun x => negb (memb x seen0)) (tree_of s a'));
                     topt tbool (node_eq s a' a)]
      | None => tcon "XNone" []
      end
    | AsObj _ _, OkNode a' => tcon "XObj" [TList (map (fun x => tbool (memb x seen0)) (tree_of s a'))]
    | DcReplace _ src ch, OkNode a' | Replace _ src ch, OkNode a' =>
      match resolve s0 src with
      | Some a =>
        match cell_at s a, cell_at s a' with
        | Some c, Some c' =>
          let untouched n := negb (smemb n (map fst ch)) in
          tcon "XRep"
            [tbool (negb (memb a' seen0)); tbool (pystr_eqb (k_cls c) (k_cls c'));
             TList ((if untouched (lit "origin") then [TList [TStr (lit "origin"); tbool (origin_eqb (k_org c) (k_org c'))]] else [])
                    ++ flat_map (fun f =>
                         if fd_init f && untouched (fd_name f) then
                           [TList [TStr (fd_name f);
                                   tbool (match fd_role f with
                                          | RProp => match assoc (fd_name f) (k_props c), assoc (fd_name f) (k_props c') with
                                                     | Some x, Some y => pval_eqb x y
                                                     | _, _ => false
                                                     end
                                          | RChild _ => match assoc (fd_name f) (k_kids c), assoc (fd_name f) (k_kids c') with
                                                        | Some x, Some y => list_eqb (snd x) (snd y)
                                                        | _, _ => false
                                                        end
                                          end)]]
                         else []) (fields_of ct (k_cls c)))]
        | _, _ => tcon "XNone" []
        end
      | None => tcon "XNone" []
      end
    | _, _ => tcon "XNone" []
    end.

  (* one step: new state, new seen list, the observation; None = inadmissible operation / exhausted fuel *)
  Definition obs_step (s0 : st) (seen0 : list nat) (o : op) : option (st * list nat * term) :=
    let '(s, r) := step H ct late true s0 o in
    match r with
    | Bad | FuelOut => None
    | _ =>
      let '(seen, fresh) := add_seen seen0 (all_positions s) in
      Some (s, seen,
            tcon "Step"
              [tresult s r;
               TList (map (tvar s) (vars s));
               TList (map (tcell s) fresh);
               TList (map (fun a => TList [tbool (reachable s a); tdesig s (get_any s (id_of s a))]) seen);
               textra s0 seen0 o s r;
               tcon "Frame" [tbool true; tbool true; tbool (member_ok s0 o s r)]])
    end.

  Fixpoint obs_run (s : st) (seen : list nat) (l : list op) : option (st * list term) :=
    match l with
    | [] => Some (s, [])
    | o :: r =>
      match obs_step s seen o with
      | None => None
      | Some (s1, seen1, t) =>
        match obs_run s1 seen1 r with
        | None => None
        | Some (s2, ts) => Some (s2, t :: ts)
        end
      end
    end.

  (* C10: every dataclass field of every held root rejects setattr and delattr *)
  Definition tfrozen (s : st) : term :=
    TList (map (fun v => match v with
                         | None => tnone
                         | Some r => TList (map (fun f => TList [TStr (fd_name f); tbool true; tbool true])
                                                (all_fields ct (cls_of s r)))
                         end) (vars s)).
End Obs.

Definition hist_run (H : pystr -> pystr) (t : term) : term :=
  let go ctt rules nv ops :=
    match ctable_of_term ctt, map_opt vrule_of_term rules, get_nat nv, map_opt op_of_term ops with
    | Some ct, Some rl, Some n, Some l =>
      match obs_run H ct (late_of ct rl) (init_st n) [] l with
      | Some (s, ts) => tcon "Out" [TList ts; tfrozen ct s]
      | None => terr "inadmissible history (ill-formed operation) or exhausted fuel"
      end
    | _, _, _, _ => terr "Hist: cannot decode"
    end in
  match is_con "Hist" t, is_con "HistV" t with
  | Some [ctt; nv; TList ops], _ => go ctt [] nv ops
  | _, Some [ctt; TList rules; nv; TList ops] => go ctt rules nv ops      (* with validating classes *)
  | _, _ => terr "Hist: bad input"
  end.

Definition run_C03 (H : pystr -> pystr) (t : term) : term := hist_run H t.
