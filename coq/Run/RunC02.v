(* C02 entry point: (C02 ct a b c) -> results of ==, != in several directions. H is real blake2b. *)
From Oak Require Import Run.Codec Model.Equality.

Definition teqres (r : eqres) : term :=
  match r with EqTrue => tbool true | EqFalse => tbool false
             | EqValueError => tcon "ValueError" [] | EqFuel => terr "out of fuel" end.

Definition run_C02 (H : pystr -> pystr) (t : term) : term :=
  match is_con "C02" t with
  | Some [ctt; at_; bt; ct_] =>
    match ctable_of_term ctt, node_of_term at_, node_of_term bt, node_of_term ct_ with
    | Some ct, Some a, Some b, Some c =>
      if negb (wf_node ct a && wf_node ct b && wf_node ct c) then terr "node does not conform to the class table" else
      let e := eqn H ct current in
      tcon "Eq" [ teqres (e a b); teqres (e b a); teqres (neqn H ct current a b); teqres (e a a);
                  teqres (e b c); teqres (e a c) ]
    | _, _, _, _ => terr "C02: cannot decode"
    end
  | _ => terr "C02: bad input"
  end.
