(* C01 entry point: (C01 ct a b) -> content ids, base ids, preimages, is_equal both ways. H is real blake2b. *)
From Oak Require Import Run.Codec Model.Encode.

Definition run_C01 (H : pystr -> pystr) (t : term) : term :=
  match is_con "C01" t with
  | Some [ctt; at_; bt] =>
    match ctable_of_term ctt, node_of_term at_, node_of_term bt with
    | Some ct, Some a, Some b =>
      if negb (wf_node ct a && wf_node ct b) then terr "node does not conform to the class table" else
      tcon "Cid"
        [ TStr (content_id H ct current a); TStr (content_id H ct current b);
          TStr (base_id H ct current a); TStr (base_id H ct current b);
          tbool (is_equal H ct current a b); tbool (is_equal H ct current b a);
          tbool (pystr_eqb (content_id H ct current a) (content_id H ct current b));
          TStr (cid_data H ct current a); TStr (id_data H ct current a) ]
    | _, _, _ => terr "C01: cannot decode"
    end
  | _ => terr "C01: bad input"
  end.
