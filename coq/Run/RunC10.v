(* C10 entry point: the registry history runner (Run/RunC03.v) under its own name. *)
From Oak Require Import Base.Term Run.RunC03.
Definition run_C10 (H : pystr -> pystr) (t : term) : term := hist_run H t.
