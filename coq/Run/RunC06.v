(* C06 entry point: every Tree query for every node / ordered pair of (tree nodes ++ foreign nodes). *)
From Oak Require Import Run.Codec Model.TreeQ.

Definition tres {A} (f : A -> term) (r : res A) : term :=
  match r with
  | Ok a => f a
  | KeyError => tcon "KeyError" []
  | ValueError => tcon "ValueError" []
  end.
Definition tfuel {A} (f : A -> term) (o : option A) : term :=
  match o with Some a => f a | None => tcon "OutOfFuel" [] end.
Definition tpinfo (ti : tinfo) : term :=
  tcon "PI" [taddr (ti_parent ti); TStr (ti_field ti); term_of_idx (ti_index ti)].

Fixpoint nodupb (l : list nat) : bool :=
  match l with
  | [] => true
  | a :: r => negb (existsb (Nat.eqb a) r) && nodupb r
  end.
(* the node objects of a tree: root, then dfs order *)
Definition tree_nodes (ct : ctable) (root : node) : option (list node) :=
  option_map (fun tis => root :: map ti_node tis) (dfs ct no_prune all_pos (size root) false root).

(* (Cq [class names] exact) *)
Definition cq_of_term (t : term) : option (list pystr * bool) :=
  match is_con "Cq" t with
  | Some [TList cs; e] => do cs' <- map_opt get_str cs; do e' <- get_bool e; Some (cs', e')
  | _ => None
  end.
(* (Foreign mode node): how the harness builds it is not the model's business *)
Definition foreign_of_term (t : term) : option node :=
  match is_con "Foreign" t with
  | Some [_; n] => node_of_term n
  | _ => None
  end.

Definition unary (ct : ctable) (t : ptree) (cqs : list (list pystr * bool)) (x : node) : term :=
  tcon "Q"
    [ taddr x; tbool (is_in_tree t x); tbool (is_root t x);
      tres (topt taddr) (get_parent t x);
      tres (topt tpinfo) (get_parent_info t x);
      tfuel (tres (fun l => TList (map taddr l))) (get_ancestors t x);
      tfuel (tres tnat) (depth t x None true);
      tres TStr (get_xpath t x);
      TList (map (fun cq => tfuel (tres (topt taddr)) (get_first_ancestor_of_type ct t x (fst cq) (snd cq))) cqs) ].
(* all binary queries with first argument x, second argument ranging over [args] in order *)
Definition binary (t : ptree) (args : list node) (x : node) : term :=
  tcon "B"
    [ TList (map (fun y => tfuel (tres tbool) (is_ancestor t x y)) args);
      TList (map (fun y => tfuel (tres tnat) (depth t x (Some y) true)) args);
      TList (map (fun y => tfuel (tres tnat) (depth t x (Some y) false)) args) ].

Definition run_C06 (_ : pystr -> pystr) (t : term) : term :=
  match is_con "C06" t with
  | Some [ctt; nt; TList fts; TList cqts] =>
    match ctable_of_term ctt, node_of_term nt, map_opt foreign_of_term fts, map_opt cq_of_term cqts with
    | Some ct, Some root, Some frs, Some cqs =>
      if negb (wf_node ct root && forallb (wf_node ct) frs) then terr "node does not conform to the class table"
      else
        match tree_nodes ct root, map_opt (tree_nodes ct) frs, tree_build ct root with
        | Some ns, Some fns, Some tr =>
          let args := ns ++ List.concat fns in
          if negb (nodupb (map addr args)) then terr "inadmissible: a node object occurs twice"
          else tcon "Tree" [ TList (map (unary ct tr cqs) args);
                             TList (map (binary tr args) args) ]
        | _, _, _ => terr "C06: out of fuel"
        end
    | _, _, _, _ => terr "C06: cannot decode"
    end
  | _ => terr "C06: bad input"
  end.
