(* C08 entry point: compile a list of rules (pattern ASTs) and match them against chosen nodes of a forest.
   input  (C08 ct [root...] [(R name pat)...] [target addr...] [rule order...])
   output (Res [compile status per rule] [per target: (T [result per rule] multi multi_in_given_order)])
   The regex oracle is instantiated for the family  literal | literal$  over an alphabet without regex
   metacharacters, parentheses and the double quote (so that str(node) = Cls( ... is decided by its first characters). *)
From Oak Require Import Run.Codec Model.Pattern.
From Coq Require Import List ZArith Bool Ascii.
Import ListNotations.

(* ---------- the computable regex family ---------- *)
Definition safe_char (c : ascii) : bool :=
  let n := nat_of_ascii c in
  (Nat.leb 48 n && Nat.leb n 57) || (Nat.leb 65 n && Nat.leb n 90) || (Nat.leb 97 n && Nat.leb n 122)
  || existsb (Nat.eqb n) [32; 95; 58; 61; 60; 62; 39; 44; 45; 64; 47; 59; 33; 35; 37; 38; 126]
  || Nat.leb 128 n.   (* the UTF-8 bytes of non-ASCII characters: literals for `re`; the generators emit whole characters *)
Definition split_dollar (r : pystr) : pystr * bool :=
  match rev r with
  | "$"%char :: b => (rev b, true)
  | _ => (r, false)
  end.
Definition lit_re_ok (r : pystr) : bool := forallb safe_char (fst (split_dollar r)).
Fixpoint is_prefix (p s : pystr) : bool :=
  match p, s with
  | [], _ => true
  | a :: p', b :: s' => Ascii.eqb a b && is_prefix p' s'
  | _, [] => false
  end.
Definition nl : ascii := ascii_of_nat 10.
(* re.compile(r).match(text): '$' matches at the end and before a final newline *)
Definition lit_re_match (r text : pystr) : bool :=
  let '(l, dollar) := split_dollar r in
  if dollar then pystr_eqb text l || pystr_eqb text (l ++ [nl]) else is_prefix l text.
(* repr(node) starts with the class name and '(' ; that decides every regex of the family *)
Definition trunc_repr (n : node) : pystr := cls n ++ lit "(".

(* ---------- decoding patterns ---------- *)
Definition cap_of_term (t : term) : option (option pystr) := get_opt get_str t.

Fixpoint pat_of_term (fuel : nat) (t : term) {struct fuel} : option pat :=
  match fuel with
  | 0 => None
  | S k =>
    match is_con "PT" t with
    | Some [c; TList fs] =>
      do c' <- match is_con "Any" c with
               | Some [] => Some None
               | _ => match is_con "Cls" c with
                      | Some [TList l] => option_map Some (map_opt get_str l)
                      | _ => None
                      end
               end;
      do fs' <- map_opt (fun ft => match is_con "F" ft with
                                   | Some [TStr f; s] => option_map (fun s' => (f, s')) (fspec_of_term k s)
                                   | _ => None
                                   end) fs;
      Some (PTree c' fs')
    | _ => None
    end
  end
with fspec_of_term (fuel : nat) (t : term) {struct fuel} : option fspec :=
  match fuel with
  | 0 => None
  | S k =>
    match t with
    | TCon c args =>
      if name_is c "FAny" then
        match args with [cp] => option_map FAny (cap_of_term cp) | _ => None end
      else if name_is c "FVal" then
        match args with
        | [v; cp] => do v' <- vpat_of_term k v; do cp' <- cap_of_term cp; Some (FVal v' cp')
        | _ => None
        end
      else if name_is c "FSeq" then
        match args with
        | [TList items; tl; cp] =>
          do items' <- map_opt (fun it => match is_con "I" it with
                                          | Some [v; c1] => do v' <- vpat_of_term k v; do c1' <- cap_of_term c1; Some (v', c1')
                                          | _ => None
                                          end) items;
          do tl' <- get_opt cap_of_term tl;
          do cp' <- cap_of_term cp;
          Some (FSeq items' tl' cp')
        | _ => None
        end
      else None
    | _ => None
    end
  end
with vpat_of_term (fuel : nat) (t : term) {struct fuel} : option vpat :=
  match fuel with
  | 0 => None
  | S k =>
    match t with
    | TCon c args =>
      if name_is c "VT" then match args with [p] => option_map VTree (pat_of_term k p) | _ => None end
      else if name_is c "VV" then match args with [TStr x] => Some (VVar x) | _ => None end
      else if name_is c "VN" then match args with [] => Some VNoneP | _ => None end
      else if name_is c "VR" then match args with [TStr r] => Some (VRegex r) | _ => None end
      else None
    | _ => None
    end
  end.

(* ---------- admissibility: field names and regexes the instantiated model covers ---------- *)
Definition declared (ct : ctable) (f : pystr) : bool :=
  existsb (fun d => existsb (fun fd => pystr_eqb (fd_name fd) f) (cd_own d)) ct.
Definition field_ok (ct : ctable) (f : pystr) : bool :=
  declared ct f || pystr_eqb f (lit "content_id") || is_prefix (lit "nf_") f.

Fixpoint pat_adm (ct : ctable) (p : pat) : bool :=
  match p with
  | PTree _ fs => forallb (fun fs => field_ok ct (fst fs) && fspec_adm ct (snd fs)) fs
  end
with fspec_adm (ct : ctable) (s : fspec) : bool :=
  match s with
  | FAny _ => true
  | FVal v _ => vpat_adm ct v
  | FSeq items _ _ => forallb (fun it => vpat_adm ct (fst it)) items
  end
with vpat_adm (ct : ctable) (v : vpat) : bool :=
  match v with
  | VTree p => pat_adm ct p
  | VRegex r => lit_re_ok r
  | _ => true
  end.

(* ---------- nodes by address ---------- *)
Fixpoint find_addr (a : nat) (n : node) : option node :=
  if Nat.eqb (addr n) a then Some n
  else match n with
       | Node _ _ _ _ ks =>
         (fix gok (ks : list (pystr * (kshape * list node))) : option node :=
            match ks with
            | [] => None
            | k :: r =>
              match (fix go (l : list node) : option node :=
                       match l with
                       | [] => None
                       | m :: l' => match find_addr a m with Some x => Some x | None => go l' end
                       end) (snd (snd k)) with
              | Some x => Some x
              | None => gok r
              end
            end) ks
       end.
Fixpoint find_in (a : nat) (roots : list node) : option node :=
  match roots with
  | [] => None
  | r :: rs => match find_addr a r with Some x => Some x | None => find_in a rs end
  end.

(* ---------- encoding results ---------- *)
Definition term_of_mval (v : mval) : term :=
  match v with
  | XN n => tcon "A" [taddr n]
  | XNs l => tcon "As" [TList (map taddr l)]
  | XP (VTuple []) => tcon "As" [TList []]
  | XP p => tcon "V" [term_of_pval p]
  end.
Definition term_of_dict (d : dict) : term :=
  TList (map (fun kv => TList [TStr (fst kv); term_of_mval (snd kv)]) d).
Definition term_of_res (r : res) : term :=
  match r with
  | RFail => tcon "M" [tbool false; TList []]
  | ROk d => tcon "M" [tbool true; term_of_dict d]
  | RRaise => tcon "Raise" []
  end.
Definition term_of_perr (e : perr) : term :=
  match e with
  | ESyntax => tcon "Syntax" []
  | EUnknownClass => tcon "UnknownClass" []
  | ENotNode => tcon "NotNode" []
  | EDupCapture => tcon "DupCapture" []
  | EVarBefore => tcon "VarBefore" []
  | EUnexpected => tcon "Unexpected" []
  end.
Definition term_of_multi (o : option (pystr * res)) : term :=
  match o with
  | None => tnone
  | Some (name, r) => tcon "Some" [TList [TStr name; term_of_res r]]
  end.

Definition pick_rules (compiled : list (pystr * matcher)) (order : list pystr) : list (pystr * matcher) :=
  flat_map (fun nm => match assoc nm compiled with Some m => [(nm, m)] | None => [] end) order.

Definition run_C08 (H : pystr -> pystr) (t : term) : term :=
  match is_con "C08" t with
  | Some [ctt; TList rts; TList rls; TList tgs; TList ord] =>
    match ctable_of_term ctt, map_opt node_of_term rts,
          map_opt (fun r => match is_con "R" r with
                            | Some [TStr nm; p] => option_map (fun p' => (nm, p')) (pat_of_term 64 p)
                            | _ => None
                            end) rls,
          map_opt get_nat tgs, map_opt get_str ord with
    | Some ct, Some roots, Some rules, Some targets, Some order =>
      if negb (forallb (wf_node ct) roots) then terr "C08: a node does not conform to the class table"
      else if negb (forallb (fun r => pat_adm ct (snd r)) rules) then terr "C08: field name or regex outside the instantiated model"
      else
        let comp := map (fun r => (fst r, compile ct lit_re_ok true (snd r))) rules in
        let good := flat_map (fun r => match snd r with inl m => [(fst r, m)] | inr _ => [] end) comp in
        let runm m v := run H ct lit_re_match trunc_repr true m v [] in
        match map_opt (fun a => find_in a roots) targets with
        | None => terr "C08: target address not in the forest"
        | Some tnodes =>
          tcon "Res"
            [ TList (map (fun r => match snd r with inl _ => tcon "Ok" [] | inr e => term_of_perr e end) comp);
              TList (map (fun n =>
                            tcon "T" [ TList (map (fun r => match snd r with
                                                            | inl m => term_of_res (runm m (XN n))
                                                            | inr _ => tcon "NoMatcher" []
                                                            end) comp);
                                       term_of_multi (multi_match H ct lit_re_match trunc_repr true good (XN n));
                                       term_of_multi (multi_match H ct lit_re_match trunc_repr true (pick_rules good order) (XN n)) ])
                         tnodes) ]
        end
    | _, _, _, _, _ => terr "C08: cannot decode"
    end
  | _ => terr "C08: bad input"
  end.
