(* C19 entry point: the same history runner as C18 (Run/RunC18.v); the C19 harness generates histories that end in
   operations the library rejects and compares the before / after snapshots of the rejected step. *)
From Oak Require Import Base.PyStr Base.Term Run.RunC18.

Definition run_C19 (_ : pystr -> pystr) (t : term) : term := run_legacy t.
