(* term <-> annotation terms / values / verdicts.  Shared by RunC11 and RunC13. *)
From Oak Require Export Base.Term Model.Classify.

Definition nm (c : pystr) (s : string) : bool := pystr_eqb c (lit s).

Fixpoint val_of_term (t : term) : option val :=
  let fix go (l : list term) : option (list val) :=
    match l with
    | [] => Some []
    | x :: r => match val_of_term x, go r with Some a, Some b => Some (a :: b) | _, _ => None end
    end in
  match t with
  | TCon c args =>
    if nm c "XNone" then match args with [] => Some XNone | _ => None end
    else if nm c "XBool" then match args with [b] => option_map XBool (get_bool b) | _ => None end
    else if nm c "XInt" then match args with [TInt z] => Some (XInt z) | _ => None end
    else if nm c "XFloat" then match args with [TStr s] => Some (XFloat s) | _ => None end
    else if nm c "XStr" then match args with [TStr s] => Some (XStr s) | _ => None end
    else if nm c "XEnum" then match args with [TStr k; TStr m] => Some (XEnum k m) | _ => None end
    else if nm c "XNode" then match args with [TStr k] => Some (XNode k) | _ => None end
    else if nm c "XTuple" then match args with [TList l] => option_map XTuple (go l) | _ => None end
    else if nm c "XList" then match args with [TList l] => option_map XList (go l) | _ => None end
    else if nm c "XFset" then match args with [TList l] => option_map XFset (go l) | _ => None end
    else None
  | _ => None
  end.

Definition con_of_term (t : term) : option con :=
  match t with
  | TCon c [] =>
    if nm c "CTuple" then Some CTuple else if nm c "CFrozenset" then Some CFrozenset
    else if nm c "CSequence" then Some CSequence else if nm c "CMapping" then Some CMapping
    else if nm c "CList" then Some CList else if nm c "CDict" then Some CDict
    else if nm c "CSet" then Some CSet else None
  | _ => None
  end.

Fixpoint ty_of_term (t : term) : option ty :=
  let fix go (l : list term) : option (list ty) :=
    match l with
    | [] => Some []
    | x :: r => match ty_of_term x, go r with Some a, Some b => Some (a :: b) | _, _ => None end
    end in
  match t with
  | TCon c args =>
    if nm c "TInt" then match args with [] => Some (TScalar SInt) | _ => None end
    else if nm c "TStr" then match args with [] => Some (TScalar SStr) | _ => None end
    else if nm c "TBool" then match args with [] => Some (TScalar SBool) | _ => None end
    else if nm c "TFloat" then match args with [] => Some (TScalar SFloat) | _ => None end
    else if nm c "TBytes" then match args with [] => Some (TScalar SBytes) | _ => None end
    else if nm c "TAny" then match args with [] => Some TAny | _ => None end
    else if nm c "TNoneT" then match args with [] => Some TNoneT | _ => None end
    else if nm c "TLit" then match args with [TList l] => option_map TLiteral (map_opt val_of_term l) | _ => None end
    else if nm c "TEnum" then match args with [TStr k] => Some (TEnum k) | _ => None end
    else if nm c "TNew" then match args with [a] => option_map TNewType (ty_of_term a) | _ => None end
    else if nm c "TUnion" then match args with [TList l] => option_map TUnion (go l) | _ => None end
    else if nm c "TTup" then match args with [TList l] => option_map TTuple (go l) | _ => None end
    else if nm c "TTupV" then match args with [a] => option_map TTupleVar (ty_of_term a) | _ => None end
    else if nm c "TGen" then
      match args with
      | [k; TList l] => match con_of_term k, go l with Some k', Some l' => Some (TGen k' l') | _, _ => None end
      | _ => None
      end
    else if nm c "TBare" then match args with [k] => option_map TBare (con_of_term k) | _ => None end
    else if nm c "TNode" then match args with [TStr k] => Some (TNode k) | _ => None end
    else if nm c "TFwd" then match args with [TStr k] => Some (TFwd k) | _ => None end
    else None
  | _ => None
  end.

(* (Sup "B" ["A"]) *)
Definition henv_of_term (t : term) : option henv :=
  match t with
  | TList l => map_opt (fun x => match is_con "Sup" x with
                                 | Some [TStr c; TList s] => option_map (fun s' => (c, s')) (map_opt get_str s)
                                 | _ => None end) l
  | _ => None
  end.

Definition term_of_reason (r : reason) : term :=
  match r with
  | ROk => tcon "ROk" [] | ROptInSeq => tcon "ROptInSeq" [] | RMutSeq => tcon "RMutSeq" []
  | RNonNode => tcon "RNonNode" [] | REmptyTuple => tcon "REmptyTuple" [] | ROther => tcon "ROther" []
  | RMutProp => tcon "RMutProp" []
  end.
Definition term_of_bad (bad : list (pystr * reason)) : term :=
  TList (map (fun p => TList [TStr (fst p); term_of_reason (snd p)]) bad).
Definition term_of_outcome (o : outcome) : term :=
  match o with
  | OFields ch pr => tcon "Fields" [TList (map TStr ch); TList (map TStr pr)]
  | OReject bad => tcon "Rej" [term_of_bad bad]
  end.
Definition term_of_defcheck (d : defcheck) : term :=
  match d with
  | DSkipped => tcon "Skipped" [] | DOk => tcon "Ok" [] | DReject bad => tcon "Rej" [term_of_bad bad]
  end.

(* ---------- admissibility of the names / tokens a case carries (what the harness can print as Python) ---------- *)
Definition is_lower (c : ascii) : bool := let n := nat_of_ascii c in Nat.leb 97 n && Nat.leb n 122.
Definition is_upper (c : ascii) : bool := let n := nat_of_ascii c in Nat.leb 65 n && Nat.leb n 90.
Definition ident_ok (s : pystr) : bool :=
  match s with
  | c :: r => (is_lower c || is_upper c) && forallb (fun x => is_lower x || is_upper x || is_digit x) r
  | [] => false
  end.
(* repr of a non-integral float of the pool: digits ".5" *)
Definition float_ok (s : pystr) : bool :=
  match rev s with
  | f :: d :: (_ :: _) as r => Ascii.eqb f "5" && Ascii.eqb d "." && forallb is_digit r
  | _ => false
  end.
Definition enum_ok (c m : pystr) : bool :=
  (nm c "Color" && (nm m "RED" || nm m "GREEN")) || (nm c "Shape" && nm m "SQ").
Definition enum_cls_ok (c : pystr) : bool := nm c "Color" || nm c "Shape".
Definition printable (c : ascii) : bool := let n := nat_of_ascii c in Nat.leb 32 n && Nat.leb n 126.
Fixpoint wf_val (known : list pystr) (v : val) : bool :=
  match v with
  | XFloat s => float_ok s
  | XStr s => forallb printable s
  | XEnum c m => enum_ok c m
  | XNode c => existsb (pystr_eqb c) known
  | XTuple l | XList l | XFset l => forallb (wf_val known) l
  | _ => true
  end.
Fixpoint wf_names (known : list pystr) (t : ty) : bool :=
  match t with
  | TNode c | TFwd c => existsb (pystr_eqb c) known
  | TEnum c => enum_cls_ok c
  | TLiteral vs => forallb (wf_val known) vs
  | TNewType a | TTupleVar a => wf_names known a
  | TUnion ts | TTuple ts | TGen _ ts => forallb (wf_names known) ts
  | _ => true
  end.
Fixpoint nodup_str (l : list pystr) : bool :=
  match l with [] => true | x :: r => negb (existsb (pystr_eqb x) r) && nodup_str r end.
