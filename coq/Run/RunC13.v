(* C13 entry point.  Input: (C13 [(Sup cls [supers])...] quoted [(F name ty val)...]) = one node class whose fields
   carry these annotations, constructed with these values.
   Output: (Obs on off [(FO is_instance conforms silent)...] on_as_code) with on/off = (Built) | (Invalid [field names]);
   on_as_code = the switch-on result of the code as it is (variant flag v_nti = false), to recognise finding D21. *)
From Oak Require Import Run.CodecTy Model.IsInstance Spec.AnnotSpec.

Fixpoint has_fwd (t : ty) : bool :=
  match t with
  | TFwd _ => true
  | TNewType a | TTupleVar a => has_fwd a
  | TUnion ts | TTuple ts | TGen _ ts => existsb has_fwd ts
  | _ => false
  end.

Definition c13_field (t : term) : option (pystr * ty * val) :=
  match is_con "F" t with
  | Some [TStr n; a; v] => do a' <- ty_of_term a; do v' <- val_of_term v; Some (n, a', v')
  | _ => None
  end.

Definition term_of_built (b : built) : term :=
  match b with
  | Built _ => tcon "Built" []
  | RaisedInvalidTypes bad => tcon "Invalid" [TList (map TStr bad)]
  end.

Definition accepted (t : ty) : bool :=
  match classify true t with VReject _ => false | _ => true end.

Definition c13_with (vni : bool) (t : term) : term :=
  match is_con "C13" t with
  | Some [et; qt; TList fl] =>
    match henv_of_term et, get_bool qt, map_opt c13_field fl with
    | Some e, Some q, Some fs =>
      if negb (forallb (fun f => ident_ok (fst (fst f)) && wf_names (map fst e) (snd (fst f)) && wf_val (map fst e) (snd f)) fs
               && nodup_str (map (fun f => fst (fst f)) fs) && forallb ident_ok (map fst e))
      then terr "C13: names / tokens cannot be printed"
      else if negb (forallb (fun f => wf_ty false (snd (fst f)) && negb (has_fwd (snd (fst f)))) fs)
      then terr "C13: annotation not printable / contains a forward reference"
      else
        let rs := map (fun f => (fst (fst f),
                                 field_type as_property {| af_name := fst (fst f); af_quoted := q; af_ty := snd (fst f) |},
                                 snd f)) fs in
        if negb (forallb (fun f => accepted (snd (fst f))) rs)
        then terr "C13: annotation outside the accepted grammar"
        else
          tcon "Obs" [ term_of_built (construct e vni true true rs); term_of_built (construct e vni true false rs);
                       TList (map (fun f => tcon "FO" [tbool (is_instance e vni true (snd (fst f)) (snd f));
                                                       tbool (conforms e (snd (fst f)) (snd f));
                                                       tbool (silent (snd (fst f)) (snd f))]) rs);
                       term_of_built (construct e false true true rs) ]
    | _, _, _ => terr "C13: cannot decode"
    end
  | _ => terr "C13: bad input"
  end.

(* the property side: NewType objects stand for their supertype (flag v_nti, D21) *)
Definition run_C13 (_ : pystr -> pystr) (t : term) : term := c13_with true t.
