(* C11 entry point.  Input: (C11 [early class names] [late class names] [(Cls name [(F fname quoted ty)...])...]):
   a chain of node classes K0 <- K1 <- ... defined in this order after the [early] node classes (and the NewTypes)
   and before the [late] ones.
   Output: (Res l_TT l_FT l_TF l_FF), each l = [per class (Cls def use)] for one setting of the variant flags
   (v_nt, v_fwd): l_TT is the property side, l_FF the code as it is in /repo, the other two recognise which of the
   findings D14 / D20 a disagreement belongs to.
     def = (Skipped) | (Ok) | (Rej [[field reason]...])        definition-time check_annotations
     use = (Some (Fields [children] [props])) | (Some (Rej [[field reason]...])) | (None)   first use; None: never defined
*)
From Oak Require Import Run.CodecTy.

Definition c11_field (t : term) : option afield :=
  match is_con "F" t with
  | Some [TStr n; q; a] => do q' <- get_bool q; do a' <- ty_of_term a;
                           Some {| af_name := n; af_quoted := q'; af_ty := a' |}
  | _ => None
  end.
Definition c11_cls (t : term) : option acls :=
  match is_con "Cls" t with
  | Some [TStr n; TList fl] => do fs <- map_opt c11_field fl; Some {| ac_name := n; ac_own := fs |}
  | _ => None
  end.

Definition mem (l : list pystr) (n : pystr) : bool := existsb (pystr_eqb n) l.

Definition term_of_clsobs (o : clsobs) : term :=
  match o with ClsObs d u => tcon "Cls" [term_of_defcheck d; topt term_of_outcome u] end.

Definition c11_admissible (early late : list pystr) (cs : list acls) : bool :=
  let known := early ++ late ++ map ac_name cs in
  nodup_str known && forallb ident_ok known
  && forallb (fun c => nodup_str (map af_name (ac_own c))) cs
  && forallb (fun c => forallb (fun f => wf_ty false (af_ty f) && ident_ok (af_name f) && wf_names known (af_ty f)
                                      && forallb (mem known) (names_of (af_ty f))
                                      && forallb (mem early) (nt_names (af_ty f))) (ac_own c)) cs
  && chain_executable early cs.

Definition run_C11 (_ : pystr -> pystr) (t : term) : term :=
  match is_con "C11" t with
  | Some [TList el; TList ll; TList cl] =>
    match map_opt get_str el, map_opt get_str ll, map_opt c11_cls cl with
    | Some early, Some late, Some cs =>
      if negb (c11_admissible early late cs) then terr "C11: class chain cannot be printed / executed"
      else tcon "Res" (map (fun v => TList (map term_of_clsobs (run_chain v early [] [] cs)))
                           [ as_property; {| v_nt := false; v_fwd := true |}; {| v_nt := true; v_fwd := false |}; as_code ])
    | _, _, _ => terr "C11: cannot decode"
    end
  | _ => terr "C11: bad input"
  end.
