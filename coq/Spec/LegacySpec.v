(* What C18 and C19 say, over the states of Model/Legacy.v.  Short on purpose. *)
From Oak Require Export Model.Legacy.
From Coq Require Import List String Ascii ZArith Bool Arith.
Import ListNotations.

Section Spec.
  Variable H : pystr -> pystr.
  Variable ct : ctable.

  Definition live (s : st) (a : nat) : Prop := a < List.length (heap s).
  Definition attached (s : st) (a : nat) : Prop := detached s a = false.

  (* content_id of an independently built equal tree: the digest recomputed bottom-up from classes, comparable
     properties and child positions only (no cached value is read) *)
  Fixpoint tree_cid (fuel : nat) (s : st) (a : nat) : pystr :=
    match fuel with
    | 0 => []
    | S f =>
      let c := cellD s a in
      H (c_cls c ++ prop_data (filter (fun p => is_compare ct (c_cls c) (fst p)) (props_of c))
                 ++ kid_data (tree_cid f s) c)
    end.

  (* the four consistency clauses + the digest clause, for every attached node *)
  Record node_ok (s : st) (a : nat) : Prop := {
    (* every child is attached and reports a as parent with the right field and index *)
    ok_children : forall k f i, In (k, f, i) (skids_wf s a) ->
                    attached s k /\ parent s k = Some a /\ c_pf (cellD s k) = Some f /\ c_pi (cellD s k) = i;
    (* a node with a parent is stored in that parent at exactly that position *)
    ok_slot : forall p, parent s a = Some p ->
                exists f, c_pf (cellD s a) = Some f /\ In (a, f, c_pi (cellD s a)) (skids_wf s p);
    (* lookup returns the node under its id *)
    ok_lookup : reg_get s (id_of s a) = Some a;
    (* the cached content_id is that of an independently built equal tree *)
    ok_cid : c_cid (cellD s a) = tree_cid (fuel_of s) s a
  }.
  Definition LInv (s : st) : Prop := forall a, live s a -> attached s a -> node_ok s a.
  (* the registry maps an id to an existing node that carries this id (needed to carry LInv through a step) *)
  Definition RegOk (s : st) : Prop := forall i a, reg_get s i = Some a -> live s a /\ id_of s a = i.
  Definition Inv (s : st) : Prop := RegOk s /\ LInv s.

  (* ---- C19: what must not change when an operation is rejected ---- *)
  (* the position: parent and, under that parent, field and index (slots of a parent-less node are not read) *)
  Definition position (s : st) (a : nat) : option (nat * option pystr * option nat) :=
    match parent s a with
    | Some p => Some (p, c_pf (cellD s a), c_pi (cellD s a))
    | None => None
    end.
  Record same_node (s s' : st) (a : nat) : Prop := {
    same_attached : detached s' a = detached s a;
    same_position : position s' a = position s a;
    same_fields : c_fs (cellD s' a) = c_fs (cellD s a);
    same_id : c_id (cellD s' a) = c_id (cellD s a);
    same_oid : c_oid (cellD s' a) = c_oid (cellD s a);
    same_cid : c_cid (cellD s' a) = c_cid (cellD s a)
  }.
  (* every pre-existing node is as before, and no new key is registered *)
  Definition Frame (s s' : st) : Prop :=
    (forall a, live s a -> same_node s s' a) /\
    (forall i, reg_get s' i <> None -> reg_get s i <> None).

  (* a rejection: one of the documented errors *)
  Definition documented (e : err) : bool := match e with ECrash => false | _ => true end.
End Spec.

(* decidable versions, used by the refutation witnesses (vm_compute) *)
Definition opt_nat_eqb (a b : option nat) : bool :=
  match a, b with Some x, Some y => Nat.eqb x y | None, None => true | _, _ => false end.
Definition children_okb (s : st) (a : nat) : bool :=
  forallb (fun e => let '(k, f, i) := e in
                    negb (detached s k) && opt_nat_eqb (parent s k) (Some a)
                    && opt_pystr_eqb (c_pf (cellD s k)) (Some f) && opt_nat_eqb (c_pi (cellD s k)) i)
          (skids_wf s a).
Definition slot_okb (s : st) (a : nat) : bool :=
  match parent s a with
  | None => true
  | Some p => existsb (fun e => let '(k, f, i) := e in
                               Nat.eqb k a && opt_pystr_eqb (c_pf (cellD s a)) (Some f)
                               && opt_nat_eqb (c_pi (cellD s a)) i) (skids_wf s p)
  end.
