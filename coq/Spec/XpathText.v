(* C06, "no two nodes share one xpath": vocabulary for the string-level statement.
   get_xpath spells  /@root[0]Cls  then, per step,  /@field[index or 0]Cls  (Model/TreeQ.v: xp_seg, idx_str).
   The spelling can be read back unambiguously when field and class names contain none of the four delimiter
   characters (they are Python identifiers); indices are decimal digits. *)
From Oak Require Export Spec.PathSem.

Definition name_char_ok (c : ascii) : bool :=
  negb (Ascii.eqb c "/" || Ascii.eqb c "@" || Ascii.eqb c "[" || Ascii.eqb c "]").
Definition name_ok (s : pystr) : bool := forallb name_char_ok s.
Definition seg_ok (ti : tinfo) : Prop := name_ok (ti_field ti) = true /\ name_ok (cls (ti_node ti)) = true.

(* every position below the root is stored under a clean field name and holds a node with a clean class name
   (the root's own class name is not constrained) *)
Definition clean_names (root : node) : Prop := forall l x, path root l x -> Forall seg_ok l.

(* what one segment of the string says: field, printed index ("0" for a single child and for tuple element 0), class *)
Definition seg_key (ti : tinfo) : pystr * pystr * pystr := (ti_field ti, idx_str (ti_index ti), cls (ti_node ti)).
