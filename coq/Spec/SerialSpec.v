(* C04, declarative side: what "the tree came back" means, position by position.
   [rt_ok n n'] relates a position of the original tree to the same position of the result. *)
From Oak Require Export Model.SerOpts Model.Serial.

(* all positions of a tree (pre-order) *)
Fixpoint nodes (n : node) : list node :=
  match n with Node _ _ _ _ ks => n :: flat_map (fun k => flat_map nodes (snd (snd k))) ks end.

(* a tree term denotes objects: the same address is the same object, hence the same subtree *)
Definition consistent (t : node) : Prop :=
  forall m m', In m (nodes t) -> In m' (nodes t) -> addr m = addr m' -> m = m'.

Section RT.
  Variable H : pystr -> pystr.
  Variable ct : ctable.
  Variable ids : list (nat * pystr).          (* address -> id of the original nodes, as serialized *)
  Variable reg0 : list (pystr * node).        (* NODE_REGISTRY when reading starts: id -> live node *)
  Variable next0 : nat.                       (* addresses >= next0 are objects created by the reading *)
  Variable regF : list (pystr * node).        (* NODE_REGISTRY when reading is done *)
  Variable idsF : list (nat * (pystr * pystr)). (* address -> (id, content_id) of the objects created *)

  Inductive rt_ok : node -> node -> Prop :=
  (* the node is still registered: the result holds the original object itself *)
  | rt_reused n i :
      assoc_nat (addr n) ids = Some i -> reg_find i reg0 = Some n -> rt_ok n n
  (* otherwise: a new object, registered under the serialized id (suffix included), with the same class,
     content_id and property values, an == origin, and children that came back the same way *)
  | rt_new a c o ps ks a' o' ks' i :
      assoc_nat a ids = Some i -> reg_find i reg0 = None ->
      next0 <= a' ->
      reg_find i regF = Some (Node a' c o' ps ks') ->
      assoc_nat a' idsF = Some (i, cid_of H ct (Node a c o ps ks)) ->
      cid_of H ct (Node a' c o' ps ks') = cid_of H ct (Node a c o ps ks) ->
      origin_eqb o' o = true ->
      rt_kids ks ks' ->
      rt_ok (Node a c o ps ks) (Node a' c o' ps ks')
  (* child fields: same names, same shapes (None / one node / tuple), children pairwise *)
  with rt_kids : list (pystr * (kshape * list node)) -> list (pystr * (kshape * list node)) -> Prop :=
  | rtk_nil : rt_kids [] []
  | rtk_cons f sh l l' r r' : rt_list l l' -> rt_kids r r' -> rt_kids ((f, (sh, l)) :: r) ((f, (sh, l')) :: r')
  with rt_list : list node -> list node -> Prop :=
  | rtl_nil : rt_list [] []
  | rtl_cons x x' l l' : rt_ok x x' -> rt_list l l' -> rt_list (x :: l) (x' :: l').
End RT.
