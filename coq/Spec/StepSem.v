(* C07, the documented meaning of an xpath at the level of its STEPS, written from the property text only.
   Nothing here mentions XPathTransformer's compiled element list, its reversal or its `anywhere` flags
   (Model/Xpath.v: tr_element / tx / to_elements) nor the two-rule relation R over elements (Spec/PathSem.v);
   Proofs/StepSemProofs.v proves that R over the compiled elements is exactly [step_sem] below.

   "steps separated by '/', a '//' (or a path not starting with '/') allowing any number of intermediate levels,
    a step matching a node iff it is an instance of the named class (any node if the class is omitted), is stored in
    the named field and at the given tuple index when those are given, the root matching no field or index
    constraint, and an absolute first step matching only the root." *)
From Oak Require Export Spec.PathSem.

(* one step as the text shows it: [//]? @field? [index]? Class? *)
Record sstep := { ss_dslash : bool;              (* the step is preceded by "//" rather than by a single "/" *)
                  ss_class : option pystr;
                  ss_field : option pystr;
                  ss_index : option nat }.
(* an xpath: does the text start with "/" (absolute) or not (relative), and its steps, outermost first *)
Record spath := { sp_absolute : bool; sp_steps : list sstep }.

(* ---- reading the grammar's parse (Model/Xpath.v: xpath = relative? + one [step] per "/" of the text) as steps:
   the grammar has no "//" token, "//X" is an element with nothing in it followed by "/X"; so a step is preceded by
   "//" iff at least one such empty element stands directly before it.  "[]" is an index_spec without digits = no
   index given (a step "/[]" is a step without class, not a "//").  Trailing empty elements are ill-formed. ---- *)
Definition is_empty_step (s : step) : bool :=
  match st_field s, st_index s, st_class s with None, IAbsent, None => true | _, _, _ => false end.
Definition idx_given (i : idxspec) : option nat := match i with IVal k => Some k | _ => None end.
Fixpoint view_steps (dslash : bool) (l : list step) : list sstep :=
  match l with
  | [] => []
  | s :: r =>
    if is_empty_step s then view_steps true r
    else {| ss_dslash := dslash; ss_class := st_class s; ss_field := st_field s; ss_index := idx_given (st_index s) |}
         :: view_steps false r
  end.
Definition view (x : xpath) : spath :=
  {| sp_absolute := negb (xp_relative x); sp_steps := view_steps false (xp_steps x) |}.

(* ---- a step is satisfied by a chain position (node, field it is stored in, index it is stored at; the root has
   neither, PathSem.rpos) ---- *)
Definition given {A} (eqb : A -> A -> bool) (want have : option A) : bool :=
  match want with
  | None => true                                                   (* not given: no constraint *)
  | Some w => match have with Some h => eqb w h | None => false end (* given: the root (no field, no index) fails *)
  end.
Definition ssat (ct : ctable) (p : pos) (s : sstep) : bool :=
  match p with
  | (n, f, i) =>
    match ss_class s with None => true | Some c => subclass ct (cls n) c end
    && given pystr_eqb (ss_field s) f && given Nat.eqb (ss_index s) i
  end.

(* ---- the chain  root = p0 ... pk = n  matches iff the steps can be assigned, in order, to chain positions
   js[0] < js[1] < ... (js[i] = the index in the chain of the position step i sits on) such that ---- *)
Definition step_sem (ct : ctable) (sp : spath) (ch : list pos) : Prop :=
  exists js : list nat,
    length js = length (sp_steps sp) /\ js <> [] /\
    (* every step is satisfied by the position it sits on *)
    (forall i s j, nth_error (sp_steps sp) i = Some s -> nth_error js i = Some j ->
       exists p, nth_error ch j = Some p /\ ssat ct p s = true) /\
    (* later steps sit strictly deeper; directly below the previous step unless preceded by "//" *)
    (forall i j j' s, nth_error js i = Some j -> nth_error js (S i) = Some j' -> nth_error (sp_steps sp) (S i) = Some s ->
       j < j' /\ (ss_dslash s = false -> j' = S j)) /\
    (* the first step of an absolute path that starts with a single "/" sits on the root *)
    (forall s j, nth_error (sp_steps sp) 0 = Some s -> nth_error js 0 = Some j ->
       sp_absolute sp = true -> ss_dslash s = false -> j = 0) /\
    (* the last step sits on the node itself *)
    S (last js 0) = length ch.

(* node x of the tree under root matches *)
Definition step_sem_node (ct : ctable) (sp : spath) (root x : node) : Prop :=
  exists l, path root l x /\ step_sem ct sp (chain root l).

(* ---- examples of the reading ---- *)
(* "//P/@items[2]L" (absolute text): P anywhere, then directly below it an L stored at items[2] *)
Example view_ex1 :
  view {| xp_relative := false; xp_steps := [empty_step; st "" IAbsent "P"; st "items" (IVal 2) "L"] |}
  = {| sp_absolute := true;
       sp_steps := [ {| ss_dslash := true; ss_class := Some (lit "P"); ss_field := None; ss_index := None |};
                     {| ss_dslash := false; ss_class := Some (lit "L"); ss_field := Some (lit "items"); ss_index := Some 2 |} ] |}.
Proof. reflexivity. Qed.
(* "@child P///[]/L" (relative text): three slashes are one "//"; "/[]" is a step without class, field or index *)
Example view_ex2 :
  view {| xp_relative := true;
          xp_steps := [st "child" IAbsent "P"; empty_step; empty_step; st "" IEmpty ""; st "" IAbsent "L"] |}
  = {| sp_absolute := false;
       sp_steps := [ {| ss_dslash := false; ss_class := Some (lit "P"); ss_field := Some (lit "child"); ss_index := None |};
                     {| ss_dslash := true; ss_class := None; ss_field := None; ss_index := None |};
                     {| ss_dslash := false; ss_class := Some (lit "L"); ss_field := None; ss_index := None |} ] |}.
Proof. reflexivity. Qed.
