(* C18, third round: ASTTransformer.execute as the history of its primitive calls.
   execute computes the bottom-up order first and then, node by node, calls the user callback (here: the rule
   language of Model/Legacy.v) and, when the callback returned another node with another id (or None), calls
   node.replace_with(result).  Every call it makes is an operation of the machine: replace( p = v ), the
   constructor, replace_with.  [exec_ops] lists these calls for a given order; Proofs/LegacyTransformer.v shows that
   a successful execute ends in the state in which this history ends. *)
From Oak Require Export Spec.LegacySpec2.
From Coq Require Import List String Ascii ZArith Bool Arith.
Import ListNotations.

Section Spec3.
  Variable H : pystr -> pystr.
  Variable ct : ctable.

  Definition run (s : st) (ops : list op) : st := fold_left (fun s o => fst (step H ct s o)) ops s.
  Definition result_node (ob : obs) : option nat := match ob with RNode n => Some n | _ => None end.

  Fixpoint exec_ops (rules : list rule) (root : nat) (s : st) (l : list nat) : list op :=
    match l with
    | [] => []
    | child :: r =>
      let act := action_for rules (cellD s child) in
      (* the callback: ASet = node.replace(p=v), AFresh = a newly constructed node, the others touch nothing *)
      let call : list op :=
        match act with
        | ASet p v => [OReplace child [(p, CV (FP v))]]
        | AFresh cls org fs => [ONew cls org fs None false false false]
        | _ => []
        end in
      let s1 := run s call in
      let new : option nat :=
        match act with
        | AGeneric | AKeep => Some child
        | ARemove | ARaise => None
        | ASet p v => result_node (snd (step H ct s (OReplace child [(p, CV (FP v))])))
        | AFresh cls org fs => result_node (snd (step H ct s (ONew cls org fs None false false false)))
        end in
      if Nat.eqb child root then call
      else
        let differs := match new with Some n => negb (Nat.eqb n child) | None => true end in
        let other_id := match new with
                        | Some n => negb (pystr_eqb (id_of s1 n) (id_of s1 child))
                        | None => true
                        end in
        if differs && other_id
        then call ++ OReplaceWith child new :: exec_ops rules root (fst (step H ct s1 (OReplaceWith child new))) r
        else call ++ exec_ops rules root s1 r
    end.
End Spec3.
