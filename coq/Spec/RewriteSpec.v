(* C09, declaratively: what a rule set does to a tree, without identities, allocation or dictionaries.
   [rewrite] is the bottom-up rewrite of the property text (contents only: all addresses erased);
   [changed] says where the rule set changes something (identity level); [subterms], [coherent], [below]
   are the vocabulary for "the very same object", "a new object" and "no old object is modified". *)
From Oak Require Export Model.Visitor.
From Oak Require Import Base.Term.

(* ---------- contents: a node with its identities erased ---------- *)
Fixpoint strip (n : node) : node :=
  match n with
  | Node _ c o ps ks => Node 0 c o ps (map (fun k => (fst k, (fst (snd k), map strip (snd (snd k))))) ks)
  end.

Inductive sres := SNode (n : node) | SNone | SErr.       (* spec-level result: contents, None, exception *)
Definition sres_of (r : result) : sres :=
  match r with RNode n => SNode (strip n) | RNone => SNone | RErr => SErr end.

Definition is_serr (r : sres) : bool := match r with SErr => true | _ => false end.
(* what stays of a sequence of rewritten children: nodes mapped to None are dropped, order kept *)
Definition keep (rs : list sres) : list node := flat_map (fun r => match r with SNode n => [n] | _ => [] end) rs.
(* new value of a child field from the rewritten children *)
Definition field_rw (sh : kshape) (rs : list sres) : kshape * list node :=
  match sh with
  | ShMany => (ShMany, keep rs)                                            (* tuple: survivors in order *)
  | ShOne => match keep rs with [] => (ShNone, []) | l => (ShOne, l) end   (* single field: the node or None *)
  | ShNone => (ShNone, [])
  end.

Section Spec.
  Variables (ct : ctable) (strict : bool) (ms : methods).

  (* the rule that applies to class c, if any: the action of the dispatched visit_<C> *)
  Definition rule (c : pystr) : option action :=
    match dispatch ct strict (has_method ms) c with
    | Some m => assoc m ms
    | None => None
    end.

  (* bottom-up rewrite: the children are rewritten first, then the rule of the node's class is applied *)
  Fixpoint rewrite (n : node) : sres :=
    match n with
    | Node a c o ps ks =>
      let kids' := map (fun k => (fst k, (fst (snd k), map rewrite (snd (snd k))))) ks in
      let rebuilt :=
        if existsb (fun k => existsb is_serr (snd (snd k))) kids' then SErr
        else SNode (Node 0 c o ps (map (fun k => (fst k, field_rw (fst (snd k)) (snd (snd k)))) kids')) in
      match rule c with
      | None | Some AGeneric => rebuilt
      | Some AKeep => SNode (strip n)
      | Some (ASetProp f v) =>
        match set_prop ct 0 (strip n) f v with Some n' => SNode n' | None => SErr end
      | Some (AGenSetProp f v) =>
        match rebuilt with
        | SNode m => match set_prop ct 0 m f v with Some n' => SNode n' | None => SErr end
        | r => r
        end
      | Some (AReplaceBy t) | Some (AReplaceNew t) => SNode (strip t)
      | Some ARemove => SNone
      | Some ARaise => SErr
      end
    end.

  (* does the rule set change anything at or below n (identity level: "returns another object or None") *)
  Fixpoint changed (n : node) : bool :=
    match n with
    | Node a c o ps ks =>
      let below := existsb (fun k => existsb changed (snd (snd k))) ks in
      match rule c with
      | None | Some AGeneric => below
      | Some AKeep => false
      | Some (AReplaceBy t) => negb (Nat.eqb (addr t) a)
      | Some _ => true
      end
    end.

  (* nodes whose children are visited by generic_visit *)
  Definition generic_like (c : pystr) : bool :=
    match rule c with None | Some AGeneric => true | _ => false end.

  (* ---------- admissible trees: child fields as the class declares them ---------- *)
  Fixpoint names_eqb (a b : list pystr) : bool :=
    match a, b with
    | [], [] => true
    | x :: a', y :: b' => pystr_eqb x y && names_eqb a' b'
    | _, _ => false
    end.
  Fixpoint nodupb (l : list pystr) : bool :=
    match l with [] => true | x :: r => negb (existsb (pystr_eqb x) r) && nodupb r end.
  Definition shape_len_ok (v : kshape * list node) : bool :=
    match v with (ShNone, []) | (ShOne, [_]) | (ShMany, _) => true | _ => false end.
  Fixpoint wf_tree (n : node) : bool :=
    match n with
    | Node _ c _ _ ks =>
      names_eqb (map fst ks) (map fd_name (child_fields ct c)) && nodupb (map fst ks)
      && forallb (fun k => shape_len_ok (snd k) && forallb wf_tree (snd (snd k))) ks
    end.
End Spec.

(* ---------- identity vocabulary ---------- *)
Fixpoint subterms (n : node) : list node :=
  match n with
  | Node _ _ _ _ ks => n :: flat_map (fun k => flat_map subterms (snd (snd k))) ks
  end.
Definition kids_of (n : node) : list node := flat_map (fun k => snd (snd k)) (nkids n).

Fixpoint templates (ms : methods) : list node :=
  match ms with
  | [] => []
  | (_, AReplaceBy t) :: r | (_, AReplaceNew t) :: r => t :: templates r
  | _ :: r => templates r
  end.
(* the objects that exist before the transformation starts: the tree and what the rules hold *)
Definition universe (ms : methods) (n : node) : list node := flat_map subterms (n :: templates ms).
(* an address denotes one object *)
Definition coherent (U : list node) : Prop := forall x y, In x U -> In y U -> addr x = addr y -> x = y.
(* all existing objects were allocated before b *)
Definition below (b : nat) (U : list node) : Prop := forall x, In x U -> addr x < b.

(* ---------- generic_visit, field by field (identity level) ----------
   The children of every child field are visited left to right; a field is rebuilt iff one of its children came
   back as another object or as None; the node is rebuilt iff one of its fields is. *)
Definition kfield := (pystr * (kshape * list node))%type.

Fixpoint seq_visit (v : visitfn) (l : list node) (s : vst) : option (vst * option (list result)) :=
  match l with
  | [] => Some (s, Some [])
  | x :: r =>
    do sr <- v x s;
    match snd sr with
    | RErr => Some (fst sr, None)
    | rx => do sr2 <- seq_visit v r (fst sr); Some (fst sr2, option_map (cons rx) (snd sr2))
    end
  end.
Fixpoint fields_visit (v : visitfn) (ks : list kfield) (s : vst) : option (vst * option (list (list result))) :=
  match ks with
  | [] => Some (s, Some [])
  | k :: r =>
    do sr <- seq_visit v (snd (snd k)) s;
    match snd sr with
    | None => Some (fst sr, None)
    | Some rs => do sr2 <- fields_visit v r (fst sr); Some (fst sr2, option_map (cons rs) (snd sr2))
    end
  end.

Definition not_same (x : node) (r : result) : bool :=
  match r with RNode y => negb (Nat.eqb (addr y) (addr x)) | _ => true end.
Definition lmarked (l : list node) (rs : list result) : bool :=
  existsb (fun p => not_same (fst p) (snd p)) (combine l rs).
Definition fmarked (k : kfield) (rs : list result) : bool := lmarked (snd (snd k)) rs.
Definition rkeep (rs : list result) : list node := flat_map (fun r => match r with RNode n => [n] | _ => [] end) rs.
Definition vnew (sh : kshape) (rs : list result) : kshape * list node :=
  match sh with
  | ShMany => (ShMany, rkeep rs)
  | ShOne => match rkeep rs with [] => (ShNone, []) | l => (ShOne, l) end
  | ShNone => (ShNone, [])
  end.
Definition fnew (k : kfield) (rs : list result) : kfield := (fst k, vnew (fst (snd k)) rs).
Definition rebuild (ks : list kfield) (rss : list (list result)) : list kfield :=
  map (fun p => if fmarked (fst p) (snd p) then fnew (fst p) (snd p) else fst p) (combine ks rss).
Definition any_marked (ks : list kfield) (rss : list (list result)) : bool :=
  existsb (fun p => fmarked (fst p) (snd p)) (combine ks rss).

(* generic_visit, field by field *)
Definition gv_tr (v : visitfn) (n : node) (s : vst) : option (vst * result) :=
  do r <- fields_visit v (nkids n) s;
  match snd r with
  | None => Some (fst r, RErr)
  | Some rss =>
    if any_marked (nkids n) rss
    then Some (bump (fst r), RNode (Node (next (fst r)) (cls n) (norigin n) (nprops n) (rebuild (nkids n) rss)))
    else Some (fst r, RNode n)
  end.

