(* C20, xpath half.  The documented meaning of an xpath is the one of C07: Spec/PathSem.v ([R], the two-rule
   relation between the elements of the CURRENT module's compiled path, root first, and the chain of positions
   root .. node).  A legacy object of an attached tree is addressed by the path [l] of stored positions that leads to
   it from the attached root ([path root l x]); its parent chain is [chain root l] read backwards. *)
From Oak Require Export Spec.PathSem Model.LegacyXpath.

(* the object at the end of path l: the root object, or the object stored at the last position *)
Definition lobj_at (root : node) (l : list tinfo) : lobj :=
  match plast l with
  | None => root_obj root
  | Some ti => of_tinfo ti
  end.

(* legacy match agrees with the documented semantics on the node at path l *)
Definition legacy_match_agrees (ct : ctable) (x : xpath) (root : node) (l : list tinfo) : Prop :=
  exists els b, to_elements x = Some els /\ legacy_match ct x root l = Some b /\ (b = true <-> R ct els (chain root l)).

(* calculate_xpath assigns exactly the objects of the tree, each the string spelled by its chain:
   /@root[0]Cls then /@field[index or 0]Cls per position (PathSem.xpath_of) *)
Definition xpaths_spelled (root : node) (L : list (lobj * pystr)) : Prop :=
  forall o s, In (o, s) L <-> exists l x, path root l x /\ o = lobj_at root l /\ s = xpath_of root l.
