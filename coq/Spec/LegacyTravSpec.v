(* C20, traversal half: what legacy dfs / bfs / gather must enumerate, in terms of C05's recursive orders
   (Spec/TraverseSpec.v: pre / post / levels_from over the stored tree).
   The start object [s] itself comes first (last bottom-up) unless skipped; it is offered to filter and prune like
   any other node: filtered out => not yielded, pruned => nothing below it is visited.  With skip_self neither
   predicate is consulted for it.  Below it: exactly C05's order, every position read as the attached object
   stored there ([of_tinfo]: parent / parent_field / parent_index = the position). *)
From Oak Require Export Spec.TraverseSpec Model.LegacyTrav.

Section LSpec.
  Variables (prune filt : lobj -> bool).

  Definition on_pos (p : lobj -> bool) (ti : tinfo) : bool := p (of_tinfo ti).

  Definition lself (skip_self : bool) (s : lobj) : list lobj :=
    if skip_self then [] else if filt s then [s] else [].
  Definition lbelow (skip_self : bool) (s : lobj) : bool := skip_self || negb (prune s).

  Definition lpre (skip_self : bool) (s : lobj) : list lobj :=
    lself skip_self s ++
    (if lbelow skip_self s then map of_tinfo (pre (on_pos prune) (on_pos filt) (lo_node s)) else []).
  Definition lpost (skip_self : bool) (s : lobj) : list lobj :=
    (if lbelow skip_self s then map of_tinfo (post (on_pos prune) (on_pos filt) (lo_node s)) else [])
    ++ lself skip_self s.
  Definition llevels (skip_self : bool) (s : lobj) : list lobj :=
    lself skip_self s ++
    (if lbelow skip_self s
     then map of_tinfo (levels_from (on_pos prune) (on_pos filt) (size (lo_node s)) (direct_infos (lo_node s)))
     else []).
End LSpec.
