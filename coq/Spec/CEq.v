(* Structural content equality: the declarative side of C01. *)
From Oak Require Export Model.Encode.
From Coq Require Export Permutation.

(* equal values of equal types; frozensets are equal as sets (element lists equal up to order) *)
Inductive veq : pval -> pval -> Prop :=
| veq_none : veq VNone VNone
| veq_bool b : veq (VBool b) (VBool b)
| veq_int z : veq (VInt z) (VInt z)
| veq_str s : veq (VStr s) (VStr s)
| veq_enum c m p : veq (VEnum c m p) (VEnum c m p)
| veq_float r : veq (VFloat r) (VFloat r)
| veq_path p : veq (VPath p) (VPath p)
| veq_tuple l l' : Forall2 veq l l' -> veq (VTuple l) (VTuple l')
| veq_fset l l' l'' : Permutation l' l'' -> Forall2 veq l l'' -> veq (VFset l) (VFset l').

Section CEq.
  Variable ct : ctable.

  (* the comparable user properties of class c *)
  Definition comparable (c : pystr) : list fdecl := filter fd_compare (prop_fields ct c).

  Definition props_eq (c : pystr) (ps ps' : list (pystr * pval)) : Prop :=
    forall f, In f (comparable c) ->
      match assoc (fd_name f) ps, assoc (fd_name f) ps' with
      | Some v, Some v' => veq v v'
      | None, None => True
      | _, _ => False
      end.

  (* same class, comparable properties equal, child fields equal field by field (same name, same shape:
     an absent optional differs from every present child) and position by position *)
  Fixpoint ceq (a b : node) : Prop :=
    match a, b with
    | Node _ c _ ps ks, Node _ c' _ ps' ks' =>
      c = c' /\ props_eq c ps ps' /\
      (fix kids (ks ks' : list (pystr * (kshape * list node))) : Prop :=
         match ks, ks' with
         | [], [] => True
         | (f, (sh, l)) :: r, (f', (sh', l')) :: r' =>
           f = f' /\ sh = sh' /\
           (fix all (l l' : list node) : Prop :=
              match l, l' with
              | [], [] => True
              | x :: t, y :: t' => ceq x y /\ all t t'
              | _, _ => False
              end) l l' /\ kids r r'
         | _, _ => False
         end) ks ks'
    end.
End CEq.
