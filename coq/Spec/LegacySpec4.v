(* C18, third round: ASTTransformVisitor.transform as the history of its primitive calls.
   transform(node): an attached node is first duplicated as a detached clone; the callback (rule language of
   Model/Legacy.v) runs on the clone - generic_visit / ASet transform the children first (each child of the detached
   clone is detached: no further clone) and call clone.replace( **changes ) when something changed -; finally the
   attached original is replaced by the result (original.replace_with(result)).  Every call is an operation of the
   machine: duplicate(as_detached_clone=True), replace, the constructor, replace_with.  [vtrace] lists them in
   order (it re-runs the sub-transformations to know their results); Proofs/LegacyVisitor.v shows that a successful
   transform ends in the state in which this history ends.
   The two loops of _transform_children are functions of their own, parametrised by the recursive call. *)
From Oak Require Export Spec.LegacySpec3.
From Coq Require Import List String Ascii ZArith Bool Arith.
Import ListNotations.

Section Loops.
  Variable rec : st -> nat -> list nat -> res out.          (* transform of a child *)
  Variable rect : st -> nat -> list nat -> list op.         (* its calls *)

  (* the elements of a tuple / list field *)
  Fixpoint vt_elems (s : st) (l : list nat) (acc : list nat * bool * list nat) : res (list nat * bool * list nat) :=
    match l with
    | [] => Ok s acc
    | k :: r =>
      let '(news, ch, made) := acc in
      let* (s1, o) := rec s k made in
      match fst o with
      | Some k' => vt_elems s1 r (news ++ [k'], ch || negb (Nat.eqb k' k), snd o)
      | None => vt_elems s1 r (news, true, snd o)
      end
    end.
  Fixpoint vtr_elems (s : st) (l : list nat) (acc : list nat * bool * list nat) : list op :=
    match l with
    | [] => []
    | k :: r =>
      let '(news, ch, made) := acc in
      rect s k made ++
      match rec s k made with
      | Ok s1 o => match fst o with
                   | Some k' => vtr_elems s1 r (news ++ [k'], ch || negb (Nat.eqb k' k), snd o)
                   | None => vtr_elems s1 r (news, true, snd o)
                   end
      | _ => []
      end
    end.

  Variable n : nat.                                          (* the node whose children are transformed *)
  Definition vt_field (s : st) (fn : pystr) (made : list nat) : res (list (pystr * chval) * list nat) :=
    match assoc fn (c_fs (cellD s n)) with
    | Some (FOne (Some k)) =>
      let* (s1, o) := rec s k made in
      let changed := match fst o with Some k' => negb (Nat.eqb k' k) | None => true end in
      Ok s1 ((if changed then [(fn, CV (FOne (fst o)))] else []), snd o)
    | Some (FSeq l) =>
      let* (s1, acc) := vt_elems s l ([], false, made) in
      let '(news, ch, made1) := acc in
      Ok s1 ((if ch then [(fn, CV (FSeq news))] else []), made1)
    | _ => Ok s ([], made)
    end.
  Definition vtr_field (s : st) (fn : pystr) (made : list nat) : list op :=
    match assoc fn (c_fs (cellD s n)) with
    | Some (FOne (Some k)) => rect s k made
    | Some (FSeq l) => vtr_elems s l ([], false, made)
    | _ => []
    end.
  Fixpoint vt_fields (s : st) (fns : list pystr) (made : list nat) : res (list (pystr * chval) * list nat) :=
    match fns with
    | [] => Ok s ([], made)
    | fn :: rest =>
      let* (s1, here) := vt_field s fn made in
      let* (s2, more) := vt_fields s1 rest (snd here) in
      Ok s2 (fst here ++ fst more, snd more)
    end.
  Fixpoint vtr_fields (s : st) (fns : list pystr) (made : list nat) : list op :=
    match fns with
    | [] => []
    | fn :: rest =>
      vtr_field s fn made ++
      match vt_field s fn made with
      | Ok s1 here => vtr_fields s1 rest (snd here)
      | _ => []
      end
    end.
End Loops.

Section Spec4.
  Variable H : pystr -> pystr.
  Variable ct : ctable.

  Fixpoint vtrace (fuel : nat) (rules : list rule) (s : st) (node : nat) (made : list nat) : list op :=
    match fuel with
    | 0 => []
    | S f =>
      let rec := vtransform H ct f rules in
      let rect := vtrace f rules in
      let attached_orig := negb (detached s node) in
      (* node.duplicate(as_detached_clone=True) *)
      let dup : list op := if attached_orig then [ODuplicate node true] else [] in
      let s0 := run H ct s dup in
      let work := if attached_orig
                  then match result_node (snd (step H ct s (ODuplicate node true))) with Some w => w | None => node end
                  else node in
      let fns := map fst (c_fs (cellD s0 work)) in
      let kids_calls := vtr_fields rec rect work s0 fns made in
      (* the callback *)
      let visit : list op * option nat :=
        match action_for rules (cellD s0 work) with
        | AKeep => ([], Some work)
        | ARemove | ARaise => ([], None)
        | AFresh cls org fs =>
          ([ONew cls org fs None false false false],
           result_node (snd (step H ct s0 (ONew cls org fs None false false false))))
        | AGeneric =>
          match vt_fields rec work s0 fns made with
          | Ok s1 cm => match fst cm with
                        | [] => (kids_calls, Some work)
                        | ch => (kids_calls ++ [OReplace work ch], result_node (snd (step H ct s1 (OReplace work ch))))
                        end
          | _ => (kids_calls, None)
          end
        | ASet p v =>
          match vt_fields rec work s0 fns made with
          | Ok s1 cm => let ch := fst cm ++ [(p, CV (FP v))] in
                        (kids_calls ++ [OReplace work ch], result_node (snd (step H ct s1 (OReplace work ch))))
          | _ => (kids_calls, None)
          end
        end in
      (* original.replace_with(result) *)
      dup ++ fst visit ++ (if attached_orig then [OReplaceWith node (snd visit)] else [])
    end.
End Spec4.
