(* Declarative traversal orders, written by structural recursion over the stored tree only
   (no class table, no stacks, no fuel): child fields in stored (= declaration) order, tuple elements left
   to right.  A pruned position is offered to the filter, its descendants are skipped; a filtered-out
   position is skipped without affecting descent. *)
From Oak Require Export Model.Traverse.

Section Spec.
  Variables (prune filt : tinfo -> bool).

  Definition keep (ti : tinfo) : list tinfo := if filt ti then [ti] else [].

  (* pre-order *)
  Fixpoint pre (p : node) : list tinfo :=
    match p with
    | Node a c o ps ks =>
      let P := Node a c o ps ks in
      let visit (x : node) (f : pystr) (i : option nat) (sub : list tinfo) :=
        let ti := {| ti_node := x; ti_parent := P; ti_field := f; ti_index := i |} in
        keep ti ++ (if prune ti then [] else sub) in
      (fix fields (ks : list (pystr * (kshape * list node))) : list tinfo :=
         match ks with
         | [] => []
         | (f, (sh, l)) :: ks' =>
           (match sh with
            | ShNone => []
            | ShOne => match l with x :: _ => visit x f None (pre x) | [] => [] end
            | ShMany =>
              (fix elems (i : nat) (l : list node) : list tinfo :=
                 match l with
                 | [] => []
                 | x :: l' => visit x f (Some i) (pre x) ++ elems (S i) l'
                 end) 0 l
            end) ++ fields ks'
         end) ks
    end.

  (* post-order: descendants first *)
  Fixpoint post (p : node) : list tinfo :=
    match p with
    | Node a c o ps ks =>
      let P := Node a c o ps ks in
      let visit (x : node) (f : pystr) (i : option nat) (sub : list tinfo) :=
        let ti := {| ti_node := x; ti_parent := P; ti_field := f; ti_index := i |} in
        (if prune ti then [] else sub) ++ keep ti in
      (fix fields (ks : list (pystr * (kshape * list node))) : list tinfo :=
         match ks with
         | [] => []
         | (f, (sh, l)) :: ks' =>
           (match sh with
            | ShNone => []
            | ShOne => match l with x :: _ => visit x f None (post x) | [] => [] end
            | ShMany =>
              (fix elems (i : nat) (l : list node) : list tinfo :=
                 match l with
                 | [] => []
                 | x :: l' => visit x f (Some i) (post x) ++ elems (S i) l'
                 end) 0 l
            end) ++ fields ks'
         end) ks
    end.

  (* the positions directly below p, read off the stored fields *)
  Definition direct_infos (p : node) : list tinfo :=
    flat_map (fun k => map (fun ci => {| ti_node := fst ci; ti_parent := p; ti_field := fst k; ti_index := snd ci |})
                           (field_children (snd k))) (nkids p).

  (* level order: level 0 = the children, level k+1 = the children of the unpruned positions of level k *)
  Definition next_level (l : list tinfo) : list tinfo :=
    flat_map (fun ti => if prune ti then [] else direct_infos (ti_node ti)) l.
  Fixpoint levels_from (d : nat) (l : list tinfo) : list tinfo :=
    match d with
    | 0 => []
    | S d' => filter filt l ++ levels_from d' (next_level l)
    end.
End Spec.

(* the position a traversal info claims: parent's field (at that index for tuples) *)
Definition child_at (p : node) (f : pystr) (i : option nat) : option node :=
  match assoc f (nkids p), i with
  | Some (ShOne, x :: _), None => Some x
  | Some (ShMany, l), Some k => nth_error l k
  | _, _ => None
  end.
