(* C18, second and third round: the strengthened invariant Inv2 and the guards of the step theorems.
   Inv2 = Inv + Rank (the stored child relation is well founded: every stored child exists and no node holds itself
   below one of its children - round 2 had "every child address is smaller than its parent's", which is false once
   _replace_child has stored a younger node in an older parent's field; that clause is kept as AddrRank and implies
   Rank) + PidOk (a stored parent id is never dead: a node with a _parent_id is attached and the id resolves).
   Rank is the well-foundedness that makes the fuel of [tree_cid] irrelevant; PidOk is what makes a detached node
   parent-less for good (the registry resolves .parent, so a dead id could come back to life). *)
From Oak Require Export Spec.LegacySpec.
From Coq Require Import List String Ascii ZArith Bool Arith.
Import ListNotations.

Section Spec2.
  Variable H : pystr -> pystr.
  Variable ct : ctable.

  (* d is a in the subtree stored below a (child fields only; reflexive) *)
  Inductive reach (s : st) : nat -> nat -> Prop :=
  | reach_refl a : reach s a a
  | reach_step a k d : In k (skids s a) -> reach s k d -> reach s a d.

  (* rounds 1-2: a child address is smaller than its parent's (false once _replace_child has stored a younger node
     in an older parent's field); kept because it implies Rank (Proofs/LegacyHeap.v: addr_rank_rank) *)
  Definition AddrRank (s : st) : Prop := forall a k, In k (skids s a) -> k < a.
  (* round 3: the stored child relation is well founded: every stored child exists and no node holds itself below
     one of its children.  (On a finite heap this bounds every downward chain by |heap|: Proofs/LegacyHeap.v,
     rank_depth - the reason why the fuel |heap|+1 of tree_cid is enough.) *)
  Definition Rank (s : st) : Prop :=
    (forall a k, In k (skids s a) -> live s k) /\ (forall a k, In k (skids s a) -> ~ reach s k a).
  Definition PidOk (s : st) : Prop :=
    forall a, c_pid (cellD s a) <> None -> attached s a /\ parent s a <> None.
  Definition Inv2 (s : st) : Prop := RegOk s /\ Rank s /\ PidOk s /\ LInv H ct s.
  (* the invariant of round 2 (Inv2_old -> Inv2: Proofs/LegacyHeap.v) *)
  Definition Inv2_old (s : st) : Prop := RegOk s /\ AddrRank s /\ PidOk s /\ LInv H ct s.

  (* ---- guards of attach (and of a constructor that attaches) ---- *)
  (* no node below a that is detached (P) shares its id with one of its ancestors inside the tree of a:
     _attach_inner tests the registry for a node's id BEFORE its descendants are registered and registers the node
     AFTER them, so such a descendant is silently evicted (findings C18:New:child-detached, C18:Replace:child-detached) *)
  Definition ids_apart (P : nat -> Prop) (s : st) (a : nat) : Prop :=
    forall d d', reach s a d -> reach s d d' -> d <> d' -> P d' -> id_of s d <> id_of s d'.
  (* the stored subtree of a is a tree: no node object sits at two positions (the premise of C18) *)
  Definition tree_shaped (s : st) (a : nat) : Prop :=
    forall d, reach s a d ->
      NoDup (skids s d) /\
      forall k1 k2 x, In k1 (skids s d) -> In k2 (skids s d) -> k1 <> k2 -> reach s k1 x -> reach s k2 x -> False.
  (* the cached content_id of every detached node below a is up to date (attach does not recompute: finding
     C18:Attach:content-id is exactly the failure of this guard) *)
  Definition cids_fresh (s : st) (a : nat) : Prop :=
    forall d, reach s a d -> detached s d = true -> c_cid (cellD s d) = tree_cid H ct (fuel_of s) s d.

  Definition cid_ok (s : st) (a : nat) : Prop := c_cid (cellD s a) = tree_cid H ct (fuel_of s) s a.

  (* every child named by a field list exists *)
  Definition fs_kids (fs : list (pystr * fval)) : list nat := map (fun e => fst (fst e)) (flat_map fkids fs).
  Definition kids_live (s : st) (fs : list (pystr * fval)) : Prop := forall k, In k (fs_kids fs) -> live s k.

  (* ---- the guards of the step theorems ---- *)
  (* attach(a): a exists, its stored subtree is a tree, no detached node in it shares its id with one of its
     ancestors in it, and the cached content_ids of its detached nodes are up to date *)
  Definition att_guard (s : st) (a : nat) : Prop :=
    live s a /\ tree_shaped s a /\ ids_apart (fun x => detached s x = true) s a /\ cids_fresh s a.
  (* a constructor that attaches (create_detached = False) and returned r in state s': the same three conditions,
     read on the tree of the new node (its shape and ids in s', "detached" and the cached digests before the call) *)
  Definition new_guard (s s' : st) (r : nat) : Prop :=
    tree_shaped s' r /\ ids_apart (fun x => detached s x = true) s' r /\
    (forall d, reach s' r d -> d <> r -> detached s d = true -> cid_ok s d).

  (* the steps covered by the C18 step theorems: operation, guarded input, observed outcome *)
  Definition step_guard (s : st) (o : op) (s' : st) (ob : obs) : Prop :=
    match o with
    | ONew cls org fs idarg eu ad cd =>
        kids_live s fs /\
        match ob with
        | RNode r => cd = false -> new_guard s s' r
        | RErr e => e = EDup \/ e = EIdc
        | RDiv => True
        | _ => False
        end
    | OAttach a => match ob with RNone => att_guard s a | RDiv => True | _ => False end
    | ODetach _ | ODetachSelf _ => match ob with RBool _ | RDiv => True | _ => False end
    | ODuplicate _ _ => match ob with RNode _ | RDiv => True | _ => False end
    | OCalcXpath _ => True
    (* replace() of a parent-less receiver (attached root or detached node) = detach_self + constructor;
       replace() of a node that has a parent p (round 3) = cut out of p + detach_self + constructor + _replace_child:
       the guards of the constructor are read after the receiver has been cut out and detach_self'ed, the field
       names of p are distinct, and the new node holds neither p nor the receiver below it;
       ASTNodeReplaceError leaves the state alone *)
    | OReplace a ch =>
        match ob with
        | RNode r => (parent s a = None /\ kids_live s (apply_changes (c_fs (cellD s a)) ch) /\
                      (detached s a = false -> new_guard (fst (step H ct s (ODetachSelf a))) s' r)) \/
                     (exists p, parent s a = Some p /\ NoDup (map fst (c_fs (cellD s p))) /\
                                kids_live s (apply_changes (c_fs (cellD s a)) ch) /\
                                new_guard (fst (step H ct (clear_parent s a) (ODetachSelf a))) s' r /\
                                ~ reach s' r p /\ ~ reach s' r a)
        | RErr ERep | RDiv => True
        | _ => False
        end
    (* replace_with(None): of a parent-less receiver (= detach), or of an attached node that has a parent (removal
       from a single-child or tuple/list field), the parent's field names being distinct (a class instance);
       its ASTNodeReplaceWithError leaves the state alone *)
    | OReplaceWith a None =>
        match ob with
        | RNone => parent s a = None \/
                   (live s a /\ attached s a /\
                    exists p f, parent s a = Some p /\ c_pf (cellD s a) = Some f /\
                                NoDup (map fst (c_fs (cellD s p))))
        | RErr ERw | RDiv => True
        | _ => False
        end
    (* replace_with(node), the node being detached or an attached root once the receiver's subtree is detached (an
       attached subtree node is rejected by the pre-check): detach + id flip (an attached node is popped from the
       registry first) + attach; the guard of attach is read on the state in which the node already carries the
       receiver's id.  When the receiver has a parent p (round 3) it is cut out of p first and p._replace_child follows:
       the field names of p are distinct and the node does not hold p below it *)
    | OReplaceWith a (Some n) =>
        match ob with
        | RNone => (parent s a = None /\
                    att_guard (fst (flip_ids (fst (step H ct s (ODetach a))) a n)) n) \/
                   (exists p, parent s a = Some p /\ NoDup (map fst (c_fs (cellD s p))) /\
                              att_guard (fst (flip_ids (fst (step H ct (clear_parent s a) (ODetach a))) a n)) n /\
                              ~ reach s' n p)
        | RDiv => True
        | _ => False
        end
    | _ => False
    end.
  Fixpoint guarded (s : st) (ops : list op) : Prop :=
    match ops with
    | [] => True
    | o :: r => step_guard s o (fst (step H ct s o)) (snd (step H ct s o)) /\ guarded (fst (step H ct s o)) r
    end.
  (* the states a history passes through *)
  Fixpoint trace (s : st) (ops : list op) : list st :=
    s :: match ops with [] => [] | o :: r => trace (fst (step H ct s o)) r end.
End Spec2.
