(* Declarative reading of C11 and C13 on annotation terms.  Nothing here mentions the algorithms of typing.py. *)
From Oak Require Export Model.PyTypes.

(* ---------- C11 ---------- *)
(* "mentions a node class": anywhere, also behind a NewType and as a forward reference *)
Fixpoint mentions_node (t : ty) : bool :=
  match t with
  | TNode _ | TFwd _ => true
  | TNewType a | TTupleVar a => mentions_node a
  | TUnion ts | TTuple ts | TGen _ ts => existsb mentions_node ts
  | _ => false
  end.
(* "mentions a mutable collection": list / dict / set anywhere *)
Fixpoint mentions_mutable (t : ty) : bool :=
  match t with
  | TGen c ts => con_mutable c || existsb mentions_mutable ts
  | TBare c => con_mutable c
  | TNewType a | TTupleVar a => mentions_mutable a
  | TUnion ts | TTuple ts => existsb mentions_mutable ts
  | _ => false
  end.
(* "a node class, or a union of node classes" (optionally with None when [opt]) *)
Definition is_node (t : ty) : bool := match t with TNode _ => true | _ => false end.
Definition node_elem (opt : bool) (t : ty) : bool :=
  match t with
  | TNode _ => true
  | TUnion ts => forallb (fun a => is_node a || (opt && is_noneT a)) ts
  | _ => false
  end.
(* "a node class, a union of node classes optionally with None, or a fixed or variadic tuple of such"
   (no None inside a tuple, no empty tuple), and at least one node class is mentioned *)
Definition child_shape (t : ty) : bool :=
  (node_elem true t
   || match t with
      | TTupleVar a => node_elem false a
      | TTuple (a :: r) => forallb (node_elem false) (a :: r)
      | _ => false
      end)
  && mentions_node t.

(* ---------- C13 ---------- *)
Section Conf.
Variable e : henv.
(* "conforms to its annotation": bool only to bool (not to int), int acceptable for float, None only where
   allowed, tuples element-wise with exact length for fixed tuples, literals by membership (Python ==),
   unions by any member, nodes by instance; a NewType stands for its supertype.
   Where the text is silent the definition follows the code and [silent] marks the pair:
   bool offered where float is expected. *)
Fixpoint conforms (t : ty) (v : val) {struct t} : bool :=
  match t with
  | TScalar SInt => match v with XInt _ => true | _ => false end
  | TScalar SBool => match v with XBool _ => true | _ => false end
  | TScalar SFloat => match v with XFloat _ | XInt _ | XBool _ => true | _ => false end
  | TScalar SStr => match v with XStr _ => true | _ => false end
  | TScalar SBytes => false
  | TAny => true
  | TNoneT => match v with XNone => true | _ => false end
  | TLiteral vs => existsb (py_eq v) vs
  | TEnum c => match v with XEnum d _ => pystr_eqb c d | _ => false end
  | TNewType a => conforms a v
  | TUnion ts => existsb (fun a => conforms a v) ts
  | TTuple ts => match v with XTuple l => Nat.eqb (length ts) (length l) && zip_all (fun a x => conforms a x) ts l | _ => false end
  | TTupleVar a => match v with XTuple l => forallb (conforms a) l | _ => false end
  | TGen CFrozenset [a] => match v with XFset l => forallb (conforms a) l | _ => false end
  | TGen CSequence [a] =>
    match v with
    | XTuple l | XList l => forallb (conforms a) l
    | XStr s => forallb (fun c => conforms a (XStr [c])) s       (* a str is a Sequence of 1-character strs *)
    | _ => false
    end
  | TGen _ _ => false                (* Mapping[k, v]: no mapping values in the pool; list/dict/set are not accepted *)
  | TBare c => inst_con c v
  | TNode c => match v with XNode d => node_sub e d c | _ => false end
  | TFwd _ => false
  end.
End Conf.

Fixpoint mentions_float (t : ty) : bool :=
  match t with
  | TScalar SFloat => true
  | TNewType a | TTupleVar a => mentions_float a
  | TUnion ts | TTuple ts | TGen _ ts => existsb mentions_float ts
  | _ => false
  end.
Fixpoint has_bool (v : val) : bool :=
  match v with
  | XBool _ => true
  | XTuple l | XList l | XFset l => existsb has_bool l
  | _ => false
  end.
(* pairs on which the text of C13 says nothing (over-approximated): a bool somewhere in the value while float
   occurs somewhere in the annotation *)
Definition silent (t : ty) (v : val) : bool := mentions_float t && has_bool v.

(* annotation terms C13_iff speaks about: what get_field_types hands to is_instance for an accepted field
   that contains no NewType below the top and no unresolved string *)
Fixpoint plain_ty (t : ty) : bool :=
  match t with
  | TNewType _ | TFwd _ => false
  | TTupleVar a => plain_ty a
  | TUnion ts | TTuple ts | TGen _ ts => forallb plain_ty ts
  | _ => true
  end.
