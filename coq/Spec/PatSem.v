(* C08, the documented semantics of tree patterns, defined directly on the pattern syntax (no matcher objects,
   no compile step).  [pm_pat p v ctx] is the result of matching value v against pattern p when the captures made
   so far are ctx:  RFail, or ROk with the captures made by p (name -> the very value matched), or RRaise when a
   $variable has no value.  Sentence by sentence from the property text:
     - the value is a node and an instance of one of the listed classes (any node for '*');
     - every listed field exists and satisfies its spec, left to right, later specs seeing earlier captures;
     - "regex" matches at the start of str(value); None matches only None; [] only the empty tuple;
       a nested pattern matches recursively;
     - a bracketed sequence matches a sequence value element-wise: equal length, or with a trailing '*' at least
       as many elements as listed; the '*' captures the tuple of the remaining elements;
     - $name: equals the value captured earlier (content equality for nodes, == otherwise);
     - "-> name" binds the value the spec was applied to. *)
From Oak Require Export Model.Pattern.
From Coq Require Import List Bool.
Import ListNotations.

Section Sem.
  Variable H : pystr -> pystr.
  Variable ct : ctable.
  Variable re_match : pystr -> pystr -> bool.
  Variable node_repr : node -> pystr.

  Fixpoint pm_pat (p : pat) (v : mval) (ctx : dict) {struct p} : res :=
    match p with
    | PTree classes fs =>
      match v with
      | XN n =>
        if match classes with None => true | Some l => existsb (subclass ct (cls n)) l end
        then
          field_loop pm_fspec (attr H ct n) fs ctx []          (* every listed field exists and satisfies its spec *)
        else RFail
      | _ => RFail
      end
    end
  with pm_fspec (s : fspec) (v : mval) (ctx : dict) {struct s} : res :=
    match s with
    | FAny cap => named cap v (ROk [])
    | FVal vp cap => named cap v (pm_vpat vp v ctx)
    | FSeq [] None cap => named cap v (if is_empty_tuple v then ROk [] else RFail)
    | FSeq items tail cap =>
      named cap v
        match seq_items v with
        | None => RFail                                            (* not a sequence *)
        | Some elems =>
          if match tail with
             | None => Nat.eqb (length elems) (length items)
             | Some _ => Nat.leb (length items) (length elems)
             end
          then
            zip_loop (fun (it : vpat * option pystr) e ctx => named (snd it) e (pm_vpat (fst it) e ctx))
              (fun _ caps =>
                 match tail with
                 | Some (Some t) => ROk (dupdate caps [(t, seq_drop (length items) v)])  (* the remaining elements *)
                 | _ => ROk caps
                 end) items elems ctx []
          else RFail
        end
    end
  with pm_vpat (vp : vpat) (v : mval) (ctx : dict) {struct vp} : res :=
    match vp with
    | VTree p => pm_pat p v ctx
    | VVar x => match dget x ctx with
                | None => RRaise
                | Some w => if veq H ct w v then ROk [] else RFail
                end
    | VNoneP => if is_none v then ROk [] else RFail
    | VRegex r => if re_match r (mstr node_repr v) then ROk [] else RFail
    end.

  (* MultiPatternMatcher: the first rule of the list that matches, with its captures *)
  Fixpoint pm_multi (rules : list (pystr * pat)) (v : mval) : option (pystr * res) :=
    match rules with
    | [] => None
    | (name, p) :: r =>
      match pm_pat p v [] with
      | RFail => pm_multi r v
      | o => Some (name, o)
      end
    end.
End Sem.
