(* Declarative vocabulary of C06 / C07: the path from a root down to a node, the chain of positions along it,
   and the documented meaning of an xpath as a two-rule inductive relation over that chain. *)
From Oak Require Export Spec.TraverseSpec Model.Xpath.

(* [path n l x]: following the stored child positions [l] (TraverseSpec.direct_infos) from n reaches x *)
Inductive path : node -> list tinfo -> node -> Prop :=
| path_nil n : path n [] n
| path_cons n ti l x : In ti (direct_infos n) -> path (ti_node ti) l x -> path n (ti :: l) x.

(* the position a node is stored at, if it is not the root: the last step of its path *)
Definition plast (l : list tinfo) : option tinfo := match rev l with [] => None | ti :: _ => Some ti end.
(* its ancestors, nearest first *)
Definition ups (l : list tinfo) : list node := map ti_parent (rev l).
(* what get_xpath spells: /@root[0]Cls then /@field[index or 0]Cls per step *)
Definition xpath_of (root : node) (l : list tinfo) : pystr := root_xpath root ++ List.concat (map xp_seg l).

(* ---------- xpath semantics ---------- *)
(* a position on the chain root .. node: the node (for its class), the field and index it is stored under;
   the root is stored under no field and no index *)
Definition pos := (node * option pystr * option nat)%type.
Definition rpos (root : node) : pos := (root, None, None).
Definition ipos (ti : tinfo) : pos := (ti_node ti, Some (ti_field ti), ti_index ti).
Definition chain (root : node) (l : list tinfo) : list pos := rpos root :: map ipos l.

(* a step is satisfied by a position iff the node is an instance of the named class (ASTNode when omitted), is
   stored in the named field and at the given index when those are given *)
Definition sat (ct : ctable) (p : pos) (e : element) : bool :=
  match p with (n, f, i) => match_node_element ct n f i e end.

(* the elements (root first) against the chain (root first): [R_step] the first element sits on the first
   position; [R_skip] an element preceded by // may pass over a position; all elements and positions are consumed,
   so the last element sits on the node itself and an absolute first element on the root *)
Inductive R (ct : ctable) : list element -> list pos -> Prop :=
| R_nil : R ct [] []
| R_step e es p rest : sat ct p e = true -> R ct es rest -> R ct (e :: es) (p :: rest)
| R_skip e es p rest : e_any e = true -> R ct (e :: es) rest -> R ct (e :: es) (p :: rest).

(* node x of the tree under root matches *)
Definition sem (ct : ctable) (els : list element) (root x : node) : Prop :=
  exists l, path root l x /\ R ct els (chain root l).
