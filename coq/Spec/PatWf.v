(* C17: what makes a syntactically correct pattern well-formed.  Reading the pattern left to right gives a list
   of events; the pattern is well-formed when every class named is a node class, every regex compiles, every
   capture name is new and every $variable was captured earlier. *)
From Oak Require Export Model.Pattern.
From Coq Require Import List Bool.
Import ListNotations.

Inductive pev := EvCls (c : pystr) | EvRe (r : pystr) | EvCap (c : pystr) | EvVar (x : pystr).
Definition ev_cap (cap : option pystr) : list pev := match cap with Some c => [EvCap c] | None => [] end.

Fixpoint ev_pat (p : pat) : list pev :=
  match p with
  | PTree cls fs => (match cls with None => [] | Some l => map EvCls l end) ++ flat_map (fun f => ev_fspec (snd f)) fs
  end
with ev_fspec (s : fspec) : list pev :=
  match s with
  | FAny cap => ev_cap cap
  | FVal v cap => ev_vpat v ++ ev_cap cap
  | FSeq items tail cap =>
    flat_map (fun it => ev_vpat (fst it) ++ ev_cap (snd it)) items
    ++ (match tail with Some tc => ev_cap tc | None => [] end) ++ ev_cap cap
  end
with ev_vpat (v : vpat) : list pev :=
  match v with
  | VTree p => ev_pat p
  | VVar x => [EvVar x]
  | VNoneP => []
  | VRegex r => [EvRe r]
  end.

Section Wf.
  Variable ct : ctable.
  Variable re_ok : pystr -> bool.
  (* seen = the capture names so far; None = ill-formed *)
  Fixpoint ev_check (evs : list pev) (seen : list pystr) : option (list pystr) :=
    match evs with
    | [] => Some seen
    | EvCls c :: r => match cls_kind ct c with Some true => ev_check r seen | _ => None end   (* exists and is a node class *)
    | EvRe x :: r => if re_ok x then ev_check r seen else None                                (* compiles *)
    | EvCap c :: r => if mem c seen then None else ev_check r (c :: seen)                     (* not used before *)
    | EvVar x :: r => if mem x seen then ev_check r seen else None                            (* captured before *)
    end.
  Definition wellformed (p : pat) : bool := match ev_check (ev_pat p) [] with Some _ => true | None => false end.
End Wf.
