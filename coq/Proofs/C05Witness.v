(* C05: non-vacuity witnesses.  One concrete instance for all theorems of Props/C05.v that have premises:
   a class table with a base class A (a property, an optional child, a tuple child) and a subclass B of A (one
   more property, one more mandatory child: the merged field list of B is x c t y u), and a conforming tree of
   three levels / seven nodes that uses both classes, a single child, a None child and two non-empty tuples.
   prune and filter are non-constant functions. *)
From Oak Require Import Spec.TraverseSpec Proofs.TraverseProofs.
From Coq Require Import List Arith Lia.
Import ListNotations.

Definition w5_fd (name : string) (role : frole) : fdecl :=
  {| fd_name := lit name; fd_role := role; fd_compare := true; fd_init := true; fd_kwonly := false |}.
Definition w5_ct : ctable :=
  [ {| cd_name := lit "A"; cd_bases := [];
       cd_own := [ w5_fd "x" RProp; w5_fd "c" (RChild (KOpt true)); w5_fd "t" (RChild KTup) ] |};
    {| cd_name := lit "B"; cd_bases := [lit "A"];
       cd_own := [ w5_fd "y" RProp; w5_fd "u" (RChild (KOpt false)) ] |} ].
Definition w5_leaf (a : nat) : node :=
  Node a (lit "A") ONo [(lit "x", VInt 1)] [(lit "c", (ShNone, [])); (lit "t", (ShMany, []))].
Definition w5_mid : node :=
  Node 1 (lit "B") ONo [(lit "x", VInt 2); (lit "y", VStr (lit "s"))]
       [(lit "c", (ShNone, [])); (lit "t", (ShMany, [w5_leaf 2; w5_leaf 3])); (lit "u", (ShOne, [w5_leaf 5]))].
Definition w5_tree : node :=
  Node 0 (lit "A") ONo [(lit "x", VInt 0)]
       [(lit "c", (ShOne, [w5_mid])); (lit "t", (ShMany, [w5_leaf 4; w5_leaf 6]))].

(* prune at the B node (address 1: it is offered to the filter, its three descendants are skipped); the filter keeps
   the nodes with an even address *)
Definition w5_prune (ti : tinfo) : bool := Nat.eqb (addr (ti_node ti)) 1.
Definition w5_filt (ti : tinfo) : bool := Nat.even (addr (ti_node ti)).
Definition w5_none (_ : tinfo) : bool := false.
Definition w5_all (_ : tinfo) : bool := true.
Definition w5_addrs (r : option (list tinfo)) : option (list nat) := option_map (map (fun ti => addr (ti_node ti))) r.

(* the only premise of C05_dfs_pre, C05_dfs_post, C05_bfs, C05_visits_all, C05_gather, C05_infos_direct; the
   conclusions speak about non-empty lists that differ between the three orders, with and without prune / filter *)
Lemma w5_wf :
  wf_node w5_ct w5_tree = true /\ size w5_tree = 7
  /\ fields_of w5_ct (lit "B") = [w5_fd "x" RProp; w5_fd "c" (RChild (KOpt true)); w5_fd "t" (RChild KTup);
                                    w5_fd "y" RProp; w5_fd "u" (RChild (KOpt false))]
  /\ w5_addrs (dfs w5_ct w5_none w5_all 7 false w5_tree) = Some [1; 2; 3; 5; 4; 6]
  /\ w5_addrs (dfs w5_ct w5_none w5_all 7 true w5_tree) = Some [2; 3; 5; 1; 4; 6]
  /\ w5_addrs (bfs w5_ct w5_none w5_all 7 w5_tree) = Some [1; 4; 6; 2; 3; 5]
  /\ w5_addrs (dfs w5_ct w5_prune w5_all 7 false w5_tree) = Some [1; 4; 6]
  /\ w5_addrs (dfs w5_ct w5_none w5_filt 7 false w5_tree) = Some [2; 4; 6]
  /\ w5_addrs (bfs w5_ct w5_prune w5_filt 7 w5_tree) = Some [4; 6].
Proof. vm_compute. repeat split. Qed.

(* C05_gather: a class list for which exact and non-exact matching differ (B is a subclass of A) *)
Lemma w5_gather :
  wf_node w5_ct w5_tree = true
  /\ option_map (map addr) (gather w5_ct 7 [lit "A"] false w5_all w5_none w5_tree) = Some [1; 2; 3; 5; 4; 6]
  /\ option_map (map addr) (gather w5_ct 7 [lit "A"] true w5_all w5_none w5_tree) = Some [2; 3; 5; 4; 6]
  /\ option_map (map addr) (gather w5_ct 7 [lit "B"] false w5_filt w5_none w5_tree) = Some []
  /\ option_map (map addr) (gather w5_ct 7 [lit "B"; lit "Q"] false w5_all w5_prune w5_tree) = Some [1].
Proof. vm_compute. repeat split. Qed.

(* C05_dfs_td_spec / C05_dfs_bu_spec: a stack of two positions (the children of the B node are still to come), a
   non-empty accumulator, fuel exactly the work *)
Definition w5_stack : list tinfo := infos w5_ct w5_tree.
Definition w5_ti_mid : tinfo := {| ti_node := w5_mid; ti_parent := w5_tree; ti_field := lit "c"; ti_index := None |}.
Definition w5_ti_3 : tinfo := {| ti_node := w5_leaf 3; ti_parent := w5_mid; ti_field := lit "t"; ti_index := Some 1 |}.
Definition w5_acc : list tinfo := [w5_ti_3].
Lemma w5_stack_ok :
  wfs w5_ct w5_stack /\ work w5_stack <= 6 /\ length w5_stack = 3 /\ work w5_stack = 6
  /\ w5_addrs (dfs_td w5_ct w5_prune w5_filt 6 w5_stack w5_acc) = Some [3; 4; 6]
  /\ w5_addrs (dfs_td w5_ct w5_none w5_filt 6 w5_stack w5_acc) = Some [3; 2; 4; 6]
  /\ w5_addrs (dfs_bu w5_ct w5_none w5_all 6 w5_stack w5_acc) = Some [6; 4; 2; 3; 5; 1; 3].
Proof.
  split.
  - intros ti Hin. vm_compute in Hin. repeat (destruct Hin as [<-|Hin]; [vm_compute; reflexivity|]). destruct Hin.
  - vm_compute. repeat split; repeat constructor.
Qed.

(* C05_no_self, C05_info_sound, C05_info_sound_post: a position two levels down, element 1 of a tuple, is yielded
   by pre and by post under the non-trivial filter (address 3 is odd: use the complement) *)
Definition w5_odd (ti : tinfo) : bool := Nat.odd (addr (ti_node ti)).
Lemma w5_member :
  wf_node w5_ct w5_tree = true
  /\ In w5_ti_3 (pre w5_none w5_odd w5_tree) /\ In w5_ti_3 (post w5_none w5_odd w5_tree)
  /\ In w5_ti_mid (pre w5_prune w5_odd w5_tree)
  /\ ~ In w5_ti_3 (pre w5_prune w5_odd w5_tree)
  /\ size (ti_node w5_ti_3) = 1 /\ ti_parent w5_ti_3 <> w5_tree
  /\ child_at (ti_parent w5_ti_3) (ti_field w5_ti_3) (ti_index w5_ti_3) = Some (w5_leaf 3).
Proof.
  split; [vm_compute; reflexivity|].
  split; [vm_compute; auto|]. split; [vm_compute; auto|]. split; [vm_compute; auto|].
  split; [vm_compute; intros [E|[]]; discriminate E|].
  split; [reflexivity|]. split; [discriminate|]. vm_compute. reflexivity.
Qed.
