(* Proofs for C04, part 5: serializing a tree that was built through the registry simulation does not raise:
   every address has an id, and (index-based sources) every source of every origin is registered. *)
From Oak Require Import Model.SerOpts Model.Serial Spec.SerialSpec Proofs.AccessProofs Proofs.SerOptsProofs
  Proofs.SerialProofs Proofs.SerialOriginProofs Proofs.SerialTreeProofs.

Definition src_regd (reg : list source) (x : source) : Prop := x = SNo \/ index_of x reg <> None.
Fixpoint origin_regd (reg : list source) (o : origin) : Prop :=
  match o with
  | ONo => True
  | OCode x _ | OGen x | OXml x _ | OEntire x => src_regd reg x
  | OMulti l => src_regd reg (osource o) /\ fold_right (fun y P => origin_regd reg y /\ P) True l
  end.
Lemma origin_regd_multi reg l : origin_regd reg (OMulti l) <-> src_regd reg (osource (OMulti l)) /\ Forall (origin_regd reg) l.
Proof.
  cbn [origin_regd]. split; intros [A B]; split; auto; clear A.
  - induction l as [|x l IH]; constructor; cbn [fold_right] in B; [tauto|]. apply IH. tauto.
  - induction B as [|x l Hx Hl IH]; cbn [fold_right]; auto.
Qed.
Lemma src_regd_app reg k x : src_regd reg x -> src_regd (reg ++ k) x.
Proof. intros [->|Hi]; [left; reflexivity|right; apply index_of_app_ne; exact Hi]. Qed.
Lemma origin_regd_app reg k o : origin_regd reg o -> origin_regd (reg ++ k) o.
Proof.
  induction o as [|x r|x|x p|x|l IH] using origin_ind'; try (cbn [origin_regd]; auto using src_regd_app; fail).
  rewrite !origin_regd_multi. intros [A B]. split; [apply src_regd_app; exact A|].
  clear A. induction IH as [|y l Hy Hl IHl]; inversion B; subst; constructor; auto.
Qed.
Lemma closed_regd reg x : closed reg x -> src_regd reg x.
Proof. destruct x; cbn [closed]; unfold src_regd; auto. intros [A _]. auto. Qed.

Lemma register_origin_regd o : forall reg, reg_valid reg -> origin_regd (register_origin o reg) o.
Proof.
  induction o as [|x r|x|x p|x|l IH] using origin_ind'; intros reg Hv;
    try (cbn [origin_regd]; apply closed_regd; apply (register_origin_valid (OGen x) reg Hv)).
  - exact I.
  - apply origin_regd_multi.
    destruct (register_origin_valid (OMulti l) reg Hv) as [_ [C _]]. split; [apply closed_regd; exact C|].
    rewrite register_origin_multi. cbv zeta.
    assert (G : reg_valid (reg_origins l reg) /\ Forall (origin_regd (reg_origins l reg)) l).
    { clear - IH Hv. revert reg Hv. induction IH as [|y l Hy Hl IHl]; intros reg Hv; [split; [exact Hv|constructor]|].
      cbn [reg_origins fold_left]. destruct (register_origin_valid y reg Hv) as [V1 [_ [k1 E1]]].
      destruct (IHl _ V1) as [V2 F2]. fold (reg_origins l (register_origin y reg)) in *. split; [exact V2|].
      constructor; [|exact F2].
      assert (E : exists k, reg_origins l (register_origin y reg) = register_origin y reg ++ k).
      { clear - V1. revert V1. generalize (register_origin y reg) as r. induction l as [|z l IHz]; intros r V.
        - exists []. rewrite app_nil_r. reflexivity.
        - cbn [reg_origins fold_left]. destruct (register_origin_valid z r V) as [Vz [_ [kz Ez]]].
          destruct (IHz _ Vz) as [k Ek]. fold (reg_origins l (register_origin z r)) in *. exists (kz ++ k). rewrite Ek, Ez, app_assoc. reflexivity. }
      destruct E as [k ->]. apply origin_regd_app. apply Hy. exact Hv. }
    destruct G as [_ F].
    destruct (multi_source (map osource l)); auto.
    destruct (register1_ext (SSet l0) (reg_origins l reg)) as [k ->].
    eapply Forall_impl; [|exact F]. intros y. apply origin_regd_app.
Qed.

Section Total.
  Variable s : slots.
  Lemma ser_source_regd reg x : (get_sidx s = true -> src_regd reg x) -> exists v, ser_source s reg x = Some v.
  Proof.
    destruct (get_sidx s) eqn:Hx; [|intros _; apply ser_source_total; exact Hx].
    intros Hr. destruct (Hr eq_refl) as [->|Hi]; [eexists; reflexivity|].
    destruct (index_of x reg) as [j|] eqn:Ej; [|congruence].
    destruct x; cbn [ser_source]; rewrite ?Hx, ?Ej; eexists; reflexivity.
  Qed.
  Lemma ser_origin_total reg o : (get_sidx s = true -> origin_regd reg o) -> exists v, ser_origin s reg o = Some v.
  Proof.
    induction o as [|x r|x|x p|x|l IH] using origin_ind'; intros Hr;
      try (cbn [ser_origin]; destruct (ser_source_regd reg x) as [sv ->]; [exact Hr|eexists; reflexivity]).
    - eexists. reflexivity.
    - cbn [ser_origin].
      destruct (ser_source_regd reg (osource (OMulti l))) as [sv Es].
      { intros Hx. apply (proj1 (origin_regd_multi _ _) (Hr Hx)). }
      rewrite Es.
      assert (E : exists vs, omap (ser_origin s reg) l = Some vs).
      { assert (F : get_sidx s = true -> Forall (origin_regd reg) l) by (intros Hx; apply (proj1 (origin_regd_multi _ _) (Hr Hx))).
        clear - IH F. induction IH as [|y l Hy Hl IHl]; [eexists; reflexivity|].
        destruct (Hy (fun Hx => Forall_inv (F Hx))) as [v Hv].
        destruct (IHl (fun Hx => Forall_inv_tail (F Hx))) as [vs Hvs].
        simpl. rewrite Hv, Hvs. eexists. reflexivity. }
      destruct E as [vs ->]. eexists. reflexivity.
  Qed.

  Variable H : pystr -> pystr.
  Variable ct : ctable.
  Variable pt : ptab.
  Lemma ser_node_total reg ids n :
    (forall m, In m (nodes n) -> assoc_nat (addr m) ids <> None) ->
    (get_sidx s = true -> forall m, In m (nodes n) -> origin_regd reg (norigin m)) ->
    exists v, ser_node H ct pt current_nv s reg ids [] n = Some v.
  Proof.
    induction n as [a c o ps ks IH] using node_ind'. intros Hid Hreg.
    rewrite ser_node_eq.
    destruct (assoc_nat a ids) as [i|] eqn:Ei; [|exfalso; apply (Hid _ (nodes_self _)); exact Ei].
    destruct (ser_origin_total reg o) as [ov ->]; [intros Hx; apply (Hreg Hx _ (nodes_self _))|].
    assert (HidK : forall k x m, In k ks -> In x (snd (snd k)) -> In m (nodes x) -> assoc_nat (addr m) ids <> None).
    { intros k x m Hk Hx Hm. apply Hid. eapply nodes_kid; eauto. }
    assert (HregK : get_sidx s = true -> forall k x m, In k ks -> In x (snd (snd k)) -> In m (nodes x) -> origin_regd reg (norigin m)).
    { intros Hsx k x m Hk Hx Hm. apply (Hreg Hsx). eapply nodes_kid; eauto. }
    assert (E : exists kvals, omap (kser H ct pt s reg ids []) ks = Some kvals).
    { clear Ei Hid Hreg. revert HidK HregK. induction IH as [|k ks Hk0 _ IHks]; intros HidK HregK; [eexists; reflexivity|].
      destruct IHks as [kvals Hkv].
      { intros k' x m Hk' Hx Hm. eapply (HidK k'); eauto. right. exact Hk'. }
      { intros Hsx k' x m Hk' Hx Hm. eapply (HregK Hsx k'); eauto. right. exact Hk'. }
      assert (El : exists vs, omap (ser_node H ct pt current_nv s reg ids []) (snd (snd k)) = Some vs).
      { assert (Hid1 : forall x m, In x (snd (snd k)) -> In m (nodes x) -> assoc_nat (addr m) ids <> None)
          by (intros x m Hx Hm; eapply (HidK k); eauto; left; reflexivity).
        assert (Hreg1 : get_sidx s = true -> forall x m, In x (snd (snd k)) -> In m (nodes x) -> origin_regd reg (norigin m))
          by (intros Hsx x m Hx Hm; eapply (HregK Hsx k); eauto; left; reflexivity).
        clear - Hk0 Hid1 Hreg1. revert Hid1 Hreg1. induction Hk0 as [|x l Hx _ IHl]; intros Hid1 Hreg1; [eexists; reflexivity|].
        destruct Hx as [v Hv].
        { intros m Hm. eapply Hid1; eauto. left. reflexivity. }
        { intros Hsx m Hm. eapply (Hreg1 Hsx); eauto. left. reflexivity. }
        destruct IHl as [vs Hvs].
        { intros y m Hy Hm. eapply Hid1; eauto. right. exact Hy. }
        { intros Hsx y m Hy Hm. eapply (Hreg1 Hsx); eauto. right. exact Hy. }
        simpl. rewrite Hv, Hvs. eexists. reflexivity. }
      destruct El as [vs Hvs]. cbn [omap]. unfold kser at 1. rewrite Hvs. cbn [option_map]. rewrite Hkv. eexists. reflexivity. }
    destruct E as [kvals ->]. cbn [existsb]. eexists. reflexivity.
  Qed.
End Total.

(* ---------- what the construction registers ---------- *)
Lemma fold_left_inv {A} (f : bstate -> A -> bstate) (I : bstate -> Prop) (R : bstate -> bstate -> Prop) (D : A -> bstate -> Prop) l :
  (forall st, R st st) -> (forall a b c, R a b -> R b c -> R a c) -> (forall x st st', D x st -> R st st' -> D x st') ->
  (forall x, In x l -> forall st, I st -> I (f st x) /\ R st (f st x) /\ D x (f st x)) ->
  forall st, I st -> I (fold_left f l st) /\ R st (fold_left f l st) /\ forall x, In x l -> D x (fold_left f l st).
Proof.
  intros Rr Rt Dm. induction l as [|y l IH]; intros Hf st Hi; cbn [fold_left].
  - split; [exact Hi|]. split; [apply Rr|]. intros x [].
  - destruct (Hf y (or_introl eq_refl) st Hi) as [I1 [R1 D1]].
    destruct (IH (fun x Hx => Hf x (or_intror Hx)) _ I1) as [I2 [R2 D2]].
    split; [exact I2|]. split; [eapply Rt; eauto|]. intros x [<-|Hx]; [eapply Dm; eauto|auto].
Qed.

Section Cover.
  Variable H : pystr -> pystr.
  Variable ct : ctable.
  Variable T : node.
  Hypothesis T_cons : consistent T.

  Definition dom (st : bstate) (a : nat) : Prop := assoc_nat a (b_ids st) <> None.
  Definition mono (st st' : bstate) : Prop := (forall a, dom st a -> dom st' a) /\ exists k, b_srcs st' = b_srcs st ++ k.
  (* whatever node of T has an id, its whole subtree has ids and registered origins *)
  Definition Cov (st : bstate) : Prop :=
    forall m, In m (nodes T) -> dom st (addr m) ->
    forall m', In m' (nodes m) -> dom st (addr m') /\ origin_regd (b_srcs st) (norigin m').
  Definition CI (st : bstate) : Prop := binv st /\ Cov st.

  Lemma mono_refl st : mono st st.
  Proof. split; auto. exists []. rewrite app_nil_r. reflexivity. Qed.
  Lemma mono_trans a b c : mono a b -> mono b c -> mono a c.
  Proof. intros [A1 [k1 E1]] [A2 [k2 E2]]. split; auto. exists (k1 ++ k2). rewrite E2, E1, app_assoc. reflexivity. Qed.

  Lemma build_cov n : In n (nodes T) -> forall st, CI st ->
    CI (build H ct n st) /\ mono st (build H ct n st) /\ dom (build H ct n st) (addr n).
  Proof.
    induction n as [a c o ps ks IH] using node_ind'. intros Un st [B C]. rewrite build_eq. cbn [addr].
    destruct (assoc_nat a (b_ids st)) as [i0|] eqn:Ea.
    { split; [split; assumption|]. split; [apply mono_refl|]. unfold dom. rewrite Ea. discriminate. }
    cbv zeta.
    (* the children *)
    assert (K : CI (build_kids H ct ks st) /\ mono st (build_kids H ct ks st) /\
                forall k, In k ks -> forall x, In x (snd (snd k)) -> dom (build_kids H ct ks st) (addr x)).
    { unfold build_kids.
      apply (fold_left_inv (fun st k => build_list H ct (snd (snd k)) st) CI mono (fun k st => forall x, In x (snd (snd k)) -> dom st (addr x)));
        [apply mono_refl|apply mono_trans|intros k s1 s2 D1 [M _] x Hx; apply M; auto| |split; assumption].
      intros k Hk s1 I1. unfold build_list.
      apply (fold_left_inv (fun st x => build H ct x st) CI mono (fun x st => dom st (addr x)));
        [apply mono_refl|apply mono_trans|intros x s2 s3 D1 [M _]; apply M; auto| |exact I1].
      intros x Hx s2 I2. rewrite Forall_forall in IH. specialize (IH k Hk). rewrite Forall_forall in IH.
      apply IH; auto. eapply nodes_trans; [exact Un|]. eapply nodes_kid; eauto. apply nodes_self. }
    destruct K as [[B1 C1] [[M1 [k1 E1]] D1]]. set (st1 := build_kids H ct ks st) in *.
    set (i := unique_id (b_used st1) (H (id_data H ct current (Node a c o ps ks)))).
    set (st2 := {| b_ids := (a, i) :: b_ids st1; b_used := i :: b_used st1; b_srcs := register_origin o (b_srcs st1) |}).
    assert (B2 : binv st2).
    { pose proof (build_binv H ct (Node a c o ps ks) st B) as B2. rewrite build_eq, Ea in B2. exact B2. }
    destruct (register_origin_valid o (b_srcs st1) (B_srcs _ B1)) as [_ [_ [k2 E2]]].
    assert (M2 : mono st1 st2).
    { split; [|exists k2; exact E2]. intros b Hb. unfold dom in *. subst st2. cbn [b_ids assoc_nat]. destruct (Nat.eqb a b); [discriminate|exact Hb]. }
    assert (Da : dom st2 a).
    { unfold dom. subst st2. cbn [b_ids assoc_nat]. rewrite Nat.eqb_refl. discriminate. }
    assert (Lift : forall m', dom st1 (addr m') /\ origin_regd (b_srcs st1) (norigin m') ->
                              dom st2 (addr m') /\ origin_regd (b_srcs st2) (norigin m')).
    { intros m' [X Y]. split; [apply (proj1 M2); exact X|]. subst st2. cbn [b_srcs]. rewrite E2. apply origin_regd_app. exact Y. }
    split; [split; [exact B2|]|split; [eapply mono_trans; [split; [exact M1|exists k1; exact E1]|exact M2]|exact Da]].
    intros m Um Dm m' Hm'.
    destruct (Nat.eq_dec (addr m) a) as [Eam|Nam].
    - assert (Em : m = Node a c o ps ks) by (apply T_cons; auto). subst m.
      apply nodes_inv in Hm' as [->|[k [x [Hk [Hx Hm']]]]].
      + split; [exact Da|]. subst st2. cbn [b_srcs norigin]. apply register_origin_regd. exact (B_srcs _ B1).
      + apply Lift. apply (C1 x); [eapply nodes_trans; [exact Un|]; eapply nodes_kid; eauto; apply nodes_self|eapply D1; eauto|exact Hm'].
    - apply Lift. apply (C1 m); auto. unfold dom in *. subst st2. cbn [b_ids assoc_nat] in Dm.
      destruct (Nat.eqb_spec a (addr m)); [congruence|exact Dm].
  Qed.
End Cover.

(* serializing a tree right after building it (into a state that knows none of its addresses) does not raise *)
Theorem build_serializes H ct pt s T st0 :
  consistent T -> binv st0 -> b_ids st0 = [] ->
  let stb := build H ct T st0 in
  exists v, ser_node H ct pt current_nv s (b_srcs stb) (b_ids stb) [] T = Some v.
Proof.
  intros Tc B E0 stb.
  assert (C0 : Cov T st0). { intros m _ Dm. unfold dom in Dm. rewrite E0 in Dm. exfalso. apply Dm. reflexivity. }
  destruct (build_cov H ct T Tc T (nodes_self T) st0 (conj B C0)) as [[_ C] [_ D]]. fold stb in C, D.
  apply ser_node_total.
  - intros m Hm. apply (C T (nodes_self T) D m Hm).
  - intros _ m Hm. apply (C T (nodes_self T) D m Hm).
Qed.
