(* C14 (and C10, Proofs/C10Witness.v): non-vacuity witnesses on one reachable state of the registry machine.
   Class table w10_ct: A (a comparable property v, a NON-comparable property note), A2 a SUBCLASS of A, B (a tuple
   child field xs, an optional child field one).  Digest w10_H = the identity (collision-free, so ids are the readable
   preimages; copies get the suffixed ids base_1 as in pyoak).  History w10_ops (four operations from init_st 5):
       v0 = A(1, "n"); v1 = A2(1, "n"); v2 = B(xs=(v0, v1), one=None); v3 = B(xs=(), one=v2)
   w10_s = the state after it: four cells, the tree under v3 is [3; 2; 0; 1] (three levels, a tuple field).
   For every theorem of Props/C14.v with premises all of them are shown at once, with the values the conclusion
   speaks about. *)
From Oak Require Import Model.Registry Proofs.RegistryProofs.
From Oak Require Import Model.Equality Spec.CEq Proofs.EncodeSound Proofs.RegistryReify.
From Coq Require Import List ZArith Lia.
Import ListNotations.

Definition w10_fd (n : string) (r : frole) (cmp : bool) : fdecl :=
  {| fd_name := lit n; fd_role := r; fd_compare := cmp; fd_init := true; fd_kwonly := false |}.
Definition w10_ct : ctable :=
  [{| cd_name := lit "A"; cd_bases := []; cd_own := [w10_fd "v" RProp true; w10_fd "note" RProp false] |};
   {| cd_name := lit "A2"; cd_bases := [lit "A"]; cd_own := [] |};
   {| cd_name := lit "B"; cd_bases := [];
      cd_own := [w10_fd "xs" (RChild KTup) true; w10_fd "one" (RChild (KOpt true)) true] |}].
Definition w10_H (s : pystr) : pystr := s.
Definition w10_leaf (dst : nat) (c : string) (v : Z) (note : string) : op :=
  New dst (lit c) ONo [(lit "v", VInt v); (lit "note", VStr (lit note))] [].
Definition w10_ops : list op :=
  [w10_leaf 0 "A" 1 "n"; w10_leaf 1 "A2" 1 "n";
   New 2 (lit "B") ONo [] [(lit "xs", (ShMany, [(0, 0); (1, 0)])); (lit "one", (ShNone, []))];
   New 3 (lit "B") ONo [] [(lit "xs", (ShMany, [])); (lit "one", (ShOne, [(2, 0)]))]].
Definition w10_s : st := run w10_H w10_ct no_late true (init_st 5) w10_ops.

Lemma w10_rinv : RInv w10_s. Proof. apply run_inv. apply inv_init. Qed.
Lemma w10_inv0 : Inv0 w10_s. Proof. exact (proj1 w10_rinv). Qed.
Lemma w10_coh : coh w10_H w10_ct (heap w10_s).
Proof. exact (run_coh w10_H w10_ct no_late true w10_ops _ (coh_init w10_H w10_ct 5)). Qed.
Lemma w10_shape : length (heap w10_s) = 4 /\ vars w10_s = [Some 0; Some 1; Some 2; Some 3; None]
  /\ tree_of w10_s 3 = [3; 2; 0; 1] /\ map snd (reg w10_s) = [3; 2; 1; 0] /\ length w10_ops = 4
  /\ fields_of w10_ct (lit "A2") = [w10_fd "v" RProp true; w10_fd "note" RProp false].
Proof. vm_compute. repeat split. Qed.

(* ---------- duplicate ---------- *)
Definition w14_s' : st := match dup w10_H w10_ct no_late 4 w10_s 3 with DOk s' _ => s' | _ => w10_s end.
Lemma w14_dup_ok : dup w10_H w10_ct no_late (length (heap w10_s)) w10_s 3 = DOk w14_s' 7.
Proof. vm_compute. reflexivity. Qed.

(* C14_dup_fresh, C14_dup_ids_disjoint, C14_dup_grows, C14_dup_same_tree, C14_dup_eq, C14_dup_keeps_original,
   C14_dup_total: Inv0, a returning duplicate of a three-level tree, a node of the copy with its cell; the original
   is well-formed (premise of the last part of C14_dup_eq) *)
Lemma w14_dup :
  Inv0 w10_s /\ dup w10_H w10_ct no_late (length (heap w10_s)) w10_s 3 = DOk w14_s' 7
  /\ 3 < length (heap w10_s) /\ tree_of w10_s 3 = [3; 2; 0; 1] /\ tree_of w14_s' 7 = [7; 6; 4; 5]
  /\ In 4 (tree_of w14_s' 7)
  /\ (exists c c', cell_at w10_s 0 = Some c /\ cell_at w14_s' 4 = Some c' /\ k_id c' = k_id c ++ lit "_1"
                   /\ get_any w14_s' (k_id c') = Some 4 /\ get_any w10_s (k_id c') = None /\ get_any w14_s' (k_id c) = Some 0)
  /\ wf_node w10_ct (reify_st w10_s 3) = true /\ size (reify_st w10_s 3) = 4
  /\ addr (reify_st w14_s' 7) = 7 /\ length (heap w14_s') = 8.
Proof.
  split; [exact w10_inv0|]. split; [exact w14_dup_ok|]. split; [vm_compute; repeat constructor|].
  split; [vm_compute; reflexivity|]. split; [vm_compute; reflexivity|]. split; [vm_compute; auto|].
  split; [eexists; eexists; split; [vm_compute; reflexivity|split; [vm_compute; reflexivity|vm_compute; repeat split]]|].
  vm_compute. repeat split.
Qed.

(* C14_cid_is_content_id, C14_dup_cid: hwf, coh (the state is reachable: C14_coh_reachable), the cells of the original
   root and of the copy's root *)
Lemma w14_cid :
  Inv0 w10_s /\ hwf (heap w10_s) /\ coh w10_H w10_ct (heap w10_s)
  /\ dup w10_H w10_ct no_late (length (heap w10_s)) w10_s 3 = DOk w14_s' 7
  /\ exists c c', cell_at w10_s 3 = Some c /\ cell_at w14_s' 7 = Some c' /\ c <> c' /\ k_cid c <> []
                  /\ k_cid c = content_id w10_H w10_ct current (reify_st w10_s 3).
Proof.
  split; [exact w10_inv0|]. split; [exact (inv_hwf _ w10_inv0)|]. split; [exact w10_coh|]. split; [exact w14_dup_ok|].
  eexists; eexists. split; [vm_compute; reflexivity|]. split; [vm_compute; reflexivity|].
  split; [discriminate|]. split; [discriminate|vm_compute; reflexivity].
Qed.

(* ---------- replace ---------- *)
Definition w14_og : origin := OGen (SFile (lit "g")).
(* a child field, and the origin, changed on the root B node *)
Definition w14_ch3 : list (pystr * rval) := [(lit "xs", VKids (ShMany, [0; 1])); (lit "origin", VOrigin w14_og)].
(* only the non-comparable property changed on the A node *)
Definition w14_ch0 : list (pystr * rval) := [(lit "note", VProp (VStr (lit "m")))].
(* a comparable property changed too *)
Definition w14_ch0v : list (pystr * rval) := [(lit "note", VProp (VStr (lit "m"))); (lit "v", VProp (VInt 5))].

(* C14_replace_fields: dataclasses.replace with a changed child field and origin; and with changed properties *)
Lemma w14_fields :
  (exists c s' c', cell_at w10_s 3 = Some c /\ dc_replace w10_H w10_ct no_late w10_s 3 w14_ch3 = (s', OkNode 4)
     /\ cell_at s' 4 = Some c' /\ k_org c' = w14_og /\ k_org c = ONo
     /\ assoc (lit "xs") (k_kids c') = Some (ShMany, [0; 1]) /\ assoc (lit "xs") (k_kids c) = Some (ShMany, [])
     /\ assoc (lit "one") (k_kids c') = Some (ShOne, [2]))
  /\ (exists c s' c', cell_at w10_s 0 = Some c /\ dc_replace w10_H w10_ct no_late w10_s 0 w14_ch0v = (s', OkNode 4)
     /\ cell_at s' 4 = Some c' /\ k_props c' = [(lit "v", VInt 5); (lit "note", VStr (lit "m"))]
     /\ k_props c = [(lit "v", VInt 1); (lit "note", VStr (lit "n"))]).
Proof.
  split; eexists; eexists; eexists; (split; [vm_compute; reflexivity|]); (split; [vm_compute; reflexivity|]);
    (split; [vm_compute; reflexivity|]); vm_compute; repeat split.
Qed.

(* C14_replace_id_as_fresh, C14_replace_unregisters: ASTNode.replace with a non-empty change list that names child
   addresses (all below the heap size) *)
Lemma w14_unregisters :
  Inv0 w10_s /\ changes_below (length (heap w10_s)) w14_ch3
  /\ exists c s', cell_at w10_s 3 = Some c /\ replace w10_H w10_ct no_late true w10_s 3 w14_ch3 = (s', OkNode 4)
       /\ get_any w10_s (k_id c) = Some 3 /\ get_any s' (k_id c) = None /\ det s' = [3].
Proof.
  split; [exact w10_inv0|]. split.
  - intros name sh l Hin k Hk. destruct Hin as [E|[E|[]]]; [|discriminate E]. injection E as <- <- <-.
    destruct Hk as [<-|[<-|[]]]; vm_compute; repeat constructor.
  - eexists; eexists. split; [vm_compute; reflexivity|]. split; [vm_compute; reflexivity|]. vm_compute. repeat split.
Qed.

(* C14_replace_keeps_id: the original is registered under its own id and the change list - NOT empty: the
   non-comparable property gets another value - leaves the id preimage what it was; the new node carries the id *)
Lemma w14_keeps_id :
  exists c s' c', cell_at w10_s 0 = Some c /\ get_any w10_s (k_id c) = Some 0
    /\ replace w10_H w10_ct no_late true w10_s 0 w14_ch0 = (s', OkNode 4)
    /\ k_id c = w10_H (id_data_of w10_ct current (k_cls c) (new_origin c w14_ch0) (new_props c w14_ch0)
                                   (kd_of (heap w10_s) (new_kids c w14_ch0)))
    /\ new_props c w14_ch0 <> k_props c
    /\ cell_at s' 4 = Some c' /\ k_id c' = k_id c /\ get_any s' (k_id c) = Some 4.
Proof.
  eexists; eexists; eexists. split; [vm_compute; reflexivity|]. split; [vm_compute; reflexivity|].
  split; [vm_compute; reflexivity|]. split; [vm_compute; reflexivity|]. split; [vm_compute; discriminate|].
  split; [vm_compute; reflexivity|]. split; vm_compute; reflexivity.
Qed.
(* ... while a change of the comparable property does not satisfy that premise (the theorem is not about it) *)
Lemma w14_keeps_id_other :
  exists c, cell_at w10_s 0 = Some c
    /\ k_id c <> w10_H (id_data_of w10_ct current (k_cls c) (new_origin c w14_ch0v) (new_props c w14_ch0v)
                                    (kd_of (heap w10_s) (new_kids c w14_ch0v))).
Proof. eexists. split; [vm_compute; reflexivity|vm_compute; discriminate]. Qed.

(* C14_dc_replace_keeps_orig_registered *)
Lemma w14_dc_keeps :
  exists c s' c', cell_at w10_s 0 = Some c /\ get_any w10_s (k_id c) = Some 0
    /\ dc_replace w10_H w10_ct no_late w10_s 0 w14_ch0 = (s', OkNode 4)
    /\ cell_at s' 4 = Some c' /\ k_id c' = k_id c ++ lit "_1" /\ get_any s' (k_id c) = Some 0.
Proof.
  eexists; eexists; eexists. split; [vm_compute; reflexivity|]. split; [vm_compute; reflexivity|].
  split; [vm_compute; reflexivity|]. split; [vm_compute; reflexivity|]. split; vm_compute; reflexivity.
Qed.
