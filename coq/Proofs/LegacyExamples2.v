(* C19 round 2: the premises of the new frame theorems are inhabited. *)
From Oak Require Import Spec.LegacySpec Spec.LegacySpec2 Proofs.LegacyProofs Proofs.LegacyInv Proofs.LegacyHeap
  Proofs.LegacyFrames2.
From Coq Require Import List String Ascii ZArith Bool Arith Lia.
Import ListNotations.

(* a detached parent 1 over a detached child 0, and an attached twin 2 that holds the child's id:
   p.attach() is rejected at the first child, before anything is attached *)
Definition y_ops := [leaf "a"; inner (Some 0) None []; ODetach 1; leaf "a"]%string.
Definition y_s := Eval vm_compute in
  fold_left (fun s o => fst (step Hid ct0 s o)) y_ops empty_st.
Lemma y_run : run_ok empty_st y_ops = Some y_s. Proof. vm_compute; reflexivity. Qed.

Lemma y_rank : Rank y_s.
Proof.
  apply addr_rank_rank. intros a k Hk. destruct a as [|[|[|a]]]; vm_compute in Hk.
  - destruct Hk.
  - destruct Hk as [<-|[]]. lia.
  - destruct Hk.
  - destruct a; vm_compute in Hk; destruct Hk.
Qed.
Lemma y_first : first_reject y_s 1.
Proof.
  eapply (fr_deep y_s 1 0 (lit "req") None []); try (vm_compute; reflexivity).
  apply fr_reg. vm_compute. discriminate.
Qed.
Lemma y_example_attach_first :
  run_ok empty_st y_ops = Some y_s /\ Rank y_s /\ live y_s 1 /\ detached y_s 1 = true /\ first_reject y_s 1 /\
  step Hid ct0 y_s (OAttach 1) = (y_s, RErr EReg).
Proof.
  split; [exact y_run|]. split; [exact y_rank|]. split; [unfold live; vm_compute; lia|].
  split; [vm_compute; reflexivity|]. split; [exact y_first | vm_compute; reflexivity].
Qed.

(* rejections that happen AFTER partial effects: the witnesses of round 1 (attach: L5, constructor: L2) *)
Lemma y_example_content :
  (exists s s', run_ok empty_st h_L5 = Some s /\ step Hid ct0 s o_L5 = (s', RErr EReg) /\ ~ Frame s s') /\
  (exists s s', run_ok empty_st h_L2 = Some s /\ step Hid ct0 s o_L2 = (s', RErr EPar) /\ ~ Frame s s').
Proof. split; [exact refuted_attach_partial | exact refuted_constructor_parent_collision]. Qed.

Lemma y_example_replace_with_none :
  exists s, run_ok empty_st [leaf "a"; leaf "b"; inner (Some 0) None []]%string = Some s /\
            step Hid ct0 s (OReplaceWith 0 None) = (s, RErr ERw).
Proof. eexists. split; vm_compute; reflexivity. Qed.
Lemma y_example_detach :
  exists s, run_ok empty_st [leaf "a"; inner (Some 0) None []]%string = Some s /\
            snd (step Hid ct0 s (ODetach 1)) = RBool true /\ snd (step Hid ct0 s (ODetachSelf 1)) = RBool true /\
            documented ERep = true.
Proof. eexists. repeat split; vm_compute; reflexivity. Qed.
