(* Proofs for C04, part 4: the tree read back is == the original (ASTNode.__eq__ of Model/Equality.v), is again a
   well-formed tree, and is content-equal. *)
From Oak Require Import Model.SerOpts Model.Serial Spec.SerialSpec Model.Equality Spec.CEq Proofs.EncodeSound Proofs.EqualityProofs
  Proofs.SerialTreeProofs.

Fixpoint ao_list (l : list node) : list origin := match l with [] => [] | x :: l' => all_origins x ++ ao_list l' end.
Definition ao_field (v : kshape * list node) : list origin :=
  match fst v with
  | ShNone => []
  | ShOne => match snd v with x :: _ => all_origins x | [] => [] end
  | ShMany => ao_list (snd v)
  end.
Fixpoint ao_kids (ks : list (pystr * (kshape * list node))) : list origin :=
  match ks with [] => [] | k :: ks' => ao_field (snd k) ++ ao_kids ks' end.
Lemma ao_unfold a c o ps ks : all_origins (Node a c o ps ks) = o :: ao_kids ks.
Proof.
  cbn [all_origins]. f_equal. induction ks as [|[f [sh l]] ks IH]; [reflexivity|].
  cbn [ao_kids]. rewrite <- IH. unfold ao_field. cbn [fst snd]. destruct sh; reflexivity.
Qed.
Definition wf_kids (ct : ctable) (ks : list (pystr * (kshape * list node))) : bool :=
  forallb (fun k => forallb (wf_node ct) (snd (snd k))) ks.
Lemma wf_unfold ct a c o ps ks :
  wf_node ct (Node a c o ps ks) =
  zip_ok (fun f p => pystr_eqb (fd_name f) (fst p)) (prop_fields ct c) ps
  && zip_ok (fun f k => pystr_eqb (fd_name f) (fst k) && shape_ok (child_kind f) (snd k)) (child_fields ct c) ks
  && wf_kids ct ks.
Proof. reflexivity. Qed.
Lemma forallb2_app {A} (p : A -> A -> bool) a a' b b' :
  forallb2 p a a' = true -> forallb2 p b b' = true -> forallb2 p (a ++ b) (a' ++ b') = true.
Proof.
  revert a'. induction a as [|x a IH]; intros [|y a']; simpl; try discriminate; auto.
  intros E1 E2. apply andb_prop in E1 as [E0 E1]. rewrite E0. simpl. auto.
Qed.

Section EqRT.
  Variable H : pystr -> pystr.
  Variable ct : ctable.
  Variable ids : list (nat * pystr).
  Variable reg0 : list (pystr * node).
  Variable next0 : nat.
  Variable regF : list (pystr * node).
  Variable idsF : list (nat * (pystr * pystr)).

  Let oeq (x x' : node) : Prop := forallb2 origin_eqb (all_origins x) (all_origins x') = true.
  Let keq := fun (f : fdecl) (k : pystr * (kshape * list node)) => pystr_eqb (fd_name f) (fst k) && shape_ok (child_kind f) (snd k).

  Lemma shape_ok_len k sh (l l' : list node) : length l = length l' -> shape_ok k (sh, l) = true -> shape_ok k (sh, l') = true.
  Proof.
    intros E. destruct k as [[|]|], sh, l as [|x [|y l]], l' as [|x' [|y' l']]; simpl in *; try discriminate; auto.
  Qed.

  Lemma rt_wf_ceq_origins :
    (forall n n', rt_ok H ct ids reg0 next0 regF idsF n n' -> wf_node ct n = true ->
       wf_node ct n' = true /\ ceq ct n n' /\ oeq n n') /\
    (forall ks ks', rt_kids H ct ids reg0 next0 regF idsF ks ks' -> wf_kids ct ks = true ->
       wf_kids ct ks' = true /\ kids_rel (ceq ct) ks ks' /\ forallb2 origin_eqb (ao_kids ks) (ao_kids ks') = true /\
       (forall fs, zip_ok keq fs ks = true -> zip_ok keq fs ks' = true)) /\
    (forall l l', rt_list H ct ids reg0 next0 regF idsF l l' -> forallb (wf_node ct) l = true ->
       forallb (wf_node ct) l' = true /\ Forall2 (ceq ct) l l' /\ Forall2 oeq l l').
  Proof.
    apply rt_mutind.
    - intros n i _ _ W. split; [exact W|]. split; [apply ceq_refl|]. unfold oeq. apply forallb2_refl.
    - intros a c o ps ks a' o' ks' i _ _ _ _ _ _ Eo _ IHk W.
      rewrite wf_unfold in W. apply andb_prop in W as [W Wk]. apply andb_prop in W as [Zp Zk].
      destruct (IHk Wk) as [Wk' [Ck [Ok Z]]].
      split; [|split].
      + pose proof (Z _ Zk) as Zk'. unfold keq in Zk'. rewrite wf_unfold, Zp, Zk', Wk'. reflexivity.
      + apply ceq_unfold. cbn [cls nprops nkids]. split; [reflexivity|]. split; [|exact Ck].
        intros f _. destruct (assoc (fd_name f) ps); auto using veq_refl.
      + unfold oeq. rewrite !ao_unfold. cbn [forallb2]. rewrite origin_eqb_sym, Eo. exact Ok.
    - intros _. split; [reflexivity|]. split; [constructor|]. split; [reflexivity|]. intros fs Z. exact Z.
    - intros f sh l l' r r' _ IHl _ IHr W. cbn [wf_kids forallb fst snd] in W. apply andb_prop in W as [Wl Wr].
      destruct (IHl Wl) as [Wl' [Cl Ol]]. destruct (IHr Wr) as [Wr' [Cr [Or Zr]]].
      assert (Elen : length l = length l') by (clear - Cl; induction Cl; simpl; auto).
      split; [|split; [|split]].
      + cbn [wf_kids forallb fst snd]. rewrite Wl'. exact Wr'.
      + constructor; [|exact Cr]. cbn [fst snd]. auto.
      + cbn [ao_kids snd]. apply forallb2_app; [|exact Or]. unfold ao_field. cbn [fst snd]. destruct sh.
        * reflexivity.
        * destruct Ol as [|x x' t t' Ox _]; [reflexivity|exact Ox].
        * clear - Ol. induction Ol as [|x x' t t' Ox _ IH]; [reflexivity|]. cbn [ao_list]. apply forallb2_app; assumption.
      + intros [|f0 fs]; cbn [zip_ok]; [discriminate|]. intros Z. apply andb_prop in Z as [Z0 Z]. apply andb_prop in Z0 as [Zn Zs].
        unfold keq at 1. cbn [fst snd] in *. rewrite Zn, (shape_ok_len _ _ _ _ Elen Zs). cbn [andb]. apply Zr. exact Z.
    - intros _. split; [reflexivity|]. split; constructor.
    - intros x x' l l' _ IHx _ IHl W. cbn [forallb] in W. apply andb_prop in W as [Wx Wl].
      destruct (IHx Wx) as [Wx' [Cx Ox]]. destruct (IHl Wl) as [Wl' [Cl Ol]].
      split; [cbn [forallb]; rewrite Wx'; exact Wl'|]. split; constructor; auto.
  Qed.

  (* the result is == the original: ASTNode.__eq__ answers True *)
  Theorem rt_eq n n' : rt_ok H ct ids reg0 next0 regF idsF n n' -> wf_node ct n = true ->
    eqn H ct current n n' = EqTrue /\ wf_node ct n' = true /\ ceq ct n n'.
  Proof.
    intros R W. destruct (proj1 rt_wf_ceq_origins n n' R W) as [W' [C O]].
    split; [|split; assumption].
    rewrite (eq_of_ceq H ct current eq_refl n n' W W' C). unfold origins_eq. unfold oeq in O. rewrite O. reflexivity.
  Qed.
End EqRT.
