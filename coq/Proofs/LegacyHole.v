(* C18 round 3: the invariant with a HOLE.  replace() / replace_with(node) of a receiver that has a parent p pass
   through states in which p still stores the receiver a in its field although a has already left the registry
   (a.detach precedes p._replace_child).  In those states every clause of Inv2 holds except the children clause of p
   at the edge (a, field, index).  SInvX X is SInv with the children clause restricted to the edges outside X
   (X = the excepted (parent, edge) pairs); the lemmas below are the round-2 lemmas about detach, _attach_inner,
   push, the content-id frame, the constructor, attach and the id flip, re-proved for SInvX with X arbitrary
   (same proofs: the excepted edges are never needed; detach only needs that no popped node has an excepted edge).
   The content_id clause is NOT weakened: the child fields are intact in a hole state, so every digest is right. *)
From Oak Require Import Spec.LegacySpec Spec.LegacySpec2 Proofs.LegacyProofs Proofs.LegacyInv Proofs.LegacyHeap
  Proofs.LegacyDetach Proofs.LegacyAttach Proofs.LegacyAttach2 Proofs.LegacyAttach3 Proofs.LegacyConstruct
  Proofs.LegacyConstruct2.
From Coq Require Import List String Ascii ZArith Bool Arith Lia.
Import ListNotations.

Definition xset := nat -> edge -> Prop.
Definition xnone : xset := fun _ _ => False.
(* the hole of replace / replace_with: parent p, edge (a, f, i) *)
Definition hole (p a : nat) (f : pystr) (i : option nat) : xset := fun x e => x = p /\ e = (a, f, i).

Definition node_linksX (X : xset) (s : st) (a : nat) : Prop :=
  (forall k f i, In (k, f, i) (skids_wf s a) -> ~ X a (k, f, i) ->
     attached s k /\ parent s k = Some a /\ c_pf (cellD s k) = Some f /\ c_pi (cellD s k) = i) /\
  (forall p, parent s a = Some p ->
     exists f, c_pf (cellD s a) = Some f /\ In (a, f, c_pi (cellD s a)) (skids_wf s p)) /\
  reg_get s (id_of s a) = Some a.
Definition SInvX (X : xset) (s : st) : Prop :=
  RegOk s /\ Rank s /\ PidOk s /\ forall a, live s a -> attached s a -> node_linksX X s a.

Lemma sinvx_none s : SInv s <-> SInvX xnone s.
Proof.
  split; intros [HR [HK [HP HL]]]; (split; [exact HR | split; [exact HK | split; [exact HP|]]]);
    intros a Hl Ha; destruct (HL a Hl Ha) as [A [B C]]; (split; [|split; [exact B | exact C]]).
  - intros k f i Hin _. apply A; exact Hin.
  - intros k f i Hin. apply A; [exact Hin | intros []].
Qed.
Lemma sinvx_weaken (X Y : xset) s : (forall a e, X a e -> Y a e) -> SInvX X s -> SInvX Y s.
Proof.
  intros Hxy [HR [HK [HP HL]]]. split; [exact HR | split; [exact HK | split; [exact HP|]]].
  intros a Hl Ha. destruct (HL a Hl Ha) as [A [B C]]. split; [|split; [exact B | exact C]].
  intros k f i Hin Hn. apply A; [exact Hin|]. intros Hx. apply Hn. apply Hxy. exact Hx.
Qed.
Lemma sinvx_rank X s : SInvX X s -> Rank s. Proof. intros [_ [A _]]; exact A. Qed.
Lemma sinvx_regok X s : SInvX X s -> RegOk s. Proof. intros [A _]; exact A. Qed.

(* ---------- detach: SInvX survives every change described by det_rel, if no popped node has an excepted edge ---------- *)
Theorem sinvx_det (X : xset) s s1 a D C :
  SInvX X s -> det_rel s s1 D C -> dlink s [a] [] D C -> (D = [] \/ parent s a = None) ->
  (forall d e, In d D -> ~ X d e) -> SInvX X s1.
Proof.
  intros [HR [HK [HP HL]]] R [LA [LB LC]] Hroot HXD.
  assert (PF := dr_pf _ _ _ _ R).
  assert (Hpopid : forall x d, attached s x -> In d D -> id_of s d = id_of s x -> x = d).
  { intros x d Hx Hd Ei. apply attached_reg in Hx. assert (Hd' := dr_att _ _ _ _ R d Hd).
    apply attached_reg in Hd'. rewrite Ei in Hd'. congruence. }
  assert (Hatt1 : forall x, attached s1 x -> attached s x /\ ~ In x D).
  { intros x Hx. apply attached_reg in Hx. rewrite (pf_id _ _ PF) in Hx. split.
    - apply attached_reg. eapply dr_sub; eassumption.
    - intros Hd. rewrite (dr_pop _ _ _ _ R x Hd) in Hx. discriminate. }
  assert (Hatt1' : forall x, attached s x -> ~ In x D -> attached s1 x).
  { intros x Hx Hn. apply attached_reg. rewrite (pf_id _ _ PF), (dr_reg _ _ _ _ R).
    - apply attached_reg; exact Hx.
    - intros d Hd Ei. apply Hn. rewrite (Hpopid x d Hx Hd Ei). exact Hd. }
  assert (HCk : forall x, In x C -> kid_of s D x).
  { intros x Hx. destruct (LC x Hx) as [[]|Hk]. exact Hk. }
  assert (HDk : forall d, In d D -> parent s d = None \/ kid_of s D d).
  { intros d Hd. destruct (LA d Hd) as [[<-|[]]|Hk]; [|right; exact Hk].
    left. destruct Hroot as [->|Hr]; [destruct Hd | exact Hr]. }
  (* the child at a non-excepted edge of an attached node that stays is untouched and stays *)
  assert (Hkid : forall x k f i, attached s x -> ~ In x D -> In (k, f, i) (skids_wf s x) -> ~ X x (k, f, i) ->
                   ~ In k C /\ ~ In k D).
  { intros x k f i Hx Hn Hk HnX.
    assert (Hlx : live s x) by (apply attached_reg in Hx; apply HR in Hx; tauto).
    destruct (HL x Hlx Hx) as [Hc _]. destruct (Hc k f i Hk HnX) as [_ [Hpk _]].
    assert (Hnk : ~ kid_of s D k).
    { intros [d [Hd Hkd]]. apply in_skids in Hkd. destruct Hkd as [f' [i' Hkd]].
      assert (Hdat := dr_att _ _ _ _ R d Hd).
      assert (Hld : live s d) by (apply attached_reg in Hdat; apply HR in Hdat; tauto).
      destruct (HL d Hld Hdat) as [Hcd _]. destruct (Hcd k f' i' Hkd (HXD d _ Hd)) as [_ [Hpk' _]].
      rewrite Hpk in Hpk'. inversion Hpk'; subst. contradiction. }
    split; [intros Hc'; apply Hnk; apply HCk; exact Hc'|].
    intros Hd. destruct (HDk k Hd) as [Hn'|Hk']; [congruence | contradiction]. }
  assert (Hpar_same : forall x p, cellD s1 x = cellD s x -> parent s x = Some p -> ~ In p D -> parent s1 x = Some p).
  { intros x p Ec Hp Hn. destruct (parent_attached _ _ _ HR Hp) as [Hpa Hpid].
    unfold parent in *. rewrite Ec, Hpid in *. rewrite (dr_reg _ _ _ _ R); [exact Hp|].
    intros d Hd Ei. apply Hn. rewrite (Hpopid p d Hpa Hd Ei). exact Hd. }
  assert (Hpar1 : forall x p, parent s1 x = Some p -> cellD s1 x = cellD s x /\ parent s x = Some p).
  { intros x p Hp. unfold parent in Hp.
    destruct (dr_either _ _ _ _ R x) as [E|E]; rewrite E in Hp; [|simpl in Hp; discriminate].
    split; [exact E|]. unfold parent. destruct (c_pid (cellD s x)); [|discriminate].
    eapply dr_sub; eassumption. }
  split; [|split; [|split]].
  - intros i x Hx. apply (dr_sub _ _ _ _ R) in Hx. destruct (HR _ _ Hx) as [Hl Hi].
    split; [apply (pf_live _ _ PF); exact Hl | rewrite (pf_id _ _ PF); exact Hi].
  - eapply Rank_pf; eassumption.
  - intros x Hx.
    destruct (dr_either _ _ _ _ R x) as [E|E]; rewrite E in Hx; [|simpl in Hx; congruence].
    destruct (HP x Hx) as [Hxa Hxp]. destruct (parent s x) as [p|] eqn:Hp; [|congruence].
    destruct (parent_attached _ _ _ HR Hp) as [Hpa Hpid].
    assert (Hlx : live s x) by (apply attached_reg in Hxa; apply HR in Hxa; tauto).
    destruct (HL x Hlx Hxa) as [_ [Hs _]]. destruct (Hs p Hp) as [f [_ Hin]].
    assert (Hxk : In x (skids s p)) by (apply in_skids; eauto).
    assert (HnC : ~ In x C).
    { intros Hc. rewrite (dr_clr _ _ _ _ R x Hc) in E.
      rewrite <- E in Hx. simpl in Hx. congruence. }
    assert (HpD : ~ In p D) by (intros Hd; apply HnC; eapply LB; eassumption).
    assert (HxD : ~ In x D).
    { intros Hd. destruct (HDk x Hd) as [Hn|[d [Hd' Hk]]]; [congruence|].
      apply HnC. eapply LB; eassumption. }
    split; [apply Hatt1'; assumption|]. rewrite (Hpar_same x p E Hp HpD). discriminate.
  - intros x Hlx Hax. destruct (Hatt1 x Hax) as [Hax0 HxD].
    assert (Hlx0 : live s x) by (apply (pf_live _ _ PF); exact Hlx).
    destruct (HL x Hlx0 Hax0) as [Hc [Hs Hl]]. split; [|split].
    + intros k f i Hin HnX. rewrite (pf_skids_wf _ _ PF) in Hin.
      destruct (Hc k f i Hin HnX) as [Hk1 [Hk2 [Hk3 Hk4]]].
      destruct (Hkid x k f i Hax0 HxD Hin HnX) as [HkC HkD].
      assert (Ek := dr_same _ _ _ _ R k HkC).
      split; [apply Hatt1'; assumption|]. split; [apply Hpar_same; assumption|].
      rewrite Ek. split; assumption.
    + intros p Hp. destruct (Hpar1 x p Hp) as [Ex Hp0]. destruct (Hs p Hp0) as [f [Hf Hin]].
      exists f. rewrite Ex, (pf_skids_wf _ _ PF). split; assumption.
    + apply attached_reg. exact Hax.
Qed.

(* ---------- _attach_inner: SInvX survives every change described by att_rel (no condition on X) ---------- *)
Theorem sinvx_att (X : xset) s s1 D E :
  SInvX X s -> att_rel s s1 D E ->
  (forall d, In d D -> live s d) ->
  (forall d k f i, In (d, (k, f, i)) E ->
      In d D /\ In (k, f, i) (skids_wf s d) /\ (In k D \/ is_attached_root s k = true)) ->
  (forall d e, In d D -> In e (skids_wf s d) -> In (d, e) E) ->
  SInvX X s1.
Proof.
  intros [HR [HK [HP HL]]] R HDl K2 K3.
  assert (PF := ar_pf _ _ _ _ R).
  assert (Hroot : forall x, is_attached_root s x = true -> attached s x /\ parent s x = None).
  { intros x Hx. unfold is_attached_root in Hx. destruct (parent s x); [discriminate|].
    apply negb_true_iff in Hx. split; [exact Hx | reflexivity]. }
  assert (Had : forall d x f i, In (d, (x, f, i)) E ->
            attached s1 x /\ parent s1 x = Some d /\ c_pf (cellD s1 x) = Some f /\ c_pi (cellD s1 x) = i /\
            In d D /\ In (x, f, i) (skids_wf s1 d)).
  { intros d x f i Hin. destruct (K2 _ _ _ _ Hin) as [Hd [Hk Ho]].
    assert (Ec := ar_adopt _ _ _ _ R _ _ _ _ Hin). split; [|split; [|split; [|split; [|split]]]].
    - destruct Ho as [Ho|Ho]; [eapply att_attached_new; eassumption|].
      eapply att_attached_fwd; [eassumption | apply Hroot; exact Ho].
    - unfold parent. rewrite Ec. simpl. exact (ar_new _ _ _ _ R d Hd).
    - rewrite Ec. reflexivity.
    - rewrite Ec. reflexivity.
    - exact Hd.
    - rewrite (pf_skids_wf _ _ PF). exact Hk. }
  assert (Hnad : forall x, c_pid (cellD s x) <> None -> ~ In x (adopted E)).
  { intros x Hx Ha. destruct (HP x Hx) as [Hxa Hxp]. apply in_adopted in Ha. destruct Ha as [d [f [i Hin]]].
    destruct (K2 _ _ _ _ Hin) as [_ [_ [Ho|Ho]]].
    - assert (Hdx := att_detached_D _ _ _ _ _ R Ho). unfold attached in Hxa. congruence.
    - apply Hroot in Ho. destruct Ho as [_ Ho]. contradiction. }
  assert (Hpar_same : forall x p, ~ In x (adopted E) -> parent s x = Some p -> parent s1 x = Some p).
  { intros x p Hn Hp. unfold parent in *. rewrite (ar_same _ _ _ _ R x Hn).
    destruct (c_pid (cellD s x)); [|discriminate]. apply (ar_mono _ _ _ _ R). exact Hp. }
  split; [|split; [|split]].
  - intros i x Hx. destruct (id_in_dec s D i) as [[d [Hd Ei]]|Hn].
    + rewrite <- Ei, (ar_new _ _ _ _ R d Hd) in Hx. inversion Hx; subst x.
      split; [apply (pf_live _ _ PF); apply HDl; exact Hd | rewrite (pf_id _ _ PF); exact Ei].
    + rewrite (ar_reg _ _ _ _ R _ Hn) in Hx. destruct (HR _ _ Hx) as [Hl Hi].
      split; [apply (pf_live _ _ PF); exact Hl | rewrite (pf_id _ _ PF); exact Hi].
  - eapply Rank_pf; eassumption.
  - intros x Hx. destruct (in_dec Nat.eq_dec x (adopted E)) as [Ha|Ha].
    + apply in_adopted in Ha. destruct Ha as [d [f [i Hin]]].
      destruct (Had _ _ _ _ Hin) as [A [B _]]. split; [exact A | rewrite B; discriminate].
    + rewrite (ar_same _ _ _ _ R x Ha) in Hx. destruct (HP x Hx) as [Hxa Hxp].
      split; [eapply att_attached_fwd; eassumption|].
      destruct (parent s x) as [p|] eqn:Hp; [|congruence]. rewrite (Hpar_same x p Ha Hp). discriminate.
  - intros x Hlx Hax. apply (pf_live _ _ PF) in Hlx.
    assert (Hslot : forall p, parent s1 x = Some p ->
                      (c_pid (cellD s x) = None -> ~ In x (adopted E) -> False) ->
                      exists f, c_pf (cellD s1 x) = Some f /\ In (x, f, c_pi (cellD s1 x)) (skids_wf s1 p)).
    { intros p Hp Hnone. destruct (in_dec Nat.eq_dec x (adopted E)) as [Ha|Ha].
      - apply in_adopted in Ha. destruct Ha as [d [f [i Hin]]].
        destruct (Had _ _ _ _ Hin) as [_ [B [C [Dd [_ F]]]]]. rewrite B in Hp. inversion Hp; subst p.
        exists f. rewrite Dd. split; assumption.
      - destruct (c_pid (cellD s x)) as [pid|] eqn:Epid; [|exfalso; apply Hnone; [reflexivity | exact Ha]].
        assert (Hx : c_pid (cellD s x) <> None) by congruence.
        destruct (HP x Hx) as [Hxa Hxp]. destruct (parent s x) as [p0|] eqn:Hp0; [|congruence].
        rewrite (Hpar_same x p0 Ha Hp0) in Hp. inversion Hp; subst p0.
        destruct (HL x Hlx Hxa) as [_ [Hs _]]. destruct (Hs p Hp0) as [f [Hf Hin]].
        exists f. rewrite (ar_same _ _ _ _ R x Ha), (pf_skids_wf _ _ PF). split; assumption. }
    destruct (in_dec Nat.eq_dec x D) as [HxD|HxD].
    + split; [|split].
      * intros k f i Hin _. rewrite (pf_skids_wf _ _ PF) in Hin.
        destruct (Had _ _ _ _ (K3 x _ HxD Hin)) as [A [B [C [Dd _]]]]. auto.
      * intros p Hp. apply (Hslot p Hp). intros Hn Ha. unfold parent in Hp.
        rewrite (ar_same _ _ _ _ R x Ha), Hn in Hp. discriminate.
      * apply attached_reg. exact Hax.
    + assert (Hxa : attached s x).
      { destruct (att_attached_back _ _ _ _ _ R Hax); [assumption | contradiction]. }
      destruct (HL x Hlx Hxa) as [Hc [Hs Hlk]]. split; [|split].
      * intros k f i Hin HnX. rewrite (pf_skids_wf _ _ PF) in Hin.
        destruct (Hc k f i Hin HnX) as [Hk1 [Hk2 [Hk3 Hk4]]].
        assert (Hkn : ~ In k (adopted E)).
        { apply Hnad. unfold parent in Hk2. destruct (c_pid (cellD s k)); [discriminate | discriminate]. }
        split; [eapply att_attached_fwd; eassumption|]. split; [apply Hpar_same; assumption|].
        rewrite (ar_same _ _ _ _ R k Hkn). split; assumption.
      * intros p Hp. apply (Hslot p Hp). intros Hn Ha. unfold parent in Hp.
        rewrite (ar_same _ _ _ _ R x Ha), Hn in Hp. discriminate.
      * apply attached_reg. exact Hax.
Qed.

Theorem sinvx_attach_inner (X : xset) fuel s a s1 :
  SInvX X s -> live s a -> tree_shaped s a -> ids_apart (fun x => detached s x = true) s a ->
  attach_inner fuel s a = Ok s1 None ->
  SInvX X s1 /\ pframe s s1 /\ attached s1 a /\
  (forall x, attached s1 x -> attached s x \/ (reach s a x /\ detached s x = true)) /\
  (forall x, attached s x -> attached s1 x).
Proof.
  intros HS Hl HT HI Eq. assert (HK : Rank s) by (destruct HS as [_ [HK _]]; exact HK).
  destruct (attach_inner_spec (fun x => detached s x = true) fuel s a s1 HK HT HI (fun x Hx => Hx) Eq)
    as [D [E [R [K1 [K2 [K3 K4]]]]]].
  split; [|split; [|split; [|split]]].
  - eapply sinvx_att; try eassumption. intros d Hd. apply K1 in Hd. eapply reach_live; eassumption.
  - exact (ar_pf _ _ _ _ R).
  - eapply att_attached_new; eassumption.
  - intros x Hx. destruct (att_attached_back _ _ _ _ _ R Hx) as [Hx'|Hx']; [left; exact Hx'|].
    right. split; [apply K1; exact Hx' | eapply att_detached_D; eassumption].
  - intros x Hx. eapply att_attached_fwd; eassumption.
Qed.

(* ---------- push, the content-id frame ---------- *)
Lemma sinvx_push (X : xset) s c :
  SInvX X s -> c_pid c = None -> (forall k, In k (kids c) -> k < List.length (heap s)) -> SInvX X (push s c).
Proof.
  intros [HR [HK [HP HL]]] Hpid Hkids.
  set (n := List.length (heap s)). set (s' := push s c).
  assert (Hne : forall b, b <> n -> cellD s' b = cellD s b) by (intros; apply cellD_push_ne; assumption).
  assert (Heq : cellD s' n = c) by apply cellD_push_eq.
  assert (Hreg : forall i, reg_get s' i = reg_get s i) by reflexivity.
  assert (Hregn : forall i x, reg_get s i = Some x -> x <> n).
  { intros i x Hx. apply HR in Hx. destruct Hx as [Hl _]. unfold live in Hl. unfold n. lia. }
  assert (Hdet : forall b, b <> n -> detached s' b = detached s b).
  { intros b Hb. unfold detached, id_of. rewrite Hreg, (Hne b Hb). reflexivity. }
  assert (Hdetn : detached s' n = true).
  { unfold detached. rewrite Hreg. destruct (reg_get s (id_of s' n)) as [x|] eqn:E; [|reflexivity].
    apply Hregn in E. apply negb_true_iff. apply Nat.eqb_neq. exact E. }
  assert (Hpar : forall b, b <> n -> parent s' b = parent s b).
  { intros b Hb. unfold parent. rewrite (Hne b Hb). destruct (c_pid (cellD s b)); [apply Hreg | reflexivity]. }
  assert (Hskw : forall b, b <> n -> skids_wf s' b = skids_wf s b).
  { intros b Hb. unfold skids_wf. rewrite (Hne b Hb). reflexivity. }
  split; [|split; [|split]].
  - intros i x Hx. rewrite Hreg in Hx. assert (Hxn := Hregn _ _ Hx). destruct (HR _ _ Hx) as [Hl Hi].
    split; [unfold live in *; unfold s'; rewrite heap_len_push; lia|].
    unfold id_of. rewrite (Hne x Hxn). exact Hi.
  - apply rank_push; assumption.
  - intros b Hb. destruct (Nat.eq_dec b n) as [->|Hbn]; [rewrite Heq in Hb; congruence|].
    rewrite (Hne b Hbn) in Hb. destruct (HP b Hb) as [A B].
    unfold attached. rewrite (Hdet b Hbn), (Hpar b Hbn). split; assumption.
  - intros b Hlb Hab. destruct (Nat.eq_dec b n) as [->|Hbn]; [unfold attached in Hab; congruence|].
    assert (Hlb0 : live s b).
    { unfold live in *. unfold s' in Hlb. rewrite heap_len_push in Hlb. fold n in Hlb |- *. lia. }
    assert (Hab0 : attached s b) by (unfold attached in *; rewrite <- (Hdet b Hbn); exact Hab).
    destruct (HL b Hlb0 Hab0) as [Hc [Hs Hl]]. split; [|split].
    + intros k f i Hin HnX. rewrite (Hskw b Hbn) in Hin. destruct (Hc k f i Hin HnX) as [A [B [C Dd]]].
      assert (Hkn : k <> n).
      { assert (Hk : In k (skids s b)) by (apply in_skids; eauto). apply (rank_kid_live _ _ _ HK) in Hk.
        unfold live in Hk. fold n in Hk. lia. }
      unfold attached. rewrite (Hdet k Hkn), (Hpar k Hkn), (Hne k Hkn). auto.
    + intros p Hp. rewrite (Hpar b Hbn) in Hp. destruct (Hs p Hp) as [f [Hf Hin]].
      assert (Hpn : p <> n).
      { unfold parent in Hp. destruct (c_pid (cellD s b)); [|discriminate]. eapply Hregn; eassumption. }
      exists f. rewrite (Hne b Hbn), (Hskw p Hpn). split; assumption.
    + unfold id_of. rewrite (Hne b Hbn), Hreg. exact Hl.
Qed.

Lemma sinvx_cframe (X : xset) s s' : cframe s s' -> SInvX X s -> SInvX X s'.
Proof.
  intros CF [HR [HK [HP HL]]]. split; [|split; [|split]].
  - intros i x Hx. rewrite (cf_reg _ _ CF) in Hx. destruct (HR _ _ Hx) as [A B].
    split; [apply (cf_live _ _ CF); exact A | rewrite (cf_id _ _ CF); exact B].
  - eapply rank_same_kids; [exact (proj1 (proj2 CF)) | exact (cf_skids _ _ CF) | exact HK].
  - intros b Hb. rewrite (cf_pid _ _ CF) in Hb. destruct (HP b Hb) as [A B].
    unfold attached. rewrite (cf_detached _ _ CF), (cf_parent _ _ CF). split; assumption.
  - intros b Hl Ha. apply (cf_live _ _ CF) in Hl. unfold attached in Ha. rewrite (cf_detached _ _ CF) in Ha.
    destruct (HL b Hl Ha) as [A [B C]]. split; [|split].
    + intros k f i Hin HnX. rewrite (cf_skids_wf _ _ CF) in Hin. destruct (A k f i Hin HnX) as [A1 [A2 [A3 A4]]].
      unfold attached. rewrite (cf_detached _ _ CF), (cf_parent _ _ CF), (cf_pf _ _ CF), (cf_pi _ _ CF). auto.
    + intros p Hp. rewrite (cf_parent _ _ CF) in Hp. destruct (B p Hp) as [f [Hf Hin]].
      exists f. rewrite (cf_pf _ _ CF), (cf_pi _ _ CF), (cf_skids_wf _ _ CF). split; assumption.
    + rewrite (cf_reg _ _ CF), (cf_id _ _ CF). exact C.
Qed.

Section HoleInv.
  Variable H : pystr -> pystr.
  Variable ct : ctable.

  (* the hole invariant: links outside X, every digest *)
  Definition HInvX (X : xset) (s : st) : Prop :=
    SInvX X s /\ forall x, live s x -> attached s x -> cid_ok H ct s x.
  Lemma hinvx_none s : Inv2 H ct s <-> HInvX xnone s.
  Proof.
    rewrite Inv2_split. split; intros [A B]; (split; [|exact B]); apply sinvx_none; exact A.
  Qed.

  (* a digest that is right stays right when the state changes away from what the node reaches *)
  Lemma cid_ok_local s s' x :
    Rank s -> List.length (heap s) <= List.length (heap s') ->
    (forall y, reach s x y -> c_cls (cellD s' y) = c_cls (cellD s y) /\ c_fs (cellD s' y) = c_fs (cellD s y)) ->
    c_cid (cellD s' x) = c_cid (cellD s x) -> cid_ok H ct s x -> cid_ok H ct s' x.
  Proof.
    intros HK Hlen Hsame Ec E. unfold cid_ok in *. rewrite Ec, E. symmetry.
    apply tree_cid_reach_local; [exact HK | exact Hsame | unfold fuel_of; lia | unfold fuel_of; lia].
  Qed.

  (* ---------- the constructor on a hole state ---------- *)
  Theorem construct_fullX (X : xset) s cls org fs idarg eu ad cd s' r :
    HInvX X s -> kids_live s fs ->
    construct H ct s cls org fs idarg eu ad cd = Ok s' r ->
    (cd = false -> new_guard H ct s s' r) ->
    HInvX X s' /\ r = List.length (heap s) /\
    List.length (heap s') = S (List.length (heap s)) /\
    (forall b, live s b -> c_fs (cellD s' b) = c_fs (cellD s b) /\ c_cls (cellD s' b) = c_cls (cellD s b) /\
                           c_cid (cellD s' b) = c_cid (cellD s b) /\ id_of s' b = id_of s b) /\
    c_fs (cellD s' r) = fs /\
    (forall b, live s b -> attached s b -> attached s' b) /\
    (cd = false -> attached s' r) /\
    (forall x, attached s' x -> x = r \/ attached s x \/ (reach s' r x /\ detached s x = true)) /\
    (forall x, live s x -> cid_ok H ct s x -> cid_ok H ct s' x) /\
    c_pid (cellD s' r) = None.
  Proof.
    intros [HS HC] Hkl E HG.
    destruct (construct_ok _ _ _ _ _ _ _ _ _ _ _ _ E) as [-> [new_id [oid [coll Hcase]]]].
    set (n := List.length (heap s)) in *.
    set (c1 := fresh_cell cls org fs idarg new_id oid coll) in *.
    set (s1 := push s c1) in *. cbv zeta in Hcase.
    assert (HS1 : SInvX X s1).
    { apply sinvx_push; [exact HS | reflexivity | intros k Hk; apply Hkl; exact Hk]. }
    assert (HR0 : RegOk s) by (destruct HS as [A _]; exact A).
    assert (HK0 : Rank s) by (destruct HS as [_ [A _]]; exact A).
    assert (HK1 : Rank s1) by (destruct HS1 as [_ [A _]]; exact A).
    assert (Hdn : detached s1 n = true) by (apply push_detached_new; exact HR0).
    assert (Hln : live s1 n) by (unfold live, s1; rewrite heap_len_push; unfold n; lia).
    assert (Hatt1 : forall b, live s b -> attached s b -> attached s1 b).
    { intros b Hl Ha. unfold attached, s1. rewrite push_detached_old; [exact Ha | unfold live in Hl; lia]. }
    assert (HC1 : forall x, live s1 x -> attached s1 x -> cid_ok H ct s1 x).
    { intros x Hl Ha. destruct (Nat.eq_dec x n) as [->|Hne]; [unfold attached in Ha; congruence|].
      assert (Hl0 : live s x) by (unfold live, s1 in *; rewrite heap_len_push in Hl; fold n in Hl |- *; lia).
      apply cid_ok_push; [exact HK0 | exact Hl0|]. apply HC; [exact Hl0|].
      unfold attached in *. rewrite <- (push_detached_old s c1 x Hne). exact Ha. }
    assert (Hcell1 : forall b, live s b -> cellD s1 b = cellD s b).
    { intros b Hl. apply cellD_push_ne. unfold live in Hl. fold n in Hl. lia. }
    destruct Hcase as [[-> ->]|[-> [s2 [u [Ea ->]]]]].
    - (* create_detached *)
      assert (CF : cframe s1 (set_cid H ct s1 n)) by apply cframe_upd.
      destruct (push_then_frames s c1 s1 _ (pframe_refl _) CF) as [F1 [F2 F3]].
      assert (Hold : forall b, live s b -> cellD (set_cid H ct s1 n) b = cellD s b).
      { intros b Hl. rewrite cellD_set_cid_ne by (unfold live in Hl; fold n in Hl; lia). apply Hcell1; exact Hl. }
      assert (Hcids : forall x, live s x -> cid_ok H ct s x -> cid_ok H ct (set_cid H ct s1 n) x).
      { intros x Hl Hx. apply cid_ok_set_cid_ne; [unfold live in Hl; fold n in Hl; lia|].
        apply cid_ok_push; assumption. }
      split; [split|split; [reflexivity | split; [exact F1 | split; [|split; [exact F3 | split; [|split; [|split; [|split]]]]]]]].
      + apply (sinvx_cframe X _ _ CF); exact HS1.
      + intros x Hl Ha. apply (cf_live _ _ CF) in Hl. unfold attached in Ha. rewrite (cf_detached _ _ CF) in Ha.
        apply cid_ok_set_cid_ne; [intros ->; congruence | apply HC1; assumption].
      + intros b Hl. unfold id_of. rewrite (Hold b Hl). repeat split; reflexivity.
      + intros b Hl Ha. unfold attached. rewrite (cf_detached _ _ CF). apply Hatt1; assumption.
      + discriminate.
      + intros x Hx. unfold attached in Hx. rewrite (cf_detached _ _ CF) in Hx.
        destruct (Nat.eq_dec x n) as [->|Hne]; [left; reflexivity|]. right. left.
        unfold attached. rewrite <- (push_detached_old s c1 x Hne). exact Hx.
      + exact Hcids.
      + rewrite (cf_pid _ _ CF). unfold s1. rewrite cellD_push_eq. reflexivity.
    - (* attached *)
      destruct (HG eq_refl) as [GT [GI GC]].
      assert (PF := attach_pframe s1 n). rewrite Ea in PF. simpl in PF.
      assert (CF : cframe s2 (set_cid H ct s2 n)) by apply cframe_upd.
      destruct (push_then_frames s c1 s2 _ PF CF) as [F1 [F2 F3]].
      assert (SK : skel_eq (set_cid H ct s2 n) s1).
      { apply skel_sym. eapply skel_trans; [apply skel_pframe; exact PF | apply skel_cframe; exact CF]. }
      assert (GT1 : tree_shaped s1 n) by (eapply tree_shaped_skel; eassumption).
      assert (GI1 : ids_apart (fun x => detached s1 x = true) s1 n).
      { intros d d' R1 R2 Hne Hd'.
        assert (Hlt : d' < n).
        { assert (A := reach_live _ _ _ HK1 Hln (reach_trans _ _ _ _ R1 R2)). unfold live, s1 in A.
          rewrite heap_len_push in A. fold n in A.
          assert (d' <> n); [|lia]. intros ->. apply Hne. eapply reach_antisym; eassumption. }
        assert (GI' := ids_apart_skel _ _ _ _ SK GI). apply GI'; try assumption.
        cbv beta. rewrite <- (push_detached_old s c1 d') by (fold n; lia). exact Hd'. }
      assert (GC1 : forall x, reach s1 n x -> x <> n -> detached s1 x = true -> cid_ok H ct s1 x).
      { intros x Hr Hne Hd.
        assert (Hlt : x < n).
        { assert (A := reach_live _ _ _ HK1 Hln Hr). unfold live, s1 in A. rewrite heap_len_push in A. fold n in A. lia. }
        apply cid_ok_push; [exact HK0 | exact Hlt|]. apply GC; [|exact Hne|].
        - eapply skel_reach; [apply skel_sym; exact SK | exact Hr].
        - rewrite <- (push_detached_old s c1 x) by (fold n; lia). exact Hd. }
      unfold attach_ in Ea.
      destruct (attach_inner (fuel_of s1) s1 n) as [s2' [c|]|s2' e2|] eqn:Ei; try discriminate.
      inversion Ea; subst s2'. clear Ea.
      destruct (sinvx_attach_inner X _ _ _ _ HS1 Hln GT1 GI1 Ei) as [HS2 [_ [Han [Hback Hfwd]]]].
      assert (HK2 : Rank s2) by (destruct HS2 as [_ [A _]]; exact A).
      assert (HC2 : forall x, live s2 x -> attached s2 x -> x <> n -> cid_ok H ct s2 x).
      { intros x Hl Ha Hne. apply (cid_ok_pframe H ct _ _ _ PF). destruct (Hback x Ha) as [Hx|[Hr Hd]].
        - apply HC1; [apply (pf_live _ _ PF); exact Hl | exact Hx].
        - apply GC1; assumption. }
      assert (Hold : forall b, live s b -> c_fs (cellD (set_cid H ct s2 n) b) = c_fs (cellD s b) /\
                                          c_cls (cellD (set_cid H ct s2 n) b) = c_cls (cellD s b) /\
                                          c_cid (cellD (set_cid H ct s2 n) b) = c_cid (cellD s b) /\
                                          id_of (set_cid H ct s2 n) b = id_of s b).
      { intros b Hl. unfold id_of. rewrite cellD_set_cid_ne by (unfold live in Hl; fold n in Hl; lia).
        fold (id_of s2 b). rewrite (pf_fs _ _ PF), (pf_cls _ _ PF), (pf_cid _ _ PF), (pf_id _ _ PF).
        unfold id_of. rewrite (Hcell1 b Hl). repeat split; reflexivity. }
      split; [split|split; [reflexivity | split; [exact F1 | split; [exact Hold | split; [exact F3 | split; [|split; [|split; [|split]]]]]]]].
      + apply (sinvx_cframe X _ _ CF); exact HS2.
      + intros x Hl Ha. apply (cf_live _ _ CF) in Hl. unfold attached in Ha. rewrite (cf_detached _ _ CF) in Ha.
        destruct (Nat.eq_dec x n) as [->|Hne].
        * apply cid_ok_set_cid; [exact HK2 | exact Hl|].
          intros k Hk. destruct HS2 as [HR2 [_ [_ HL2]]]. destruct (HL2 n Hl Ha) as [Hc _].
          apply in_skids in Hk. destruct Hk as [f [i Hk]].
          assert (Hkk : In k (skids s2 n)) by (apply in_skids; eauto).
          assert (Hkn : k <> n) by (eapply reach_kid_ne; [exact HK2 | exact Hkk | apply reach_refl]).
          assert (Hkl2 : live s2 k) by (eapply rank_kid_live; eassumption).
          (* the child is attached: by the children clause when the edge is not excepted; in any case it was
             registered or adopted by _attach_inner - read from the frame instead: it is an old attached node or
             lies below n *)
          assert (Hka : attached s2 k \/ ~ attached s2 k).
          { unfold attached. destruct (detached s2 k); [right; discriminate | left; reflexivity]. }
          destruct Hka as [Hka|Hka]; [apply HC2; assumption|].
          (* a detached child of the attached new node: only at an excepted edge; its digest is right all the same *)
          apply (cid_ok_pframe H ct _ _ _ PF).
          assert (Hk1 : In k (skids s1 n)) by (rewrite <- (pf_skids _ _ PF); exact Hkk).
          apply GC1; [eapply reach_step; [exact Hk1 | apply reach_refl] | exact Hkn|].
          destruct (detached s1 k) eqn:Hd1; [reflexivity|]. exfalso. apply Hka. apply Hfwd. exact Hd1.
        * apply cid_ok_set_cid_ne; [exact Hne | apply HC2; assumption].
      + intros b Hl Ha. unfold attached. rewrite (cf_detached _ _ CF). apply Hfwd. apply Hatt1; assumption.
      + intros _. unfold attached. rewrite (cf_detached _ _ CF). exact Han.
      + intros x Hx. unfold attached in Hx. rewrite (cf_detached _ _ CF) in Hx.
        destruct (Nat.eq_dec x n) as [->|Hne]; [left; reflexivity|]. right.
        destruct (Hback x Hx) as [Hx1|[Hr Hd]].
        * left. unfold attached. rewrite <- (push_detached_old s c1 x Hne). exact Hx1.
        * right. split; [eapply skel_reach; [apply skel_sym; exact SK | exact Hr]|].
          rewrite <- (push_detached_old s c1 x Hne). exact Hd.
      + intros x Hl Hx. apply cid_ok_set_cid_ne; [unfold live in Hl; fold n in Hl; lia|].
        apply (cid_ok_pframe H ct _ _ _ PF). apply cid_ok_push; assumption.
      + (* the new node was not adopted: it would lie below itself *)
        rewrite (cf_pid _ _ CF).
        destruct (c_pid (cellD s2 n)) as [pid|] eqn:Epid; [|reflexivity]. exfalso.
        destruct HS2 as [HR2 [_ [HP2 HL2]]].
        destruct (HP2 n ltac:(congruence)) as [Han2 Hpar2].
        destruct (parent s2 n) as [q|] eqn:Hq; [|congruence].
        assert (Hln2 : live s2 n) by (apply (pf_live _ _ PF); exact Hln).
        destruct (HL2 n Hln2 Han2) as [_ [Hs _]]. destruct (Hs q Hq) as [f0 [_ Hin]].
        assert (Hk : In n (skids s2 q)) by (eapply edge_kid; exact Hin).
        rewrite (pf_skids _ _ PF) in Hk.
        destruct (Nat.eq_dec q n) as [->|Hqn].
        * apply (rank_acyc _ _ _ HK1 Hk). apply reach_refl.
        * assert (Hk0 : In n (skids s q)).
          { unfold skids in *. unfold s1 in Hk. rewrite cellD_push_ne in Hk by exact Hqn. exact Hk. }
          apply (rank_kid_live _ _ _ HK0) in Hk0. unfold live in Hk0. fold n in Hk0. lia.
  Qed.

  (* ---------- attach on a hole state ---------- *)
  Theorem hinvx_attach (X : xset) s a s1 u :
    HInvX X s -> live s a -> tree_shaped s a -> ids_apart (fun x => detached s x = true) s a ->
    cids_fresh H ct s a -> attach_ s a = Ok s1 u ->
    HInvX X s1 /\ pframe s s1 /\ attached s1 a /\
    (forall x, attached s1 x -> attached s x \/ (reach s a x /\ detached s x = true)) /\
    (forall x, attached s x -> attached s1 x).
  Proof.
    intros [HS HCid] Hl HT HA HC Eq.
    unfold attach_ in Eq.
    destruct (attach_inner (fuel_of s) s a) as [s2 [c|]|s2 e2|] eqn:Ei; try discriminate.
    inversion Eq; subst s2. clear Eq.
    destruct (sinvx_attach_inner X _ _ _ _ HS Hl HT HA Ei) as [HS1 [PF [Han [Hback Hfwd]]]].
    split; [split; [exact HS1|]|split; [exact PF | split; [exact Han | split; [exact Hback | exact Hfwd]]]].
    intros x Hlx Hax. apply (cid_ok_pframe H ct _ _ _ PF).
    destruct (Hback x Hax) as [Hx|[Hr Hd]].
    - apply HCid; [apply (pf_live _ _ PF); exact Hlx | exact Hx].
    - apply HC; assumption.
  Qed.

  (* ---------- changing id / original_id / id_collision_with of a DETACHED node ---------- *)
  Lemma hinvx_flip_detached (X : xset) s n f :
    (forall c, exists i o k, f c = with_ids i o k c) ->
    HInvX X s -> detached s n = true -> HInvX X (upd s n f).
  Proof.
    intros Hf [[HR [HK [HP HL]]] HCid] Hdn. set (s' := upd s n f).
    assert (Hsame : forall b, c_cls (cellD s' b) = c_cls (cellD s b) /\ c_fs (cellD s' b) = c_fs (cellD s b) /\
                              c_pid (cellD s' b) = c_pid (cellD s b) /\ c_pf (cellD s' b) = c_pf (cellD s b) /\
                              c_pi (cellD s' b) = c_pi (cellD s b) /\ c_cid (cellD s' b) = c_cid (cellD s b)).
    { intros b. unfold s'. rewrite cellD_upd. destruct (Nat.eqb n b && Nat.ltb n (List.length (heap s))).
      - destruct (Hf (cellD s b)) as [i [o [k E]]]. rewrite E. repeat split; reflexivity.
      - repeat split; reflexivity. }
    assert (Hne : forall b, b <> n -> cellD s' b = cellD s b).
    { intros b Hb. unfold s'. rewrite cellD_upd. destruct (Nat.eqb n b) eqn:E; [|reflexivity].
      apply Nat.eqb_eq in E. congruence. }
    assert (Hreg : forall i, reg_get s' i = reg_get s i) by (intros i; apply reg_get_upd).
    assert (Hlen : List.length (heap s') = List.length (heap s)) by apply heap_len_upd.
    assert (Hregn : forall i x, reg_get s i = Some x -> x <> n).
    { intros i x Hx ->. destruct (HR _ _ Hx) as [_ Hi]. rewrite <- Hi in Hx.
      apply attached_reg in Hx. unfold attached in Hx. congruence. }
    assert (Hdet : forall b, b <> n -> detached s' b = detached s b).
    { intros b Hb. unfold detached, id_of. rewrite Hreg, (Hne b Hb). reflexivity. }
    assert (Hdetn : detached s' n = true).
    { unfold detached. rewrite Hreg. destruct (reg_get s (id_of s' n)) as [x|] eqn:E; [|reflexivity].
      apply Hregn in E. apply negb_true_iff. apply Nat.eqb_neq. exact E. }
    assert (Hpar : forall b, parent s' b = parent s b).
    { intros b. unfold parent. destruct (Hsame b) as [_ [_ [E _]]]. rewrite E.
      destruct (c_pid (cellD s b)); [apply Hreg | reflexivity]. }
    assert (Hskw : forall b, skids_wf s' b = skids_wf s b).
    { intros b. unfold skids_wf, kids_wf. destruct (Hsame b) as [_ [E _]]. rewrite E. reflexivity. }
    assert (Hatt : forall b, attached s' b -> b <> n /\ attached s b).
    { intros b Hb. assert (Hbn : b <> n) by (intros ->; unfold attached in Hb; congruence).
      split; [exact Hbn|]. unfold attached in *. rewrite <- (Hdet b Hbn). exact Hb. }
    assert (Hatt' : forall b, attached s b -> attached s' b).
    { intros b Hb. assert (Hbn : b <> n) by (intros ->; unfold attached in Hb; congruence).
      unfold attached in *. rewrite (Hdet b Hbn). exact Hb. }
    split; [split; [|split; [|split]]|].
    - intros i x Hx. rewrite Hreg in Hx. assert (Hxn := Hregn _ _ Hx). destruct (HR _ _ Hx) as [Hl Hi].
      split; [unfold live in *; rewrite Hlen; exact Hl|]. unfold id_of. rewrite (Hne x Hxn). exact Hi.
    - apply (rank_same_kids s s'); [exact Hlen | | exact HK].
      intros b. unfold skids, kids, kids_wf. destruct (Hsame b) as [_ [E _]]. rewrite E. reflexivity.
    - intros b Hb. destruct (Hsame b) as [_ [_ [E _]]]. rewrite E in Hb. destruct (HP b Hb) as [A B].
      split; [apply Hatt'; exact A | rewrite Hpar; exact B].
    - intros b Hlb Hab. destruct (Hatt b Hab) as [Hbn Hab0].
      assert (Hlb0 : live s b) by (unfold live in *; rewrite <- Hlen; exact Hlb).
      destruct (HL b Hlb0 Hab0) as [Hc [Hs Hl]]. destruct (Hsame b) as [_ [_ [_ [Epf [Epi Ecid]]]]].
      split; [|split].
      + intros k f0 i Hin HnX. rewrite Hskw in Hin. destruct (Hc k f0 i Hin HnX) as [A [B [C Dd]]].
        destruct (Hsame k) as [_ [_ [_ [Ekpf [Ekpi _]]]]].
        split; [apply Hatt'; exact A|]. rewrite Hpar, Ekpf, Ekpi. auto.
      + intros p Hp. rewrite Hpar in Hp. destruct (Hs p Hp) as [f0 [Hf0 Hin]].
        exists f0. rewrite Epf, Epi, Hskw. split; assumption.
      + unfold id_of. rewrite (Hne b Hbn), Hreg. exact Hl.
    - intros b Hlb Hab. destruct (Hatt b Hab) as [Hbn Hab0].
      assert (Hlb0 : live s b) by (unfold live in *; rewrite <- Hlen; exact Hlb).
      destruct (Hsame b) as [_ [_ [_ [_ [_ Ecid]]]]].
      unfold cid_ok. rewrite Ecid, (HCid b Hlb0 Hab0). symmetry.
      assert (Hfu : fuel_of s' = fuel_of s) by (unfold fuel_of; rewrite Hlen; reflexivity).
      rewrite Hfu. apply tree_cid_skel. intros x. destruct (Hsame x) as [A [B _]]. split; assumption.
  Qed.
End HoleInv.
