(* C05: the three orders enumerate the same positions, each the same number of times.
   post-order and level order are permutations of pre-order for ALL prune / filter functions, so "each
   proper-descendant position exactly once" transfers from one order to the others; level order never needs more
   levels than the tree has nodes. *)
From Oak Require Import Spec.TraverseSpec Proofs.AccessProofs Proofs.TraverseProofs.
From Coq Require Import Permutation Lia.

Lemma perm_flat_map_pointwise {A B} (f g : A -> list B) l :
  (forall x, In x l -> Permutation (f x) (g x)) -> Permutation (flat_map f l) (flat_map g l).
Proof.
  induction l as [|x l IH]; intros H; simpl; [constructor|].
  apply Permutation_app; [apply H; now left | apply IH; intros y Hy; apply H; now right].
Qed.

Lemma perm_flat_map_split {A B} (f g : A -> list B) l :
  Permutation (flat_map (fun x => f x ++ g x) l) (flat_map f l ++ flat_map g l).
Proof.
  induction l as [|x l IH]; simpl; [constructor|].
  rewrite <- !app_assoc. apply Permutation_app_head.
  etransitivity; [apply Permutation_app_head; exact IH|].
  rewrite !app_assoc. apply Permutation_app_tail. apply Permutation_app_comm.
Qed.

Lemma flat_map_keep (filt : tinfo -> bool) l : flat_map (keep filt) l = filter filt l.
Proof. induction l as [|x l IH]; simpl; auto. unfold keep at 1. destruct (filt x); simpl; now rewrite IH. Qed.

Section Perm.
  Variables (prune filt : tinfo -> bool).

  (* post-order yields what pre-order yields *)
  Theorem post_perm_pre n : Permutation (post prune filt n) (pre prune filt n).
  Proof.
    induction n as [n IH] using size_induction.
    rewrite post_unfold, pre_unfold. apply perm_flat_map_pointwise. intros ti Hti.
    unfold post_info, pre_info. etransitivity; [apply Permutation_app_comm|].
    apply Permutation_app_head. destruct (prune ti); [constructor|].
    apply IH. now apply direct_smaller.
  Qed.

  Definition below (ti : tinfo) : list tinfo := if prune ti then [] else pre prune filt (ti_node ti).

  Lemma pre_info_split l :
    Permutation (flat_map (pre_info prune filt) l) (filter filt l ++ flat_map below l).
  Proof.
    rewrite <- flat_map_keep. exact (perm_flat_map_split (keep filt) below l).
  Qed.

  Lemma below_next_level l : flat_map below l = flat_map (pre_info prune filt) (next_level prune l).
  Proof.
    unfold next_level. induction l as [|ti l IH]; simpl; auto.
    rewrite flat_map_app, <- IH. f_equal. unfold below. destruct (prune ti); simpl; auto. apply pre_unfold.
  Qed.

  Lemma work_next_level l : work (next_level prune l) + length l <= work l.
  Proof.
    unfold next_level. induction l as [|ti l IH]; simpl; auto.
    rewrite work_app. change (work (ti :: l)) with (work ([ti] ++ l)). rewrite (work_app [ti] l).
    assert (work (if prune ti then [] else direct_infos (ti_node ti)) + 1 <= work [ti]).
    { unfold work at 2. simpl. pose proof (size_pos (ti_node ti)). pose proof (work_direct (ti_node ti)).
      destruct (prune ti); [unfold work; simpl|]; lia. }
    lia.
  Qed.

  Lemma levels_from_nil d : levels_from prune filt d [] = [].
  Proof. induction d as [|d IH]; simpl; auto. Qed.

  (* level order from any frontier, with enough levels: the pre-order below the frontier, permuted *)
  Theorem levels_perm_pre d l : work l <= d ->
    Permutation (levels_from prune filt d l) (flat_map (pre_info prune filt) l).
  Proof.
    revert l. induction d as [|d IH]; intros l Hw.
    - assert (l = []) by (apply work_nil_iff; lia). subst. constructor.
    - destruct l as [|ti l]; [rewrite levels_from_nil; constructor|].
      cbn [levels_from]. symmetry. etransitivity; [apply pre_info_split|].
      apply Permutation_app_head. rewrite below_next_level. symmetry. apply IH.
      pose proof (work_next_level (ti :: l)). simpl in *. lia.
  Qed.

  Theorem bfs_perm_pre n :
    Permutation (levels_from prune filt (size n) (direct_infos n)) (pre prune filt n).
  Proof.
    rewrite pre_unfold. apply levels_perm_pre. pose proof (work_direct n). lia.
  Qed.

  (* more levels than nodes add nothing: the level order is the same list for every sufficient depth *)
  Theorem levels_from_stable d l : work l <= d ->
    levels_from prune filt (S d) l = levels_from prune filt d l.
  Proof.
    revert l. induction d as [|d IH]; intros l Hw.
    - assert (l = []) by (apply work_nil_iff; lia). subst. reflexivity.
    - destruct l as [|ti l]; [now rewrite !levels_from_nil|].
      change (levels_from prune filt (S (S d)) (ti :: l))
        with (filter filt (ti :: l) ++ levels_from prune filt (S d) (next_level prune (ti :: l))).
      rewrite IH; [reflexivity|]. pose proof (work_next_level (ti :: l)). simpl in *. lia.
  Qed.
End Perm.
(* corollaries for the level order: same members as pre-order, and without predicates all size-1 positions *)
Theorem bfs_in_iff_pre prune filt n ti :
  In ti (levels_from prune filt (size n) (direct_infos n)) <-> In ti (pre prune filt n).
Proof.
  split; intros H.
  - eapply Permutation_in; [apply bfs_perm_pre|exact H].
  - eapply Permutation_in; [apply Permutation_sym, bfs_perm_pre|exact H].
Qed.

Theorem bfs_visits_all ct n : wf_node ct n = true ->
  length (levels_from (fun _ => false) (fun _ => true) (size n) (direct_infos n)) = size n - 1.
Proof.
  intros W. rewrite (Permutation_length (bfs_perm_pre (fun _ => false) (fun _ => true) n)).
  now apply (visits_all ct).
Qed.

Theorem post_visits_all ct n : wf_node ct n = true ->
  length (post (fun _ => false) (fun _ => true) n) = size n - 1.
Proof.
  intros W. rewrite (Permutation_length (post_perm_pre (fun _ => false) (fun _ => true) n)).
  now apply (visits_all ct).
Qed.

(* the start node is never yielded, in any order *)
Theorem no_self_post prune filt n ti : In ti (post prune filt n) -> size (ti_node ti) < size n.
Proof. intros H. apply (pre_smaller prune filt). eapply Permutation_in; [apply post_perm_pre|exact H]. Qed.
Theorem no_self_bfs prune filt n ti :
  In ti (levels_from prune filt (size n) (direct_infos n)) -> size (ti_node ti) < size n.
Proof. intros H. apply (pre_smaller prune filt). now apply bfs_in_iff_pre. Qed.
