(* C02: non-vacuity witnesses, on the instance of Proofs/C01Witness.v: class table w1_ct (Leaf, Pair, Sub a subclass
   of Pair), digest tohex, and the six-node / four-level trees
     w1_a, w1_b, w1_c  - three different objects, content-equal (a frozenset property in three element orders,
                         different non-comparable notes), the same origin at every position: pairwise ==;
     w1_d              - content-equal to w1_a, other origins below the root: not ==;
     w1_e              - other content.
   digest_ok / good of Props/C02.v are spelled out here (Props files cannot be imported from Proofs). *)
From Oak Require Import Model.Equality Spec.CEq Proofs.EncodeComplete Proofs.EqualityProofs Proofs.C01Witness.
From Coq Require Import List.
Import ListNotations.

Lemma w2_ceq_ab : ceq w1_ct w1_a w1_b.
Proof.
  destruct w1_good_a as (Wa & Va & Da), w1_good_b as (Wb & Vb & Db).
  apply (complete_deep tohex w1_ct ex_et tohex_inj tohex_hex w1_names_ok w1_a w1_b Wa Wb Va Vb Da Db).
  vm_compute. reflexivity.
Qed.
Lemma w2_ceq_ad : ceq w1_ct w1_a w1_d.
Proof.
  destruct w1_good_a as (Wa & Va & Da), w1_good_d as (Wb & Vb & Db).
  apply (complete_deep tohex w1_ct ex_et tohex_inj tohex_hex w1_names_ok w1_a w1_d Wa Wb Va Vb Da Db).
  vm_compute. reflexivity.
Qed.

(* C02_eq_of_ceq, C02_dfs_shape: v_stable, two conforming content-equal trees; both branches of the `if` occur *)
Lemma w2_eq_of_ceq :
  v_stable current = true /\ wf_node w1_ct w1_a = true /\ wf_node w1_ct w1_b = true /\ wf_node w1_ct w1_d = true
  /\ ceq w1_ct w1_a w1_b /\ ceq w1_ct w1_a w1_d /\ w1_a <> w1_b
  /\ origins_eq w1_a w1_b = true /\ origins_eq w1_a w1_d = false
  /\ eqn tohex w1_ct current w1_a w1_b = EqTrue /\ eqn tohex w1_ct current w1_a w1_d = EqFalse
  /\ length (all_origins w1_a) = 6.
Proof.
  split; [reflexivity|]. split; [apply w1_wf|]. split; [apply w1_wf|]. split; [apply w1_wf|].
  split; [exact w2_ceq_ab|]. split; [exact w2_ceq_ad|]. split; [discriminate|]. vm_compute. repeat split.
Qed.

(* C02_char, C02_total, C02_sym, C02_ne_negation: digest_ok tohex, names_ok, good and wf_node of both trees; == is
   True on (a, b), False on (a, d) [same content, other origins] and on (a, e) [other content] *)
Lemma w2_char :
  ((forall x y, tohex x = tohex y -> x = y) /\ (forall x, forallb is_hex (tohex x) = true)) /\ names_ok w1_ct
  /\ (node_values_ok w1_ct w1_a /\ node_deep w1_ct ex_et w1_a) /\ (node_values_ok w1_ct w1_b /\ node_deep w1_ct ex_et w1_b)
  /\ (node_values_ok w1_ct w1_d /\ node_deep w1_ct ex_et w1_d) /\ (node_values_ok w1_ct w1_e /\ node_deep w1_ct ex_et w1_e)
  /\ wf_node w1_ct w1_a = true /\ wf_node w1_ct w1_b = true /\ wf_node w1_ct w1_d = true /\ wf_node w1_ct w1_e = true
  /\ eqn tohex w1_ct current w1_a w1_b = EqTrue /\ eqn tohex w1_ct current w1_b w1_a = EqTrue
  /\ eqn tohex w1_ct current w1_a w1_d = EqFalse /\ eqn tohex w1_ct current w1_a w1_e = EqFalse
  /\ neqn tohex w1_ct current w1_a w1_b = EqFalse /\ neqn tohex w1_ct current w1_a w1_e = EqTrue.
Proof.
  destruct w1_good_a as (Wa & Va & Da), w1_good_b as (Wb & Vb & Db), w1_good_d as (Wd & Vd & Dd), w1_good_e as (We & Ve & De).
  split; [exact w1_digest|]. split; [exact w1_names_ok|].
  split; [split; assumption|]. split; [split; assumption|]. split; [split; assumption|]. split; [split; assumption|].
  repeat (split; [assumption|]). vm_compute. repeat split.
Qed.

(* C02_trans: three different objects, a == b and b == c *)
Lemma w2_trans :
  ((forall x y, tohex x = tohex y -> x = y) /\ (forall x, forallb is_hex (tohex x) = true)) /\ names_ok w1_ct
  /\ (node_values_ok w1_ct w1_a /\ node_deep w1_ct ex_et w1_a) /\ (node_values_ok w1_ct w1_b /\ node_deep w1_ct ex_et w1_b)
  /\ (node_values_ok w1_ct w1_c /\ node_deep w1_ct ex_et w1_c)
  /\ wf_node w1_ct w1_a = true /\ wf_node w1_ct w1_b = true /\ wf_node w1_ct w1_c = true
  /\ eqn tohex w1_ct current w1_a w1_b = EqTrue /\ eqn tohex w1_ct current w1_b w1_c = EqTrue
  /\ addr w1_a <> addr w1_b /\ addr w1_b <> addr w1_c /\ addr w1_a <> addr w1_c
  /\ nprops w1_a <> nprops w1_b /\ nprops w1_b <> nprops w1_c.
Proof.
  destruct w1_good_a as (Wa & Va & Da), w1_good_b as (Wb & Vb & Db), w1_good_c as (Wc & Vc & Dc).
  split; [exact w1_digest|]. split; [exact w1_names_ok|].
  split; [split; assumption|]. split; [split; assumption|]. split; [split; assumption|].
  repeat (split; [assumption|]). split; [vm_compute; reflexivity|]. split; [vm_compute; reflexivity|].
  repeat split; discriminate.
Qed.

(* C02_refl, C02_stream_is_preorder: a conforming tree; the stream dfs() yields has five entries *)
Lemma w2_refl : v_stable current = true /\ wf_node w1_ct w1_a = true
  /\ eqn tohex w1_ct current w1_a w1_a = EqTrue
  /\ option_map (@length origin) (stream_origins w1_ct w1_a) = Some 5
  /\ all_origins w1_a = [w1_o1; w1_o2; ONo; w1_o2; w1_o2; ONo].
Proof. split; [reflexivity|]. split; [apply w1_wf|]. vm_compute. repeat split. Qed.

(* C02_other_class_false: a Sub node against the Pair node stored in its tuple field *)
Lemma w2_other_class : cls w1_a <> cls (w1_pair 3 w1_o2 "first") /\ In (w1_pair 3 w1_o2 "first") (snd (snd (nth 2 (nkids w1_a) (lit "", (ShNone, []))))).
Proof. split; [discriminate|]. vm_compute. auto. Qed.

(* C02_origin_eq_equiv, transitivity part: three different origin values that are pairwise == (the raw text of a
   MemoryTextSource does not take part in the dataclass comparison) *)
Definition w2_om (raw : option pystr) : origin := OMulti [OGen (SMem (lit "m") raw); w1_o1].
Lemma w2_origin_trans :
  origin_eqb (w2_om None) (w2_om (Some (lit "a"))) = true /\ origin_eqb (w2_om (Some (lit "a"))) (w2_om (Some (lit "b"))) = true
  /\ w2_om None <> w2_om (Some (lit "a")) /\ w2_om (Some (lit "a")) <> w2_om (Some (lit "b"))
  /\ origin_eqb (w2_om None) w1_o1 = false.
Proof. split; [vm_compute; reflexivity|]. split; [vm_compute; reflexivity|]. repeat split; try discriminate. Qed.
