(* C18 round 3: the premises of the step theorems for receivers WITH a parent are inhabited.
   History: a three-level tree g(3) = In(req = x(2), tup = [m(1)]), m = In(req = a(0));
   a.replace(v = "c") - the leaf under m is replaced by a younger node (address 4 > 1: the child address order of
   round 2 is gone), the digests of m AND of g change;  then a detached leaf n(5) and m.replace_with(n) - the
   middle node, sitting in the tuple field of g, is replaced. *)
From Oak Require Import Spec.LegacySpec Spec.LegacySpec2 Spec.LegacySpec3 Spec.LegacySpec4 Proofs.LegacyProofs Proofs.LegacyInv Proofs.LegacyHeap
  Proofs.LegacyAttach2 Proofs.LegacyHistory Proofs.LegacyStep Proofs.LegacyExamples Proofs.LegacyReplaceChild3
  Proofs.LegacyTransformer Proofs.LegacyVisitor.
From Coq Require Import List String Ascii ZArith Bool Arith Lia.
Import ListNotations.

Open Scope string_scope.
Definition z_o1 := leaf "a".
Definition z_o2 := inner (Some 0) None [].
Definition z_o3 := leaf "x".
Definition z_o4 := inner (Some 2) None [1].
Definition z_o5 := OReplace 0 [(lit "v", CV (FP (LS (lit "c"))))].
Definition z_o6 := leaf "n".
Definition z_o7 := ODetach 5.
Definition z_o8 := OReplaceWith 1 (Some 5).
Close Scope string_scope.
Definition z_ops := [z_o1; z_o2; z_o3; z_o4; z_o5; z_o6; z_o7; z_o8].

Definition z_s1 := Eval vm_compute in fst (step Hid ct0 empty_st z_o1).
Definition z_s2 := Eval vm_compute in fst (step Hid ct0 z_s1 z_o2).
Definition z_s3 := Eval vm_compute in fst (step Hid ct0 z_s2 z_o3).
Definition z_s4 := Eval vm_compute in fst (step Hid ct0 z_s3 z_o4).
Definition z_s5 := Eval vm_compute in fst (step Hid ct0 z_s4 z_o5).
Definition z_s6 := Eval vm_compute in fst (step Hid ct0 z_s5 z_o6).
Definition z_s7 := Eval vm_compute in fst (step Hid ct0 z_s6 z_o7).
Definition z_s8 := Eval vm_compute in fst (step Hid ct0 z_s7 z_o8).
Lemma z_e1 : step Hid ct0 empty_st z_o1 = (z_s1, RNode 0). Proof. vm_compute; reflexivity. Qed.
Lemma z_e2 : step Hid ct0 z_s1 z_o2 = (z_s2, RNode 1). Proof. vm_compute; reflexivity. Qed.
Lemma z_e3 : step Hid ct0 z_s2 z_o3 = (z_s3, RNode 2). Proof. vm_compute; reflexivity. Qed.
Lemma z_e4 : step Hid ct0 z_s3 z_o4 = (z_s4, RNode 3). Proof. vm_compute; reflexivity. Qed.
Lemma z_e5 : step Hid ct0 z_s4 z_o5 = (z_s5, RNode 4). Proof. vm_compute; reflexivity. Qed.
Lemma z_e6 : step Hid ct0 z_s5 z_o6 = (z_s6, RNode 5). Proof. vm_compute; reflexivity. Qed.
Lemma z_e7 : step Hid ct0 z_s6 z_o7 = (z_s7, RBool true). Proof. vm_compute; reflexivity. Qed.
Lemma z_e8 : step Hid ct0 z_s7 z_o8 = (z_s8, RNone). Proof. vm_compute; reflexivity. Qed.

(* guards of a constructor whose new node is a leaf *)
Lemma z_gleaf s s' r : skids s' r = [] -> new_guard Hid ct0 s s' r.
Proof.
  intros K. split; [apply tree_shaped_leaf; exact K|]. split; [apply ids_apart_leaf; exact K|].
  intros d Hr Hne. rewrite (reach_leaf _ _ _ K Hr) in Hne. contradiction.
Qed.
Lemma z_nodup_in s p : map fst (c_fs (cellD s p)) = [lit "req"; lit "opt"; lit "tup"]%string ->
  NoDup (map fst (c_fs (cellD s p))).
Proof. intros ->. repeat constructor; simpl; intuition discriminate. Qed.

Lemma z_g2 : new_guard Hid ct0 z_s1 z_s2 1.
Proof.
  assert (K1 : skids z_s2 1 = [0]) by (vm_compute; reflexivity).
  assert (K0 : skids z_s2 0 = []) by (vm_compute; reflexivity).
  split; [apply (tree_shaped_single _ _ _ K1); apply tree_shaped_leaf; exact K0|]. split.
  - apply (ids_apart_single_leaf _ _ _ _ K1 K0). intros Hp. vm_compute in Hp. discriminate.
  - intros d Hr Hne Hd. destruct (reach_single _ _ _ _ K1 Hr) as [->|Hr']; [contradiction|].
    rewrite (reach_leaf _ _ _ K0 Hr') in Hd. vm_compute in Hd. discriminate.
Qed.
(* the root over two attached roots: nothing below it was detached *)
Lemma z_g4 : new_guard Hid ct0 z_s3 z_s4 3.
Proof.
  assert (K3 : skids z_s4 3 = [2; 1]) by (vm_compute; reflexivity).
  assert (K2 : skids z_s4 2 = []) by (vm_compute; reflexivity).
  assert (K1 : skids z_s4 1 = [0]) by (vm_compute; reflexivity).
  assert (K0 : skids z_s4 0 = []) by (vm_compute; reflexivity).
  assert (R2 : forall x, reach z_s4 2 x -> x = 2) by (intros x; apply reach_leaf; exact K2).
  assert (R0 : forall x, reach z_s4 0 x -> x = 0) by (intros x; apply reach_leaf; exact K0).
  assert (R1 : forall x, reach z_s4 1 x -> x = 1 \/ x = 0).
  { intros x Hr. destruct (reach_single _ _ _ _ K1 Hr) as [->|Hr']; [left; reflexivity | right; apply R0; exact Hr']. }
  assert (R3 : forall x, reach z_s4 3 x -> x = 3 \/ x = 2 \/ x = 1 \/ x = 0).
  { intros x Hr. destruct (reach_inv _ _ _ Hr) as [->|[k [Hk Hr']]]; [left; reflexivity|].
    rewrite K3 in Hk. destruct Hk as [<-|[<-|[]]].
    - right; left. apply R2; exact Hr'.
    - destruct (R1 x Hr') as [->| ->]; tauto. }
  assert (Hnone : forall x, x = 3 \/ x = 2 \/ x = 1 \/ x = 0 -> x <> 3 -> detached z_s3 x = true -> False).
  { intros x [->|[->|[->| ->]]] Hne Hd; try congruence; vm_compute in Hd; discriminate. }
  split; [|split].
  - intros d Hd. destruct (R3 d Hd) as [->|[->|[->| ->]]].
    + rewrite K3. split; [repeat constructor; simpl; intuition discriminate|].
      intros k1 k2 x [<-|[<-|[]]] [<-|[<-|[]]] Hne Ra Rb; try congruence.
      * apply R2 in Ra. destruct (R1 x Rb); congruence.
      * apply R2 in Rb. destruct (R1 x Ra); congruence.
    + rewrite K2. split; [constructor | intros ? ? ? []].
    + rewrite K1. split; [repeat constructor; intros []|]. intros k1 k2 x [<-|[]] [<-|[]] Hne. congruence.
    + rewrite K0. split; [constructor | intros ? ? ? []].
  - intros d d' Ra Rb Hne Hd. exfalso.
    assert (Hd3 : d' <> 3).
    { intros ->. destruct (R3 d Ra) as [->|[->|[->| ->]]]; [congruence| | |].
      - apply R2 in Rb. congruence.
      - destruct (R1 3 Rb); congruence.
      - apply R0 in Rb. congruence. }
    apply (Hnone d'); [|exact Hd3 | exact Hd].
    destruct (R3 d Ra) as [->|[->|[->| ->]]]; [apply R3; exact Rb | | |].
    + apply R2 in Rb. subst. tauto.
    + destruct (R1 d' Rb) as [->| ->]; tauto.
    + apply R0 in Rb. subst. tauto.
  - intros d Hr Hne Hd. exfalso. exact (Hnone d (R3 d Hr) Hne Hd).
Qed.

(* a.replace(v = "c"): a = 0 has parent 1 *)
Lemma z_g5 : step_guard Hid ct0 z_s4 z_o5 z_s5 (RNode 4).
Proof.
  assert (K4 : skids z_s5 4 = []) by (vm_compute; reflexivity).
  right. exists 1. split; [vm_compute; reflexivity|]. split; [apply z_nodup_in; vm_compute; reflexivity|].
  split; [intros k Hk; vm_compute in Hk; destruct Hk|]. split; [apply z_gleaf; exact K4|].
  split; intros Hr; apply (reach_leaf _ _ _ K4) in Hr; discriminate.
Qed.
(* m.replace_with(n): m = 1 has parent 3 (tuple field, index 0), n = 5 is a detached leaf *)
Definition z_m8 := Eval vm_compute in fst (flip_ids (fst (step Hid ct0 (clear_parent z_s7 1) (ODetach 1))) 1 5).
Lemma z_m8_eq : fst (flip_ids (fst (step Hid ct0 (clear_parent z_s7 1) (ODetach 1))) 1 5) = z_m8.
Proof. vm_compute; reflexivity. Qed.
Lemma z_g8a : att_guard Hid ct0 z_m8 5.
Proof.
  assert (K5 : skids z_m8 5 = []) by (vm_compute; reflexivity).
  split; [unfold live; vm_compute; lia|]. split; [apply tree_shaped_leaf; exact K5|].
  split; [apply ids_apart_leaf; exact K5|].
  intros d Hr _. rewrite (reach_leaf _ _ _ K5 Hr). vm_compute. reflexivity.
Qed.
Lemma z_g8 : step_guard Hid ct0 z_s7 z_o8 z_s8 RNone.
Proof.
  assert (K5 : skids z_s8 5 = []) by (vm_compute; reflexivity).
  right. exists 3. split; [vm_compute; reflexivity|]. split; [apply z_nodup_in; vm_compute; reflexivity|].
  split; [rewrite z_m8_eq; exact z_g8a|].
  intros Hr. apply (reach_leaf _ _ _ K5) in Hr. discriminate.
Qed.

Lemma z_guarded : guarded Hid ct0 empty_st z_ops.
Proof.
  eapply guarded_cons; [exact z_e1 | split; [intros k [] | intros _; apply z_gleaf; vm_compute; reflexivity]|].
  eapply guarded_cons; [exact z_e2 | split; [|intros _; exact z_g2]|].
  { intros k [<-|[]]. unfold live. vm_compute. lia. }
  eapply guarded_cons; [exact z_e3 | split; [intros k [] | intros _; apply z_gleaf; vm_compute; reflexivity]|].
  eapply guarded_cons; [exact z_e4 | split; [|intros _; exact z_g4]|].
  { intros k [<-|[<-|[]]]; unfold live; vm_compute; lia. }
  eapply guarded_cons; [exact z_e5 | exact z_g5|].
  eapply guarded_cons; [exact z_e6 | split; [intros k [] | intros _; apply z_gleaf; vm_compute; reflexivity]|].
  eapply guarded_cons; [exact z_e7 | exact I|].
  eapply guarded_cons; [exact z_e8 | exact z_g8 | exact I].
Qed.
Lemma z_trace : trace Hid ct0 empty_st z_ops = [empty_st; z_s1; z_s2; z_s3; z_s4; z_s5; z_s6; z_s7; z_s8].
Proof. vm_compute; reflexivity. Qed.
Lemma z_inv2 x : In x [empty_st; z_s1; z_s2; z_s3; z_s4; z_s5; z_s6; z_s7; z_s8] -> Inv2 Hid ct0 x.
Proof. rewrite <- z_trace. apply inv2_history_empty. exact z_guarded. Qed.

Lemma z_example_replace_child :
  Inv2 Hid ct0 z_s4 /\ parent z_s4 0 = Some 1 /\ parent z_s4 1 = Some 3 /\
  step Hid ct0 z_s4 z_o5 = (z_s5, RNode 4) /\
  NoDup (map fst (c_fs (cellD z_s4 1))) /\
  kids_live z_s4 (apply_changes (c_fs (cellD z_s4 0)) [(lit "v", CV (FP (LS (lit "c"))))])%string /\
  new_guard Hid ct0 (fst (step Hid ct0 (clear_parent z_s4 0) (ODetachSelf 0))) z_s5 4 /\
  ~ reach z_s5 4 1 /\ ~ reach z_s5 4 0 /\
  (* afterwards: the YOUNGER node 4 sits under the older node 1, the receiver is detached, the digests of the
     parent and of the grandparent changed, Inv2 holds *)
  skids z_s5 1 = [4] /\ parent z_s5 4 = Some 1 /\ detached z_s5 0 = true /\ ~ AddrRank z_s5 /\
  c_cid (cellD z_s5 1) <> c_cid (cellD z_s4 1) /\ c_cid (cellD z_s5 3) <> c_cid (cellD z_s4 3) /\
  Inv2 Hid ct0 z_s5.
Proof.
  assert (K4 : skids z_s5 4 = []) by (vm_compute; reflexivity).
  split; [apply z_inv2; simpl; tauto|]. split; [vm_compute; reflexivity|]. split; [vm_compute; reflexivity|].
  split; [exact z_e5|]. split; [apply z_nodup_in; vm_compute; reflexivity|].
  split; [intros k Hk; vm_compute in Hk; destruct Hk|]. split; [apply z_gleaf; exact K4|].
  split; [intros Hr; apply (reach_leaf _ _ _ K4) in Hr; discriminate|].
  split; [intros Hr; apply (reach_leaf _ _ _ K4) in Hr; discriminate|].
  split; [vm_compute; reflexivity|]. split; [vm_compute; reflexivity|]. split; [vm_compute; reflexivity|].
  split. { intros HA. assert (Hc := HA 1 4). assert (Hk : In 4 (skids z_s5 1)) by (vm_compute; left; reflexivity).
           apply Hc in Hk. lia. }
  split; [vm_compute; discriminate|]. split; [vm_compute; discriminate|]. apply z_inv2; simpl; tauto.
Qed.

Lemma z_example_replace_with_child :
  Inv2 Hid ct0 z_s7 /\ parent z_s7 1 = Some 3 /\ c_pi (cellD z_s7 1) = Some 0 /\
  step Hid ct0 z_s7 z_o8 = (z_s8, RNone) /\
  NoDup (map fst (c_fs (cellD z_s7 3))) /\
  detached (fst (step Hid ct0 (clear_parent z_s7 1) (ODetach 1))) 5 = true /\
  att_guard Hid ct0 (fst (flip_ids (fst (step Hid ct0 (clear_parent z_s7 1) (ODetach 1))) 1 5)) 5 /\
  ~ reach z_s8 5 3 /\
  skids z_s8 3 = [2; 5] /\ parent z_s8 5 = Some 3 /\ c_pi (cellD z_s8 5) = Some 0 /\
  detached z_s8 1 = true /\ detached z_s8 4 = true /\ id_of z_s8 5 = id_of z_s7 1 /\
  c_cid (cellD z_s8 3) <> c_cid (cellD z_s7 3) /\ Inv2 Hid ct0 z_s8 /\
  guarded Hid ct0 empty_st z_ops.
Proof.
  assert (K5 : skids z_s8 5 = []) by (vm_compute; reflexivity).
  split; [apply z_inv2; simpl; tauto|]. split; [vm_compute; reflexivity|]. split; [vm_compute; reflexivity|].
  split; [exact z_e8|]. split; [apply z_nodup_in; vm_compute; reflexivity|].
  split; [vm_compute; reflexivity|]. split; [rewrite z_m8_eq; exact z_g8a|].
  split; [intros Hr; apply (reach_leaf _ _ _ K5) in Hr; discriminate|].
  split; [vm_compute; reflexivity|]. split; [vm_compute; reflexivity|]. split; [vm_compute; reflexivity|].
  split; [vm_compute; reflexivity|]. split; [vm_compute; reflexivity|]. split; [vm_compute; reflexivity|].
  split; [vm_compute; discriminate|]. split; [apply z_inv2; simpl; tauto | exact z_guarded].
Qed.

(* before the replace the child addresses are still ordered (the invariant of round 2), afterwards they are not *)
Lemma z_addr_rank4 : AddrRank z_s4.
Proof.
  intros a k Hk. destruct a as [|[|[|[|a]]]]; vm_compute in Hk.
  - destruct Hk.
  - destruct Hk as [<-|[]]. lia.
  - destruct Hk.
  - destruct Hk as [<-|[<-|[]]]; lia.
  - destruct a; vm_compute in Hk; destruct Hk.
Qed.
Lemma z_example_rank :
  Inv2_old Hid ct0 z_s4 /\ AddrRank z_s4 /\ Rank z_s5 /\ ~ AddrRank z_s5 /\
  depth_le z_s5 2 3 /\ ~ depth_le z_s5 1 3.
Proof.
  assert (HI := z_inv2 z_s4 ltac:(simpl; tauto)). destruct HI as [A [_ [C D]]].
  split; [split; [exact A | split; [exact z_addr_rank4 | split; [exact C | exact D]]]|].
  split; [exact z_addr_rank4|].
  split; [exact (proj1 (proj2 (z_inv2 z_s5 ltac:(simpl; tauto))))|].
  split; [exact (proj1 (proj2 (proj2 (proj2 (proj2 (proj2 (proj2 (proj2 (proj2 (proj2 (proj2 (proj2 (proj2 z_example_replace_child)))))))))))))|].
  split.
  - intros k Hk. vm_compute in Hk. destruct Hk as [<-|[<-|[]]]; intros k' Hk'; vm_compute in Hk'.
    + destruct Hk'.
    + destruct Hk' as [<-|[]]. intros k'' Hk''. vm_compute in Hk''. destruct Hk''.
  - intros Hd. assert (H1 : In 1 (skids z_s5 3)) by (vm_compute; tauto).
    apply (Hd 1 H1 4). vm_compute. left; reflexivity.
Qed.

(* ---------- replace_with(ATTACHED root): the argument is popped, renamed, re-attached; its child carries a dead
   parent id in between ---------- *)
Open Scope string_scope.
Definition q_o1 := leaf "a".
Definition q_o2 := inner (Some 0) None [].
Definition q_o3 := leaf "c".
Definition q_o4 := inner (Some 2) None [].
Definition q_o5 := OReplaceWith 0 (Some 3).       (* receiver 0 sits in 1.req; the argument 3 = In(req = 2) is an attached root *)
Close Scope string_scope.
Definition q_ops := [q_o1; q_o2; q_o3; q_o4; q_o5].
Definition q_s1 := Eval vm_compute in fst (step Hid ct0 empty_st q_o1).
Definition q_s2 := Eval vm_compute in fst (step Hid ct0 q_s1 q_o2).
Definition q_s3 := Eval vm_compute in fst (step Hid ct0 q_s2 q_o3).
Definition q_s4 := Eval vm_compute in fst (step Hid ct0 q_s3 q_o4).
Definition q_s5 := Eval vm_compute in fst (step Hid ct0 q_s4 q_o5).
Lemma q_e1 : step Hid ct0 empty_st q_o1 = (q_s1, RNode 0). Proof. vm_compute; reflexivity. Qed.
Lemma q_e2 : step Hid ct0 q_s1 q_o2 = (q_s2, RNode 1). Proof. vm_compute; reflexivity. Qed.
Lemma q_e3 : step Hid ct0 q_s2 q_o3 = (q_s3, RNode 2). Proof. vm_compute; reflexivity. Qed.
Lemma q_e4 : step Hid ct0 q_s3 q_o4 = (q_s4, RNode 3). Proof. vm_compute; reflexivity. Qed.
Lemma q_e5 : step Hid ct0 q_s4 q_o5 = (q_s5, RNone). Proof. vm_compute; reflexivity. Qed.
Lemma q_gnew s s' r k : skids s' r = [k] -> skids s' k = [] -> detached s k = false ->
  id_of s' r <> id_of s' k -> new_guard Hid ct0 s s' r.
Proof.
  intros K1 K0 Hd Hid. split; [apply (tree_shaped_single _ _ _ K1); apply tree_shaped_leaf; exact K0|]. split.
  - apply (ids_apart_single_leaf _ _ _ _ K1 K0). intros _. exact Hid.
  - intros d Hr Hne Hdd. destruct (reach_single _ _ _ _ K1 Hr) as [->|Hr']; [contradiction|].
    rewrite (reach_leaf _ _ _ K0 Hr') in Hdd. congruence.
Qed.
Definition q_m5 := Eval vm_compute in fst (flip_ids (fst (step Hid ct0 (clear_parent q_s4 0) (ODetach 0))) 0 3).
Lemma q_m5_eq : fst (flip_ids (fst (step Hid ct0 (clear_parent q_s4 0) (ODetach 0))) 0 3) = q_m5.
Proof. vm_compute; reflexivity. Qed.
Lemma q_g5a : att_guard Hid ct0 q_m5 3.
Proof.
  assert (K1 : skids q_m5 3 = [2]) by (vm_compute; reflexivity).
  assert (K0 : skids q_m5 2 = []) by (vm_compute; reflexivity).
  split; [unfold live; vm_compute; lia|].
  split; [apply (tree_shaped_single _ _ _ K1); apply tree_shaped_leaf; exact K0|]. split.
  - apply (ids_apart_single_leaf _ _ _ _ K1 K0). intros _. vm_compute. discriminate.
  - intros d Hr Hd. destruct (reach_single _ _ _ _ K1 Hr) as [->|Hr'].
    + vm_compute. reflexivity.
    + rewrite (reach_leaf _ _ _ K0 Hr') in Hd. vm_compute in Hd. discriminate.
Qed.
Lemma q_nr5 : ~ reach q_s5 3 1.
Proof.
  assert (K1 : skids q_s5 3 = [2]) by (vm_compute; reflexivity).
  assert (K0 : skids q_s5 2 = []) by (vm_compute; reflexivity).
  intros Hr. destruct (reach_single _ _ _ _ K1 Hr) as [E|Hr']; [discriminate|].
  apply (reach_leaf _ _ _ K0) in Hr'. discriminate.
Qed.
Lemma q_g5 : step_guard Hid ct0 q_s4 q_o5 q_s5 RNone.
Proof.
  right. exists 1. split; [vm_compute; reflexivity|]. split; [apply z_nodup_in; vm_compute; reflexivity|].
  split; [rewrite q_m5_eq; exact q_g5a | exact q_nr5].
Qed.
Lemma q_guarded : guarded Hid ct0 empty_st q_ops.
Proof.
  eapply guarded_cons; [exact q_e1 | split; [intros k [] | intros _; apply z_gleaf; vm_compute; reflexivity]|].
  eapply guarded_cons; [exact q_e2 | split; [|intros _]|].
  { intros k [<-|[]]. unfold live. vm_compute. lia. }
  { apply (q_gnew _ _ _ 0); try (vm_compute; reflexivity). vm_compute. discriminate. }
  eapply guarded_cons; [exact q_e3 | split; [intros k [] | intros _; apply z_gleaf; vm_compute; reflexivity]|].
  eapply guarded_cons; [exact q_e4 | split; [|intros _]|].
  { intros k [<-|[]]. unfold live. vm_compute. lia. }
  { apply (q_gnew _ _ _ 2); try (vm_compute; reflexivity). vm_compute. discriminate. }
  eapply guarded_cons; [exact q_e5 | exact q_g5 | exact I].
Qed.
Lemma q_example_replace_with_child_attached :
  Inv2 Hid ct0 q_s4 /\ parent q_s4 0 = Some 1 /\
  step Hid ct0 q_s4 q_o5 = (q_s5, RNone) /\
  NoDup (map fst (c_fs (cellD q_s4 1))) /\
  detached (fst (step Hid ct0 (clear_parent q_s4 0) (ODetach 0))) 3 = false /\
  att_guard Hid ct0 (fst (flip_ids (fst (step Hid ct0 (clear_parent q_s4 0) (ODetach 0))) 0 3)) 3 /\
  ~ reach q_s5 3 1 /\
  (* in between the child 2 of the argument is attached with a dead stored parent id *)
  c_pid (cellD q_m5 2) <> None /\ parent q_m5 2 = None /\ detached q_m5 2 = false /\
  (* afterwards *)
  skids q_s5 1 = [3] /\ parent q_s5 3 = Some 1 /\ parent q_s5 2 = Some 3 /\ id_of q_s5 3 = id_of q_s4 0 /\
  detached q_s5 0 = true /\ Inv2 Hid ct0 q_s5 /\ guarded Hid ct0 empty_st q_ops.
Proof.
  assert (HT : trace Hid ct0 empty_st q_ops = [empty_st; q_s1; q_s2; q_s3; q_s4; q_s5]) by (vm_compute; reflexivity).
  assert (HI : forall x, In x [empty_st; q_s1; q_s2; q_s3; q_s4; q_s5] -> Inv2 Hid ct0 x).
  { rewrite <- HT. apply inv2_history_empty. exact q_guarded. }
  split; [apply HI; simpl; tauto|]. split; [vm_compute; reflexivity|]. split; [exact q_e5|].
  split; [apply z_nodup_in; vm_compute; reflexivity|]. split; [vm_compute; reflexivity|].
  split; [rewrite q_m5_eq; exact q_g5a|]. split; [exact q_nr5|].
  split; [vm_compute; discriminate|]. split; [vm_compute; reflexivity|]. split; [vm_compute; reflexivity|].
  split; [vm_compute; reflexivity|]. split; [vm_compute; reflexivity|]. split; [vm_compute; reflexivity|].
  split; [vm_compute; reflexivity|]. split; [vm_compute; reflexivity|].
  split; [apply HI; simpl; tauto | exact q_guarded].
Qed.

(* parent-less receiver: leaf a (root), n = In(req = c) attached root; a.replace_with(n) *)
Open Scope string_scope.
Definition r_o1 := leaf "a".
Definition r_o2 := leaf "c".
Definition r_o3 := inner (Some 1) None [].
Definition r_o4 := OReplaceWith 0 (Some 2).
Close Scope string_scope.
Definition r_ops := [r_o1; r_o2; r_o3; r_o4].
Definition r_s1 := Eval vm_compute in fst (step Hid ct0 empty_st r_o1).
Definition r_s2 := Eval vm_compute in fst (step Hid ct0 r_s1 r_o2).
Definition r_s3 := Eval vm_compute in fst (step Hid ct0 r_s2 r_o3).
Definition r_s4 := Eval vm_compute in fst (step Hid ct0 r_s3 r_o4).
Lemma r_e1 : step Hid ct0 empty_st r_o1 = (r_s1, RNode 0). Proof. vm_compute; reflexivity. Qed.
Lemma r_e2 : step Hid ct0 r_s1 r_o2 = (r_s2, RNode 1). Proof. vm_compute; reflexivity. Qed.
Lemma r_e3 : step Hid ct0 r_s2 r_o3 = (r_s3, RNode 2). Proof. vm_compute; reflexivity. Qed.
Lemma r_e4 : step Hid ct0 r_s3 r_o4 = (r_s4, RNone). Proof. vm_compute; reflexivity. Qed.
Definition r_m4 := Eval vm_compute in fst (flip_ids (fst (step Hid ct0 r_s3 (ODetach 0))) 0 2).
Lemma r_m4_eq : fst (flip_ids (fst (step Hid ct0 r_s3 (ODetach 0))) 0 2) = r_m4.
Proof. vm_compute; reflexivity. Qed.
Lemma r_g4a : att_guard Hid ct0 r_m4 2.
Proof.
  assert (K1 : skids r_m4 2 = [1]) by (vm_compute; reflexivity).
  assert (K0 : skids r_m4 1 = []) by (vm_compute; reflexivity).
  split; [unfold live; vm_compute; lia|].
  split; [apply (tree_shaped_single _ _ _ K1); apply tree_shaped_leaf; exact K0|]. split.
  - apply (ids_apart_single_leaf _ _ _ _ K1 K0). intros _. vm_compute. discriminate.
  - intros d Hr Hd. destruct (reach_single _ _ _ _ K1 Hr) as [->|Hr'].
    + vm_compute. reflexivity.
    + rewrite (reach_leaf _ _ _ K0 Hr') in Hd. vm_compute in Hd. discriminate.
Qed.
Lemma r_guarded : guarded Hid ct0 empty_st r_ops.
Proof.
  eapply guarded_cons; [exact r_e1 | split; [intros k [] | intros _; apply z_gleaf; vm_compute; reflexivity]|].
  eapply guarded_cons; [exact r_e2 | split; [intros k [] | intros _; apply z_gleaf; vm_compute; reflexivity]|].
  eapply guarded_cons; [exact r_e3 | split; [|intros _]|].
  { intros k [<-|[]]. unfold live. vm_compute. lia. }
  { apply (q_gnew _ _ _ 1); try (vm_compute; reflexivity). vm_compute. discriminate. }
  eapply guarded_cons; [exact r_e4 | | exact I].
  left. split; [vm_compute; reflexivity | rewrite r_m4_eq; exact r_g4a].
Qed.
Lemma r_example_replace_with_root_attached :
  Inv2 Hid ct0 r_s3 /\ parent r_s3 0 = None /\
  step Hid ct0 r_s3 r_o4 = (r_s4, RNone) /\
  detached (fst (step Hid ct0 r_s3 (ODetach 0))) 2 = false /\
  att_guard Hid ct0 (fst (flip_ids (fst (step Hid ct0 r_s3 (ODetach 0))) 0 2)) 2 /\
  c_pid (cellD r_m4 1) <> None /\ parent r_m4 1 = None /\ detached r_m4 1 = false /\
  detached r_s4 0 = true /\ detached r_s4 2 = false /\ parent r_s4 1 = Some 2 /\ id_of r_s4 2 = id_of r_s3 0 /\
  Inv2 Hid ct0 r_s4 /\ guarded Hid ct0 empty_st r_ops.
Proof.
  assert (HT : trace Hid ct0 empty_st r_ops = [empty_st; r_s1; r_s2; r_s3; r_s4]) by (vm_compute; reflexivity).
  assert (HI : forall x, In x [empty_st; r_s1; r_s2; r_s3; r_s4] -> Inv2 Hid ct0 x).
  { rewrite <- HT. apply inv2_history_empty. exact r_guarded. }
  split; [apply HI; simpl; tauto|]. split; [vm_compute; reflexivity|]. split; [exact r_e4|].
  split; [vm_compute; reflexivity|]. split; [rewrite r_m4_eq; exact r_g4a|].
  split; [vm_compute; discriminate|]. split; [vm_compute; reflexivity|]. split; [vm_compute; reflexivity|].
  split; [vm_compute; reflexivity|]. split; [vm_compute; reflexivity|]. split; [vm_compute; reflexivity|].
  split; [vm_compute; reflexivity|]. split; [apply HI; simpl; tauto | exact r_guarded].
Qed.

(* ---------- ASTTransformer.execute over the tree g(3) = In(req = x(2), tup = [m(1)]), m = In(req = a(0)):
   the callback returns a NEW attached leaf for x (execute then calls x.replace_with(new): a receiver with a parent,
   an attached argument) and a.replace(v = "c") for a (a receiver with a parent) ---------- *)
Open Scope string_scope.
Definition t_rules : list rule :=
  [ {| r_cls := lit "Lf"; r_when := Some (lit "v", LS (lit "x"));
       r_act := AFresh (lit "Lf") (lit "o") [(lit "v", FP (LS (lit "y")))] |};
    {| r_cls := lit "Lf"; r_when := Some (lit "v", LS (lit "a")); r_act := ASet (lit "v") (LS (lit "c")) |} ].
Definition t_o := OTransformer 3 t_rules.
Definition t_c1 := ONew (lit "Lf") (lit "o") [(lit "v", FP (LS (lit "y")))] None false false false.
Definition t_c2 := OReplaceWith 2 (Some 4).
Definition t_c3 := OReplace 0 [(lit "v", CV (FP (LS (lit "c"))))].
Close Scope string_scope.
Definition t_s1 := Eval vm_compute in fst (step Hid ct0 z_s4 t_c1).
Definition t_s2 := Eval vm_compute in fst (step Hid ct0 t_s1 t_c2).
Definition t_s3 := Eval vm_compute in fst (step Hid ct0 t_s2 t_c3).
Lemma t_e1 : step Hid ct0 z_s4 t_c1 = (t_s1, RNode 4). Proof. vm_compute; reflexivity. Qed.
Lemma t_e2 : step Hid ct0 t_s1 t_c2 = (t_s2, RNone). Proof. vm_compute; reflexivity. Qed.
Lemma t_e3 : step Hid ct0 t_s2 t_c3 = (t_s3, RNode 5). Proof. vm_compute; reflexivity. Qed.
Lemma t_e : step Hid ct0 z_s4 t_o = (t_s3, ROut (Some 3) [4]). Proof. vm_compute; reflexivity. Qed.
Lemma t_order : postorder (fuel_of z_s4) z_s4 3 = Some [2; 0; 1; 3]. Proof. vm_compute; reflexivity. Qed.
Lemma t_calls : exec_ops Hid ct0 t_rules 3 z_s4 [2; 0; 1; 3] = [t_c1; t_c2; t_c3]. Proof. vm_compute; reflexivity. Qed.
Definition t_m2 := Eval vm_compute in fst (flip_ids (fst (step Hid ct0 (clear_parent t_s1 2) (ODetach 2))) 2 4).
Lemma t_m2_eq : fst (flip_ids (fst (step Hid ct0 (clear_parent t_s1 2) (ODetach 2))) 2 4) = t_m2.
Proof. vm_compute; reflexivity. Qed.
Lemma t_g2 : step_guard Hid ct0 t_s1 t_c2 t_s2 RNone.
Proof.
  assert (K4 : skids t_m2 4 = []) by (vm_compute; reflexivity).
  assert (K4' : skids t_s2 4 = []) by (vm_compute; reflexivity).
  right. exists 3. split; [vm_compute; reflexivity|]. split; [apply z_nodup_in; vm_compute; reflexivity|]. split.
  - rewrite t_m2_eq. split; [unfold live; vm_compute; lia|]. split; [apply tree_shaped_leaf; exact K4|].
    split; [apply ids_apart_leaf; exact K4|].
    intros d Hr _. rewrite (reach_leaf _ _ _ K4 Hr). vm_compute. reflexivity.
  - intros Hr. apply (reach_leaf _ _ _ K4') in Hr. discriminate.
Qed.
Lemma t_g3 : step_guard Hid ct0 t_s2 t_c3 t_s3 (RNode 5).
Proof.
  assert (K5 : skids t_s3 5 = []) by (vm_compute; reflexivity).
  right. exists 1. split; [vm_compute; reflexivity|]. split; [apply z_nodup_in; vm_compute; reflexivity|].
  split; [intros k Hk; vm_compute in Hk; destruct Hk|]. split; [apply z_gleaf; exact K5|].
  split; intros Hr; apply (reach_leaf _ _ _ K5) in Hr; discriminate.
Qed.
Lemma t_guarded : guarded Hid ct0 z_s4 [t_c1; t_c2; t_c3].
Proof.
  eapply guarded_cons; [exact t_e1 | split; [intros k [] | intros _; apply z_gleaf; vm_compute; reflexivity]|].
  eapply guarded_cons; [exact t_e2 | exact t_g2|].
  eapply guarded_cons; [exact t_e3 | exact t_g3 | exact I].
Qed.
Lemma t_example_transformer :
  Inv2 Hid ct0 z_s4 /\ step Hid ct0 z_s4 t_o = (t_s3, ROut (Some 3) [4]) /\
  postorder (fuel_of z_s4) z_s4 3 = Some [2; 0; 1; 3] /\
  exec_ops Hid ct0 t_rules 3 z_s4 [2; 0; 1; 3] = [t_c1; t_c2; t_c3] /\
  guarded Hid ct0 z_s4 (exec_ops Hid ct0 t_rules 3 z_s4 [2; 0; 1; 3]) /\
  skids t_s3 3 = [4; 1] /\ skids t_s3 1 = [5] /\ detached t_s3 2 = true /\ detached t_s3 0 = true /\
  c_cid (cellD t_s3 3) <> c_cid (cellD z_s4 3) /\ Inv2 Hid ct0 t_s3.
Proof.
  assert (HI4 : Inv2 Hid ct0 z_s4) by (apply z_inv2; simpl; tauto).
  assert (HG : guarded Hid ct0 z_s4 (exec_ops Hid ct0 t_rules 3 z_s4 [2; 0; 1; 3])) by (rewrite t_calls; exact t_guarded).
  split; [exact HI4|]. split; [exact t_e|]. split; [exact t_order|]. split; [exact t_calls|]. split; [exact HG|].
  split; [vm_compute; reflexivity|]. split; [vm_compute; reflexivity|]. split; [vm_compute; reflexivity|].
  split; [vm_compute; reflexivity|]. split; [vm_compute; discriminate|].
  exact (inv2_step_transformer Hid ct0 z_s4 3 t_rules t_s3 (Some 3) [4] [2; 0; 1; 3] HI4 t_e t_order HG).
Qed.

(* ---------- ASTTransformVisitor.transform over m(1) = In(req = a(0)): the callback replaces the leaf's value ------- *)
Open Scope string_scope.
Definition u_rules : list rule :=
  [ {| r_cls := lit "Lf"; r_when := Some (lit "v", LS (lit "a")); r_act := ASet (lit "v") (LS (lit "c")) |} ].
Definition u_o := OVisitor 1 u_rules.
Definition u_c1 := ODuplicate 1 true.                                   (* clones: a' = 2, m' = 3, both detached *)
Definition u_c2 := OReplace 2 [(lit "v", CV (FP (LS (lit "c"))))].     (* on the detached clone a': node 4 *)
Definition u_c3 := OReplace 3 [(lit "req", CV (FOne (Some 4)))].       (* m'.replace(req = 4): node 5 *)
Definition u_c4 := OReplaceWith 1 (Some 5).                            (* the original is replaced by the result *)
Close Scope string_scope.
Definition u_s1 := Eval vm_compute in fst (step Hid ct0 z_s2 u_c1).
Definition u_s2 := Eval vm_compute in fst (step Hid ct0 u_s1 u_c2).
Definition u_s3 := Eval vm_compute in fst (step Hid ct0 u_s2 u_c3).
Definition u_s4 := Eval vm_compute in fst (step Hid ct0 u_s3 u_c4).
Lemma u_e1 : step Hid ct0 z_s2 u_c1 = (u_s1, RNode 3). Proof. vm_compute; reflexivity. Qed.
Lemma u_e2 : step Hid ct0 u_s1 u_c2 = (u_s2, RNode 4). Proof. vm_compute; reflexivity. Qed.
Lemma u_e3 : step Hid ct0 u_s2 u_c3 = (u_s3, RNode 5). Proof. vm_compute; reflexivity. Qed.
Lemma u_e4 : step Hid ct0 u_s3 u_c4 = (u_s4, RNone). Proof. vm_compute; reflexivity. Qed.
Lemma u_e : step Hid ct0 z_s2 u_o = (u_s4, ROut (Some 5) []). Proof. vm_compute; reflexivity. Qed.
Lemma u_calls : vtrace Hid ct0 (fuel_of z_s2) u_rules z_s2 1 [] = [u_c1; u_c2; u_c3; u_c4].
Proof. vm_compute; reflexivity. Qed.
Definition u_m4 := Eval vm_compute in fst (flip_ids (fst (step Hid ct0 u_s3 (ODetach 1))) 1 5).
Lemma u_m4_eq : fst (flip_ids (fst (step Hid ct0 u_s3 (ODetach 1))) 1 5) = u_m4.
Proof. vm_compute; reflexivity. Qed.
Lemma u_g4a : att_guard Hid ct0 u_m4 5.
Proof.
  assert (K1 : skids u_m4 5 = [4]) by (vm_compute; reflexivity).
  assert (K0 : skids u_m4 4 = []) by (vm_compute; reflexivity).
  split; [unfold live; vm_compute; lia|].
  split; [apply (tree_shaped_single _ _ _ K1); apply tree_shaped_leaf; exact K0|]. split.
  - apply (ids_apart_single_leaf _ _ _ _ K1 K0). intros _. vm_compute. discriminate.
  - intros d Hr _. destruct (reach_single _ _ _ _ K1 Hr) as [->|Hr'].
    + vm_compute. reflexivity.
    + rewrite (reach_leaf _ _ _ K0 Hr'). vm_compute. reflexivity.
Qed.
Lemma u_guarded : guarded Hid ct0 z_s2 [u_c1; u_c2; u_c3; u_c4].
Proof.
  eapply guarded_cons; [exact u_e1 | exact I|].
  eapply guarded_cons; [exact u_e2 | |].
  { left. split; [vm_compute; reflexivity|]. split; [intros k Hk; vm_compute in Hk; destruct Hk|].
    intros Hd. vm_compute in Hd. discriminate. }
  eapply guarded_cons; [exact u_e3 | |].
  { left. split; [vm_compute; reflexivity|]. split.
    - intros k Hk. vm_compute in Hk. destruct Hk as [<-|[]]. unfold live. vm_compute. lia.
    - intros Hd. vm_compute in Hd. discriminate. }
  eapply guarded_cons; [exact u_e4 | | exact I].
  left. split; [vm_compute; reflexivity | rewrite u_m4_eq; exact u_g4a].
Qed.
Lemma u_example_visitor :
  Inv2 Hid ct0 z_s2 /\ step Hid ct0 z_s2 u_o = (u_s4, ROut (Some 5) []) /\
  vtrace Hid ct0 (fuel_of z_s2) u_rules z_s2 1 [] = [u_c1; u_c2; u_c3; u_c4] /\
  guarded Hid ct0 z_s2 (vtrace Hid ct0 (fuel_of z_s2) u_rules z_s2 1 []) /\
  detached u_s4 1 = true /\ detached u_s4 0 = true /\ detached u_s4 5 = false /\ parent u_s4 4 = Some 5 /\
  id_of u_s4 5 = id_of z_s2 1 /\ c_cid (cellD u_s4 5) <> c_cid (cellD z_s2 1) /\ Inv2 Hid ct0 u_s4.
Proof.
  assert (HI2 : Inv2 Hid ct0 z_s2) by (apply z_inv2; simpl; tauto).
  assert (HG : guarded Hid ct0 z_s2 (vtrace Hid ct0 (fuel_of z_s2) u_rules z_s2 1 [])) by (rewrite u_calls; exact u_guarded).
  split; [exact HI2|]. split; [exact u_e|]. split; [exact u_calls|]. split; [exact HG|].
  split; [vm_compute; reflexivity|]. split; [vm_compute; reflexivity|]. split; [vm_compute; reflexivity|].
  split; [vm_compute; reflexivity|]. split; [vm_compute; reflexivity|]. split; [vm_compute; discriminate|].
  exact (inv2_step_visitor Hid ct0 z_s2 1 u_rules u_s4 (Some 5) [] HI2 u_e HG).
Qed.
