(* C18 / C19 round 2: the premises of the step theorems are inhabited by non-trivial states (a guarded history over
   a two-level tree: construct a leaf, detach it, construct a parent over the DETACHED leaf (recursive attach), full
   detach of the parent, attach, duplicate, calculate_xpath, a rejected constructor). *)
From Oak Require Import Spec.LegacySpec Spec.LegacySpec2 Proofs.LegacyProofs Proofs.LegacyInv Proofs.LegacyHeap
  Proofs.LegacyAttach2 Proofs.LegacyHistory Proofs.LegacyFrames2 Proofs.LegacyStep.
From Coq Require Import List String Ascii ZArith Bool Arith Lia.
Import ListNotations.

(* ---------- small trees ---------- *)
Lemma reach_leaf s a d : skids s a = [] -> reach s a d -> d = a.
Proof. intros Hk Hr. destruct (reach_inv _ _ _ Hr) as [->|[k [Hin _]]]; [reflexivity|]. rewrite Hk in Hin. destruct Hin. Qed.
Lemma reach_single s a k d : skids s a = [k] -> reach s a d -> d = a \/ reach s k d.
Proof.
  intros Hk Hr. destruct (reach_inv _ _ _ Hr) as [->|[k' [Hin Hr']]]; [left; reflexivity|].
  rewrite Hk in Hin. destruct Hin as [<-|[]]. right; exact Hr'.
Qed.
Lemma tree_shaped_leaf s a : skids s a = [] -> tree_shaped s a.
Proof.
  intros Hk d Hr. rewrite (reach_leaf _ _ _ Hk Hr), Hk. split; [constructor|]. intros ? ? ? [].
Qed.
Lemma tree_shaped_single s a k : skids s a = [k] -> tree_shaped s k -> tree_shaped s a.
Proof.
  intros Hk HT d Hr. destruct (reach_single _ _ _ _ Hk Hr) as [->|Hr']; [|apply HT; exact Hr'].
  rewrite Hk. split; [constructor; [intros []|constructor]|].
  intros k1 k2 x [<-|[]] [<-|[]] Hne. contradiction.
Qed.
Lemma ids_apart_leaf P s a : skids s a = [] -> ids_apart P s a.
Proof.
  intros Hk d d' R1 R2 Hne. rewrite (reach_leaf _ _ _ Hk R1) in *. rewrite (reach_leaf _ _ _ Hk R2) in Hne. contradiction.
Qed.
Lemma ids_apart_single_leaf (P : nat -> Prop) s a k :
  skids s a = [k] -> skids s k = [] -> (P k -> id_of s a <> id_of s k) -> ids_apart P s a.
Proof.
  intros Ha Hk Hid d d' R1 R2 Hne Hp.
  destruct (reach_single _ _ _ _ Ha R1) as [->|R1'].
  - destruct (reach_single _ _ _ _ Ha R2) as [->|R2']; [contradiction|].
    rewrite (reach_leaf _ _ _ Hk R2') in *. apply Hid; exact Hp.
  - rewrite (reach_leaf _ _ _ Hk R1') in *. rewrite (reach_leaf _ _ _ Hk R2) in Hne. contradiction.
Qed.

Lemma guarded_cons H ct s o s' ob r :
  step H ct s o = (s', ob) -> step_guard H ct s o s' ob -> guarded H ct s' r -> guarded H ct s (o :: r).
Proof. intros E G R. simpl. rewrite E. simpl. split; assumption. Qed.

(* ---------- the history ---------- *)
Open Scope string_scope.
Definition x_o1 := leaf "a".
Definition x_o2 := ODetach 0.
Definition x_o3 := inner (Some 0) None [].
Definition x_o4 := ODetach 1.
Definition x_o5 := OAttach 1.
Definition x_o6 := ODuplicate 1 false.
Definition x_o7 := OCalcXpath 1.
Definition x_o8 := inner (Some 0) (Some 0) [].
Close Scope string_scope.
Definition x_ops := [x_o1; x_o2; x_o3; x_o4; x_o5; x_o6; x_o7; x_o8].

Definition x_s1 := Eval vm_compute in fst (step Hid ct0 empty_st x_o1).
Definition x_s2 := Eval vm_compute in fst (step Hid ct0 x_s1 x_o2).
Definition x_s3 := Eval vm_compute in fst (step Hid ct0 x_s2 x_o3).
Definition x_s4 := Eval vm_compute in fst (step Hid ct0 x_s3 x_o4).
Definition x_s5 := Eval vm_compute in fst (step Hid ct0 x_s4 x_o5).
Definition x_s6 := Eval vm_compute in fst (step Hid ct0 x_s5 x_o6).
Definition x_s7 := Eval vm_compute in fst (step Hid ct0 x_s6 x_o7).
Definition x_s8 := Eval vm_compute in fst (step Hid ct0 x_s7 x_o8).

Lemma x_e1 : step Hid ct0 empty_st x_o1 = (x_s1, RNode 0). Proof. vm_compute; reflexivity. Qed.
Lemma x_e2 : step Hid ct0 x_s1 x_o2 = (x_s2, RBool true). Proof. vm_compute; reflexivity. Qed.
Lemma x_e3 : step Hid ct0 x_s2 x_o3 = (x_s3, RNode 1). Proof. vm_compute; reflexivity. Qed.
Lemma x_e4 : step Hid ct0 x_s3 x_o4 = (x_s4, RBool true). Proof. vm_compute; reflexivity. Qed.
Lemma x_e5 : step Hid ct0 x_s4 x_o5 = (x_s5, RNone). Proof. vm_compute; reflexivity. Qed.
Lemma x_e6 : step Hid ct0 x_s5 x_o6 = (x_s6, RNode 3). Proof. vm_compute; reflexivity. Qed.
Lemma x_e7 : step Hid ct0 x_s6 x_o7 = (x_s7, RBool true). Proof. vm_compute; reflexivity. Qed.
Lemma x_e8 : step Hid ct0 x_s7 x_o8 = (x_s8, RErr EDup). Proof. vm_compute; reflexivity. Qed.

Lemma x_g1 : new_guard Hid ct0 empty_st x_s1 0.
Proof.
  assert (K : skids x_s1 0 = []) by (vm_compute; reflexivity).
  split; [apply tree_shaped_leaf; exact K|]. split; [apply ids_apart_leaf; exact K|].
  intros d Hr Hne. rewrite (reach_leaf _ _ _ K Hr) in Hne. contradiction.
Qed.
Lemma x_g3 : new_guard Hid ct0 x_s2 x_s3 1.
Proof.
  assert (K1 : skids x_s3 1 = [0]) by (vm_compute; reflexivity).
  assert (K0 : skids x_s3 0 = []) by (vm_compute; reflexivity).
  split; [apply (tree_shaped_single _ _ _ K1); apply tree_shaped_leaf; exact K0|]. split.
  - apply (ids_apart_single_leaf _ _ _ _ K1 K0). intros _. vm_compute. discriminate.
  - intros d Hr Hne _. destruct (reach_single _ _ _ _ K1 Hr) as [->|Hr']; [contradiction|].
    rewrite (reach_leaf _ _ _ K0 Hr'). unfold cid_ok. vm_compute. reflexivity.
Qed.
Lemma x_g5 : att_guard Hid ct0 x_s4 1.
Proof.
  assert (K1 : skids x_s4 1 = [0]) by (vm_compute; reflexivity).
  assert (K0 : skids x_s4 0 = []) by (vm_compute; reflexivity).
  split; [unfold live; vm_compute; lia|].
  split; [apply (tree_shaped_single _ _ _ K1); apply tree_shaped_leaf; exact K0|]. split.
  - apply (ids_apart_single_leaf _ _ _ _ K1 K0). intros _. vm_compute. discriminate.
  - intros d Hr _. destruct (reach_single _ _ _ _ K1 Hr) as [->|Hr'].
    + vm_compute. reflexivity.
    + rewrite (reach_leaf _ _ _ K0 Hr'). vm_compute. reflexivity.
Qed.
Lemma x_live fs s : (forall k, In k (fs_kids fs) -> k < List.length (heap s)) -> kids_live s fs.
Proof. intros Hk k Hin. apply Hk; exact Hin. Qed.

Lemma x_guarded : guarded Hid ct0 empty_st x_ops.
Proof.
  eapply guarded_cons; [exact x_e1 | split; [intros k [] | intros _; exact x_g1]|].
  eapply guarded_cons; [exact x_e2 | exact I|].
  eapply guarded_cons; [exact x_e3 | split; [|intros _; exact x_g3]|].
  { intros k [<-|[]]. unfold live. vm_compute. lia. }
  eapply guarded_cons; [exact x_e4 | exact I|].
  eapply guarded_cons; [exact x_e5 | exact x_g5|].
  eapply guarded_cons; [exact x_e6 | exact I|].
  eapply guarded_cons; [exact x_e7 | exact I|].
  eapply guarded_cons; [exact x_e8 | split; [|left; reflexivity]|].
  { intros k [<-|[<-|[]]]; unfold live; vm_compute; lia. }
  exact I.
Qed.

Lemma x_trace : trace Hid ct0 empty_st x_ops = [empty_st; x_s1; x_s2; x_s3; x_s4; x_s5; x_s6; x_s7; x_s8].
Proof.
  unfold x_ops. cbn [trace]. rewrite x_e1. cbn [fst]. rewrite x_e2. cbn [fst]. rewrite x_e3. cbn [fst].
  rewrite x_e4. cbn [fst]. rewrite x_e5. cbn [fst]. rewrite x_e6. cbn [fst]. rewrite x_e7. cbn [fst].
  rewrite x_e8. reflexivity.
Qed.
Lemma x_inv2 x : In x [empty_st; x_s1; x_s2; x_s3; x_s4; x_s5; x_s6; x_s7; x_s8] -> Inv2 Hid ct0 x.
Proof. rewrite <- x_trace. apply inv2_history_empty. exact x_guarded. Qed.

(* what the examples of Props/C18.v state *)
Lemma x_example_history :
  guarded Hid ct0 empty_st x_ops /\ List.length (trace Hid ct0 empty_st x_ops) = 9 /\
  List.length (heap x_s8) = 5 /\ detached x_s8 1 = false /\ parent x_s8 0 = Some 1 /\ parent x_s8 2 = Some 3.
Proof. split; [exact x_guarded|]. rewrite x_trace. repeat split; vm_compute; reflexivity. Qed.
Lemma x_example_construct :
  Inv2 Hid ct0 x_s2 /\ detached x_s2 0 = true /\ kids_live x_s2 [(lit "req", FOne (Some 0)); (lit "opt", FOne None); (lit "tup", FSeq [])] /\
  step Hid ct0 x_s2 x_o3 = (x_s3, RNode 1) /\ new_guard Hid ct0 x_s2 x_s3 1 /\
  detached x_s3 0 = false /\ parent x_s3 0 = Some 1.
Proof.
  split; [apply x_inv2; simpl; tauto|]. split; [vm_compute; reflexivity|]. split.
  { intros k [<-|[]]. unfold live. vm_compute. lia. }
  split; [exact x_e3|]. split; [exact x_g3|]. split; vm_compute; reflexivity.
Qed.
Lemma x_example_detach :
  Inv2 Hid ct0 x_s3 /\ step Hid ct0 x_s3 x_o4 = (x_s4, RBool true) /\
  detached x_s3 0 = false /\ detached x_s4 0 = true /\ detached x_s4 1 = true /\ parent x_s4 0 = None.
Proof. split; [apply x_inv2; simpl; tauto|]. split; [exact x_e4|]. repeat split; vm_compute; reflexivity. Qed.
Lemma x_example_attach :
  Inv2 Hid ct0 x_s4 /\ att_guard Hid ct0 x_s4 1 /\ step Hid ct0 x_s4 x_o5 = (x_s5, RNone) /\
  detached x_s4 0 = true /\ detached x_s5 0 = false /\ parent x_s5 0 = Some 1.
Proof.
  split; [apply x_inv2; simpl; tauto|]. split; [exact x_g5|]. split; [exact x_e5|].
  repeat split; vm_compute; reflexivity.
Qed.
Lemma x_example_duplicate :
  Inv2 Hid ct0 x_s5 /\ step Hid ct0 x_s5 x_o6 = (x_s6, RNode 3) /\
  List.length (heap x_s6) = 4 /\ parent x_s6 2 = Some 3 /\ parent x_s6 0 = Some 1.
Proof. split; [apply x_inv2; simpl; tauto|]. split; [exact x_e6|]. repeat split; vm_compute; reflexivity. Qed.
Lemma x_example_new_rejected :
  Inv2 Hid ct0 x_s7 /\ step Hid ct0 x_s7 x_o8 = (x_s8, RErr EDup) /\ List.length (heap x_s8) = 5.
Proof. split; [apply x_inv2; simpl; tauto|]. split; [exact x_e8|]. vm_compute; reflexivity. Qed.

(* ---------- replace() / replace_with(None) on a parent-less receiver ---------- *)
Definition x_o9 := OReplace 1 [(lit "opt", CV (FOne None))].
Definition x_o10 := OReplaceWith 3 None.
Definition x_s9 := Eval vm_compute in fst (step Hid ct0 x_s8 x_o9).
Definition x_s10 := Eval vm_compute in fst (step Hid ct0 x_s9 x_o10).
Lemma x_e9 : step Hid ct0 x_s8 x_o9 = (x_s9, RNode 5). Proof. vm_compute; reflexivity. Qed.
Lemma x_e10 : step Hid ct0 x_s9 x_o10 = (x_s10, RNone). Proof. vm_compute; reflexivity. Qed.
Lemma x_g9 : new_guard Hid ct0 (fst (step Hid ct0 x_s8 (ODetachSelf 1))) x_s9 5.
Proof.
  assert (K1 : skids x_s9 5 = [0]) by (vm_compute; reflexivity).
  assert (K0 : skids x_s9 0 = []) by (vm_compute; reflexivity).
  split; [apply (tree_shaped_single _ _ _ K1); apply tree_shaped_leaf; exact K0|]. split.
  - apply (ids_apart_single_leaf _ _ _ _ K1 K0). intros Hp. vm_compute in Hp. discriminate.
  - intros d Hr Hne Hd. destruct (reach_single _ _ _ _ K1 Hr) as [->|Hr']; [contradiction|].
    rewrite (reach_leaf _ _ _ K0 Hr') in Hd. vm_compute in Hd. discriminate.
Qed.
Lemma x_k9 : kids_live x_s8 (apply_changes (c_fs (cellD x_s8 1)) [(lit "opt", CV (FOne None))]).
Proof. intros k Hk. vm_compute in Hk. destruct Hk as [<-|[]]. unfold live. vm_compute. lia. Qed.
Lemma x_guarded2 : guarded Hid ct0 x_s8 [x_o9; x_o10].
Proof.
  eapply guarded_cons; [exact x_e9 | |].
  { left. split; [vm_compute; reflexivity|]. split; [exact x_k9 | intros _; exact x_g9]. }
  eapply guarded_cons; [exact x_e10 | left; vm_compute; reflexivity|]. exact I.
Qed.
Lemma x_example_replace :
  Inv2 Hid ct0 x_s8 /\ parent x_s8 1 = None /\ detached x_s8 1 = false /\
  step Hid ct0 x_s8 x_o9 = (x_s9, RNode 5) /\
  kids_live x_s8 (apply_changes (c_fs (cellD x_s8 1)) [(lit "opt", CV (FOne None))]) /\
  new_guard Hid ct0 (fst (step Hid ct0 x_s8 (ODetachSelf 1))) x_s9 5 /\
  detached x_s9 1 = true /\ parent x_s9 0 = Some 5 /\
  guarded Hid ct0 x_s8 [x_o9; x_o10] /\ detached x_s10 3 = true /\ detached x_s10 2 = true.
Proof.
  split; [apply x_inv2; simpl; tauto|]. split; [vm_compute; reflexivity|]. split; [vm_compute; reflexivity|].
  split; [exact x_e9|]. split; [exact x_k9|]. split; [exact x_g9|].
  split; [vm_compute; reflexivity|]. split; [vm_compute; reflexivity|]. split; [exact x_guarded2|].
  split; vm_compute; reflexivity.
Qed.

Lemma x_example_queries :
  Inv2 Hid ct0 x_s3 /\ live x_s3 0 /\ attached x_s3 0 /\ ancestors (fuel_of x_s3) x_s3 0 = Some [1] /\
  get_depth x_s3 0 = Some 1.
Proof.
  split; [apply x_inv2; simpl; tauto|]. split; [unfold live; vm_compute; lia|].
  repeat split; vm_compute; reflexivity.
Qed.

(* ---------- replace_with(node) on a parent-less receiver, the node being a detached tree ---------- *)
Definition x_o11 := OReplaceWith 5 (Some 3).
Definition x_s11 := Eval vm_compute in fst (step Hid ct0 x_s10 x_o11).
Definition x_m11 := Eval vm_compute in fst (flip_ids (fst (step Hid ct0 x_s10 (ODetach 5))) 5 3).
Lemma x_e11 : step Hid ct0 x_s10 x_o11 = (x_s11, RNone). Proof. vm_compute; reflexivity. Qed.
Lemma x_m11_eq : fst (flip_ids (fst (step Hid ct0 x_s10 (ODetach 5))) 5 3) = x_m11.
Proof. vm_compute; reflexivity. Qed.
Lemma x_g11 : att_guard Hid ct0 x_m11 3.
Proof.
  assert (K1 : skids x_m11 3 = [2]) by (vm_compute; reflexivity).
  assert (K0 : skids x_m11 2 = []) by (vm_compute; reflexivity).
  split; [unfold live; vm_compute; lia|].
  split; [apply (tree_shaped_single _ _ _ K1); apply tree_shaped_leaf; exact K0|]. split.
  - apply (ids_apart_single_leaf _ _ _ _ K1 K0). intros _. vm_compute. discriminate.
  - intros d Hr _. destruct (reach_single _ _ _ _ K1 Hr) as [->|Hr'].
    + vm_compute. reflexivity.
    + rewrite (reach_leaf _ _ _ K0 Hr'). vm_compute. reflexivity.
Qed.
Lemma x_guarded3 : guarded Hid ct0 x_s10 [x_o11].
Proof.
  eapply guarded_cons; [exact x_e11 | | exact I].
  left. split; [vm_compute; reflexivity|]. rewrite x_m11_eq. exact x_g11.
Qed.
Lemma x_example_replace_with :
  Inv2 Hid ct0 x_s10 /\ parent x_s10 5 = None /\ detached x_s10 5 = false /\
  detached (fst (step Hid ct0 x_s10 (ODetach 5))) 3 = true /\
  att_guard Hid ct0 (fst (flip_ids (fst (step Hid ct0 x_s10 (ODetach 5))) 5 3)) 3 /\
  step Hid ct0 x_s10 x_o11 = (x_s11, RNone) /\
  detached x_s11 5 = true /\ detached x_s11 3 = false /\ parent x_s11 2 = Some 3 /\ id_of x_s11 3 = id_of x_s10 5.
Proof.
  split. { apply (inv2_history Hid ct0 [x_o9; x_o10] x_s8); [apply x_inv2; simpl; tauto | exact x_guarded2|].
           cbn [trace]. rewrite x_e9. cbn [fst]. rewrite x_e10. simpl. tauto. }
  split; [vm_compute; reflexivity|]. split; [vm_compute; reflexivity|]. split; [vm_compute; reflexivity|].
  split; [rewrite x_m11_eq; exact x_g11|]. split; [exact x_e11|].
  repeat split; vm_compute; reflexivity.
Qed.

Lemma x_example_detach_total :
  Inv2 Hid ct0 x_s3 /\ live x_s3 1 /\ step Hid ct0 x_s3 x_o4 = (x_s4, RBool true).
Proof. split; [apply x_inv2; simpl; tauto|]. split; [unfold live; vm_compute; lia | exact x_e4]. Qed.

(* ---------- replace_with(None) of a node in an optional single-child field of its parent ---------- *)
Definition w_o1 := leaf "a"%string.
Definition w_o2 := inner None (Some 0) [].
Definition w_o3 := OReplaceWith 0 None.
Definition w_s1 := Eval vm_compute in fst (step Hid ct0 empty_st w_o1).
Definition w_s2 := Eval vm_compute in fst (step Hid ct0 w_s1 w_o2).
Definition w_s3 := Eval vm_compute in fst (step Hid ct0 w_s2 w_o3).
Lemma w_e1 : step Hid ct0 empty_st w_o1 = (w_s1, RNode 0). Proof. vm_compute; reflexivity. Qed.
Lemma w_e2 : step Hid ct0 w_s1 w_o2 = (w_s2, RNode 1). Proof. vm_compute; reflexivity. Qed.
Lemma w_e3 : step Hid ct0 w_s2 w_o3 = (w_s3, RNone). Proof. vm_compute; reflexivity. Qed.
Lemma w_g1 : new_guard Hid ct0 empty_st w_s1 0.
Proof.
  assert (K : skids w_s1 0 = []) by (vm_compute; reflexivity).
  split; [apply tree_shaped_leaf; exact K|]. split; [apply ids_apart_leaf; exact K|].
  intros d Hr Hne. rewrite (reach_leaf _ _ _ K Hr) in Hne. contradiction.
Qed.
Lemma w_g2 : new_guard Hid ct0 w_s1 w_s2 1.
Proof.
  assert (K1 : skids w_s2 1 = [0]) by (vm_compute; reflexivity).
  assert (K0 : skids w_s2 0 = []) by (vm_compute; reflexivity).
  split; [apply (tree_shaped_single _ _ _ K1); apply tree_shaped_leaf; exact K0|]. split.
  - apply (ids_apart_single_leaf _ _ _ _ K1 K0). intros Hp. vm_compute in Hp. discriminate.
  - intros d Hr Hne Hd. destruct (reach_single _ _ _ _ K1 Hr) as [->|Hr']; [contradiction|].
    rewrite (reach_leaf _ _ _ K0 Hr') in Hd. vm_compute in Hd. discriminate.
Qed.
Lemma w_g3 : step_guard Hid ct0 w_s2 w_o3 w_s3 RNone.
Proof.
  right. split; [unfold live; vm_compute; lia|]. split; [vm_compute; reflexivity|].
  exists 1, (lit "opt"). split; [vm_compute; reflexivity|]. split; [vm_compute; reflexivity|].
  vm_compute. repeat constructor; simpl; intuition discriminate.
Qed.
Lemma w_guarded : guarded Hid ct0 empty_st [w_o1; w_o2; w_o3].
Proof.
  eapply guarded_cons; [exact w_e1 | split; [intros k [] | intros _; exact w_g1]|].
  eapply guarded_cons; [exact w_e2 | split; [|intros _; exact w_g2]|].
  { intros k [<-|[]]. unfold live. vm_compute. lia. }
  eapply guarded_cons; [exact w_e3 | exact w_g3 | exact I].
Qed.
Lemma w_example_remove :
  Inv2 Hid ct0 w_s2 /\ live w_s2 0 /\ attached w_s2 0 /\ parent w_s2 0 = Some 1 /\
  c_pf (cellD w_s2 0) = Some (lit "opt") /\ c_pi (cellD w_s2 0) = None /\
  NoDup (map fst (c_fs (cellD w_s2 1))) /\
  step Hid ct0 w_s2 w_o3 = (w_s3, RNone) /\
  detached w_s3 0 = true /\ skids w_s3 1 = [] /\ c_cid (cellD w_s3 1) <> c_cid (cellD w_s2 1) /\
  guarded Hid ct0 empty_st [w_o1; w_o2; w_o3].
Proof.
  split. { apply (inv2_history_empty Hid ct0 [w_o1; w_o2; w_o3] w_guarded).
           cbn [trace]. rewrite w_e1. cbn [fst]. rewrite w_e2. simpl. tauto. }
  split; [unfold live; vm_compute; lia|]. split; [vm_compute; reflexivity|]. split; [vm_compute; reflexivity|].
  split; [vm_compute; reflexivity|]. split; [vm_compute; reflexivity|].
  split. { vm_compute. repeat constructor; simpl; intuition discriminate. }
  split; [exact w_e3|]. split; [vm_compute; reflexivity|]. split; [vm_compute; reflexivity|].
  split; [vm_compute; discriminate | exact w_guarded].
Qed.

(* ---------- replace_with(None) of the FIRST element of a tuple field: the sibling's index shifts ---------- *)
Lemma reach_two s a k1 k2 d : skids s a = [k1; k2] -> reach s a d -> d = a \/ reach s k1 d \/ reach s k2 d.
Proof.
  intros Hk Hr. destruct (reach_inv _ _ _ Hr) as [->|[k' [Hin Hr']]]; [left; reflexivity|].
  rewrite Hk in Hin. destruct Hin as [<-|[<-|[]]]; auto.
Qed.
Lemma tree_shaped_two_leaves s a k1 k2 :
  skids s a = [k1; k2] -> k1 <> k2 -> skids s k1 = [] -> skids s k2 = [] -> tree_shaped s a.
Proof.
  intros Ha Hne H1 H2 d Hr. destruct (reach_two _ _ _ _ _ Ha Hr) as [->|[Hr'|Hr']].
  - rewrite Ha. split.
    + constructor; [intros [E|[]]; congruence | constructor; [intros [] | constructor]].
    + intros x1 x2 x [<-|[<-|[]]] [<-|[<-|[]]] Hn R1 R2; try contradiction.
      * rewrite (reach_leaf _ _ _ H1 R1) in *. rewrite (reach_leaf _ _ _ H2 R2) in Hne. contradiction.
      * rewrite (reach_leaf _ _ _ H2 R1) in *. rewrite (reach_leaf _ _ _ H1 R2) in Hne. congruence.
  - rewrite (reach_leaf _ _ _ H1 Hr'). exact (tree_shaped_leaf s k1 H1 k1 (reach_refl _ _)).
  - rewrite (reach_leaf _ _ _ H2 Hr'). exact (tree_shaped_leaf s k2 H2 k2 (reach_refl _ _)).
Qed.
Lemma ids_apart_two_leaves (P : nat -> Prop) s a k1 k2 :
  skids s a = [k1; k2] -> skids s k1 = [] -> skids s k2 = [] -> ~ P k1 -> ~ P k2 -> ids_apart P s a.
Proof.
  intros Ha H1 H2 P1 P2 d d' R1 R2 Hne Hp. exfalso.
  assert (Hleaf : forall k, (k = k1 \/ k = k2) -> reach s k d' -> d' = k).
  { intros k [->| ->] Hr; [apply (reach_leaf _ _ _ H1 Hr) | apply (reach_leaf _ _ _ H2 Hr)]. }
  destruct (reach_two _ _ _ _ _ Ha R1) as [->|[Hr|Hr]].
  - destruct (reach_two _ _ _ _ _ Ha R2) as [->|[Hr|Hr]]; [contradiction| |].
    + rewrite (reach_leaf _ _ _ H1 Hr) in Hp. contradiction.
    + rewrite (reach_leaf _ _ _ H2 Hr) in Hp. contradiction.
  - rewrite (reach_leaf _ _ _ H1 Hr) in *. rewrite (reach_leaf _ _ _ H1 R2) in Hne. contradiction.
  - rewrite (reach_leaf _ _ _ H2 Hr) in *. rewrite (reach_leaf _ _ _ H2 R2) in Hne. contradiction.
Qed.

Definition v_o1 := leaf "a"%string.
Definition v_o2 := leaf "b"%string.
Definition v_o3 := inner None None [0; 1].
Definition v_o4 := OReplaceWith 0 None.
Definition v_s1 := Eval vm_compute in fst (step Hid ct0 empty_st v_o1).
Definition v_s2 := Eval vm_compute in fst (step Hid ct0 v_s1 v_o2).
Definition v_s3 := Eval vm_compute in fst (step Hid ct0 v_s2 v_o3).
Definition v_s4 := Eval vm_compute in fst (step Hid ct0 v_s3 v_o4).
Lemma v_e1 : step Hid ct0 empty_st v_o1 = (v_s1, RNode 0). Proof. vm_compute; reflexivity. Qed.
Lemma v_e2 : step Hid ct0 v_s1 v_o2 = (v_s2, RNode 1). Proof. vm_compute; reflexivity. Qed.
Lemma v_e3 : step Hid ct0 v_s2 v_o3 = (v_s3, RNode 2). Proof. vm_compute; reflexivity. Qed.
Lemma v_e4 : step Hid ct0 v_s3 v_o4 = (v_s4, RNone). Proof. vm_compute; reflexivity. Qed.
Lemma v_gleaf s s' r : skids s' r = [] -> new_guard Hid ct0 s s' r.
Proof.
  intros K. split; [apply tree_shaped_leaf; exact K|]. split; [apply ids_apart_leaf; exact K|].
  intros d Hr Hne. rewrite (reach_leaf _ _ _ K Hr) in Hne. contradiction.
Qed.
Lemma v_g3 : new_guard Hid ct0 v_s2 v_s3 2.
Proof.
  assert (K2 : skids v_s3 2 = [0; 1]) by (vm_compute; reflexivity).
  assert (K0 : skids v_s3 0 = []) by (vm_compute; reflexivity).
  assert (K1 : skids v_s3 1 = []) by (vm_compute; reflexivity).
  split; [apply (tree_shaped_two_leaves _ _ _ _ K2); [discriminate | exact K0 | exact K1]|]. split.
  - apply (ids_apart_two_leaves _ _ _ _ _ K2 K0 K1); intros Hp; vm_compute in Hp; discriminate.
  - intros d Hr Hne Hd. destruct (reach_two _ _ _ _ _ K2 Hr) as [->|[Hr'|Hr']]; [contradiction| |].
    + rewrite (reach_leaf _ _ _ K0 Hr') in Hd. vm_compute in Hd. discriminate.
    + rewrite (reach_leaf _ _ _ K1 Hr') in Hd. vm_compute in Hd. discriminate.
Qed.
Lemma v_g4 : step_guard Hid ct0 v_s3 v_o4 v_s4 RNone.
Proof.
  right. split; [unfold live; vm_compute; lia|]. split; [vm_compute; reflexivity|].
  exists 2, (lit "tup"). split; [vm_compute; reflexivity|]. split; [vm_compute; reflexivity|].
  vm_compute. repeat constructor; simpl; intuition discriminate.
Qed.
Lemma v_guarded : guarded Hid ct0 empty_st [v_o1; v_o2; v_o3; v_o4].
Proof.
  eapply guarded_cons; [exact v_e1 | split; [intros k [] | intros _; apply v_gleaf; vm_compute; reflexivity]|].
  eapply guarded_cons; [exact v_e2 | split; [intros k [] | intros _; apply v_gleaf; vm_compute; reflexivity]|].
  eapply guarded_cons; [exact v_e3 | split; [|intros _; exact v_g3]|].
  { intros k [<-|[<-|[]]]; unfold live; vm_compute; lia. }
  eapply guarded_cons; [exact v_e4 | exact v_g4 | exact I].
Qed.
Lemma v_example_remove_seq :
  Inv2 Hid ct0 v_s3 /\ live v_s3 0 /\ attached v_s3 0 /\ parent v_s3 0 = Some 2 /\
  c_pf (cellD v_s3 0) = Some (lit "tup") /\ c_pi (cellD v_s3 0) = Some 0 /\ c_pi (cellD v_s3 1) = Some 1 /\
  NoDup (map fst (c_fs (cellD v_s3 2))) /\
  step Hid ct0 v_s3 v_o4 = (v_s4, RNone) /\
  detached v_s4 0 = true /\ skids v_s4 2 = [1] /\ c_pi (cellD v_s4 1) = Some 0 /\
  c_cid (cellD v_s4 2) <> c_cid (cellD v_s3 2) /\
  guarded Hid ct0 empty_st [v_o1; v_o2; v_o3; v_o4].
Proof.
  split. { apply (inv2_history_empty Hid ct0 [v_o1; v_o2; v_o3; v_o4] v_guarded).
           cbn [trace]. rewrite v_e1. cbn [fst]. rewrite v_e2. cbn [fst]. rewrite v_e3. simpl. tauto. }
  split; [unfold live; vm_compute; lia|]. split; [vm_compute; reflexivity|]. split; [vm_compute; reflexivity|].
  split; [vm_compute; reflexivity|]. split; [vm_compute; reflexivity|]. split; [vm_compute; reflexivity|].
  split. { vm_compute. repeat constructor; simpl; intuition discriminate. }
  split; [exact v_e4|]. split; [vm_compute; reflexivity|]. split; [vm_compute; reflexivity|].
  split; [vm_compute; reflexivity|]. split; [vm_compute; discriminate | exact v_guarded].
Qed.
