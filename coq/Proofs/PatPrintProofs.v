(* C17, pattern half: every text derived from PATTERN_DEF_GRAMMAR, with ANY white space before every token and
   after the last one, is read back by the parser of Model/PatParse.v as the AST it was printed from.
   Bottom-up: the token list of an AST ([pat_toks]), texts obtained from a token list by inserting white space
   ([padded]), one lexer lemma per terminal under its token-boundary condition, then the four mutually recursive
   parser functions by induction on the AST with the remaining text [K] generalised. *)
From Oak Require Import Model.Pattern Model.PatParse Proofs.PatternProofs.
From Oak Require Import Base.Term.
From Coq Require Import List Bool Ascii Arith Lia.
Import ListNotations.

(* ------------------------------------------------------------------ tokens and printing *)
Inductive ptok :=
| TLp | TRp | TStar | TBar | TAt | TEq | TLb | TRb | TArrow | TDollar | TNone
| TName (n : pystr) | TKey (k : pystr) | TStr (r : pystr).

Notation dq := (""""%char).
Definition ptok_text (t : ptok) : pystr :=
  match t with
  | TLp => ["("%char] | TRp => [")"%char] | TStar => ["*"%char] | TBar => ["|"%char] | TAt => ["@"%char]
  | TEq => ["="%char] | TLb => ["["%char] | TRb => ["]"%char] | TArrow => ["-"%char; ">"%char] | TDollar => ["$"%char]
  | TNone => ["N"%char; "o"%char; "n"%char; "e"%char]
  | TName n => n | TKey k => k
  | TStr r => dq :: r ++ [dq]                      (* the raw regex text between the quotes *)
  end.

Definition cap_toks (cap : option pystr) : list ptok := match cap with Some k => [TArrow; TKey k] | None => [] end.
Definition cls_toks (cls : option (list pystr)) : list ptok :=
  match cls with
  | None => [TStar]
  | Some [] => []                                   (* not derivable: excluded by pat_ok *)
  | Some (c :: cs) => TName c :: flat_map (fun d => [TBar; TName d]) cs
  end.
Fixpoint pat_toks (p : pat) : list ptok :=
  match p with
  | PTree cls fs => TLp :: cls_toks cls ++ (flat_map (fun f => TAt :: TName (fst f) :: fspec_toks (snd f)) fs ++ [TRp])
  end
with fspec_toks (s : fspec) : list ptok :=
  match s with
  | FAny cap => cap_toks cap
  | FVal v cap => TEq :: vpat_toks v ++ cap_toks cap
  | FSeq items tail cap =>
    TEq :: TLb :: (flat_map (fun it => vpat_toks (fst it) ++ cap_toks (snd it)) items
                   ++ (match tail with Some tc => TStar :: cap_toks tc | None => [] end) ++ [TRb]) ++ cap_toks cap
  end
with vpat_toks (v : vpat) : list ptok :=
  match v with
  | VTree p => pat_toks p
  | VVar x => [TDollar; TKey x]
  | VNoneP => [TNone]
  | VRegex r => [TStr r]
  end.
Definition fields_toks (fs : list (pystr * fspec)) : list ptok :=
  flat_map (fun f => TAt :: TName (fst f) :: fspec_toks (snd f)) fs ++ [TRp].
Definition tail_toks (tail : option (option pystr)) : list ptok :=
  match tail with Some tc => TStar :: cap_toks tc | None => [] end.
Definition seq_toks (items : list (vpat * option pystr)) (tail : option (option pystr)) : list ptok :=
  flat_map (fun it => vpat_toks (fst it) ++ cap_toks (snd it)) items ++ tail_toks tail ++ [TRb].

(* white space *)
Definition pws (w : pystr) : Prop := forallb is_ws w = true.
(* a text of the token list: any white space before every token *)
Inductive padded : list ptok -> pystr -> Prop :=
| pad_nil : padded [] []
| pad_cons w t ts s : pws w -> padded ts s -> padded (t :: ts) (w ++ ptok_text t ++ s).

(* the printer: one white-space string per token, and the trailing white space *)
Definition pprint_toks (wts : list (pystr * ptok)) : pystr := flat_map (fun wt => fst wt ++ ptok_text (snd wt)) wts.
Definition print_pattern (ws : list pystr) (trail : pystr) (p : pat) : pystr :=
  pprint_toks (combine ws (pat_toks p)) ++ trail.

(* ------------------------------------------------------------------ token-boundary side conditions *)
(* CNAME *)
Definition cname_ok (n : pystr) : Prop :=
  match n with c :: r => cname_start c = true /\ forallb cname_char r = true | [] => False end.
(* CAPTURE_KEY: ("_"|LCASE_LETTER)* LCASE_LETTER *)
Definition key_ok (k : pystr) : Prop :=
  forallb capkey_char k = true /\ match rev k with c :: _ => is_lower c = true | [] => False end.
(* the inner text of an ESCAPED_STRING: no newline, every quote preceded by an odd number of backslashes,
   an even number of backslashes at the end (odd = an odd number of backslashes just before) *)
Fixpoint str_scan (r : pystr) (odd : bool) : bool :=
  match r with
  | [] => negb odd
  | c :: r' =>
    let n := nat_of_ascii c in
    if Nat.eqb n 10 then false
    else if Nat.eqb n 34 then odd && str_scan r' false
    else str_scan r' (if Nat.eqb n 92 then negb odd else false)
  end.
Definition str_ok (r : pystr) : Prop := str_scan r false = true.

Definition forall_p {A : Type} (P : A -> Prop) : list A -> Prop :=
  fix go (l : list A) : Prop := match l with [] => True | x :: r => P x /\ go r end.
Definition cap_ok (cap : option pystr) : Prop := match cap with Some k => key_ok k | None => True end.
Definition cls_ok (cls : option (list pystr)) : Prop :=
  match cls with None => True | Some l => l <> [] /\ forall_p cname_ok l end.
Fixpoint pat_ok (p : pat) : Prop :=
  match p with
  | PTree cls fs => cls_ok cls /\ forall_p (fun f => cname_ok (fst f) /\ fspec_ok (snd f)) fs
  end
with fspec_ok (s : fspec) : Prop :=
  match s with
  | FAny cap => cap_ok cap
  | FVal v cap => vpat_ok v /\ cap_ok cap
  | FSeq items tail cap =>
    forall_p (fun it => vpat_ok (fst it) /\ cap_ok (snd it)) items
    /\ (match tail with Some tc => cap_ok tc | None => True end) /\ cap_ok cap
  end
with vpat_ok (v : vpat) : Prop :=
  match v with
  | VTree p => pat_ok p
  | VVar x => key_ok x
  | VNoneP => True
  | VRegex r => str_ok r
  end.

(* ------------------------------------------------------------------ padded texts *)
Lemma padded_cons_inv t ts s : padded (t :: ts) s -> exists w s', s = w ++ ptok_text t ++ s' /\ pws w /\ padded ts s'.
Proof. intros Hp. inversion Hp; subst. eauto. Qed.
Lemma padded_nil_inv s : padded [] s -> s = [].
Proof. intros Hp. inversion Hp. reflexivity. Qed.
Lemma padded_app_inv a b s : padded (a ++ b) s -> exists s1 s2, s = s1 ++ s2 /\ padded a s1 /\ padded b s2.
Proof.
  revert s. induction a as [|t a IH]; intros s Hp; simpl in Hp.
  - exists [], s. repeat split; [constructor|exact Hp].
  - apply padded_cons_inv in Hp. destruct Hp as (w & s' & -> & Hw & Hp).
    destruct (IH _ Hp) as (s1 & s2 & -> & H1 & H2).
    exists (w ++ ptok_text t ++ s1), s2. rewrite <- !app_assoc. repeat split; [constructor; assumption|exact H2].
Qed.
Lemma padded_print ts : forall ws, length ws = length ts -> Forall pws ws -> padded ts (pprint_toks (combine ws ts)).
Proof.
  induction ts as [|t ts IH]; intros ws Hl Hw.
  - destruct ws; [|discriminate]. constructor.
  - destruct ws as [|w ws]; [discriminate|]. inversion Hw; subst. simpl in Hl.
    unfold pprint_toks. simpl. rewrite <- app_assoc. constructor; [assumption|]. apply IH; [lia|assumption].
Qed.

(* ------------------------------------------------------------------ characters *)
Ltac ascii_cases c := destruct c as [[|] [|] [|] [|] [|] [|] [|] [|]]; vm_compute; try reflexivity; try discriminate; auto.

Lemma ws_not_cname_char c : is_ws c = true -> cname_char c = false.
Proof. ascii_cases c. Qed.
Lemma ws_not_capkey c : is_ws c = true -> capkey_char c = false.
Proof. ascii_cases c. Qed.
Lemma cname_start_not_ws c : cname_start c = true -> is_ws c = false.
Proof. ascii_cases c. Qed.
Lemma capkey_not_ws c : capkey_char c = true -> is_ws c = false.
Proof. ascii_cases c. Qed.
Lemma lower_not_us c : is_lower c = true -> is_us c = false.
Proof. ascii_cases c. Qed.

Lemma skip_ws_app w s : pws w -> skip_ws (w ++ s) = skip_ws s.
Proof.
  unfold pws. induction w as [|c w IH]; simpl; [reflexivity|]. intros Hw. apply andb_prop in Hw.
  destruct Hw as [Hc Hw]. rewrite Hc. apply IH. exact Hw.
Qed.
Lemma skip_ws_cons c s : is_ws c = false -> skip_ws (c :: s) = c :: s.
Proof. intros Hc. simpl. rewrite Hc. reflexivity. Qed.
Lemma skip_ws_all w : pws w -> skip_ws w = [].
Proof. intros Hw. rewrite <- (app_nil_r w). rewrite skip_ws_app by exact Hw. reflexivity. Qed.

(* the next character does not continue a token made of P-characters *)
Definition nb (P : ascii -> bool) (K : pystr) : Prop := match K with [] => True | c :: _ => P c = false end.

(* K starts, after white space, with one of the characters of S *)
Definition follows (S : pystr) (K : pystr) : Prop := exists w c K', K = w ++ c :: K' /\ pws w /\ In c S.

Lemma follows_mono S S' K : incl S S' -> follows S K -> follows S' K.
Proof. intros Hi (w & c & K' & E & Hw & Hc). exists w, c, K'. auto. Qed.
Lemma follows_skip S K : forallb (fun c => negb (is_ws c)) S = true -> follows S K ->
  exists c K', In c S /\ skip_ws K = c :: K'.
Proof.
  intros HS (w & c & K' & -> & Hw & Hc). exists c, K'. split; [exact Hc|].
  rewrite skip_ws_app by exact Hw. apply skip_ws_cons.
  rewrite forallb_forall in HS. specialize (HS c Hc). destruct (is_ws c); [discriminate|reflexivity].
Qed.
Lemma follows_nb (P : ascii -> bool) S K :
  (forall c, is_ws c = true -> P c = false) -> forallb (fun c => negb (P c)) S = true -> follows S K -> nb P K.
Proof.
  intros HP HS (w & c & K' & -> & Hw & Hc). destruct w as [|d w]; simpl.
  - rewrite forallb_forall in HS. specialize (HS c Hc). destruct (P c); [discriminate|reflexivity].
  - unfold pws in Hw. simpl in Hw. apply andb_prop in Hw. apply HP. apply Hw.
Qed.
Lemma padded_follows t ts s K c r S : padded (t :: ts) s -> ptok_text t = c :: r -> In c S -> follows S (s ++ K).
Proof.
  intros Hp Ht Hc. apply padded_cons_inv in Hp. destruct Hp as (w & s' & -> & Hw & _).
  exists w, c, (r ++ s' ++ K). rewrite Ht. rewrite <- !app_assoc. simpl. auto.
Qed.

(* ------------------------------------------------------------------ the lexer, terminal by terminal *)
Lemma span_prefix (P : ascii -> bool) a K : forallb P a = true -> nb P K -> span P (a ++ K) = (a, K).
Proof.
  intros Ha HK. induction a as [|c a IH]; simpl.
  - destruct K as [|d K]; [reflexivity|]. simpl in HK. simpl. rewrite HK. reflexivity.
  - simpl in Ha. apply andb_prop in Ha. destruct Ha as [Hc Ha]. rewrite Hc. rewrite IH by exact Ha. reflexivity.
Qed.

(* CNAME *)
Lemma lex_cname_ok n K : cname_ok n -> nb cname_char K -> lex_cname (n ++ K) = Some (n, K).
Proof.
  destruct n as [|c r]; simpl; [tauto|]. intros [Hc Hr] HK. rewrite Hc. rewrite span_prefix by assumption. reflexivity.
Qed.
Lemma skip_ws_cname n K : cname_ok n -> skip_ws (n ++ K) = n ++ K.
Proof. destruct n as [|c r]; simpl; [tauto|]. intros [Hc _]. rewrite (cname_start_not_ws _ Hc). reflexivity. Qed.

(* CAPTURE_KEY *)
Lemma lex_capkey_ok k K : key_ok k -> nb capkey_char K -> lex_capkey (k ++ K) = Some (k, K).
Proof.
  intros [Hk Hl] HK. unfold lex_capkey. rewrite span_prefix by assumption.
  destruct (rev k) as [|c r] eqn:E; [contradiction|].
  simpl. rewrite (lower_not_us _ Hl).
  assert (Ek : rev r ++ [c] = k) by (rewrite <- (rev_involutive k), E; reflexivity).
  rewrite Ek. destruct k as [|a k']; [destruct (rev r); discriminate|]. reflexivity.
Qed.
Lemma skip_ws_key k K : key_ok k -> skip_ws (k ++ K) = k ++ K.
Proof.
  intros [Hk Hl]. destruct k as [|c r]; [contradiction|]. simpl in Hk. apply andb_prop in Hk. destruct Hk as [Hc _].
  simpl. rewrite (capkey_not_ws _ Hc). reflexivity.
Qed.

(* ESCAPED_STRING after its opening quote *)
Lemma lex_string_ok r : forall odd K, str_scan r odd = true -> lex_string (r ++ dq :: K) odd = Some (r, K).
Proof.
  induction r as [|c r IH]; intros odd K Hs.
  - simpl in Hs. destruct odd; [discriminate|]. reflexivity.
  - cbn [str_scan] in Hs. cbn [app lex_string]. cbv zeta in Hs |- *.
    destruct (Nat.eqb (nat_of_ascii c) 10); [discriminate|].
    destruct (Nat.eqb (nat_of_ascii c) 34).
    + apply andb_prop in Hs. destruct Hs as [Ho Hs]. rewrite Ho. rewrite IH by exact Hs. reflexivity.
    + rewrite IH by exact Hs. reflexivity.
Qed.

(* ------------------------------------------------------------------ what may follow what *)
Definition F_fld : pystr := ["@"%char; ")"%char].                                   (* after class_spec / field_spec *)
Definition F_vstart : pystr := ["("%char; "$"%char; "N"%char; """"%char].           (* a value starts *)
Definition F_seq : pystr := F_vstart ++ ["*"%char; "]"%char].                       (* inside the brackets *)
Definition F_cap : pystr := F_fld ++ F_seq.                                         (* after an optional capture *)
Definition F_val : pystr := "-"%char :: F_cap.                                      (* after a value *)
Definition F_cls : pystr := "|"%char :: F_fld.                                      (* after CLASS *)
Definition F_fname : pystr := "="%char :: "-"%char :: F_fld.                        (* after FIELD_NAME *)

Lemma follows_val_nb K : follows F_val K -> nb capkey_char K.
Proof. apply follows_nb; [exact ws_not_capkey|reflexivity]. Qed.
Lemma follows_cap_nb K : follows F_cap K -> nb capkey_char K.
Proof. apply follows_nb; [exact ws_not_capkey|reflexivity]. Qed.
Lemma follows_cls_nb K : follows F_cls K -> nb cname_char K.
Proof. apply follows_nb; [exact ws_not_cname_char|reflexivity]. Qed.
Lemma follows_fname_nb K : follows F_fname K -> nb cname_char K.
Proof. apply follows_nb; [exact ws_not_cname_char|reflexivity]. Qed.

Ltac incl_tac := let x := fresh in let Hx := fresh in intros x Hx; simpl in Hx |- *; tauto.
Ltac pinv H :=
  let w := fresh "w" in let s := fresh "s" in let Hw := fresh "Hw" in let E := fresh "E" in
  apply padded_cons_inv in H; destruct H as [w [s [E [Hw H]]]];
  match type of E with ?x = _ => subst x end.
Ltac pnil H := apply padded_nil_inv in H; subst.
Ltac norm := repeat rewrite <- app_assoc; cbn [ptok_text app]; repeat rewrite <- app_assoc; cbn [app].
Ltac lens H := repeat first [ rewrite app_length in H | progress cbn [length ptok_text] in H ].

Lemma fields_toks_cons f sp fs : fields_toks ((f, sp) :: fs) = TAt :: TName f :: fspec_toks sp ++ fields_toks fs.
Proof. unfold fields_toks. simpl. rewrite <- app_assoc. reflexivity. Qed.
Lemma seq_toks_cons v c items tail : seq_toks ((v, c) :: items) tail = vpat_toks v ++ cap_toks c ++ seq_toks items tail.
Proof. unfold seq_toks. simpl. rewrite <- !app_assoc. reflexivity. Qed.

Lemma cap_follows cap s K S : padded (cap_toks cap) s -> follows S K -> follows ("-"%char :: S) (s ++ K).
Proof.
  intros Hp HF. destruct cap as [k|]; simpl in Hp.
  - eapply padded_follows; [exact Hp|reflexivity|left; reflexivity].
  - pnil Hp. simpl. eapply follows_mono; [|exact HF]. apply incl_tl, incl_refl.
Qed.
Lemma fields_follow fs s K : padded (fields_toks fs) s -> follows F_fld (s ++ K).
Proof.
  intros Hp. destruct fs as [|[f sp] fs].
  - eapply padded_follows; [exact Hp|reflexivity|simpl; tauto].
  - rewrite fields_toks_cons in Hp. eapply padded_follows; [exact Hp|reflexivity|simpl; tauto].
Qed.
Lemma vpat_follow v s K : padded (vpat_toks v) s -> follows F_vstart (s ++ K).
Proof.
  intros Hp. destruct v as [[cls fs]|x| |r]; simpl in Hp;
    (eapply padded_follows; [exact Hp|reflexivity|simpl; tauto]).
Qed.
Lemma seq_follow items tail s K : padded (seq_toks items tail) s -> follows F_seq (s ++ K).
Proof.
  intros Hp. destruct items as [|[v c] items].
  - unfold seq_toks in Hp. simpl in Hp. destruct tail as [tc|]; simpl in Hp;
      (eapply padded_follows; [exact Hp|reflexivity|simpl; tauto]).
  - rewrite seq_toks_cons in Hp. apply padded_app_inv in Hp. destruct Hp as (s1 & s2 & -> & H1 & _).
    rewrite <- app_assoc. eapply follows_mono; [|eapply vpat_follow; exact H1]. incl_tac.
Qed.
Lemma fspec_follow sp s K : padded (fspec_toks sp) s -> follows F_fld K -> follows F_fname (s ++ K).
Proof.
  intros Hp HF. destruct sp as [cap|v cap|items tail cap]; simpl in Hp.
  - eapply follows_mono; [|eapply cap_follows; eauto]. incl_tac.
  - eapply padded_follows; [exact Hp|reflexivity|simpl; tauto].
  - eapply padded_follows; [exact Hp|reflexivity|simpl; tauto].
Qed.

(* ------------------------------------------------------------------ capture? *)
Lemma p_capture_none K : follows F_cap K -> p_capture K = Some (None, K).
Proof.
  intros HF. destruct (follows_skip F_cap K eq_refl HF) as (c & K' & Hc & E). unfold p_capture. rewrite E.
  simpl in Hc. repeat (destruct Hc as [<-|Hc]; [reflexivity|]). contradiction.
Qed.
Lemma p_capture_ok cap s K : cap_ok cap -> padded (cap_toks cap) s -> follows F_cap K -> p_capture (s ++ K) = Some (cap, K).
Proof.
  intros Hok Hp HF. destruct cap as [k|]; simpl in Hok, Hp.
  - pinv Hp. pinv Hp. pnil Hp. norm.
    unfold p_capture. rewrite skip_ws_app by assumption. rewrite skip_ws_cons by reflexivity. cbv iota.
    rewrite skip_ws_app by assumption. rewrite skip_ws_key by exact Hok.
    rewrite lex_capkey_ok; [reflexivity|exact Hok|apply follows_cap_nb; exact HF].
  - pnil Hp. apply p_capture_none. exact HF.
Qed.

(* ------------------------------------------------------------------ class_spec *)
Notation bar_toks cs := (flat_map (fun d => [TBar; TName d]) cs).
Lemma p_more_classes_eq k s : p_more_classes (S k) s =
  match skip_ws s with
  | "|"%char :: r =>
    match lex_cname (skip_ws r) with
    | Some (c, rest) => match p_more_classes k rest with Some (cs, rest') => Some (c :: cs, rest') | None => None end
    | None => None
    end
  | _ => Some ([], s)
  end.
Proof. reflexivity. Qed.
Lemma bar_follow cs s K : padded (bar_toks cs) s -> follows F_fld K -> follows F_cls (s ++ K).
Proof.
  intros Hp HF. destruct cs as [|d cs]; simpl in Hp.
  - pnil Hp. eapply follows_mono; [|exact HF]. incl_tac.
  - eapply padded_follows; [exact Hp|reflexivity|simpl; tauto].
Qed.
Lemma bar_len cs : forall s, padded (bar_toks cs) s -> length cs <= length s.
Proof.
  induction cs as [|d cs IH]; intros s Hp; simpl in *; [lia|].
  pinv Hp. pinv Hp. apply IH in Hp. rewrite ?app_length. simpl. rewrite ?app_length. lia.
Qed.
Lemma p_more_classes_ok cs : forall s K fuel, forall_p cname_ok cs -> padded (bar_toks cs) s -> follows F_fld K ->
  length cs < fuel -> p_more_classes fuel (s ++ K) = Some (cs, K).
Proof.
  induction cs as [|d cs IH]; intros s K fuel Hok Hp HF Hl; (destruct fuel as [|k]; [lia|]); rewrite p_more_classes_eq.
  - simpl in Hp. pnil Hp. simpl.
    destruct (follows_skip F_fld K eq_refl HF) as (c & K' & Hc & E). rewrite E.
    simpl in Hc. repeat (destruct Hc as [<-|Hc]; [reflexivity|]). contradiction.
  - simpl in Hp, Hok, Hl. destruct Hok as [Hd Hok]. pinv Hp. pinv Hp. norm.
    rewrite skip_ws_app by assumption. rewrite skip_ws_cons by reflexivity. cbv iota.
    rewrite skip_ws_app by assumption. rewrite skip_ws_cname by exact Hd.
    rewrite lex_cname_ok; [|exact Hd|apply follows_cls_nb; eapply bar_follow; eauto].
    rewrite IH; [reflexivity|assumption|assumption|assumption|lia].
Qed.
Lemma p_class_spec_cname s a r : skip_ws s = a :: r -> cname_start a = true ->
  p_class_spec s =
  match lex_cname (a :: r) with
  | Some (c, rest) =>
    match p_more_classes (S (length rest)) rest with
    | Some (cs, rest') => Some (Some (c :: cs), rest')
    | None => None
    end
  | None => None
  end.
Proof.
  intros E Hc. unfold p_class_spec. rewrite E.
  destruct a as [[|] [|] [|] [|] [|] [|] [|] [|]]; try reflexivity. vm_compute in Hc. discriminate.
Qed.
Lemma p_class_spec_ok cls s K : cls_ok cls -> padded (cls_toks cls) s -> follows F_fld K ->
  p_class_spec (s ++ K) = Some (cls, K).
Proof.
  intros Hok Hp HF. destruct cls as [[|c cs]|]; simpl in Hok, Hp.
  - destruct Hok as [Hne _]. congruence.
  - destruct Hok as [_ [Hc Hcs]]. pinv Hp. norm.
    assert (Hnb : nb cname_char (s0 ++ K)) by (apply follows_cls_nb; eapply bar_follow; eauto).
    destruct c as [|a c']; [contradiction|].
    rewrite (p_class_spec_cname _ a (c' ++ s0 ++ K)).
    + change (a :: c' ++ s0 ++ K) with ((a :: c') ++ s0 ++ K). rewrite lex_cname_ok by assumption.
      rewrite (p_more_classes_ok cs s0 K); [reflexivity|assumption|assumption|assumption|].
      apply (bar_len cs) in Hp. rewrite app_length. lia.
    + rewrite skip_ws_app by assumption. change (a :: c' ++ s0 ++ K) with ((a :: c') ++ s0 ++ K).
      apply skip_ws_cname. exact Hc.
    + apply Hc.
  - pinv Hp. pnil Hp. norm. unfold p_class_spec. rewrite skip_ws_app by assumption. rewrite skip_ws_cons by reflexivity.
    reflexivity.
Qed.

(* ------------------------------------------------------------------ the four parser functions, one step unfolded *)
Definition val_body (k : nat) (r2 : pystr) : option (fspec * pystr) :=
  match p_value k r2 with
  | Some (v, r4) => match p_capture r4 with Some (cap, r5) => Some (FVal v cap, r5) | None => None end
  | None => None
  end.
Definition spec_body (k : nat) (r1 : pystr) : option (fspec * pystr) :=
  match skip_ws r1 with
  | "="%char :: r2 =>
    match skip_ws r2 with
    | "["%char :: r3 =>
      match p_seq k r3 with
      | Some (items, tail, r4) =>
        match p_capture r4 with Some (cap, r5) => Some (FSeq items tail cap, r5) | None => None end
      | None => None
      end
    | _ => val_body k r2
    end
  | _ => match p_capture r1 with Some (cap, r5) => Some (FAny cap, r5) | None => None end
  end.
Definition item_body (k : nat) (s : pystr) : option (list (vpat * option pystr) * option (option pystr) * pystr) :=
  match p_value k s with
  | Some (v, r1) =>
    match p_capture r1 with
    | Some (cap, r2) =>
      match p_seq k r2 with
      | Some (items, tail, r3) => Some ((v, cap) :: items, tail, r3)
      | None => None
      end
    | None => None
    end
  | None => None
  end.

Lemma p_tree_eq k s : p_tree (S k) s =
  match skip_ws s with
  | "("%char :: r =>
    match p_class_spec r with
    | Some (cls, r1) => match p_fields k r1 with Some (fs, r2) => Some (PTree cls fs, r2) | None => None end
    | None => None
    end
  | _ => None
  end.
Proof. reflexivity. Qed.
Lemma p_fields_eq k s : p_fields (S k) s =
  match skip_ws s with
  | ")"%char :: r => Some ([], r)
  | "@"%char :: r =>
    match lex_cname (skip_ws r) with
    | Some (f, r1) =>
      match spec_body k r1 with
      | Some (spec, r6) => match p_fields k r6 with Some (fs, r7) => Some ((f, spec) :: fs, r7) | None => None end
      | None => None
      end
    | None => None
    end
  | _ => None
  end.
Proof. reflexivity. Qed.
Lemma p_seq_eq k s : p_seq (S k) s =
  match skip_ws s with
  | "]"%char :: r => Some ([], None, r)
  | "*"%char :: r =>
    match p_capture r with
    | Some (cap, r1) => match skip_ws r1 with "]"%char :: r2 => Some ([], Some cap, r2) | _ => None end
    | None => None
    end
  | _ => item_body k s
  end.
Proof. reflexivity. Qed.
Lemma p_value_eq k s : p_value (S k) s =
  match skip_ws s with
  | "("%char :: _ => match p_tree k s with Some (p, r) => Some (VTree p, r) | None => None end
  | "$"%char :: r => match lex_capkey (skip_ws r) with Some (x, r1) => Some (VVar x, r1) | None => None end
  | "N"%char :: "o"%char :: "n"%char :: "e"%char :: r => Some (VNoneP, r)
  | """"%char :: r => match lex_string r false with Some (re, r1) => Some (VRegex re, r1) | None => None end
  | _ => None
  end.
Proof. reflexivity. Qed.

(* a value starts: the sequence loop takes the item branch, the field spec takes the value branch *)
Lemma p_seq_item k s : follows F_vstart s -> p_seq (S k) s = item_body k s.
Proof.
  intros HF. rewrite p_seq_eq. destruct (follows_skip F_vstart s eq_refl HF) as (c & K' & Hc & E). rewrite E.
  simpl in Hc. repeat (destruct Hc as [<-|Hc]; [reflexivity|]). contradiction.
Qed.
Lemma spec_body_val k w r2 : pws w -> follows F_vstart r2 -> spec_body k (w ++ "="%char :: r2) = val_body k r2.
Proof.
  intros Hw HF. unfold spec_body. rewrite skip_ws_app by exact Hw. rewrite skip_ws_cons by reflexivity. cbv iota.
  destruct (follows_skip F_vstart r2 eq_refl HF) as (c & K' & Hc & E). rewrite E.
  simpl in Hc. repeat (destruct Hc as [<-|Hc]; [reflexivity|]). contradiction.
Qed.
Lemma spec_body_any k r1 : follows ("-"%char :: F_fld) r1 ->
  spec_body k r1 = match p_capture r1 with Some (cap, r5) => Some (FAny cap, r5) | None => None end.
Proof.
  intros HF. unfold spec_body. destruct (follows_skip ("-"%char :: F_fld) r1 eq_refl HF) as (c & K' & Hc & E). rewrite E.
  simpl in Hc. repeat (destruct Hc as [<-|Hc]; [reflexivity|]). contradiction.
Qed.

(* ------------------------------------------------------------------ the induction *)
Definition P_pat (p : pat) : Prop :=
  pat_ok p -> forall s K fuel, padded (pat_toks p) s -> length s <= fuel -> p_tree fuel (s ++ K) = Some (p, K).
Definition P_fspec (sp : fspec) : Prop :=
  fspec_ok sp -> forall s K k, padded (fspec_toks sp) s -> length s <= k -> follows F_fld K ->
  spec_body k (s ++ K) = Some (sp, K).
Definition P_vpat (v : vpat) : Prop :=
  vpat_ok v -> forall s K fuel, padded (vpat_toks v) s -> length s + 1 <= fuel -> follows F_val K ->
  p_value fuel (s ++ K) = Some (v, K).

Lemma fields_ok fs : Forall (fun f => P_fspec (snd f)) fs ->
  forall_p (fun f => cname_ok (fst f) /\ fspec_ok (snd f)) fs ->
  forall s K fuel, padded (fields_toks fs) s -> length s <= fuel -> p_fields fuel (s ++ K) = Some (fs, K).
Proof.
  induction 1 as [|[f sp] fs Hx _ IH]; intros Hok s K fuel Hp Hl.
  - unfold fields_toks in Hp. simpl in Hp. pinv Hp. pnil Hp. lens Hl.
    destruct fuel as [|k]; [lia|]. rewrite p_fields_eq. norm.
    rewrite skip_ws_app by assumption. rewrite skip_ws_cons by reflexivity. reflexivity.
  - rewrite fields_toks_cons in Hp. simpl in Hok. destruct Hok as [[Hf Hsp] Hok].
    pinv Hp. pinv Hp. apply padded_app_inv in Hp. destruct Hp as (s1 & s2 & -> & H1 & H2). lens Hl.
    destruct fuel as [|k]; [lia|]. rewrite p_fields_eq. norm.
    rewrite skip_ws_app by assumption. rewrite skip_ws_cons by reflexivity. cbv iota.
    rewrite skip_ws_app by assumption. rewrite skip_ws_cname by exact Hf.
    assert (HF2 : follows F_fld (s2 ++ K)) by (eapply fields_follow; exact H2).
    rewrite lex_cname_ok; [|exact Hf|apply follows_fname_nb; eapply fspec_follow; eauto].
    simpl in Hx. rewrite (Hx Hsp s1 (s2 ++ K) k H1); [|lia|exact HF2].
    rewrite IH; [reflexivity|exact Hok|exact H2|lia].
Qed.

Lemma case_pT cls fs : Forall (fun f => P_fspec (snd f)) fs -> P_pat (PTree cls fs).
Proof.
  intros HF [Hcls Hfs] s K fuel Hp Hl.
  change (pat_toks (PTree cls fs)) with (TLp :: cls_toks cls ++ fields_toks fs) in Hp.
  pinv Hp. apply padded_app_inv in Hp. destruct Hp as (s1 & s2 & -> & H1 & H2). lens Hl.
  destruct fuel as [|k]; [lia|]. rewrite p_tree_eq. norm.
  rewrite skip_ws_app by assumption. rewrite skip_ws_cons by reflexivity. cbv iota.
  rewrite (p_class_spec_ok cls s1 (s2 ++ K)); [|exact Hcls|exact H1|eapply fields_follow; exact H2].
  rewrite (fields_ok fs HF Hfs s2 K k H2); [reflexivity|lia].
Qed.

Lemma case_pA cap : P_fspec (FAny cap).
Proof.
  intros Hok s K k Hp _ HF. simpl in Hok, Hp.
  rewrite spec_body_any by (eapply cap_follows; eauto).
  rewrite (p_capture_ok cap s K); [reflexivity|exact Hok|exact Hp|]. eapply follows_mono; [|exact HF]. incl_tac.
Qed.

Lemma case_pV v cap : P_vpat v -> P_fspec (FVal v cap).
Proof.
  intros HV [Hv Hcap] s K k Hp Hl HF. simpl in Hp.
  pinv Hp. apply padded_app_inv in Hp. destruct Hp as (s1 & s2 & -> & H1 & H2). lens Hl. norm.
  rewrite spec_body_val; [|assumption|eapply vpat_follow; exact H1].
  unfold val_body.
  rewrite (HV Hv s1 (s2 ++ K) k H1); [|lia|].
  - rewrite (p_capture_ok cap s2 K); [reflexivity|exact Hcap|exact H2|]. eapply follows_mono; [|exact HF]. incl_tac.
  - eapply follows_mono; [|eapply cap_follows; [exact H2|exact HF]]. incl_tac.
Qed.

Lemma seq_ok items : Forall (fun it => P_vpat (fst it)) items ->
  forall tail, forall_p (fun it => vpat_ok (fst it) /\ cap_ok (snd it)) items ->
  match tail with Some tc => cap_ok tc | None => True end ->
  forall s K fuel, padded (seq_toks items tail) s -> length s + 1 <= fuel -> p_seq fuel (s ++ K) = Some (items, tail, K).
Proof.
  induction 1 as [|[v c] items Hx _ IH]; intros tail Hok Htl s K fuel Hp Hl; (destruct fuel as [|k]; [lia|]).
  - unfold seq_toks in Hp. simpl in Hp. destruct tail as [tc|]; simpl in Hp.
    + pinv Hp. apply padded_app_inv in Hp. destruct Hp as (s1 & s2 & -> & H1 & H2). pinv H2. pnil H2.
      rewrite p_seq_eq. norm. rewrite skip_ws_app by assumption. rewrite skip_ws_cons by reflexivity. cbv iota.
      rewrite (p_capture_ok tc s1 (w0 ++ "]"%char :: K)); [|exact Htl|exact H1|].
      * rewrite skip_ws_app by assumption. rewrite skip_ws_cons by reflexivity. reflexivity.
      * exists w0, "]"%char, K. repeat split; [assumption|simpl; tauto].
    + pinv Hp. pnil Hp. rewrite p_seq_eq. norm. rewrite skip_ws_app by assumption. rewrite skip_ws_cons by reflexivity.
      reflexivity.
  - rewrite seq_toks_cons in Hp. simpl in Hok. destruct Hok as [[Hv Hc] Hok].
    apply padded_app_inv in Hp. destruct Hp as (s1 & s23 & -> & H1 & Hp).
    apply padded_app_inv in Hp. destruct Hp as (s2 & s3 & -> & H2 & H3). lens Hl. norm.
    assert (L1 : 1 <= length s1).
    { pose proof (vpat_follow v s1 [] H1) as (w & c0 & K' & E & _). rewrite app_nil_r in E. subst s1.
      rewrite app_length. simpl. lia. }
    assert (L3 : 1 <= length s3).
    { pose proof (seq_follow items tail s3 [] H3) as (w & c0 & K' & E & _). rewrite app_nil_r in E. subst s3.
      rewrite app_length. simpl. lia. }
    assert (HF3 : follows F_seq (s3 ++ K)) by (eapply seq_follow; exact H3).
    rewrite p_seq_item by (eapply vpat_follow; exact H1). unfold item_body.
    simpl in Hx. rewrite (Hx Hv s1 (s2 ++ s3 ++ K) k H1); [|lia|].
    + rewrite (p_capture_ok c s2 (s3 ++ K)); [|exact Hc|exact H2|eapply follows_mono; [|exact HF3]; incl_tac].
      rewrite (IH tail Hok Htl s3 K k H3); [reflexivity|lia].
    + eapply follows_mono; [|eapply cap_follows; [exact H2|exact HF3]]. incl_tac.
Qed.

Lemma case_pS items tail cap : Forall (fun it => P_vpat (fst it)) items -> P_fspec (FSeq items tail cap).
Proof.
  intros HF [Hitems [Htl Hcap]] s K k Hp Hl HK.
  change (fspec_toks (FSeq items tail cap)) with (TEq :: TLb :: seq_toks items tail ++ cap_toks cap) in Hp.
  pinv Hp. pinv Hp. apply padded_app_inv in Hp. destruct Hp as (s1 & s2 & -> & H1 & H2). lens Hl. norm.
  unfold spec_body. rewrite skip_ws_app by assumption. rewrite skip_ws_cons by reflexivity. cbv iota.
  rewrite skip_ws_app by assumption. rewrite skip_ws_cons by reflexivity. cbv iota.
  rewrite (seq_ok items HF tail Hitems Htl s1 (s2 ++ K) k H1); [|lia].
  rewrite (p_capture_ok cap s2 K); [reflexivity|exact Hcap|exact H2|]. eapply follows_mono; [|exact HK]. incl_tac.
Qed.

Lemma case_pVT p : P_pat p -> P_vpat (VTree p).
Proof.
  intros HP Hok s K fuel Hp Hl HF. simpl in Hok. change (vpat_toks (VTree p)) with (pat_toks p) in Hp.
  destruct fuel as [|k]; [lia|]. rewrite p_value_eq.
  assert (Es : exists r, skip_ws (s ++ K) = "("%char :: r).
  { destruct p as [cls fs]. change (pat_toks (PTree cls fs)) with (TLp :: cls_toks cls ++ fields_toks fs) in Hp.
    pinv Hp. norm. rewrite skip_ws_app by assumption. rewrite skip_ws_cons by reflexivity. eauto. }
  destruct Es as [r Er]. rewrite Er. cbv iota. rewrite (HP Hok s K k Hp); [reflexivity|lia].
Qed.
Lemma case_pVV x : P_vpat (VVar x).
Proof.
  intros Hok s K fuel Hp Hl HF. simpl in Hok, Hp. pinv Hp. pinv Hp. pnil Hp.
  destruct fuel as [|k]; [lia|]. rewrite p_value_eq. norm.
  rewrite skip_ws_app by assumption. rewrite skip_ws_cons by reflexivity. cbv iota.
  rewrite skip_ws_app by assumption. rewrite skip_ws_key by exact Hok.
  rewrite lex_capkey_ok; [reflexivity|exact Hok|apply follows_val_nb; exact HF].
Qed.
Lemma case_pVN : P_vpat VNoneP.
Proof.
  intros Hok s K fuel Hp Hl HF. simpl in Hp. pinv Hp. pnil Hp.
  destruct fuel as [|k]; [lia|]. rewrite p_value_eq. norm.
  rewrite skip_ws_app by assumption. rewrite skip_ws_cons by reflexivity. reflexivity.
Qed.
Lemma case_pVR r : P_vpat (VRegex r).
Proof.
  intros Hok s K fuel Hp Hl HF. simpl in Hok, Hp. pinv Hp. pnil Hp.
  destruct fuel as [|k]; [lia|]. rewrite p_value_eq. norm.
  rewrite skip_ws_app by assumption. rewrite skip_ws_cons by reflexivity. cbv iota.
  rewrite lex_string_ok by exact Hok. reflexivity.
Qed.

Lemma parse_pat p : P_pat p.
Proof. exact (pat_ind' P_pat P_fspec P_vpat case_pT case_pA case_pV case_pS case_pVT case_pVV case_pVN case_pVR p). Qed.

(* ------------------------------------------------------------------ the round trip *)
Theorem padded_parse p s trail : pat_ok p -> padded (pat_toks p) s -> pws trail -> parse_pattern (s ++ trail) = Some p.
Proof.
  intros Hok Hp Ht. unfold parse_pattern.
  rewrite (parse_pat p Hok s trail _ Hp) by (rewrite app_length; lia).
  rewrite skip_ws_all by exact Ht. reflexivity.
Qed.

Theorem pattern_print_parse p ws trail :
  pat_ok p -> length ws = length (pat_toks p) -> Forall pws ws -> pws trail ->
  parse_pattern (print_pattern ws trail p) = Some p.
Proof. intros Hok Hl Hw Ht. unfold print_pattern. apply padded_parse; [exact Hok|apply padded_print; assumption|exact Ht]. Qed.

(* white space never changes the meaning: two paddings of the same token list are read as the same AST *)
Corollary pattern_ws_irrelevant p s1 t1 s2 t2 :
  pat_ok p -> padded (pat_toks p) s1 -> padded (pat_toks p) s2 -> pws t1 -> pws t2 ->
  parse_pattern (s1 ++ t1) = parse_pattern (s2 ++ t2).
Proof. intros. rewrite (padded_parse p s1 t1), (padded_parse p s2 t2) by assumption. reflexivity. Qed.

(* accepted texts: a printed pattern compiles to what its AST compiles to, whatever the white space *)
Lemma printed_compile_text ct re_ok p ws trail :
  pat_ok p -> length ws = length (pat_toks p) -> Forall pws ws -> pws trail ->
  compile_text ct re_ok (print_pattern ws trail p) = compile ct re_ok true p.
Proof. intros. unfold compile_text. rewrite pattern_print_parse by assumption. reflexivity. Qed.

(* ------------------------------------------------------------------ a witness: every construct, mixed white space *)
Definition demo_ast : pat :=
  PTree (Some [lit "A"; lit "B"])
    [(lit "x", FSeq [(VTree (PTree (Some [lit "B"]) []), Some (lit "a")); (VVar (lit "a"), None);
                     (VRegex (lit "r\""s"), None); (VNoneP, None)] (Some (Some (lit "t"))) (Some (lit "c")));
     (lit "y", FAny None); (lit "z", FVal (VVar (lit "c")) None); (lit "e", FSeq [] None None)].
Definition demo_ws : list pystr :=
  [lit " "; []; lit " "; lit " "; [ascii_of_nat 10]; lit " "; []; []; []; []; []; lit " "; []; []; []; []; []; lit "  ";
   [ascii_of_nat 9]; [ascii_of_nat 12]; []; []; []; [ascii_of_nat 13; ascii_of_nat 10]; []; []; []; []; []; lit " "; [];
   []; []; []; []; []].
Lemma demo_ok :
  pat_ok demo_ast /\ length demo_ws = length (pat_toks demo_ast) /\ Forall pws demo_ws /\ pws (lit " ") /\
  print_pattern (map (fun _ => []) demo_ws) [] demo_ast
  = lit "(A|B@x=[(B)->a$a""r\""s""None*->t]->c@y@z=$c@e=[])".
Proof.
  split; [vm_compute; repeat split; try reflexivity; discriminate|].
  split; [reflexivity|]. split; [repeat constructor|]. split; reflexivity.
Qed.
