(* C07: non-vacuity witnesses.  Tree and class table of Model/TreeQ.v (L, M a subclass of L, P; three levels, a
   tuple field; see Proofs/C06Witness.v), the relative xpath  "@child P//L"  (three grammar steps, the middle one
   empty: a field constraint, a "//", and - being relative - a "//" in front) and the absolute  "//L"  which also
   finds the M node (a subclass).  For every theorem of Props/C07.v with premises: all of them at once, and the
   value the conclusion speaks about. *)
From Oak Require Import Spec.PathSem Proofs.TraverseProofs Proofs.TreeQProofs Proofs.XpathProofs Proofs.FindallProofs
  Spec.StepSem Proofs.StepSemProofs Proofs.C06Witness.
From Coq Require Import List Arith Lia.
Import ListNotations.

Definition w7_xp : xpath := {| xp_relative := true; xp_steps := [st "child" IAbsent "P"; empty_step; st "" IAbsent "L"] |}.
Definition w7_xpL : xpath := {| xp_relative := false; xp_steps := [empty_step; st "" IAbsent "L"] |}.
Definition w7_els : list element :=
  [ {| e_cls := lit "P"; e_field := Some (lit "child"); e_index := None; e_any := true |};
    {| e_cls := lit "L"; e_field := None; e_index := None; e_any := true |} ].
Definition w7_elsL : list element := [ {| e_cls := lit "L"; e_field := None; e_index := None; e_any := true |} ].
Definition w7_l3 : list tinfo := [w6_ti2; w6_ti3].

(* C07_to_elements_ok, C07_to_elements_steps: well-formed xpaths and what they compile to *)
Lemma w7_compile : well_formed w7_xp = true /\ well_formed w7_xpL = true
  /\ to_elements w7_xp = Some w7_els /\ to_elements w7_xpL = Some w7_elsL /\ w7_els <> [] /\ length w7_els = 2
  /\ to_elements {| xp_relative := false; xp_steps := [empty_step] |} = None.
Proof. repeat split; discriminate. Qed.

Lemma w7_R : R ex_ct w7_els (chain ex_root w7_l3).
Proof. apply R_skip; [reflexivity|]. apply R_step; [reflexivity|]. apply R_step; [reflexivity|]. constructor. Qed.

(* C07_match_sem: a node two levels down; both verdicts occur *)
Lemma w7_match : wf_node ex_ct ex_root = true /\ nodup_tree ex_root /\ w7_els <> []
  /\ path ex_root w7_l3 (ex_leaf 3 "L") /\ path ex_root [w6_ti6] (ex_leaf 6 "L")
  /\ xmatch ex_ct ex_root w7_els (ex_leaf 3 "L") = Some (Ok true) /\ R ex_ct w7_els (chain ex_root w7_l3)
  /\ xmatch ex_ct ex_root w7_els (ex_leaf 6 "L") = Some (Ok false).
Proof.
  split; [exact w6_wf|]. split; [exact w6_nodup|]. split; [discriminate|]. split; [exact w6_path3|].
  split; [exact w6_path6|]. split; [vm_compute; reflexivity|]. split; [exact w7_R|vm_compute; reflexivity].
Qed.

(* C07_match_foreign *)
Lemma w7_foreign : wf_node ex_ct ex_root = true /\ nodup_tree ex_root /\ foreign ex_root (ex_leaf 9 "L")
  /\ xmatch ex_ct ex_root w7_els (ex_leaf 9 "L") = Some ValueError.
Proof. split; [exact w6_wf|]. split; [exact w6_nodup|]. split; [exact w6_foreign|]. vm_compute. reflexivity. Qed.

(* C07_findall_sem, C07_findall_match, C07_find_first: non-empty results (one node; four nodes incl. the M node) *)
Lemma w7_findall : wf_node ex_ct ex_root = true /\ nodup_tree ex_root /\ w7_els <> [] /\ w7_elsL <> []
  /\ option_map (map addr) (findall ex_ct ex_root w7_els) = Some [3]
  /\ option_map (map addr) (findall ex_ct ex_root w7_elsL) = Some [3; 4; 5; 6]
  /\ Xpath.find ex_ct ex_root w7_elsL = Some (Some (ex_leaf 3 "L"))
  /\ sem ex_ct w7_els ex_root (ex_leaf 3 "L").
Proof.
  split; [exact w6_wf|]. split; [exact w6_nodup|]. split; [discriminate|]. split; [discriminate|].
  split; [vm_compute; reflexivity|]. split; [vm_compute; reflexivity|]. split; [vm_compute; reflexivity|].
  exists w7_l3. split; [exact w6_path3|exact w7_R].
Qed.

(* C07_chain_match_is_R, C07_chain_agree (es <> []), C07_chain_search_is_R: a chain of three positions; both values *)
Lemma w7_chain : w7_els <> [] /\ length (chain ex_root w7_l3) = 3
  /\ M ex_ct (rev w7_els) (rev (chain ex_root w7_l3)) = true /\ G ex_ct w7_els (chain ex_root w7_l3) = true
  /\ M ex_ct (rev w7_els) (rev (chain ex_root [w6_ti6])) = false /\ G ex_ct w7_els (chain ex_root [w6_ti6]) = false.
Proof. split; [discriminate|]. vm_compute. repeat split. Qed.

(* C07_steps_sem: to_elements x = Some els and a non-empty chain; the step-level meaning holds of it *)
Lemma w7_steps : to_elements w7_xp = Some w7_els /\ chain ex_root w7_l3 <> []
  /\ length (sp_steps (view w7_xp)) = 2 /\ sp_absolute (view w7_xp) = false
  /\ step_sem ex_ct (view w7_xp) (chain ex_root w7_l3) /\ ~ step_sem ex_ct (view w7_xp) (chain ex_root [w6_ti6]).
Proof.
  split; [reflexivity|]. split; [discriminate|]. split; [reflexivity|]. split; [reflexivity|]. split.
  - eapply steps_sem; [reflexivity|discriminate|exact w7_R].
  - intro Hs. eapply steps_sem in Hs; [|reflexivity|discriminate].
    apply G_R in Hs. vm_compute in Hs. discriminate.
Qed.

(* C07_match_steps, C07_findall_steps, C07_findall_match_steps: all five premises *)
Lemma w7_steps_tree : wf_node ex_ct ex_root = true /\ nodup_tree ex_root /\ well_formed w7_xp = true
  /\ to_elements w7_xp = Some w7_els /\ path ex_root w7_l3 (ex_leaf 3 "L")
  /\ xmatch ex_ct ex_root w7_els (ex_leaf 3 "L") = Some (Ok true)
  /\ step_sem_node ex_ct (view w7_xp) ex_root (ex_leaf 3 "L")
  /\ option_map (map addr) (findall ex_ct ex_root w7_els) = Some [3].
Proof.
  split; [exact w6_wf|]. split; [exact w6_nodup|]. split; [reflexivity|]. split; [reflexivity|].
  split; [exact w6_path3|]. split; [vm_compute; reflexivity|]. split; [|vm_compute; reflexivity].
  exists w7_l3. split; [exact w6_path3|exact (proj1 (proj2 (proj2 (proj2 (proj2 w7_steps)))))].
Qed.
