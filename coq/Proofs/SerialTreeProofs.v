(* Proofs for C04, part 3: whole trees. Serializing a conforming tree and reading it back into any node registry
   that holds originals only under the tree's ids gives, position by position, the registered original or a new
   node registered under the same id with the same class, content_id, property values, an == origin; shared nodes
   are shared again. *)
From Oak Require Import Model.SerOpts Model.Serial Spec.SerialSpec Proofs.AccessProofs Proofs.TraverseProofs
  Proofs.SerOptsProofs Proofs.SerialProofs Proofs.SerialOriginProofs.
From Coq Require Import Permutation.

(* ---------- == origins have the same fully qualified name ---------- *)
Lemma source_fqn_eqb a : forall b, source_eqb a b = true -> source_fqn a = source_fqn b.
Proof.
  induction a as [|u t|u r|p|l IH] using source_ind'; intros [|u' t'|u' r'|p'|l']; try (simpl; discriminate); auto.
  - simpl. intros E. apply andb_prop in E as [E _]. apply pystr_eqb_eq in E. exact E.
  - simpl. apply pystr_eqb_eq.
  - simpl. apply pystr_eqb_eq.
  - intros E. assert (Hm : map source_fqn l = map source_fqn l').
    { simpl in E. revert l' E. induction IH as [|x l Hx Hl IHl]; intros [|y l'] E; try discriminate; auto.
      apply andb_prop in E as [E1 E2]. simpl. rewrite (Hx _ E1), (IHl _ E2). reflexivity. }
    cbn [source_fqn]. rewrite Hm. reflexivity.
Qed.
Lemma range_fqn_eqb r r' : range_eqb r r' = true -> range_fqn r = range_fqn r'.
Proof.
  unfold range_eqb, point_eqb, range_fqn. rewrite !andb_true_iff, !Z.eqb_eq. intros [[[A _] _] [[B _] _]]. rewrite A, B. reflexivity.
Qed.
Lemma pos_fqn_eqb o : forall o', origin_eqb o o' = true -> pos_fqn o = pos_fqn o'.
Proof.
  induction o as [|s r|s|s p|s|l IH] using origin_ind'; intros [|s' r'|s'|s' p'|s'|l']; try (simpl; discriminate); auto.
  - simpl. intros E. apply andb_prop in E as [_ E]. apply range_fqn_eqb. exact E.
  - simpl. intros E. apply andb_prop in E as [_ E]. apply pystr_eqb_eq. exact E.
  - intros E. assert (Hm : map pos_fqn l = map pos_fqn l').
    { simpl in E. revert l' E. induction IH as [|x l Hx Hl IHl]; intros [|y l'] E; try discriminate; auto.
      apply andb_prop in E as [E1 E2]. simpl. rewrite (Hx _ E1), (IHl _ E2). reflexivity. }
    cbn [pos_fqn]. rewrite Hm. reflexivity.
Qed.
Fixpoint srcs_eqb (x y : list source) : bool :=
  match x, y with [], [] => true | p :: x', q :: y' => source_eqb p q && srcs_eqb x' y' | _, _ => false end.
Lemma multi_source_eqb L L' : srcs_eqb L L' = true -> source_eqb (multi_source L) (multi_source L') = true.
Proof.
  destruct L as [|a L], L' as [|b L']; simpl; try discriminate; auto. intros E. apply andb_prop in E as [E0 E].
  assert (Es : all_same_source a L = all_same_source b L').
  { unfold all_same_source. revert L' E. induction L as [|x L IH]; intros [|y L'] E; try discriminate; auto.
    simpl in E. apply andb_prop in E as [E1 E2]. simpl. rewrite (IH _ E2). f_equal.
    rewrite (source_eqb_sym x a), (source_eqb_sym y b). rewrite source_eqb_sym in E0, E1.
    symmetry. apply source_eqb_cong; assumption. }
  rewrite Es. destruct (all_same_source b L'); auto. simpl. rewrite E0. exact E.
Qed.
Lemma osource_eqb o : forall o', origin_eqb o o' = true -> source_eqb (osource o) (osource o') = true.
Proof.
  induction o as [|s r|s|s p|s|l IH] using origin_ind'; intros [|s' r'|s'|s' p'|s'|l']; simpl; try discriminate; auto.
  - intros E. apply andb_prop in E as [E _]. exact E.
  - intros E. apply andb_prop in E as [E _]. exact E.
  - intros E. apply multi_source_eqb. revert l' E. induction IH as [|x l Hx Hl IHl]; intros [|y l'] E; try discriminate; auto.
    apply andb_prop in E as [E1 E2]. simpl. rewrite (Hx _ E1), (IHl _ E2). reflexivity.
Qed.
Lemma ofqn_eqb o o' : origin_eqb o o' = true -> ofqn o = ofqn o'.
Proof.
  intros E. pose proof (osource_eqb o o' E) as Es. apply source_fqn_eqb in Es. pose proof (pos_fqn_eqb o o' E) as Ep.
  destruct o, o'; try discriminate; auto; unfold ofqn; rewrite Es, Ep; reflexivity.
Qed.

(* ---------- the relation: induction principle, growth of the registry, digests, sharing ---------- *)
Scheme rt_ok_mut := Minimality for rt_ok Sort Prop
  with rt_kids_mut := Minimality for rt_kids Sort Prop
  with rt_list_mut := Minimality for rt_list Sort Prop.
Combined Scheme rt_mutind from rt_ok_mut, rt_kids_mut, rt_list_mut.

Definition reg_ext (r r' : list (pystr * node)) : Prop := forall i x, reg_find i r = Some x -> reg_find i r' = Some x.
Definition ids_ext (d d' : list (nat * (pystr * pystr))) : Prop := forall a x, assoc_nat a d = Some x -> assoc_nat a d' = Some x.

Section Rel.
  Variable H : pystr -> pystr.
  Variable ct : ctable.
  Variable ids : list (nat * pystr).
  Variable reg0 : list (pystr * node).
  Variable next0 : nat.

  Lemma rt_mono regF idsF regF' idsF' : reg_ext regF regF' -> ids_ext idsF idsF' ->
    (forall n n', rt_ok H ct ids reg0 next0 regF idsF n n' -> rt_ok H ct ids reg0 next0 regF' idsF' n n') /\
    (forall k k', rt_kids H ct ids reg0 next0 regF idsF k k' -> rt_kids H ct ids reg0 next0 regF' idsF' k k') /\
    (forall l l', rt_list H ct ids reg0 next0 regF idsF l l' -> rt_list H ct ids reg0 next0 regF' idsF' l l').
  Proof.
    intros Hr Hd. apply rt_mutind; intros.
    - eapply rt_reused; eauto.
    - eapply rt_new; eauto.
    - constructor.
    - constructor; auto.
    - constructor.
    - constructor; auto.
  Qed.

  Variable regF : list (pystr * node).
  Variable idsF : list (nat * (pystr * pystr)).
  Notation rt := (rt_ok H ct ids reg0 next0 regF idsF).
  Notation rtk := (rt_kids H ct ids reg0 next0 regF idsF).
  Notation rtl := (rt_list H ct ids reg0 next0 regF idsF).

  (* what the parent's content_id reads of a child *)
  Lemma rt_digest n n' : rt n n' ->
    cid_of H ct n' = cid_of H ct n /\ ofqn (norigin n') = ofqn (norigin n) /\ cls n' = cls n /\ nprops n' = nprops n.
  Proof. intros R. inversion R; subst; auto. repeat split; auto. simpl. apply ofqn_eqb. assumption. Qed.
  Definition digs (ks : list (pystr * (kshape * list node))) :=
    map (fun k => (fst k, (fst (snd k), map (fun m => (content_id H ct current m, ofqn (norigin m))) (snd (snd k))))) ks.
  Lemma rtl_digs l l' : rtl l l' ->
    map (fun m => (content_id H ct current m, ofqn (norigin m))) l' = map (fun m => (content_id H ct current m, ofqn (norigin m))) l.
  Proof.
    induction 1 as [|x x' l l' Hx Hl IH]; [reflexivity|]. simpl. rewrite IH.
    destruct (rt_digest _ _ Hx) as [A [B _]]. unfold cid_of in A. rewrite A, B. reflexivity.
  Qed.
  Lemma rtk_digs ks ks' : rtk ks ks' -> digs ks' = digs ks.
  Proof.
    induction 1 as [|f sh l l' r r' Hl Hr IH]; [reflexivity|]. simpl. rewrite IH. cbn [fst snd]. rewrite (rtl_digs _ _ Hl). reflexivity.
  Qed.
  Lemma rtk_cid a c o ps ks a' o' ks' : rtk ks ks' -> cid_of H ct (Node a' c o' ps ks') = cid_of H ct (Node a c o ps ks).
  Proof. intros R. unfold cid_of. cbn [content_id]. fold (digs ks). fold (digs ks'). rewrite (rtk_digs _ _ R). reflexivity. Qed.

  (* a node that occurred at several positions is one object again *)
  Lemma rt_shared n1 n1' n2 n2' : rt n1 n1' -> rt n2 n2' -> addr n1 = addr n2 -> n1' = n2'.
  Proof.
    intros R1 R2 Ea. inversion R1; subst; inversion R2; subst; cbn [addr] in *.
    - rewrite Ea in *. congruence.
    - rewrite Ea in *. congruence.
    - rewrite <- Ea in *. congruence.
    - rewrite Ea in *. congruence.
  Qed.
  (* ... and two objects are not merged into one *)
  Lemma rt_not_merged n1 n1' n2 n2' :
    (forall i, assoc_nat (addr n1) ids = Some i -> assoc_nat (addr n2) ids = Some i -> addr n1 = addr n2) ->
    addr n1 < next0 -> addr n2 < next0 ->
    rt n1 n1' -> rt n2 n2' -> addr n1' = addr n2' -> addr n1 = addr n2.
  Proof.
    intros Hinj L1 L2 R1 R2 Ea. inversion R1; subst; inversion R2; subst; cbn [addr] in *; auto; try lia.
    apply (Hinj i); congruence.
  Qed.
End Rel.

(* ---------- ASTNode._deserialize, with the field loop named ---------- *)
Section Fields.
  Variable ct : ctable.
  Variable pt : ptab.
  Variable rec : sval -> dstate -> res (node * dstate).
  Variable s : slots.
  Variable c : pystr.
  Variable m : list (pystr * sval).

  Definition read_prop (f : fdecl) (d : pdecl) : res pval :=
    if fd_init f then
      match jget (fd_name f) m with
      | Some x => of_opt (deser_pval s (pd_ty d) x)
      | None => of_opt (pd_default d)
      end
    else of_opt (pd_default d).
  Definition read_child (k : ckind) (x : sval) (st : dstate) : res ((kshape * list node) * dstate) :=
    match k, x with
    | KOpt true, JNull => Ok ((ShNone, []), st)
    | KOpt _, _ => dor (y, st1) <- rec x st; Ok ((ShOne, [y]), st1)
    | KTup, JList l => dor (ys, st1) <- mapM_st rec l st; Ok ((ShMany, ys), st1)
    | KTup, _ => Exc
    end.
  Fixpoint deser_fields (fs : list fdecl) (st : dstate)
    : res (list (pystr * pval) * list (pystr * (kshape * list node)) * dstate) :=
    match fs with
    | [] => Ok ([], [], st)
    | f :: r =>
      match fd_role f with
      | RProp =>
        match find_pdecl (fd_name f) (pdecls pt c) with
        | None => Exc
        | Some d =>
          dor pv <- read_prop f d;
          dor (ps, ks, st1) <- deser_fields r st; Ok ((fd_name f, pv) :: ps, ks, st1)
        end
      | RChild k =>
        match jget (fd_name f) m with
        | None => Exc
        | Some x =>
          dor (kv1, st1) <- read_child k x st;
          dor (ps, ks, st2) <- deser_fields r st1; Ok (ps, (fd_name f, kv1) :: ks, st2)
        end
      end
    end.
End Fields.

Lemma deser_node_eq H ct pt dv fuel s m st :
  deser_node H ct pt dv (S fuel) s (JMap m) st =
  (dor i <- jget_str "id" m;
   match reg_find i (ds_reg st) with
   | Some n => Ok (n, st)
   | None =>
     match jtag m with
     | None => Exc
     | Some c =>
       match find_class ct c with
       | None => Exc
       | Some _ =>
         dor (o, srcs1) <- (match jget (lit "origin") m with
                            | Some ov => deser_origin fuel s ov (ds_srcs st)
                            | None => Ok (ONo, ds_srcs st)
                            end);
         let st0 := {| ds_srcs := srcs1; ds_reg := ds_reg st; ds_ids := ds_ids st; ds_next := ds_next st |} in
         dor (ps, ks, st1) <- deser_fields pt (deser_node H ct pt dv fuel s) s c m (fields_of ct c) st0;
         let a := ds_next st1 in
         let n := Node a c o ps ks in
         let own := unique_id (map fst (ds_reg st1)) (H (id_data H ct current n)) in
         let fin := if dv_force dv then i else own in
         Ok (n, {| ds_srcs := ds_srcs st1; ds_reg := (fin, n) :: ds_reg st1;
                   ds_ids := (a, (fin, cid_of H ct n)) :: ds_ids st1; ds_next := S a |})
       end
     end
   end).
Proof. reflexivity. Qed.

(* ---------- positions of a tree ---------- *)
Lemma nodes_self n : In n (nodes n).
Proof. destruct n. simpl. auto. Qed.
Lemma nodes_kid a c o ps ks k x m : In k ks -> In x (snd (snd k)) -> In m (nodes x) -> In m (nodes (Node a c o ps ks)).
Proof.
  intros Hk Hx Hm. cbn [nodes]. right. apply in_flat_map. exists k. split; auto. apply in_flat_map. exists x. auto.
Qed.
Lemma nodes_inv a c o ps ks m : In m (nodes (Node a c o ps ks)) ->
  m = Node a c o ps ks \/ exists k x, In k ks /\ In x (snd (snd k)) /\ In m (nodes x).
Proof.
  cbn [nodes]. intros [E|Hin]; [left; auto|right]. apply in_flat_map in Hin as [k [Hk Hin]].
  apply in_flat_map in Hin as [x [Hx Hm]]. eauto.
Qed.
Lemma nodes_trans t : forall n m, In n (nodes t) -> In m (nodes n) -> In m (nodes t).
Proof.
  induction t as [a c o ps ks IH] using node_ind'. intros n m Hn Hm.
  apply nodes_inv in Hn as [->|[k [x [Hk [Hx Hn]]]]]; [exact Hm|].
  eapply nodes_kid; eauto. rewrite Forall_forall in IH. specialize (IH k Hk). rewrite Forall_forall in IH. eapply IH; eauto.
Qed.
Lemma size_kid a c o ps ks k x : In k ks -> In x (snd (snd k)) -> size x < size (Node a c o ps ks).
Proof.
  intros Hk Hx. cbn [size]. apply le_n_S.
  assert (A : size x <= list_sum (map size (snd (snd k)))).
  { clear Hk. induction (snd (snd k)) as [|y l IHl]; [destruct Hx|]. simpl. destruct Hx as [->|Hx]; [lia|]. specialize (IHl Hx). lia. }
  assert (B : list_sum (map size (snd (snd k))) <= list_sum (map (fun k => list_sum (map size (snd (snd k)))) ks)).
  { clear Hx A. induction ks as [|y l IHl]; [destruct Hk|]. simpl. destruct Hk as [->|Hk]; [lia|]. specialize (IHl Hk). lia. }
  lia.
Qed.
Lemma nodes_size t : forall m, In m (nodes t) -> m = t \/ size m < size t.
Proof.
  induction t as [a c o ps ks IH] using node_ind'. intros m Hm.
  apply nodes_inv in Hm as [->|[k [x [Hk [Hx Hm]]]]]; [left; reflexivity|right].
  rewrite Forall_forall in IH. specialize (IH k Hk). rewrite Forall_forall in IH.
  pose proof (size_kid a c o ps ks k x Hk Hx) as Hlt. destruct (IH x Hx m Hm) as [->|Hl]; lia.
Qed.

(* ---------- conformance of a node to its class declaration and annotations ---------- *)
Definition conf1 (ct : ctable) (pt : ptab) (s : slots) (n : node) : Prop :=
  match n with
  | Node a c o ps ks =>
    find_class ct c <> None /\
    zip_ok (fun f p => pystr_eqb (fd_name f) (fst p)) (prop_fields ct c) ps = true /\
    zip_ok (fun f k => pystr_eqb (fd_name f) (fst k) && shape_ok (child_kind f) (snd k)) (child_fields ct c) ks = true /\
    wf_origin o /\
    (forall f v, In f (prop_fields ct c) -> assoc (fd_name f) ps = Some v ->
       exists d, find_pdecl (fd_name f) (pdecls pt c) = Some d /\
                 if fd_init f then wt s (pd_ty d) v else pd_default d = Some v)
  end.
Definition conforming (ct : ctable) (pt : ptab) (s : slots) (t : node) : Prop := forall m, In m (nodes t) -> conf1 ct pt s m.

Fixpoint node_depth (n : node) : nat :=
  match n with
  | Node _ _ o _ ks =>
    S (Nat.max (origin_depth o)
               (fold_right (fun k acc => Nat.max (fold_right (fun x acc' => Nat.max (node_depth x) acc') 0 (snd (snd k))) acc) 0 ks))
  end.
Lemma node_depth_kid a c o ps ks k x : In k ks -> In x (snd (snd k)) -> S (node_depth x) <= node_depth (Node a c o ps ks).
Proof.
  intros Hk Hx. cbn [node_depth]. apply le_n_S.
  assert (A : node_depth x <= fold_right (fun x acc' => Nat.max (node_depth x) acc') 0 (snd (snd k))).
  { clear Hk. induction (snd (snd k)) as [|y l IHl]; [destruct Hx|]. simpl. destruct Hx as [->|Hx]; [lia|]. specialize (IHl Hx). lia. }
  assert (B : fold_right (fun x acc' => Nat.max (node_depth x) acc') 0 (snd (snd k)) <=
              fold_right (fun k acc => Nat.max (fold_right (fun x acc' => Nat.max (node_depth x) acc') 0 (snd (snd k))) acc) 0 ks).
  { clear Hx A. induction ks as [|y l IHl]; [destruct Hk|]. simpl. destruct Hk as [->|Hk]; [lia|]. specialize (IHl Hk). lia. }
  lia.
Qed.

Lemma zip_ok_names {A B} (p : A -> B -> bool) (g : A -> pystr) (h : B -> pystr) fs xs :
  (forall a b, p a b = true -> g a = h b) -> zip_ok p fs xs = true -> map g fs = map h xs.
Proof.
  intros Hp. revert xs. induction fs as [|f fs IH]; intros [|x xs]; simpl; try discriminate; auto.
  intros E. apply andb_prop in E as [E1 E2]. rewrite (Hp _ _ E1), (IH _ E2). reflexivity.
Qed.
Lemma ser_node_map H ct pt nv s reg ids armed n v : ser_node H ct pt nv s reg ids armed n = Some v -> exists m, v = JMap m.
Proof.
  destruct n as [a c o ps ks]. simpl. destruct (assoc_nat a ids); [|discriminate]. destruct (ser_origin s reg o); [|discriminate].
  destruct (omap _ ks); [|discriminate]. destruct (existsb _ armed); [discriminate|]. intros [= <-]. eauto.
Qed.

(* ---------- the round trip of a tree ---------- *)
Definition reserved : list pystr := [type_key; lit "id"; lit "content_id"; lit "origin"; children_key].

Section TreeRT.
  Variable H : pystr -> pystr.
  Variable ct : ctable.
  Variable pt : ptab.
  Variable s : slots.
  Hypothesis Hi : ints_as_str s = false.
  Hypothesis Hs : get_skip s = false.
  Hypothesis Ht : is_test s = false.
  Hypothesis Hnames : forall c f, In f (fields_of ct c) -> ~ In (fd_name f) reserved.

  Variable reg : list source.                 (* the source registry at writing time *)
  Variable ids : list (nat * pystr).          (* address -> id at writing time *)
  Variable armed : list nat.
  Variable reg0 : list (pystr * node).        (* the node registry when reading starts *)
  Variable next0 : nat.
  Variable T : node.                          (* the tree *)
  Hypothesis T_cons : consistent T.
  Hypothesis T_inj : forall m m' i, In m (nodes T) -> In m' (nodes T) ->
    assoc_nat (addr m) ids = Some i -> assoc_nat (addr m') ids = Some i -> addr m = addr m'.
  Hypothesis T_conf : conforming ct pt s T.

  Notation rt st := (rt_ok H ct ids reg0 next0 (ds_reg st) (ds_ids st)).
  Notation rtk st := (rt_kids H ct ids reg0 next0 (ds_reg st) (ds_ids st)).
  Notation rtl st := (rt_list H ct ids reg0 next0 (ds_reg st) (ds_ids st)).

  Record Inv (st : dstate) : Prop := {
    I_src : get_sidx s = true -> reg_agree reg (ds_srcs st);
    I_reg : forall m i x, In m (nodes T) -> assoc_nat (addr m) ids = Some i -> reg_find i (ds_reg st) = Some x -> rt st m x;
    I_ids : forall a x, assoc_nat a (ds_ids st) = Some x -> a < ds_next st;
    I_next : next0 <= ds_next st;
    I_ext0 : reg_ext reg0 (ds_reg st) }.
  Definition Ext (st st' : dstate) : Prop := reg_ext (ds_reg st) (ds_reg st') /\ ids_ext (ds_ids st) (ds_ids st').
  (* the ids registered between st and st' are ids of nodes among ms *)
  Definition NewIn (ms : list node) (st st' : dstate) : Prop :=
    forall j, reg_find j (ds_reg st) = None -> reg_find j (ds_reg st') <> None ->
    exists m, In m ms /\ assoc_nat (addr m) ids = Some j.

  Lemma Ext_refl st : Ext st st.
  Proof. split; intros ? ? E; exact E. Qed.
  Lemma Ext_trans a b c : Ext a b -> Ext b c -> Ext a c.
  Proof. intros [A1 A2] [B1 B2]. split; intros ? ? E; auto. Qed.
  Lemma NewIn_refl ms st : NewIn ms st st.
  Proof. intros j E N. congruence. Qed.
  Lemma NewIn_trans A B a b c : NewIn A a b -> NewIn B b c -> NewIn (A ++ B) a c.
  Proof.
    intros N1 N2 j E N. destruct (reg_find j (ds_reg b)) as [x|] eqn:Eb.
    - destruct (N1 j E) as [m [Hm Hj]]; [congruence|]. exists m. split; auto. apply in_or_app. auto.
    - destruct (N2 j Eb N) as [m [Hm Hj]]. exists m. split; auto. apply in_or_app. auto.
  Qed.
  Lemma NewIn_incl A B a b : incl A B -> NewIn A a b -> NewIn B a b.
  Proof. intros Hi' N j E N'. destruct (N j E N') as [m [Hm Hj]]. eauto. Qed.
  Lemma rt_lift st st' : Ext st st' ->
    (forall n n', rt st n n' -> rt st' n n') /\ (forall k k', rtk st k k' -> rtk st' k k') /\ (forall l l', rtl st l l' -> rtl st' l l').
  Proof. intros [A B]. apply rt_mono; assumption. Qed.

  Definition P (n : node) : Prop :=
    In n (nodes T) -> forall v, ser_node H ct pt current_nv s reg ids armed n = Some v ->
    forall fuel st, node_depth n <= fuel -> Inv st ->
    exists n' st', deser_node H ct pt current_dv fuel s v st = Ok (n', st') /\ rt st' n n' /\ Inv st' /\ Ext st st' /\ NewIn (nodes n) st st'.

  (* a tuple of children *)
  Lemma list_rt l : Forall P l -> (forall x, In x l -> In x (nodes T)) ->
    forall vs, omap (ser_node H ct pt current_nv s reg ids armed) l = Some vs ->
    forall fuel st, (forall x, In x l -> node_depth x <= fuel) -> Inv st ->
    exists ys st', mapM_st (deser_node H ct pt current_dv fuel s) vs st = Ok (ys, st') /\ rtl st' l ys /\ Inv st' /\ Ext st st'
                   /\ NewIn (flat_map nodes l) st st'.
  Proof.
    induction 1 as [|x l Hx Hl IHl]; intros HU vs E fuel st Hf HI; simpl in E.
    - injection E as <-. exists [], st. split; [reflexivity|]. split; [constructor|]. split; [exact HI|]. split; [apply Ext_refl|apply NewIn_refl].
    - destruct (ser_node H ct pt current_nv s reg ids armed x) as [v|] eqn:Ev; [|discriminate].
      destruct (omap _ l) as [vs'|] eqn:El; [|discriminate]. injection E as <-.
      destruct (Hx (HU x (or_introl eq_refl)) v Ev fuel st (Hf x (or_introl eq_refl)) HI) as [y [st1 [D1 [R1 [I1 [X1 N1]]]]]].
      destruct (IHl (fun z Hz => HU z (or_intror Hz)) vs' eq_refl fuel st1 (fun z Hz => Hf z (or_intror Hz)) I1)
        as [ys [st2 [D2 [R2 [I2 [X2 N2]]]]]].
      exists (y :: ys), st2. cbn [mapM_st]. rewrite D1, D2. split; [reflexivity|]. split; [|split; [exact I2|split]].
      + constructor; [|exact R2]. apply (rt_lift st1 st2 X2). exact R1.
      + eapply Ext_trans; eauto.
      + cbn [flat_map]. eapply NewIn_trans; eauto.
  Qed.

  (* ----- the mapping written for one node ----- *)
  Definition uval (c : pystr) (ps : list (pystr * pval)) (kvals : list (pystr * sval)) (f : fdecl) : sval :=
    match fd_role f with
    | RProp => match assoc (fd_name f) ps with
               | Some v => ser_pval s (prop_ty pt c (fd_name f)) v
               | None => JNull
               end
    | RChild _ => match assoc (fd_name f) kvals with Some v => v | None => JNull end
    end.
  Definition mnode a c o ps ks (i : pystr) (ov : sval) (kvals : list (pystr * sval)) : list (pystr * sval) :=
    node_post current_nv s c (get_child_fields ct c)
      ([kv "id" (JStr i); kv "content_id" (JStr (cid_of H ct (Node a c o ps ks))); kv "origin" ov]
         ++ map (fun f => (fd_name f, uval c ps kvals f)) (fields_of ct c)).
  Definition kser (k : pystr * (kshape * list node)) : option (pystr * sval) :=
    option_map (fun vs => (fst k, shape_val (fst (snd k)) vs)) (omap (ser_node H ct pt current_nv s reg ids armed) (snd (snd k))).
  Lemma ser_node_eq a c o ps ks :
    ser_node H ct pt current_nv s reg ids armed (Node a c o ps ks) =
    match assoc_nat a ids, ser_origin s reg o, omap kser ks with
    | Some i, Some ov, Some kvals =>
      if existsb (Nat.eqb a) armed then None else Some (JMap (mnode a c o ps ks i ov kvals))
    | _, _, _ => None
    end.
  Proof. reflexivity. Qed.

  Section OneNode.
    Variables (a : nat) (c : pystr) (o : origin) (ps : list (pystr * pval)) (ks : list (pystr * (kshape * list node))).
    Variables (i : pystr) (ov : sval) (kvals : list (pystr * sval)).
    Let n := Node a c o ps ks.
    Let d := [kv "id" (JStr i); kv "content_id" (JStr (cid_of H ct n)); kv "origin" ov]
             ++ map (fun f => (fd_name f, uval c ps kvals f)) (fields_of ct c).
    Let m := mnode a c o ps ks i ov kvals.

    Lemma name_free k : In k reserved -> ~ In k (map fd_name (fields_of ct c)).
    Proof. intros Hk Hin. apply in_map_iff in Hin as [f [<- Hf]]. exact (Hnames c f Hf Hk). Qed.
    Lemma d_keys : map fst d = lit "id" :: lit "content_id" :: lit "origin" :: map fd_name (fields_of ct c).
    Proof. subst d. rewrite map_app, map_map. reflexivity. Qed.
    Lemma d_nodup : NoDup (map fst d).
    Proof.
      rewrite d_keys. repeat constructor; [| | |apply fields_of_nodup].
      - intros [E|[E|Hin]]; [vm_compute in E; discriminate|vm_compute in E; discriminate|].
        revert Hin. apply name_free. unfold reserved. simpl. auto.
      - intros [E|Hin]; [vm_compute in E; discriminate|].
        revert Hin. apply name_free. unfold reserved. simpl. auto.
      - apply name_free. unfold reserved. simpl. auto.
    Qed.
    Lemma d_notin k : In k [type_key; children_key] -> ~ In k (map fst d).
    Proof.
      intros Hk. rewrite d_keys. intros [E|[E|[E|Hin]]].
      - destruct Hk as [Hk|[Hk|[]]]; subst k; vm_compute in E; discriminate.
      - destruct Hk as [Hk|[Hk|[]]]; subst k; vm_compute in E; discriminate.
      - destruct Hk as [Hk|[Hk|[]]]; subst k; vm_compute in E; discriminate.
      - revert Hin. apply name_free. unfold reserved. destruct Hk as [Hk|[Hk|[]]]; subst k; simpl; auto 6.
    Qed.
    Lemma m_eq : exists d', m = base_post s c d' /\ NoDup (map fst d') /\ ~ In type_key (map fst d') /\ incl d d'.
    Proof.
      subst m. unfold mnode, node_post. rewrite Ht. cbn [v_d16 current_nv]. destruct (is_explorer s).
      - eexists. split; [reflexivity|]. rewrite map_app. cbn [map fst]. split; [|split].
        + apply nodup_app_single; [apply d_nodup|]. apply d_notin. simpl. auto.
        + intros Hin. apply in_app_or in Hin as [Hin|[E|[]]]; [|vm_compute in E; discriminate].
          revert Hin. apply d_notin. simpl. auto.
        + intros x Hx. apply in_or_app. auto.
      - exists d. split; [reflexivity|]. split; [apply d_nodup|]. split; [apply d_notin; simpl; auto|apply incl_refl].
    Qed.
    Lemma m_get k v : In (k, v) d -> jget k m = Some v.
    Proof. intros Hin. destruct m_eq as [d' [-> [A [B C]]]]. apply base_post_get; auto. Qed.
    Lemma m_tag : jtag m = Some c.
    Proof. destruct m_eq as [d' [-> _]]. unfold jtag. rewrite base_post_tag by exact Hs. reflexivity. Qed.
    Lemma m_id : jget_str "id" m = Ok i.
    Proof. unfold jget_str. rewrite (m_get (lit "id") (JStr i)); [reflexivity|]. subst d. simpl. auto. Qed.
    Lemma m_origin : jget (lit "origin") m = Some ov.
    Proof. apply m_get. subst d. simpl. auto. Qed.
    Lemma m_field f : In f (fields_of ct c) -> jget (fd_name f) m = Some (uval c ps kvals f).
    Proof. intros Hf. apply m_get. subst d. apply in_or_app. right. apply in_map_iff. exists f. auto. Qed.
  End OneNode.

  Lemma omap_Forall2 {A B} (f : A -> option B) l : forall r, omap f l = Some r -> Forall2 (fun x y => f x = Some y) l r.
  Proof.
    induction l as [|x l IH]; simpl; intros r E.
    - injection E as <-. constructor.
    - destruct (f x) eqn:Ex; [|discriminate]. destruct (omap f l) eqn:El; [|discriminate]. injection E as <-. constructor; auto.
  Qed.
  Lemma kser_fst k y : kser k = Some y -> fst y = fst k.
  Proof. unfold kser. destruct (omap _ _); simpl; [|discriminate]. intros [= <-]. reflexivity. Qed.

  (* ----- the fields of one node, given the round trip of its children ----- *)
  Section NodeCase.
    Variables (a : nat) (c : pystr) (o : origin) (ps : list (pystr * pval)) (ks : list (pystr * (kshape * list node))).
    Let n := Node a c o ps ks.
    Hypothesis Un : In n (nodes T).
    Hypothesis IHk : Forall (fun k => Forall P (snd (snd k))) ks.
    Variables (i : pystr) (ov : sval) (kvals : list (pystr * sval)).
    Hypothesis Ek : omap kser ks = Some kvals.
    Variable fuel : nat.
    Hypothesis Hfk : forall k x, In k ks -> In x (snd (snd k)) -> node_depth x <= fuel.
    Let m := mnode a c o ps ks i ov kvals.
    Let peq := fun (f : fdecl) (p : pystr * pval) => pystr_eqb (fd_name f) (fst p).
    Let keq := fun (f : fdecl) (k : pystr * (kshape * list node)) => pystr_eqb (fd_name f) (fst k) && shape_ok (child_kind f) (snd k).

    Lemma n_conf : conf1 ct pt s n.
    Proof. apply T_conf. exact Un. Qed.
    Lemma ps_nodup : NoDup (map fst ps).
    Proof.
      destruct n_conf as [_ [Zp _]].
      rewrite <- (zip_ok_names _ fd_name fst _ _ (fun f p E => proj1 (pystr_eqb_eq _ _) E) Zp).
      unfold prop_fields. apply nodup_map_filter. apply fields_of_nodup.
    Qed.
    Lemma kvals_nodup : NoDup (map fst kvals).
    Proof.
      destruct n_conf as [_ [_ [Zk _]]].
      assert (E1 : map fst kvals = map fst ks).
      { pose proof (omap_Forall2 _ _ _ Ek) as F. clear - F. induction F as [|k y l r Hy _ IH]; [reflexivity|].
        simpl. rewrite IH, (kser_fst _ _ Hy). reflexivity. }
      rewrite E1.
      rewrite <- (zip_ok_names _ fd_name fst _ _ (fun f p E => proj1 (pystr_eqb_eq _ _) (proj1 (andb_prop _ _ E))) Zk).
      apply child_fields_nodup.
    Qed.
    Lemma kid_in k x : In k ks -> In x (snd (snd k)) -> In x (nodes T).
    Proof. intros Hk Hx. eapply nodes_trans; [exact Un|]. eapply nodes_kid; eauto. apply nodes_self. Qed.

    Notation kid_nodes ksr := (flat_map (fun k : pystr * (kshape * list node) => flat_map nodes (snd (snd k))) ksr).

    Lemma fields_rt : forall fs psr ksr kvr st,
      incl fs (fields_of ct c) ->
      zip_ok peq (filter is_prop fs) psr = true -> zip_ok keq (filter is_child fs) ksr = true ->
      incl psr ps -> incl ksr ks -> Forall2 (fun k y => kser k = Some y) ksr kvr -> incl kvr kvals ->
      Inv st ->
      exists ks' st', deser_fields pt (deser_node H ct pt current_dv fuel s) s c m fs st = Ok (psr, ks', st') /\
                      rtk st' ksr ks' /\ Inv st' /\ Ext st st' /\ NewIn (kid_nodes ksr) st st'.
    Proof.
      induction fs as [|f r IH]; intros psr ksr kvr st Hfs Zp Zk Hps Hks Fk Hkv HI.
      - simpl in Zp, Zk. destruct psr; [|discriminate]. destruct ksr; [|discriminate].
        exists [], st. split; [reflexivity|]. split; [constructor|]. split; [exact HI|]. split; [apply Ext_refl|apply NewIn_refl].
      - assert (Hf : In f (fields_of ct c)) by (apply Hfs; left; reflexivity).
        assert (Hr : incl r (fields_of ct c)) by (intros x Hx; apply Hfs; right; exact Hx).
        cbn [deser_fields]. destruct (fd_role f) as [|k0] eqn:Er.
        + (* a property *)
          assert (Ep : is_prop f = true) by (unfold is_prop; rewrite Er; reflexivity).
          cbn [filter] in Zp, Zk. unfold is_child in Zk. rewrite Ep in Zp, Zk. cbn [negb] in Zk. fold (is_child) in Zk.
          destruct psr as [|[k v] psr]; [discriminate|]. cbn [zip_ok] in Zp. apply andb_prop in Zp as [E1 Zp].
          unfold peq in E1. cbn [fst] in E1. apply pystr_eqb_eq in E1. subst k.
          assert (Ea : assoc (fd_name f) ps = Some v).
          { apply assoc_nodup; [apply ps_nodup|]. apply Hps. left. reflexivity. }
          destruct n_conf as [_ [_ [_ [_ Hv]]]].
          destruct (Hv f v) as [d0 [Ed Hw]]; [unfold prop_fields; apply filter_In; auto|exact Ea|].
          rewrite Ed.
          assert (Erd : read_prop s m f d0 = Ok v).
          { unfold read_prop. destruct (fd_init f).
            - subst m. rewrite (m_field a c o ps ks i ov kvals f Hf). unfold uval. rewrite Er, Ea.
              unfold prop_ty. rewrite Ed. rewrite (pval_roundtrip s Hi _ _ Hw). reflexivity.
            - rewrite Hw. reflexivity. }
          rewrite Erd.
          destruct (IH psr ksr kvr st Hr Zp Zk) as [ks' [st' [D [R [I' [X N]]]]]]; auto.
          { intros x Hx. apply Hps. right. exact Hx. }
          rewrite D. exists ks', st'. auto.
        + (* a child field *)
          assert (Ep : is_prop f = false) by (unfold is_prop; rewrite Er; reflexivity).
          cbn [filter] in Zp, Zk. unfold is_child in Zk. rewrite Ep in Zp, Zk. cbn [negb] in Zk. fold (is_child) in Zk.
          destruct ksr as [|[k [sh l]] ksr]; [discriminate|]. cbn [zip_ok] in Zk. apply andb_prop in Zk as [E1 Zk].
          unfold keq in E1. cbn [fst snd] in E1. apply andb_prop in E1 as [E1 Esh]. apply pystr_eqb_eq in E1. subst k.
          assert (Eck : child_kind f = k0) by (unfold child_kind; rewrite Er; reflexivity). rewrite Eck in Esh. clear Eck.
          inversion Fk as [|? y ? kvr' Hy Fk']; subst. clear Fk.
          assert (Hkin : In (fd_name f, (sh, l)) ks) by (apply Hks; left; reflexivity).
          unfold kser in Hy. cbn [fst snd] in Hy.
          destruct (omap (ser_node H ct pt current_nv s reg ids armed) l) as [vs|] eqn:El; [|discriminate].
          cbn [option_map] in Hy. injection Hy as <-.
          subst m. rewrite (m_field a c o ps ks i ov kvals f Hf). unfold uval. rewrite Er.
          rewrite (assoc_nodup kvals (fd_name f) (shape_val sh vs) kvals_nodup) by (apply Hkv; left; reflexivity).
          assert (PL : Forall P l).
          { rewrite Forall_forall in IHk. exact (IHk _ Hkin). }
          assert (UL : forall x, In x l -> In x (nodes T)) by (intros x Hx; eapply kid_in; [exact Hkin|exact Hx]).
          assert (FL : forall x, In x l -> node_depth x <= fuel) by (intros x Hx; eapply Hfk; [exact Hkin|exact Hx]).
          assert (RC : exists l' st1, read_child (deser_node H ct pt current_dv fuel s) k0 (shape_val sh vs) st = Ok ((sh, l'), st1)
                         /\ rtl st1 l l' /\ Inv st1 /\ Ext st st1 /\ NewIn (flat_map nodes l) st st1).
          { destruct k0 as [[|]|]; destruct sh; destruct l as [|x [|x2 l2]]; try discriminate Esh.
            - simpl in El. injection El as <-. exists [], st. split; [reflexivity|]. split; [constructor|].
              split; [exact HI|]. split; [apply Ext_refl|apply NewIn_refl].
            - simpl in El. destruct (ser_node H ct pt current_nv s reg ids armed x) as [vx|] eqn:Ex; [|discriminate]. injection El as <-.
              destruct (ser_node_map _ _ _ _ _ _ _ _ _ _ Ex) as [mx ->]. inversion PL as [|? ? Px _]; subst.
              destruct (Px (UL x (or_introl eq_refl)) _ Ex fuel st (FL x (or_introl eq_refl)) HI) as [y [st1 [D1 [R1 [I1 [X1 N1]]]]]].
              exists [y], st1. cbn [shape_val read_child]. rewrite D1. split; [reflexivity|]. split; [repeat constructor; exact R1|].
              split; [exact I1|]. split; [exact X1|]. cbn [flat_map]. rewrite app_nil_r. exact N1.
            - simpl in El. destruct (ser_node H ct pt current_nv s reg ids armed x) as [vx|] eqn:Ex; [|discriminate]. injection El as <-.
              destruct (ser_node_map _ _ _ _ _ _ _ _ _ _ Ex) as [mx ->]. inversion PL as [|? ? Px _]; subst.
              destruct (Px (UL x (or_introl eq_refl)) _ Ex fuel st (FL x (or_introl eq_refl)) HI) as [y [st1 [D1 [R1 [I1 [X1 N1]]]]]].
              exists [y], st1. cbn [shape_val read_child]. rewrite D1. split; [reflexivity|]. split; [repeat constructor; exact R1|].
              split; [exact I1|]. split; [exact X1|]. cbn [flat_map]. rewrite app_nil_r. exact N1.
            - destruct (list_rt [] PL UL vs El fuel st FL HI) as [ys [st1 [D1 R1]]].
              exists ys, st1. cbn [shape_val read_child]. rewrite D1. split; [reflexivity|exact R1].
            - destruct (list_rt [x] PL UL vs El fuel st FL HI) as [ys [st1 [D1 R1]]].
              exists ys, st1. cbn [shape_val read_child]. rewrite D1. split; [reflexivity|exact R1].
            - destruct (list_rt (x :: x2 :: l2) PL UL vs El fuel st FL HI) as [ys [st1 [D1 R1]]].
              exists ys, st1. cbn [shape_val read_child]. rewrite D1. split; [reflexivity|exact R1]. }
          destruct RC as [l' [st1 [D1 [R1 [I1 [X1 N1]]]]]]. rewrite D1.
          destruct (IH psr ksr kvr' st1 Hr Zp Zk) as [ks' [st2 [D2 [R2 [I2 [X2 N2]]]]]]; auto.
          { intros x Hx. apply Hks. right. exact Hx. }
          { intros x Hx. apply Hkv. right. exact Hx. }
          rewrite D2. exists ((fd_name f, (sh, l')) :: ks'), st2. split; [reflexivity|]. split; [|split; [exact I2|split]].
          * constructor; [|exact R2]. apply (rt_lift st1 st2 X2). exact R1.
          * eapply Ext_trans; eauto.
          * cbn [flat_map snd]. eapply NewIn_trans; eauto.
    Qed.
  End NodeCase.

  Lemma reg_find_cons_same i x r : reg_find i ((i, x) :: r) = Some x.
  Proof. simpl. rewrite pystr_eqb_refl. reflexivity. Qed.
  Lemma reg_find_cons_other i j x r : i <> j -> reg_find j ((i, x) :: r) = reg_find j r.
  Proof. intros Hn. simpl. destruct (pystr_eqb_spec i j); congruence. Qed.
  Lemma assoc_nat_cons_other {A} a b (x : A) r : a <> b -> assoc_nat b ((a, x) :: r) = assoc_nat b r.
  Proof. intros Hn. simpl. destruct (Nat.eqb_spec a b); congruence. Qed.

  Theorem node_rt : forall n, P n.
  Proof.
    induction n as [a c o ps ks IHk] using node_ind'. intros Un v E fuel st Hf HI.
    destruct fuel as [|fuel]; [simpl in Hf; lia|].
    rewrite ser_node_eq in E.
    destruct (assoc_nat a ids) as [i|] eqn:Ei; [|discriminate].
    destruct (ser_origin s reg o) as [ov|] eqn:Eo; [|discriminate].
    destruct (omap kser ks) as [kvals|] eqn:Ek; [|discriminate].
    destruct (existsb (Nat.eqb a) armed); [discriminate|]. injection E as <-.
    rewrite deser_node_eq. rewrite (m_id a c o ps ks i ov kvals).
    destruct (reg_find i (ds_reg st)) as [x|] eqn:Er.
    - (* still (or already) registered *)
      exists x, st. split; [reflexivity|]. split; [|split; [exact HI|split; [apply Ext_refl|apply NewIn_refl]]].
      apply (I_reg st HI (Node a c o ps ks) i x Un Ei Er).
    - rewrite (m_tag a c o ps ks i ov kvals).
      pose proof (T_conf _ Un) as Cn. destruct Cn as [Hc [Zp [Zk [Wo Hv]]]].
      destruct (find_class ct c) as [cd|] eqn:Ec; [|congruence].
      rewrite (m_origin a c o ps ks i ov kvals).
      assert (Hfo : origin_depth o <= fuel) by (cbn [node_depth] in Hf; lia).
      destruct (origin_roundtrip s Hi Hs o fuel Hfo reg ov (ds_srcs st) Wo Eo (I_src st HI)) as [o' [srcs1 [Do [Qo Ao]]]].
      rewrite Do. cbv zeta.
      set (st0 := {| ds_srcs := srcs1; ds_reg := ds_reg st; ds_ids := ds_ids st; ds_next := ds_next st |}).
      assert (I0 : Inv st0).
      { destruct HI as [A1 A2 A3 A4 A5]. constructor; auto. }
      assert (Hfk : forall k x, In k ks -> In x (snd (snd k)) -> node_depth x <= fuel).
      { intros k x Hk Hx. pose proof (node_depth_kid a c o ps ks k x Hk Hx). lia. }
      destruct (fields_rt a c o ps ks Un IHk i ov kvals Ek fuel Hfk (fields_of ct c) ps ks kvals st0) as [ks' [st1 [D [R [I1 [X1 N1]]]]]];
        auto using incl_refl.
      { apply omap_Forall2. exact Ek. }
      rewrite D. cbv zeta. cbn [dv_force current_dv].
      set (n' := Node (ds_next st1) c o' ps ks').
      set (st' := {| ds_srcs := ds_srcs st1; ds_reg := (i, n') :: ds_reg st1;
                     ds_ids := (ds_next st1, (i, cid_of H ct n')) :: ds_ids st1; ds_next := S (ds_next st1) |}).
      (* the id was not registered by a descendant *)
      assert (Er1 : reg_find i (ds_reg st1) = None).
      { destruct (reg_find i (ds_reg st1)) as [y|] eqn:Ey; [exfalso|reflexivity].
        destruct (N1 i Er) as [m [Hm Hj]]; [congruence|].
        apply in_flat_map in Hm as [k [Hk Hm]]. apply in_flat_map in Hm as [x [Hx Hm]].
        assert (Um : In m (nodes T)).
        { eapply nodes_trans; [exact Un|]. eapply nodes_kid; eauto. }
        assert (Em : m = Node a c o ps ks).
        { apply T_cons; auto. apply (T_inj m (Node a c o ps ks) i); auto. }
        pose proof (size_kid a c o ps ks k x Hk Hx) as S1. destruct (nodes_size x m Hm) as [->|S2]; subst; lia. }
      assert (Er0 : reg_find i reg0 = None).
      { destruct (reg_find i reg0) as [y|] eqn:Ey; [|reflexivity]. rewrite (I_ext0 st HI i y Ey) in Er. discriminate. }
      assert (X' : Ext st1 st').
      { split.
        - intros j y Ej. subst st'. cbn [ds_reg]. rewrite reg_find_cons_other; [exact Ej|]. intros ->. congruence.
        - intros b y Eb. subst st'. cbn [ds_ids]. rewrite assoc_nat_cons_other; [exact Eb|].
          pose proof (I_ids st1 I1 b y Eb). lia. }
      assert (Ecid : cid_of H ct n' = cid_of H ct (Node a c o ps ks)).
      { subst n'. eapply rtk_cid. exact R. }
      assert (Rn : rt st' (Node a c o ps ks) n').
      { subst n'. eapply rt_new with (i := i); auto.
        - exact (I_next st1 I1).
        - subst st'. cbn [ds_reg]. apply reg_find_cons_same.
        - subst st'. cbn [ds_ids assoc_nat]. rewrite Nat.eqb_refl. rewrite Ecid. reflexivity.
        - apply (rt_lift st1 st' X'). exact R. }
      exists n', st'. split; [reflexivity|]. split; [exact Rn|]. split; [|split].
      + constructor.
        * exact (I_src st1 I1).
        * intros m j y Um Ej Ey. subst st'. cbn [ds_reg] in Ey.
          destruct (pystr_eqb_spec i j) as [<-|Hne].
          -- rewrite reg_find_cons_same in Ey. injection Ey as <-.
             assert (Em : m = Node a c o ps ks).
             { apply T_cons; auto. apply (T_inj m (Node a c o ps ks) i); auto. }
             rewrite Em. exact Rn.
          -- rewrite reg_find_cons_other in Ey by exact Hne.
             apply (rt_lift st1 _ X'). apply (I_reg st1 I1 m j y Um Ej Ey).
        * intros b y Eb. subst st'. cbn [ds_ids ds_next] in *. simpl in Eb.
          destruct (Nat.eqb_spec (ds_next st1) b); [lia|]. pose proof (I_ids st1 I1 b y Eb). lia.
        * pose proof (I_next st1 I1). subst st'. cbn [ds_next]. lia.
        * intros j y Ej. subst st'. cbn [ds_reg]. rewrite reg_find_cons_other; [exact (I_ext0 st1 I1 j y Ej)|]. intros ->. congruence.
      + eapply Ext_trans; [|exact X']. exact X1.
      + intros j Ej Nj. subst st'. cbn [ds_reg] in Nj.
        destruct (pystr_eqb_spec i j) as [<-|Hne].
        * exists (Node a c o ps ks). split; [apply nodes_self|exact Ei].
        * rewrite reg_find_cons_other in Nj by exact Hne.
          destruct (N1 j Ej Nj) as [m [Hm Hj]]. exists m. split; [|exact Hj]. cbn [nodes]. right. exact Hm.
  Qed.
End TreeRT.

(* ---------- the statements for whole calls ---------- *)
Section Final.
  Variable H : pystr -> pystr.
  Variable ct : ctable.
  Variable pt : ptab.
  Variable s : slots.
  Hypothesis Hi : ints_as_str s = false.
  Hypothesis Hs : get_skip s = false.
  Hypothesis Ht : is_test s = false.
  Hypothesis Hnames : forall c f, In f (fields_of ct c) -> ~ In (fd_name f) reserved.

  Definition ids_injective (ids : list (nat * pystr)) (t : node) : Prop :=
    forall m m' i, In m (nodes t) -> In m' (nodes t) ->
    assoc_nat (addr m) ids = Some i -> assoc_nat (addr m') ids = Some i -> addr m = addr m'.
  (* "provided no other live node has meanwhile taken over its id": whatever is registered under the id of a
     node of the tree is that node *)
  Definition no_takeover (ids : list (nat * pystr)) (reg0 : list (pystr * node)) (t : node) : Prop :=
    forall m i x, In m (nodes t) -> assoc_nat (addr m) ids = Some i -> reg_find i reg0 = Some x -> x = m.

  Theorem tree_roundtrip reg ids armed reg0 ids0 next0 srcs T v fuel :
    consistent T -> ids_injective ids T -> conforming ct pt s T -> no_takeover ids reg0 T ->
    (forall a x, assoc_nat a ids0 = Some x -> a < next0) ->
    (get_sidx s = true -> reg_agree reg srcs) ->
    ser_node H ct pt current_nv s reg ids armed T = Some v -> node_depth T <= fuel ->
    exists n' st',
      deser_node H ct pt current_dv fuel s v {| ds_srcs := srcs; ds_reg := reg0; ds_ids := ids0; ds_next := next0 |} = Ok (n', st')
      /\ rt_ok H ct ids reg0 next0 (ds_reg st') (ds_ids st') T n'
      /\ reg_ext reg0 (ds_reg st')
      /\ (forall j, reg_find j reg0 = None -> reg_find j (ds_reg st') <> None ->
          exists m, In m (nodes T) /\ assoc_nat (addr m) ids = Some j).
  Proof.
    intros Tc Ti Tf Tn Hids Hsrc E Hf.
    set (st0 := {| ds_srcs := srcs; ds_reg := reg0; ds_ids := ids0; ds_next := next0 |}).
    assert (I0 : Inv H ct s reg ids reg0 next0 T st0).
    { subst st0. constructor; cbn [ds_srcs ds_reg ds_ids ds_next].
      - exact Hsrc.
      - intros m i x Um Ei Er. pose proof (Tn m i x Um Ei Er) as Ex. subst x. eapply rt_reused; eauto.
      - exact Hids.
      - apply le_n.
      - intros i x Er. exact Er. }
    destruct (node_rt H ct pt s Hi Hs Ht Hnames reg ids armed reg0 next0 T Tc Ti Tf T (nodes_self T) v E fuel st0 Hf I0)
      as [n' [st' [D [R [I' [X N]]]]]].
    exists n', st'. split; [exact D|]. split; [exact R|]. split; [exact (I_ext0 _ _ _ _ _ _ _ _ _ I')|exact N].
  Qed.

  (* every original still registered: reading is a registry lookup, the result is the original tree itself *)
  Theorem tree_all_alive reg ids armed T v fuel st i :
    ser_node H ct pt current_nv s reg ids armed T = Some v ->
    assoc_nat (addr T) ids = Some i -> reg_find i (ds_reg st) = Some T ->
    deser_node H ct pt current_dv (S fuel) s v st = Ok (T, st).
  Proof.
    destruct T as [a c o ps ks]. intros E Ei Er. rewrite ser_node_eq in E. cbn [addr] in Ei. rewrite Ei in E.
    destruct (ser_origin s reg o) as [ov|]; [|discriminate].
    destruct (omap _ ks) as [kvals|]; [|discriminate].
    destruct (existsb (Nat.eqb a) armed); [discriminate|]. injection E as <-.
    rewrite deser_node_eq. rewrite (m_id H ct pt s Ht Hnames a c o ps ks i ov kvals). rewrite Er. reflexivity.
  Qed.
End Final.

(* ---------- ids handed out by the construction are pairwise different ---------- *)
Lemma mem_str_in x l : mem_str x l = true <-> In x l.
Proof.
  unfold mem_str. rewrite existsb_exists. split.
  - intros [y [Hy E]]. apply pystr_eqb_eq in E. subst. exact Hy.
  - intros Hin. exists x. split; auto. apply pystr_eqb_refl.
Qed.
Lemma first_free_spec used base : forall fuel i,
  mem_str (first_free used base i fuel) used = false \/
  (forall j, i <= j <= i + fuel -> In (base ++ "_"%char :: dec j) used).
Proof.
  induction fuel as [|f IH]; intros i; cbn [first_free].
  - destruct (mem_str (base ++ "_"%char :: dec i) used) eqn:E; [right|left; reflexivity].
    intros j Hj. assert (j = i) by lia. subst. apply mem_str_in. exact E.
  - destruct (mem_str (base ++ "_"%char :: dec i) used) eqn:E; [|left; exact E || reflexivity].
    destruct (IH (S i)) as [A|A]; [left; exact A|right]. intros j Hj.
    destruct (Nat.eq_dec j i) as [->|Hne]; [apply mem_str_in; exact E|]. apply A. lia.
Qed.
Lemma unique_id_fresh used base : ~ In (unique_id used base) used.
Proof.
  unfold unique_id. destruct (mem_str base used) eqn:Eb.
  - destruct (first_free_spec used base (length used) 1) as [A|A].
    + intros Hin. apply mem_str_in in Hin. congruence.
    + exfalso.
      set (g := fun j => base ++ "_"%char :: dec j).
      assert (Hnd : NoDup (map g (seq 1 (S (length used))))).
      { apply FinFun.Injective_map_NoDup; [|apply seq_NoDup]. intros x y Exy. unfold g in Exy.
        apply app_inv_head in Exy. injection Exy as Exy. apply dec_inj. exact Exy. }
      assert (Hincl : incl (map g (seq 1 (S (length used)))) used).
      { intros x Hx. apply in_map_iff in Hx as [j [<- Hj]]. apply in_seq in Hj. apply A. lia. }
      pose proof (NoDup_incl_length Hnd Hincl) as Hlen. rewrite map_length, seq_length in Hlen. unfold pystr in *. lia.
  - intros Hin. apply mem_str_in in Hin. congruence.
Qed.

Section Build.
  Variable H : pystr -> pystr.
  Variable ct : ctable.

  Definition build_list (l : list node) (st : bstate) : bstate := fold_left (fun st x => build H ct x st) l st.
  Definition build_kids (ks : list (pystr * (kshape * list node))) (st : bstate) : bstate :=
    fold_left (fun st k => build_list (snd (snd k)) st) ks st.
  Lemma build_eq a c o ps ks st :
    build H ct (Node a c o ps ks) st =
    match assoc_nat a (b_ids st) with
    | Some _ => st
    | None =>
      let st1 := build_kids ks st in
      let i := unique_id (b_used st1) (H (id_data H ct current (Node a c o ps ks))) in
      {| b_ids := (a, i) :: b_ids st1; b_used := i :: b_used st1; b_srcs := register_origin o (b_srcs st1) |}
    end.
  Proof.
    cbn [build]. destruct (assoc_nat a (b_ids st)); [reflexivity|].
    assert (E : forall st,
      (fix gok (ks : list (pystr * (kshape * list node))) (st : bstate) {struct ks} : bstate :=
         match ks with
         | [] => st
         | (_, (_, l)) :: r =>
           gok r ((fix go (l : list node) (st : bstate) {struct l} : bstate :=
                     match l with [] => st | x :: r => go r (build H ct x st) end) l st)
         end) ks st = build_kids ks st).
    { induction ks as [|[f [sh l]] ks IH]; intros st'; [reflexivity|]. rewrite IH. reflexivity. }
    rewrite E. reflexivity.
  Qed.

  (* the node registry holds the ids handed out; no two addresses share an id; the source registry is valid *)
  Record binv (st : bstate) : Prop := {
    B_used : forall a i, assoc_nat a (b_ids st) = Some i -> In i (b_used st);
    B_inj : forall a a' i, assoc_nat a (b_ids st) = Some i -> assoc_nat a' (b_ids st) = Some i -> a = a';
    B_srcs : reg_valid (b_srcs st) }.

  Lemma build_binv n : forall st, binv st -> binv (build H ct n st).
  Proof.
    induction n as [a c o ps ks IH] using node_ind'. intros st B. rewrite build_eq.
    destruct (assoc_nat a (b_ids st)); [exact B|]. cbv zeta.
    assert (B1 : binv (build_kids ks st)).
    { clear - IH B. revert st B. induction IH as [|k ks Hk _ IHks]; intros st B; [exact B|].
      cbn [build_kids fold_left]. apply IHks.
      clear - Hk B. revert st B. induction Hk as [|x l Hx _ IHl]; intros st B; [exact B|].
      cbn [build_list fold_left]. apply IHl. apply Hx. exact B. }
    set (st1 := build_kids ks st) in *.
    set (i := unique_id (b_used st1) (H (id_data H ct current (Node a c o ps ks)))).
    pose proof (unique_id_fresh (b_used st1) (H (id_data H ct current (Node a c o ps ks)))) as Hfresh. fold i in Hfresh.
    destruct B1 as [U1 J1 S1]. constructor; cbn [b_ids b_used b_srcs].
    - intros b j E. simpl in E. destruct (Nat.eqb a b); [injection E as <-; left; reflexivity|right; eauto].
    - intros b b' j E E'. simpl in E, E'.
      destruct (Nat.eqb_spec a b), (Nat.eqb_spec a b'); try congruence.
      + injection E as <-. exfalso. apply Hfresh. eauto.
      + injection E' as <-. exfalso. apply Hfresh. eauto.
      + eauto.
    - apply register_origin_valid. exact S1.
  Qed.
  Lemma build_injective n st t : binv st -> ids_injective (b_ids (build H ct n st)) t.
  Proof. intros B m m' i _ _ E E'. exact (B_inj _ (build_binv n st B) _ _ _ E E'). Qed.
End Build.

(* any set of ids already in use (content-identical twins registered outside the tree) is an admissible start *)
Lemma binv_init (used : list pystr) : binv {| b_ids := []; b_used := used; b_srcs := [] |}.
Proof. constructor; cbn; try discriminate. apply reg_valid_nil. Qed.

(* ---------- trees built through the registry simulation ---------- *)
Section Built.
  Variable H : pystr -> pystr.
  Variable ct : ctable.
  Variable pt : ptab.
  Variable s : slots.
  Hypothesis Hi : ints_as_str s = false.
  Hypothesis Hs : get_skip s = false.
  Hypothesis Ht : is_test s = false.
  Hypothesis Hnames : forall c f, In f (fields_of ct c) -> ~ In (fd_name f) reserved.

  (* any registry state at construction time, any subset of the originals alive at reading time *)
  Theorem built_roundtrip T st0 armed reg0 ids0 next0 srcs v fuel :
    binv st0 -> let stb := build H ct T st0 in
    consistent T -> conforming ct pt s T -> no_takeover (b_ids stb) reg0 T ->
    (forall a x, assoc_nat a ids0 = Some x -> a < next0) ->
    (get_sidx s = true -> reg_agree (b_srcs stb) srcs) ->
    ser_node H ct pt current_nv s (b_srcs stb) (b_ids stb) armed T = Some v -> node_depth T <= fuel ->
    exists n' st',
      deser_node H ct pt current_dv fuel s v {| ds_srcs := srcs; ds_reg := reg0; ds_ids := ids0; ds_next := next0 |} = Ok (n', st')
      /\ rt_ok H ct (b_ids stb) reg0 next0 (ds_reg st') (ds_ids st') T n'
      /\ reg_ext reg0 (ds_reg st')
      /\ (forall j, reg_find j reg0 = None -> reg_find j (ds_reg st') <> None ->
          exists m, In m (nodes T) /\ assoc_nat (addr m) (b_ids stb) = Some j).
  Proof.
    intros B stb Tc Tf Tn Hids Hsrc E Hf.
    apply (tree_roundtrip H ct pt s Hi Hs Ht Hnames (b_srcs stb) (b_ids stb) armed reg0 ids0 next0 srcs T v fuel); auto.
    apply build_injective. exact B.
  Qed.

  (* a fresh process: no node alive, the source registry rebuilt from Source.all_as_dict() *)
  Theorem built_roundtrip_fresh_process T st0 armed next0 v fuel sfuel :
    binv st0 -> let stb := build H ct T st0 in
    consistent T -> conforming ct pt s T ->
    (forall y, In y (b_srcs stb) -> source_depth y <= sfuel) ->
    ser_node H ct pt current_nv s (b_srcs stb) (b_ids stb) armed T = Some v -> node_depth T <= fuel ->
    exists ds srcs, all_as_dict (b_srcs stb) = Some ds /\ load_sources sfuel ds [] = Ok srcs /\
    exists n' st',
      deser_node H ct pt current_dv fuel s v {| ds_srcs := srcs; ds_reg := []; ds_ids := []; ds_next := next0 |} = Ok (n', st')
      /\ rt_ok H ct (b_ids stb) [] next0 (ds_reg st') (ds_ids st') T n'
      /\ (forall j, reg_find j (ds_reg st') <> None -> exists m, In m (nodes T) /\ assoc_nat (addr m) (b_ids stb) = Some j).
  Proof.
    intros B stb Tc Tf Hsf E Hf.
    pose proof (B_srcs _ (build_binv H ct T st0 B)) as Vs. fold stb in Vs.
    destruct (reload_registry (b_srcs stb) sfuel Vs Hsf) as [ds [srcs [A1 [A2 A3]]]].
    exists ds, srcs. split; [exact A1|]. split; [exact A2|].
    destruct (built_roundtrip T st0 armed [] [] next0 srcs v fuel B Tc Tf) as [n' [st' [D [R [_ N]]]]]; auto.
    - intros m i x _ _ Er. discriminate.
    - intros a x Ea. discriminate.
    - intros _. apply reg_eqv_agree. exact A3.
    - exists n', st'. split; [exact D|]. split; [exact R|]. intros j. apply N. reflexivity.
  Qed.
End Built.

Lemma rt_sharing H ct ids reg0 next0 regF idsF n1 n1' n2 n2' :
  rt_ok H ct ids reg0 next0 regF idsF n1 n1' -> rt_ok H ct ids reg0 next0 regF idsF n2 n2' ->
  (addr n1 = addr n2 -> n1' = n2') /\
  ((forall i, assoc_nat (addr n1) ids = Some i -> assoc_nat (addr n2) ids = Some i -> addr n1 = addr n2) ->
   addr n1 < next0 -> addr n2 < next0 -> addr n1' = addr n2' -> addr n1 = addr n2).
Proof. intros. split; [eapply rt_shared; eassumption|intros; eapply rt_not_merged; eassumption]. Qed.
