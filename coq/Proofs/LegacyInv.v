(* C18: the invariant is preserved by detach_self (and by the calls that return without doing anything). *)
From Oak Require Import Spec.LegacySpec.
From Coq Require Import List String Ascii ZArith Bool Arith Lia.
Import ListNotations.

(* ---------- heap updates ---------- *)
Lemma nth_set_nth {A} (l : list A) n x d m :
  nth m (set_nth n x l) d = if Nat.eqb n m then (if Nat.ltb n (List.length l) then x else nth m l d) else nth m l d.
Proof.
  revert n m. induction l as [|y l IH]; intros n m; simpl.
  - destruct n, m; simpl; try reflexivity; destruct (Nat.eqb n m); reflexivity.
  - destruct n, m; simpl; try reflexivity.
    rewrite IH. destruct (Nat.eqb n m); [|reflexivity].
    destruct (Nat.ltb n (List.length l)) eqn:E1; destruct (Nat.ltb (S n) (S (List.length l))) eqn:E2; try reflexivity;
      apply Nat.ltb_lt in E1 || apply Nat.ltb_ge in E1; apply Nat.ltb_lt in E2 || apply Nat.ltb_ge in E2; lia.
Qed.
Lemma length_set_nth {A} (l : list A) n x : List.length (set_nth n x l) = List.length l.
Proof. revert n. induction l; intros [|n]; simpl; auto. Qed.

Definition cleared (c : cell) : cell := with_xp None (with_parent None None None c).
Lemma cleared_dummy : cleared dummy = dummy. Proof. reflexivity. Qed.

Lemma cellD_clear_parent s k b :
  cellD (clear_parent s k) b = if Nat.eqb k b then cleared (cellD s b) else cellD s b.
Proof.
  unfold clear_parent, upd, cell_at, cellD.
  destruct (nth_error (heap s) k) as [c|] eqn:E.
  - simpl. rewrite nth_set_nth.
    assert (Hl : k < List.length (heap s)) by (apply nth_error_Some; congruence).
    apply Nat.ltb_lt in Hl. rewrite Hl.
    destruct (Nat.eqb k b) eqn:Ek; [|reflexivity].
    apply Nat.eqb_eq in Ek; subst b. fold (cleared c).
    rewrite (nth_error_nth _ _ dummy E). reflexivity.
  - destruct (Nat.eqb k b) eqn:Ek; [|reflexivity].
    apply Nat.eqb_eq in Ek; subst b. apply nth_error_None in E.
    rewrite nth_overflow by exact E. reflexivity.
Qed.
Lemma heap_len_clear_parent s k : List.length (heap (clear_parent s k)) = List.length (heap s).
Proof.
  unfold clear_parent, upd. destruct (cell_at s k); simpl; [apply length_set_nth | reflexivity].
Qed.
Lemma reg_clear_parent s k : reg (clear_parent s k) = reg s.
Proof. unfold clear_parent, upd. destruct (cell_at s k); reflexivity. Qed.

Definition clear_all (s : st) (ks : list nat) : st := fold_left clear_parent ks s.
Lemma cleared_idem c : cleared (cleared c) = cleared c. Proof. reflexivity. Qed.
Lemma cellD_clear_all ks : forall s b,
  cellD (clear_all s ks) b = if existsb (Nat.eqb b) ks then cleared (cellD s b) else cellD s b.
Proof.
  induction ks as [|k ks IH]; intros s b; simpl; [reflexivity|].
  unfold clear_all in *. simpl. rewrite IH. rewrite cellD_clear_parent.
  rewrite (Nat.eqb_sym b k).
  destruct (Nat.eqb k b), (existsb (Nat.eqb b) ks); simpl; try reflexivity.
Qed.
Lemma heap_len_clear_all ks : forall s, List.length (heap (clear_all s ks)) = List.length (heap s).
Proof.
  induction ks; intros s; simpl; [reflexivity|]. unfold clear_all in *; simpl.
  rewrite IHks. apply heap_len_clear_parent.
Qed.
Lemma reg_clear_all ks : forall s, reg (clear_all s ks) = reg s.
Proof.
  induction ks; intros s; simpl; [reflexivity|]. unfold clear_all in *; simpl.
  rewrite IHks. apply reg_clear_parent.
Qed.

(* ---------- registry ---------- *)
Lemma assoc_remove_key {A} k i (l : list (pystr * A)) :
  assoc i (remove_key k l) = if pystr_eqb i k then None else assoc i l.
Proof.
  induction l as [|[j v] l IH]; simpl.
  - destruct (pystr_eqb i k); reflexivity.
  - destruct (pystr_eqb k j) eqn:Ekj.
    + apply pystr_eqb_eq in Ekj; subst j. rewrite IH.
      destruct (pystr_eqb i k); reflexivity.
    + simpl. rewrite IH. destruct (pystr_eqb i j) eqn:Eij; [|reflexivity].
      apply pystr_eqb_eq in Eij; subst j.
      destruct (pystr_eqb i k) eqn:Eik; [|reflexivity].
      apply pystr_eqb_eq in Eik; subst k. rewrite pystr_eqb_refl in Ekj. discriminate.
Qed.

(* ---------- detach_self ---------- *)
Section DetachSelf.
  Variable H : pystr -> pystr.
  Variable ct : ctable.

  Lemma detach_loop_only_self rec ks : forall s, detach_loop rec true s ks = Ok (clear_all s ks) tt.
  Proof. induction ks; intros s; simpl; [reflexivity|]. apply IHks. Qed.

  (* the digest of the rebuilt tree reads classes, properties and child fields only *)
  Lemma tree_cid_skel s s' :
    (forall b, c_cls (cellD s' b) = c_cls (cellD s b) /\ c_fs (cellD s' b) = c_fs (cellD s b)) ->
    forall fuel a, tree_cid H ct fuel s' a = tree_cid H ct fuel s a.
  Proof.
    intros Hs. induction fuel; intros a; simpl; [reflexivity|].
    destruct (Hs a) as [Hc Hf].
    unfold props_of, kid_data, sorted_kids, kids_wf. rewrite Hc, Hf.
    f_equal. f_equal. f_equal.
    apply flat_map_ext. intros [[k f] i]. rewrite IHfuel. reflexivity.
  Qed.

  Lemma in_skids s a k : In k (skids s a) <-> exists f i, In (k, f, i) (skids_wf s a).
  Proof.
    unfold skids, kids, skids_wf. rewrite in_map_iff. split.
    - intros [[[k' f] i] [E Hin]]. simpl in E; subst. eauto.
    - intros [f [i Hin]]. exists (k, f, i). auto.
  Qed.

  Lemma attached_reg s a : attached s a <-> reg_get s (id_of s a) = Some a.
  Proof.
    unfold attached, detached. destruct (reg_get s (id_of s a)) as [b|]; split; intros E; try discriminate.
    - apply negb_false_iff in E. apply Nat.eqb_eq in E. subst; reflexivity.
    - inversion E; subst. rewrite Nat.eqb_refl. reflexivity.
  Qed.

  Theorem inv_step_detach_self s a s' ob :
    Inv H ct s -> step H ct s (ODetachSelf a) = (s', ob) -> Inv H ct s'.
  Proof.
    intros [HR HI] Hst. simpl in Hst. unfold op_detach, fuel_of in Hst. simpl in Hst.
    destruct (detached s a) eqn:Hd; [inversion Hst; subst; split; assumption|].
    destruct (is_attached_root s a) eqn:Hroot; simpl in Hst; [|inversion Hst; subst; split; assumption].
    rewrite detach_loop_only_self in Hst.
    set (s1 := clear_all s (skids s a)) in *.
    assert (Hatt : reg_get s (id_of s a) = Some a) by (apply attached_reg; exact Hd).
    destruct (HR _ _ Hatt) as [Hlive _].
    assert (Hpa : parent s a = None).
    { unfold is_attached_root in Hroot. destruct (parent s a); [discriminate|reflexivity]. }
    (* facts about s1 *)
    assert (Hcell : forall b, cellD s1 b = if existsb (Nat.eqb b) (skids s a) then cleared (cellD s b) else cellD s b)
      by (intros b; apply cellD_clear_all).
    assert (Hreg1 : reg s1 = reg s) by apply reg_clear_all.
    assert (Hlen1 : List.length (heap s1) = List.length (heap s)) by apply heap_len_clear_all.
    assert (Hid1 : forall b, id_of s1 b = id_of s b).
    { intros b. unfold id_of. rewrite Hcell. destruct (existsb _ _); reflexivity. }
    assert (Hg : reg_get s1 (id_of s1 a) = Some a).
    { unfold reg_get. rewrite Hreg1, Hid1. exact Hatt. }
    rewrite Hg in Hst. inversion Hst; subst s' ob. clear Hst.
    set (s2 := reg_pop s1 (id_of s1 a)).
    assert (Hcell2 : forall b, cellD s2 b = cellD s1 b) by reflexivity.
    assert (Hget2 : forall i, reg_get s2 i = if pystr_eqb i (id_of s a) then None else reg_get s i).
    { intros i. unfold s2, reg_get, reg_pop. simpl. rewrite assoc_remove_key, Hid1, Hreg1. reflexivity. }
    assert (Hid2 : forall b, id_of s2 b = id_of s b) by (intros b; unfold id_of; rewrite Hcell2; apply Hid1).
    assert (Hfs2 : forall b, c_cls (cellD s2 b) = c_cls (cellD s b) /\ c_fs (cellD s2 b) = c_fs (cellD s b)).
    { intros b. rewrite Hcell2, Hcell. destruct (existsb _ _); split; reflexivity. }
    assert (Hkids2 : forall b, skids_wf s2 b = skids_wf s b).
    { intros b. unfold skids_wf, kids_wf. destruct (Hfs2 b) as [_ E]. rewrite E. reflexivity. }
    (* attached in s2 = attached in s, except a *)
    assert (Hatt2 : forall b, attached s2 b -> attached s b /\ b <> a /\ pystr_eqb (id_of s b) (id_of s a) = false).
    { intros b Hb. apply attached_reg in Hb. rewrite Hget2, Hid2 in Hb.
      destruct (pystr_eqb (id_of s b) (id_of s a)) eqn:E; [discriminate|].
      split; [apply attached_reg; exact Hb|]. split; [|reflexivity].
      intros ->. rewrite pystr_eqb_refl in E. discriminate. }
    assert (Hatt2' : forall b, attached s b -> b <> a -> attached s2 b).
    { intros b Hb Hne. apply attached_reg. apply attached_reg in Hb. rewrite Hget2, Hid2.
      destruct (pystr_eqb (id_of s b) (id_of s a)) eqn:E; [|exact Hb].
      apply pystr_eqb_eq in E. rewrite E in Hb. rewrite Hatt in Hb. inversion Hb; subst. contradiction. }
    (* parent in s2 *)
    assert (Hpar2 : forall b p, parent s2 b = Some p ->
                                existsb (Nat.eqb b) (skids s a) = false /\ parent s b = Some p /\ p <> a).
    { intros b p Hp. unfold parent in Hp. rewrite Hcell2, Hcell in Hp.
      destruct (existsb (Nat.eqb b) (skids s a)) eqn:E; [simpl in Hp; discriminate|].
      split; [reflexivity|]. unfold parent. destruct (c_pid (cellD s b)) as [pid|]; [|discriminate].
      rewrite Hget2 in Hp. destruct (pystr_eqb pid (id_of s a)) eqn:E2; [discriminate|].
      split; [exact Hp|]. intros ->. destruct (HR _ _ Hp) as [_ Hi]. rewrite Hi, pystr_eqb_refl in E2. discriminate. }
    assert (Hpar2' : forall b p, parent s b = Some p -> p <> a -> existsb (Nat.eqb b) (skids s a) = false ->
                                 parent s2 b = Some p).
    { intros b p Hp Hne E. unfold parent in *. rewrite Hcell2, Hcell, E.
      destruct (c_pid (cellD s b)) as [pid|]; [|discriminate].
      rewrite Hget2. destruct (pystr_eqb pid (id_of s a)) eqn:E2; [|exact Hp].
      apply pystr_eqb_eq in E2. subst pid. rewrite Hatt in Hp. inversion Hp; subst. contradiction. }
    split.
    - (* RegOk *)
      intros i x Hx. rewrite Hget2 in Hx. destruct (pystr_eqb i (id_of s a)); [discriminate|].
      destruct (HR _ _ Hx) as [Hl Hi]. split.
      + unfold live in *. unfold s2, reg_pop; simpl. rewrite Hlen1. exact Hl.
      + rewrite Hid2. exact Hi.
    - (* LInv *)
      intros b Hlb Hab.
      destruct (Hatt2 b Hab) as [Hab0 [Hne Hidne]].
      assert (Hlb0 : live s b).
      { unfold live in *. unfold s2, reg_pop in Hlb; simpl in Hlb. rewrite Hlen1 in Hlb. exact Hlb. }
      destruct (HI b Hlb0 Hab0) as [Hc Hs Hl Hcid].
      constructor.
      + intros k f i Hin. rewrite Hkids2 in Hin.
        destruct (Hc k f i Hin) as [Hk1 [Hk2 [Hk3 Hk4]]].
        assert (Hkna : k <> a). { intros ->. rewrite Hpa in Hk2. discriminate. }
        assert (Hknk : existsb (Nat.eqb k) (skids s a) = false).
        { destruct (existsb (Nat.eqb k) (skids s a)) eqn:E; [|reflexivity]. exfalso.
          apply existsb_exists in E. destruct E as [k' [Hin' Ek]]. apply Nat.eqb_eq in Ek; subst k'.
          apply in_skids in Hin'. destruct Hin' as [f' [i' Hin']].
          destruct (HI a Hlive Hd) as [Hca _ _ _]. destruct (Hca k f' i' Hin') as [_ [Hpk _]].
          rewrite Hk2 in Hpk. inversion Hpk. contradiction. }
        split; [apply Hatt2'; assumption|].
        split; [apply Hpar2'; assumption|].
        rewrite Hcell2, Hcell, Hknk. split; assumption.
      + intros p Hp. destruct (Hpar2 b p Hp) as [Hnk [Hp0 Hpna]].
        destruct (Hs p Hp0) as [f [Hf Hin]]. exists f.
        rewrite Hcell2, Hcell, Hnk, Hkids2. split; assumption.
      + rewrite Hget2, Hid2, Hidne. exact Hl.
      + rewrite Hcell2, Hcell.
        replace (c_cid (if existsb (Nat.eqb b) (skids s a) then cleared (cellD s b) else cellD s b))
          with (c_cid (cellD s b)) by (destruct (existsb _ _); reflexivity).
        rewrite Hcid.
        assert (Hf : fuel_of s2 = fuel_of s) by (unfold fuel_of, s2, reg_pop; simpl; rewrite Hlen1; reflexivity).
        rewrite Hf. symmetry. apply tree_cid_skel. exact Hfs2.
  Qed.
End DetachSelf.

(* ---------- which errors an operation can raise: frames from the OBSERVED error ---------- *)
Section Errors.
  Variable H : pystr -> pystr.
  Variable ct : ctable.

  Lemma attach_loop_err rec a :
    (forall s k s' e, rec s k = Er s' e -> e = EReg) ->
    forall ks s s' e, attach_loop rec a s ks = Er s' e -> e = EReg.
  Proof.
    intros Hrec. induction ks as [|[[k fn] i] ks IH]; intros s s' e E; simpl in E; [discriminate|].
    destruct (detached s k).
    - destruct (rec s k) as [s1 [x|]|s1 e1|] eqn:Er; try discriminate.
      + eapply IH; eassumption.
      + inversion E; subst. eapply Hrec; eassumption.
    - destruct (negb (is_attached_root s k)); [discriminate|]. eapply IH; eassumption.
  Qed.
  Lemma attach_inner_err : forall fuel s a s' e, attach_inner fuel s a = Er s' e -> e = EReg.
  Proof.
    induction fuel; intros s a s' e E; simpl in E; [discriminate|].
    destruct (reg_get s (id_of s a)); [inversion E; reflexivity|].
    destruct (attach_loop (attach_inner fuel) a s (skids_wf s a)) as [s1 [x|]|s1 e1|] eqn:El; try discriminate.
    inversion E; subst. eapply attach_loop_err; [|eassumption]. exact (IHfuel).
  Qed.
  Lemma attach_err s a s' e : attach_ s a = Er s' e -> e = EReg \/ e = EPar.
  Proof.
    unfold attach_. destruct (attach_inner (fuel_of s) s a) as [s1 [x|]|s1 e1|] eqn:E; intros E'; try discriminate.
    - inversion E'; auto.
    - inversion E'; subst. left. eapply attach_inner_err; eassumption.
  Qed.

  Lemma construct_err s cls org fs idarg eu ad cd s' e :
    construct H ct s cls org fs idarg eu ad cd = Er s' e ->
    ((e = EDup \/ e = EIdc) /\ s' = {| heap := heap s ++ [
        {| c_cls := cls; c_org := org; c_fs := fs;
           c_id := match idarg with Some i => i | None => UNSET end; c_oid := None; c_coll := None;
           c_pid := None; c_pf := None; c_pi := None; c_xp := None; c_cid := UNSET |}]; reg := reg s |})
    \/ e = EReg \/ e = EPar.
  Proof.
    unfold construct.
    match goal with |- context [has_dup_id ?s0 [] ?k] => destruct (has_dup_id s0 [] k) end.
    - intros E; inversion E; subst. left; auto.
    - match goal with |- context [match ?d with Some _ => _ | None => Div end] => destruct d as [[[[nid coll] oid]|]|] end;
        try discriminate.
      + destruct cd; [discriminate|].
        match goal with |- context [attach_ ?s1 ?a] => destruct (attach_ s1 a) as [s2 u|s2 e2|] eqn:Ea end;
          try discriminate.
        intros E; inversion E; subst. right. eapply attach_err; eassumption.
      + intros E; inversion E; subst. left; auto.
  Qed.

  Lemma detach_loop_err rec os :
    (forall s k s' e, rec s k = Er s' e -> e = ECrash) ->
    forall ks s s' e, detach_loop rec os s ks = Er s' e -> e = ECrash.
  Proof.
    intros Hrec. induction ks as [|k ks IH]; intros s s' e E; simpl in E; [discriminate|].
    destruct os; [eapply IH; eassumption|].
    destruct (rec (clear_parent s k) k) as [s2 b|s2 e2|] eqn:Er; try discriminate.
    - eapply IH; eassumption.
    - inversion E; subst. eapply Hrec; eassumption.
  Qed.
  Lemma detach_err : forall fuel os s a s' e, detach fuel os s a = Er s' e -> e = ECrash.
  Proof.
    induction fuel; intros os s a s' e E; simpl in E; [discriminate|].
    destruct (detached s a); [discriminate|].
    destruct (negb (is_attached_root s a)); [discriminate|].
    destruct (detach_loop (detach fuel false) os s (skids s a)) as [s1 u|s1 e1|] eqn:El; try discriminate.
    - destruct (reg_get s1 (id_of s1 a)); [discriminate|]. inversion E; reflexivity.
    - inversion E; subst. eapply detach_loop_err; [|eassumption]. intros; eapply IHfuel; eassumption.
  Qed.

  Lemma reset_cid_err : forall fuel s a s' e, reset_cid H ct fuel s a <> Er s' e.
  Proof.
    induction fuel; intros s a s' e; simpl; [discriminate|].
    destruct (parent (set_cid H ct s a) a); [apply IHfuel | discriminate].
  Qed.
  Lemma replace_child_err s p old f i new s' e :
    replace_child H ct s p old f i new = Er s' e -> e = ECrash.
  Proof.
    unfold replace_child.
    set (af := match i with Some _ => _ | None => _ end).
    assert (Haf : forall s1 e1, af = Er s1 e1 -> e1 = ECrash).
    { subst af. destruct i as [ix|].
      - destruct (assoc f (c_fs (cellD s p))) as [[v|o|l]|]; try (intros s1 e1 E; inversion E; reflexivity).
        destruct new; [discriminate|].
        generalize (upd s p (with_fs (set_key f (FSeq (firstn ix l ++ skipn (S ix) l)) (c_fs (cellD s p))))).
        generalize (skipn (S ix) l).
        intros cs. induction cs as [|c cs IH]; intros s0 s1 e1 E; simpl in E; [discriminate|].
        destruct (c_pi (cellD s0 c)); [eapply IH; exact E | inversion E; reflexivity].
      - destruct (assoc f (c_fs (cellD s p))) as [[v|o|l]|]; intros s1 e1 E; inversion E; reflexivity. }
    destruct af as [s2 u|s2 e2|] eqn:Ea; unfold bind; cbv zeta.
    - match goal with |- (if ?c then _ else _) = _ -> _ => destruct c end; [|intros E; discriminate E].
      intros E. exfalso. eapply reset_cid_err; exact E.
    - intros E; inversion E; subst. eapply Haf; reflexivity.
    - discriminate.
  Qed.

  (* the frames, from the error the caller sees *)
  Definition push_new (s : st) cls org fs (idarg : option pystr) : st :=
    {| heap := heap s ++ [ {| c_cls := cls; c_org := org; c_fs := fs;
                              c_id := match idarg with Some i => i | None => UNSET end; c_oid := None; c_coll := None;
                              c_pid := None; c_pf := None; c_pi := None; c_xp := None; c_cid := UNSET |}];
       reg := reg s |}.

  Theorem new_rejected_dup_or_idc s cls org fs idarg eu ad cd s' e :
    step H ct s (ONew cls org fs idarg eu ad cd) = (s', RErr e) -> e = EDup \/ e = EIdc ->
    s' = push_new s cls org fs idarg.
  Proof.
    simpl. destruct (construct H ct s cls org fs idarg eu ad cd) as [s1 a|s1 e1|] eqn:E; simpl; try discriminate.
    intros E' He. inversion E'; subst.
    destruct (construct_err _ _ _ _ _ _ _ _ _ _ E) as [[_ Hs]|[->| ->]]; [exact Hs| |]; destruct He; discriminate.
  Qed.

  Theorem replace_rejected_keys s a ch s' :
    step H ct s (OReplace a ch) = (s', RErr ERep) -> s' = s.
  Proof.
    simpl. unfold op_replace.
    destruct (negb (forallb (fun kv => allowed_key ct (c_cls (cellD s a)) (fst kv)) ch)); simpl;
      [intros E; inversion E; reflexivity|].
    intros E. exfalso. revert E.
    set (s1 := match parent s a with Some _ => clear_parent s a | None => s end).
    destruct (negb (detached s1 a)); simpl.
    - destruct (op_detach true s1 a) as [s2 b|s2 e2|] eqn:Ed; simpl; try discriminate.
      + match goal with |- context [construct H ct ?x1 ?x2 ?x3 ?x4 ?x5 ?x6 ?x7 ?x8] =>
          destruct (construct H ct x1 x2 x3 x4 x5 x6 x7 x8) as [s3 r|s3 e3|] eqn:Ec end; simpl.
        * destruct (parent s a) as [p|]; [destruct (c_pf (cellD s a)) as [f|]|]; simpl.
          -- destruct (replace_child H ct s3 p a f (c_pi (cellD s a)) (Some r)) as [s4 u|s4 e4|] eqn:Er; simpl;
               try discriminate.
             intros E; inversion E; subst. apply replace_child_err in Er. discriminate.
          -- discriminate.
          -- discriminate.
        * destruct (construct_err _ _ _ _ _ _ _ _ _ _ Ec) as [[[-> | ->] _]|[->| ->]];
            destruct (parent s a); try destruct (c_pf (cellD s a)); discriminate.
        * discriminate.
      + intros E; inversion E; subst. unfold op_detach in Ed. apply detach_err in Ed. discriminate.
    - match goal with |- context [construct H ct ?x1 ?x2 ?x3 ?x4 ?x5 ?x6 ?x7 ?x8] =>
        destruct (construct H ct x1 x2 x3 x4 x5 x6 x7 x8) as [s3 r|s3 e3|] eqn:Ec end; simpl.
      + destruct (parent s a) as [p|]; [destruct (c_pf (cellD s a)) as [f|]|]; simpl.
        * destruct (replace_child H ct s3 p a f (c_pi (cellD s a)) (Some r)) as [s4 u|s4 e4|] eqn:Er; simpl;
            try discriminate.
          intros E; inversion E; subst. apply replace_child_err in Er. discriminate.
        * discriminate.
        * discriminate.
      + destruct (construct_err _ _ _ _ _ _ _ _ _ _ Ec) as [[[-> | ->] _]|[->| ->]];
          destruct (parent s a); try destruct (c_pf (cellD s a)); discriminate.
      + discriminate.
  Qed.
End Errors.

From Oak Require Import Proofs.LegacyProofs.
Section FramesFromOutcome.
  Variable H : pystr -> pystr.
  Variable ct : ctable.

  Theorem frame_new_rejected s cls org fs idarg eu ad cd s' e :
    step H ct s (ONew cls org fs idarg eu ad cd) = (s', RErr e) -> e = EDup \/ e = EIdc -> Frame s s'.
  Proof.
    intros E He. rewrite (new_rejected_dup_or_idc H ct _ _ _ _ _ _ _ _ _ _ E He).
    apply (Frame_push s).
  Qed.
  Theorem frame_replace_rejected_keys s a ch s' :
    step H ct s (OReplace a ch) = (s', RErr ERep) -> Frame s s'.
  Proof. intros E. rewrite (replace_rejected_keys H ct _ _ _ _ E). apply Frame_refl. Qed.

  Lemma inv_empty : Inv H ct empty_st.
  Proof.
    split.
    - intros i a E. discriminate.
    - intros a Hl. unfold live in Hl. simpl in Hl. lia.
  Qed.
End FramesFromOutcome.

(* the calls that return at once *)
Section Noops.
  Variable H : pystr -> pystr.
  Variable ct : ctable.
  Lemma attach_attached_noop s a : detached s a = false -> step H ct s (OAttach a) = (s, RNone).
  Proof. intros E. simpl. unfold op_attach. rewrite E. reflexivity. Qed.
  Lemma detach_detached_noop s a os : detached s a = true -> op_detach os s a = Ok s true.
  Proof. intros E. unfold op_detach, fuel_of. simpl. rewrite E. reflexivity. Qed.
  Lemma detach_subtree_noop s a os :
    detached s a = false -> is_attached_root s a = false -> op_detach os s a = Ok s false.
  Proof. intros E1 E2. unfold op_detach, fuel_of. simpl. rewrite E1, E2. reflexivity. Qed.
  Theorem inv_step_noops s a :
    (detached s a = false -> step H ct s (OAttach a) = (s, RNone)) /\
    (detached s a = true -> step H ct s (ODetach a) = (s, RBool true)) /\
    (detached s a = false -> is_attached_root s a = false -> step H ct s (ODetach a) = (s, RBool false)).
  Proof.
    split; [apply attach_attached_noop|]. split.
    - intros E. simpl. rewrite detach_detached_noop by exact E. reflexivity.
    - intros E1 E2. simpl. rewrite detach_subtree_noop by assumption. reflexivity.
  Qed.
End Noops.
