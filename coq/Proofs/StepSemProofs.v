(* C07: the transformer's element list (Model/Xpath.v: tr_element, tx, to_elements - reversal, `anywhere` flags,
   the "//" put in front of relative paths) against the independent step-level semantics of Spec/StepSem.v.
   Part 1: to_elements x = the steps of [view x], each compiled to one element whose e_any = "preceded by //"
           (first element: or the path is relative).
   Part 2: a step is satisfied by a position iff its element is.
   Part 3: R over any element list = existence of an index assignment (via the recursive reading [asg]).
   Part 4: R (to_elements x) = step_sem (view x); corollaries for match / findall. *)
From Oak Require Import Spec.StepSem Proofs.TraverseProofs Proofs.TreeQProofs Proofs.XpathProofs Proofs.FindallProofs.
From Coq Require Import Lia.

(* ================= Part 1: the transformer ================= *)
Definition el_of (any : bool) (s : sstep) : element :=
  {| e_cls := match ss_class s with Some c => c | None => astnode end;
     e_field := ss_field s; e_index := ss_index s; e_any := any |}.
Definition els_of (ss : list sstep) : list element := map (fun s => el_of (ss_dslash s) s) ss.
(* first element: also free when [b] (the path is relative) *)
Definition compile' (b : bool) (ss : list sstep) : list element :=
  match ss with
  | [] => []
  | s :: r => el_of (ss_dslash s || b) s :: els_of r
  end.
Definition compile (sp : spath) : list element := compile' (negb (sp_absolute sp)) (sp_steps sp).

Definition mk_sstep (d : bool) (s : step) : sstep :=
  {| ss_dslash := d; ss_class := st_class s; ss_field := st_field s; ss_index := idx_given (st_index s) |}.
(* is the list followed by a pending "//" *)
Fixpoint pend (b : bool) (l : list step) : bool :=
  match l with [] => b | s :: r => pend (is_empty_step s) r end.

Lemma view_steps_eq d s r : view_steps d (s :: r) =
  if is_empty_step s then view_steps true r else mk_sstep d s :: view_steps false r.
Proof. reflexivity. Qed.

Lemma pend_snoc l : forall b s, pend b (l ++ [s]) = is_empty_step s.
Proof. induction l as [|a l IH]; intros b s; simpl; auto. Qed.
Lemma view_snoc l : forall b s, view_steps b (l ++ [s]) =
  if is_empty_step s then view_steps b l else view_steps b l ++ [mk_sstep (pend b l) s].
Proof.
  induction l as [|a l IH]; intros b s.
  - simpl. destruct (is_empty_step s); reflexivity.
  - cbn [app]. rewrite !view_steps_eq. cbn [pend]. destruct (is_empty_step a) eqn:Ea.
    + rewrite IH. destruct (is_empty_step s); auto.
      (* pend true l vs pend (is_empty a) l *)
    + rewrite IH. destruct (is_empty_step s); auto.
Qed.

Lemma tr_empty s : is_empty_step s = true -> tr_element s = (None, None, None).
Proof. destruct s as [[f|] [| |k] [c|]]; simpl; intro H; try discriminate; reflexivity. Qed.
Lemma tr_nonempty s : is_empty_step s = false ->
  tr_element s = (st_field s, idx_given (st_index s), Some (match st_class s with Some c => c | None => astnode end)).
Proof. destruct s as [[f|] [| |k] [c|]]; simpl; intro H; try discriminate; reflexivity. Qed.

Definition set_any (b : bool) (e : element) : element :=
  if b then {| e_cls := e_cls e; e_field := e_field e; e_index := e_index e; e_any := true |} else e.

Lemma tx_view l : forall acc, tx (rev (map tr_element l)) acc =
  match acc with
  | [] => if pend false l then None else Some (els_of (view_steps false l))
  | e :: r => Some (els_of (view_steps false l) ++ set_any (pend false l) e :: r)
  end.
Proof.
  induction l as [|s l IH] using rev_ind; intros acc.
  - simpl. destruct acc; reflexivity.
  - rewrite map_app, rev_app_distr, pend_snoc, view_snoc. cbn [map rev app].
    destruct (is_empty_step s) eqn:Es.
    + rewrite (tr_empty s Es). cbn [tx]. destruct acc as [|e r]; [reflexivity|].
      cbn [set_last_any]. rewrite IH. unfold set_any. destruct (pend false l); reflexivity.
    + rewrite (tr_nonempty s Es). cbn [tx]. rewrite IH.
      unfold els_of. rewrite map_app. cbn [map].
      assert (E : set_any (pend false l)
                    {| e_cls := match st_class s with Some c => c | None => astnode end; e_field := st_field s;
                       e_index := idx_given (st_index s); e_any := false |}
                  = el_of (ss_dslash (mk_sstep (pend false l) s)) (mk_sstep (pend false l) s)).
      { unfold set_any, el_of, mk_sstep. simpl. destruct (pend false l); reflexivity. }
      rewrite E. destruct acc as [|e r].
      * reflexivity.
      * rewrite <- app_assoc. reflexivity.
Qed.

Lemma view_true_first l : match view_steps true l with [] => True | s :: _ => ss_dslash s = true end.
Proof.
  induction l as [|a l IH]; simpl; auto. destruct (is_empty_step a); auto.
Qed.
Lemma els_view l : forall b, els_of (view_steps b l) = compile' b (view_steps false l).
Proof.
  destruct l as [|a l]; intros b; [reflexivity|]. rewrite !view_steps_eq. destruct (is_empty_step a).
  - pose proof (view_true_first l) as H. destruct (view_steps true l) as [|s r]; [reflexivity|].
    simpl. rewrite H. reflexivity.
  - simpl. unfold el_of. simpl. reflexivity.
Qed.

Theorem to_elements_view x els : to_elements x = Some els -> els = compile (view x).
Proof.
  unfold to_elements. rewrite tx_view. unfold compile, view. simpl.
  destruct (xp_relative x); simpl.
  - change (is_empty_step empty_step) with true.
    destruct (pend true (xp_steps x)); [discriminate|]. intros [= <-]. apply els_view.
  - destruct (pend false (xp_steps x)); [discriminate|]. intros [= <-]. apply els_view.
Qed.

(* ================= Part 2: satisfaction ================= *)
Lemma ssat_sat ct p any s : sat ct p (el_of any s) = ssat ct p s.
Proof.
  destruct p as [[n f] i]. unfold sat, match_node_element, ssat, el_of. simpl.
  assert (E : subclass ct (cls n) (match ss_class s with Some c => c | None => astnode end)
              = match ss_class s with None => true | Some c => subclass ct (cls n) c end).
  { destruct (ss_class s); auto. }
  rewrite E. unfold opt_ok, given. destruct (ss_field s), f, (ss_index s), i; reflexivity.
Qed.

(* ================= Part 3: R = an index assignment exists ================= *)
Section Idx.
  Variable ct : ctable.
  Notation R := (PathSem.R ct).

  (* recursive reading: [lo] = the first chain index still available *)
  Fixpoint asg (ch : list pos) (lo : nat) (es : list element) (js : list nat) : Prop :=
    match es, js with
    | [], [] => lo = length ch
    | e :: es', j :: js' =>
      lo <= j /\ (e_any e = false -> j = lo) /\ (exists p, nth_error ch j = Some p /\ sat ct p e = true)
      /\ asg ch (S j) es' js'
    | _, _ => False
    end.

  Lemma R_skip_pre e es pre : forall l, e_any e = true -> R (e :: es) l -> R (e :: es) (pre ++ l).
  Proof. induction pre as [|q pre IH]; intros l Ha H; simpl; auto. apply R_skip; auto. Qed.

  Lemma asg_R es : forall front m js, asg (front ++ m) (length front) es js -> R es m.
  Proof.
    induction es as [|e es IH]; intros front m js H.
    - destruct js; [|contradiction]. simpl in H. rewrite app_length in H.
      destruct m; [constructor|simpl in H; lia].
    - destruct js as [|j js]; [contradiction|]. cbn [asg] in H.
      destruct H as (Hlo & Hany & (p & Hp & Hs) & Hrest).
      rewrite nth_error_app2 in Hp by lia.
      apply nth_error_split in Hp as (l1 & l2 & -> & Hl).
      assert (E : front ++ l1 ++ p :: l2 = (front ++ l1 ++ [p]) ++ l2).
      { rewrite <- !app_assoc. reflexivity. }
      rewrite E in Hrest.
      assert (Hlen : S j = length (front ++ l1 ++ [p])).
      { rewrite !app_length. simpl. lia. }
      rewrite Hlen in Hrest. apply IH in Hrest.
      destruct (e_any e) eqn:Ea.
      + apply R_skip_pre; auto. apply R_step; auto.
      + assert (j = length front) by auto. destruct l1; [|simpl in Hl; lia]. simpl. apply R_step; auto.
  Qed.

  Lemma R_asg es m : R es m -> forall front, exists js, asg (front ++ m) (length front) es js.
  Proof.
    induction 1 as [|e es p rest Hs _ IH|e es p rest Ha _ IH]; intros front.
    - exists []. simpl. now rewrite app_nil_r.
    - destruct (IH (front ++ [p])) as (js & Hjs). exists (length front :: js). cbn [asg].
      split; [lia|]. split; [auto|]. split.
      + exists p. split; auto. rewrite nth_error_app2 by lia. now rewrite Nat.sub_diag.
      + rewrite <- app_assoc, app_length in Hjs. simpl in Hjs. now rewrite Nat.add_1_r in Hjs.
    - destruct (IH (front ++ [p])) as (js & Hjs). rewrite <- app_assoc, app_length in Hjs. simpl in Hjs.
      destruct js as [|j js]; [contradiction|]. cbn [asg] in Hjs.
      destruct Hjs as (Hlo & _ & Hp & Hrest). exists (j :: js). cbn [asg].
      split; [lia|]. split; [congruence|]. auto.
  Qed.

  (* the same, clause by clause over indices *)
  Definition idx_ok (ch : list pos) (lo : nat) (es : list element) (js : list nat) : Prop :=
    length js = length es /\
    (forall i e j, nth_error es i = Some e -> nth_error js i = Some j ->
       exists p, nth_error ch j = Some p /\ sat ct p e = true) /\
    (forall i j j' e, nth_error js i = Some j -> nth_error js (S i) = Some j' -> nth_error es (S i) = Some e ->
       j < j' /\ (e_any e = false -> j' = S j)) /\
    (forall e j, nth_error es 0 = Some e -> nth_error js 0 = Some j -> lo <= j /\ (e_any e = false -> j = lo)) /\
    last (map S js) lo = length ch.

  Lemma last_cons_default {A} (l : list A) : forall a d, last (a :: l) d = last l a.
  Proof. induction l as [|b l IH]; intros a d; [reflexivity|]. change (last (a :: b :: l) d) with (last (b :: l) d). now rewrite !IH. Qed.

  Lemma asg_idx ch es : forall lo js, asg ch lo es js <-> idx_ok ch lo es js.
  Proof.
    induction es as [|e es IH]; intros lo [|j js]; unfold idx_ok.
    - simpl. split.
      + intros ->. split; auto. split; [|split; [|split]]; auto.
        * intros [|i] e j H; discriminate.
        * intros [|i] j j' e H; discriminate.
        * intros e j H; discriminate.
      + intros (_ & _ & _ & _ & H). exact H.
    - simpl. split; [tauto|]. intros (H & _). discriminate.
    - simpl. split; [tauto|]. intros (H & _). discriminate.
    - cbn [asg]. split.
      + intros (Hlo & Hany & Hp & Hrest). apply IH in Hrest as (L & SAT & CONS & FIRST & LAST).
        split; [simpl; congruence|]. split; [|split; [|split]].
        * intros [|i] e0 j0 He Hj; simpl in He, Hj.
          -- injection He as <-. injection Hj as <-. exact Hp.
          -- eapply SAT; eauto.
        * intros [|i] j0 j' e0 Hj Hj' He; simpl in He, Hj, Hj'.
          -- injection Hj as <-. destruct (FIRST _ _ He Hj') as [F1 F2]. split; [lia|auto].
          -- eapply CONS; eauto.
        * intros e0 j0 He Hj. simpl in He, Hj. injection He as <-. injection Hj as <-. auto.
        * cbn [map]. rewrite last_cons_default. exact LAST.
      + intros (L & SAT & CONS & FIRST & LAST).
        destruct (FIRST e j eq_refl eq_refl) as [F1 F2].
        split; auto. split; auto. split; [apply (SAT 0); reflexivity|].
        apply IH. split; [simpl in L; congruence|]. split; [|split; [|split]].
        * intros i e0 j0 He Hj. apply (SAT (S i)); auto.
        * intros i j0 j' e0 Hj Hj' He. apply (CONS (S i) j0 j' e0); auto.
        * intros e0 j0 He Hj. destruct (CONS 0 j j0 e0 eq_refl Hj He) as [C1 C2]. split; [lia|auto].
        * cbn [map] in LAST. now rewrite last_cons_default in LAST.
  Qed.

  Theorem R_idx es ch : R es ch <-> exists js, idx_ok ch 0 es js.
  Proof.
    split.
    - intros H. destruct (R_asg _ _ H []) as (js & Hjs). exists js. now apply asg_idx.
    - intros (js & H). apply asg_idx in H. now apply (asg_R es [] ch js).
  Qed.
End Idx.

(* ================= Part 4: compiled steps ================= *)
Lemma compile'_length b ss : length (compile' b ss) = length ss.
Proof. destruct ss; simpl; auto. unfold els_of. now rewrite map_length. Qed.
Lemma compile'_nth b ss i :
  nth_error (compile' b ss) i =
  match nth_error ss i with
  | Some s => Some (el_of (match i with 0 => ss_dslash s || b | S _ => ss_dslash s end) s)
  | None => None
  end.
Proof.
  destruct ss as [|s0 r]; [destruct i; reflexivity|]. destruct i as [|i]; [reflexivity|].
  simpl. unfold els_of. rewrite nth_error_map. destruct (nth_error r i); reflexivity.
Qed.
Lemma last_map_S js : js <> [] -> forall d d', last (map S js) d = S (last js d').
Proof.
  induction js as [|a js IH]; [congruence|]. intros _ d d'. destruct js as [|b js]; [reflexivity|].
  change (last (map S (a :: b :: js)) d) with (last (map S (b :: js)) d).
  change (last (a :: b :: js) d') with (last (b :: js) d'). apply IH. discriminate.
Qed.

Lemma step_sem_idx ct sp ch : ch <> [] ->
  (step_sem ct sp ch <-> exists js, idx_ok ct ch 0 (compile sp) js).
Proof.
  intros Hch. unfold step_sem, idx_ok, compile. set (b := negb (sp_absolute sp)). set (ss := sp_steps sp).
  split.
  - intros (js & L & NE & SAT & CONS & FIRST & LAST). exists js.
    split; [now rewrite compile'_length|]. split; [|split; [|split]].
    + intros i e j He Hj. rewrite compile'_nth in He. destruct (nth_error ss i) as [s|] eqn:Es; [|discriminate].
      injection He as <-. destruct (SAT i s j Es Hj) as (p & Hp & Hs). exists p. split; auto. now rewrite ssat_sat.
    + intros i j j' e Hj Hj' He. rewrite compile'_nth in He. destruct (nth_error ss (S i)) as [s|] eqn:Es; [|discriminate].
      injection He as <-. simpl. eapply CONS; eauto.
    + intros e j He Hj. rewrite compile'_nth in He. destruct (nth_error ss 0) as [s|] eqn:Es; [|discriminate].
      injection He as <-. simpl. split; [lia|]. intro Hf. apply orb_false_iff in Hf as [Hd Hb].
      apply (FIRST s j eq_refl Hj); auto. unfold b in Hb. now apply negb_false_iff in Hb.
    + rewrite (last_map_S js NE 0 0). exact LAST.
  - intros (js & L & SAT & CONS & FIRST & LAST). exists js. rewrite compile'_length in L.
    assert (NE : js <> []).
    { intro E. subst js. simpl in LAST. destruct ch; [congruence|discriminate]. }
    split; auto. split; auto. split; [|split; [|split]].
    + intros i s j Es Hj. destruct (SAT i (el_of (match i with 0 => ss_dslash s || b | S _ => ss_dslash s end) s) j) as (p & Hp & Hs); auto.
      { rewrite compile'_nth. fold ss. now rewrite Es. }
      exists p. split; auto. now rewrite ssat_sat in Hs.
    + intros i j j' s Hj Hj' Es. apply (CONS i j j' (el_of (ss_dslash s) s)); auto.
      rewrite compile'_nth. fold ss. now rewrite Es.
    + intros s j Es Hj Ha Hd. destruct (FIRST (el_of (ss_dslash s || b) s) j) as [_ F]; auto.
      { rewrite compile'_nth. fold ss. now rewrite Es. }
      apply F. simpl. unfold b. rewrite Ha, Hd. reflexivity.
    + now rewrite (last_map_S js NE 0 0) in LAST.
Qed.

(* the main statement: the documented two-rule relation over the transformer's elements IS the step-level meaning *)
Theorem steps_sem ct x els : to_elements x = Some els ->
  forall ch, ch <> [] -> (R ct els ch <-> step_sem ct (view x) ch).
Proof.
  intros E ch Hch. apply to_elements_view in E. subst els.
  rewrite R_idx. symmetry. now apply step_sem_idx.
Qed.

Lemma chain_nonempty root l : chain root l <> [].
Proof. discriminate. Qed.

(* ---- corollaries: match / findall against step_sem ---- *)
Theorem xmatch_steps ct root x els l n :
  wf_node ct root = true -> nodup_tree root -> well_formed x = true -> to_elements x = Some els -> path root l n ->
  exists b, xmatch ct root els n = Some (Ok b) /\ (b = true <-> step_sem ct (view x) (chain root l)).
Proof.
  intros W ND WF E H. destruct (to_elements_ok x WF) as (els' & E' & Hne). rewrite E in E'. injection E' as <-.
  destruct (xmatch_sem ct root els l n W ND Hne H) as (b & Hb & Hiff). exists b. split; auto.
  rewrite Hiff. apply steps_sem; auto. apply chain_nonempty.
Qed.

Theorem findall_steps ct root x els :
  wf_node ct root = true -> nodup_tree root -> well_formed x = true -> to_elements x = Some els ->
  exists res, findall ct root els = Some res /\ (forall n, In n res <-> step_sem_node ct (view x) root n)
              /\ NoDup (map addr res).
Proof.
  intros W ND WF E. destruct (to_elements_ok x WF) as (els' & E' & Hne). rewrite E in E'. injection E' as <-.
  destruct (findall_sem ct root els W ND Hne) as (res & Hr & Hiff & Hnd). exists res. split; auto. split; auto.
  intros n. rewrite Hiff. unfold sem, step_sem_node. split; intros (l & Hp & HR); exists l; split; auto.
  - apply (steps_sem ct x els E); auto. apply chain_nonempty.
  - apply (steps_sem ct x els E); auto. apply chain_nonempty.
Qed.

Theorem findall_match_steps ct root x els :
  wf_node ct root = true -> nodup_tree root -> well_formed x = true -> to_elements x = Some els ->
  exists res, findall ct root els = Some res /\ NoDup (map addr res) /\
    forall l n, path root l n ->
      (In n res <-> xmatch ct root els n = Some (Ok true)) /\
      (xmatch ct root els n = Some (Ok true) <-> step_sem ct (view x) (chain root l)).
Proof.
  intros W ND WF E. destruct (to_elements_ok x WF) as (els' & E' & Hne). rewrite E in E'. injection E' as <-.
  destruct (findall_match ct root els W ND Hne) as (res & Hr & Hnd & Hiff). exists res. split; auto. split; auto.
  intros l n Hp. split; [now apply (Hiff l n)|].
  destruct (xmatch_steps ct root x els l n W ND WF E Hp) as (b & Hb & Hs). rewrite Hb. rewrite <- Hs.
  split; [intros [= ->]; auto|intros ->; auto].
Qed.

(* ---- the premises are inhabited: "//P/@items[2]L" on the example tree; "/@child P" does not match the root ---- *)
Definition ex_xp1 : xpath :=
  {| xp_relative := false; xp_steps := [empty_step; st "" IAbsent "P"; st "items" (IVal 2) "L"] |}.
Definition ex_xp2 : xpath := {| xp_relative := false; xp_steps := [st "child" IAbsent "P"] |}.
Definition ex_ti6 : tinfo :=
  {| ti_node := ex_leaf 6 "L"; ti_parent := ex_root; ti_field := lit "items"; ti_index := Some 2 |}.
Lemma c07_steps_inhabited :
  well_formed ex_xp1 = true /\
  to_elements ex_xp1 = Some [ {| e_cls := lit "P"; e_field := None; e_index := None; e_any := true |};
                              {| e_cls := lit "L"; e_field := Some (lit "items"); e_index := Some 2; e_any := false |} ] /\
  path ex_root [ex_ti6] (ex_leaf 6 "L") /\
  step_sem ex_ct (view ex_xp1) (chain ex_root [ex_ti6]) /\
  well_formed ex_xp2 = true /\ ~ step_sem ex_ct (view ex_xp2) (chain ex_root []).
Proof.
  split; [reflexivity|]. split; [reflexivity|]. split.
  { econstructor; [vm_compute; auto 10|]. constructor. }
  split.
  - eapply steps_sem; [reflexivity|discriminate|]. apply c07_inhabited.
  - split; [reflexivity|]. intro H. eapply steps_sem in H; [|reflexivity|discriminate].
    apply R_cons_inv in H as [[Hs _]|[Ha _]]; vm_compute in *; discriminate.
Qed.
