(* C18 round 2: replace() and replace_with(None) on a receiver WITHOUT a parent (an attached root or a detached
   node).  Then replace() = detach_self + constructor (same id, changed fields) and replace_with(None) = detach():
   no child field of an existing node is rewritten.  With a parent, _replace_child stores the YOUNGER new node in
   the parent's field: that case is Proofs/LegacyReplaceChild*.v (round 3; Rank is acyclicity since then). *)
From Oak Require Import Spec.LegacySpec Spec.LegacySpec2 Proofs.LegacyProofs Proofs.LegacyInv Proofs.LegacyHeap
  Proofs.LegacyDetach Proofs.LegacyAttach Proofs.LegacyAttach2 Proofs.LegacyAttach3 Proofs.LegacyConstruct
  Proofs.LegacyConstruct2 Proofs.LegacyDup Proofs.LegacyDup2 Proofs.LegacyHistory.
From Coq Require Import List String Ascii ZArith Bool Arith Lia.
Import ListNotations.

Section Replace.
  Variable H : pystr -> pystr.
  Variable ct : ctable.

  (* detach(only_self) only writes parent slots and the registry *)
  Lemma op_detach_pframe os s a s' b : op_detach os s a = Ok s' b -> pframe s s'.
  Proof.
    intros E. unfold op_detach in E. destruct (detach_spec _ _ _ _ _ _ E) as [D [C [R _]]]. exact (dr_pf _ _ _ _ R).
  Qed.

  Lemma op_replace_root s a ch s' r :
    parent s a = None -> op_replace H ct s a ch = Ok s' r ->
    exists s2 b s3 o k,
      op_detach true s a = Ok s2 b /\
      construct H ct s2 (c_cls (cellD s2 a)) (changed_org (c_org (cellD s2 a)) ch)
                (apply_changes (c_fs (cellD s2 a)) ch) (Some (c_id (cellD s2 a))) false false (detached s a) = Ok s3 r /\
      s' = upd s3 r (fun c => with_ids (c_id c) o k c).
  Proof.
    intros Hp E. unfold op_replace in E. rewrite Hp in E.
    destruct (negb (forallb (fun kv => allowed_key ct (c_cls (cellD s a)) (fst kv)) ch)); [discriminate|].
    cbv zeta in E. destruct (detached s a) eqn:Hd; cbn [negb] in E; cbv iota in E.
    - unfold bind at 1 in E.
      match type of E with context [construct H ct s ?x1 ?x2 ?x3 ?x4 false false true] =>
        destruct (construct H ct s x1 x2 x3 x4 false false true) as [s3 r0|s3 e|] eqn:Ec end.
      + simpl in E. inversion E; subst. do 5 eexists. split; [apply detach_detached_noop; exact Hd|].
        split; [exact Ec | reflexivity].
      + cbv beta iota in E. first [discriminate E | destruct (c_pf (cellD s a)); discriminate E].
      + discriminate.
    - destruct (op_detach true s a) as [s2 b|s2 e|] eqn:Ed; simpl in E; try discriminate.
      match type of E with context [construct H ct s2 ?x1 ?x2 ?x3 ?x4 false false false] =>
        destruct (construct H ct s2 x1 x2 x3 x4 false false false) as [s3 r0|s3 e|] eqn:Ec end.
      + simpl in E. inversion E; subst. do 5 eexists. split; [reflexivity|]. split; [exact Ec | reflexivity].
      + cbv beta iota in E. first [discriminate E | destruct (c_pf (cellD s a)); discriminate E].
      + discriminate.
  Qed.

  Lemma new_guard_cframe s s3 s' r : cframe s3 s' -> new_guard H ct s s' r -> new_guard H ct s s3 r.
  Proof.
    intros CF [GT [GI GC]]. assert (SK : skel_eq s' s3) by (apply skel_sym; apply skel_cframe; exact CF).
    split; [eapply tree_shaped_skel; eassumption|]. split; [eapply ids_apart_skel; eassumption|].
    intros d Hr. apply GC. eapply skel_reach; [apply skel_sym; exact SK | exact Hr].
  Qed.

  (* replace() on a parent-less receiver.  Guards: the changed child values exist; and, when the receiver was attached
     (so the new node is attached), new_guard read after the receiver has left the registry - the excluded case is
     finding C18:Replace:child-detached (x.replace(f=x): the new node holds the now detached receiver, under its id) *)
  Theorem inv2_step_replace_root s a ch s' r :
    Inv2 H ct s -> parent s a = None ->
    step H ct s (OReplace a ch) = (s', RNode r) ->
    kids_live s (apply_changes (c_fs (cellD s a)) ch) ->
    (detached s a = false -> new_guard H ct (fst (step H ct s (ODetachSelf a))) s' r) ->
    Inv2 H ct s'.
  Proof.
    intros HI Hp E Hkl HG. simpl in E.
    destruct (op_replace H ct s a ch) as [s1 r1|s1 e|] eqn:Er; simpl in E; inversion E; subst s1 r1. clear E.
    destruct (op_replace_root _ _ _ _ _ Hp Er) as [s2 [b [s3 [o [k [Ed [Ec ->]]]]]]].
    assert (HI2 : Inv2 H ct s2) by (eapply inv2_step_detach; eassumption).
    assert (PF := op_detach_pframe _ _ _ _ _ Ed).
    assert (Hsm : fst (step H ct s (ODetachSelf a)) = s2) by (simpl; rewrite Ed; reflexivity).
    apply inv2_upd_ids. eapply inv2_construct; [exact HI2 | | exact Ec |].
    - rewrite (pf_fs _ _ PF). intros x Hx. apply (pf_live _ _ PF). apply Hkl; exact Hx.
    - intros Hd. eapply new_guard_cframe; [apply cframe_upd_ids|]. rewrite <- Hsm. apply HG; exact Hd.
  Qed.

  (* replace_with(None) on a parent-less receiver is detach() *)
  Theorem inv2_step_replace_with_none_root s a s' :
    Inv2 H ct s -> parent s a = None -> step H ct s (OReplaceWith a None) = (s', RNone) -> Inv2 H ct s'.
  Proof.
    intros HI Hp E. simpl in E. unfold op_replace_with in E. rewrite Hp in E. cbv iota beta in E.
    destruct (op_detach false s a) as [s1 b|s1 e|] eqn:Ed; simpl in E; inversion E; subst.
    eapply inv2_step_detach; eassumption.
  Qed.

  (* changing id / original_id / id_collision_with of a DETACHED node: nothing the invariant reads *)
  Lemma inv2_flip_detached s n f :
    (forall c, exists i o k, f c = with_ids i o k c) ->
    Inv2 H ct s -> detached s n = true -> Inv2 H ct (upd s n f).
  Proof.
    intros Hf [HR [HK [HP HL]]] Hdn. set (s' := upd s n f).
    assert (Hsame : forall b, c_cls (cellD s' b) = c_cls (cellD s b) /\ c_fs (cellD s' b) = c_fs (cellD s b) /\
                              c_pid (cellD s' b) = c_pid (cellD s b) /\ c_pf (cellD s' b) = c_pf (cellD s b) /\
                              c_pi (cellD s' b) = c_pi (cellD s b) /\ c_cid (cellD s' b) = c_cid (cellD s b)).
    { intros b. unfold s'. rewrite cellD_upd. destruct (Nat.eqb n b && Nat.ltb n (List.length (heap s))).
      - destruct (Hf (cellD s b)) as [i [o [k E]]]. rewrite E. repeat split; reflexivity.
      - repeat split; reflexivity. }
    assert (Hne : forall b, b <> n -> cellD s' b = cellD s b).
    { intros b Hb. unfold s'. rewrite cellD_upd. destruct (Nat.eqb n b) eqn:E; [|reflexivity].
      apply Nat.eqb_eq in E. congruence. }
    assert (Hreg : forall i, reg_get s' i = reg_get s i) by (intros i; apply reg_get_upd).
    assert (Hlen : List.length (heap s') = List.length (heap s)) by apply heap_len_upd.
    assert (Hregn : forall i x, reg_get s i = Some x -> x <> n).
    { intros i x Hx ->. destruct (HR _ _ Hx) as [_ Hi]. rewrite <- Hi in Hx.
      apply attached_reg in Hx. unfold attached in Hx. congruence. }
    assert (Hdet : forall b, b <> n -> detached s' b = detached s b).
    { intros b Hb. unfold detached, id_of. rewrite Hreg, (Hne b Hb). reflexivity. }
    assert (Hdetn : detached s' n = true).
    { unfold detached. rewrite Hreg. destruct (reg_get s (id_of s' n)) as [x|] eqn:E; [|reflexivity].
      apply Hregn in E. apply negb_true_iff. apply Nat.eqb_neq. exact E. }
    assert (Hpar : forall b, parent s' b = parent s b).
    { intros b. unfold parent. destruct (Hsame b) as [_ [_ [E _]]]. rewrite E.
      destruct (c_pid (cellD s b)); [apply Hreg | reflexivity]. }
    assert (Hskw : forall b, skids_wf s' b = skids_wf s b).
    { intros b. unfold skids_wf, kids_wf. destruct (Hsame b) as [_ [E _]]. rewrite E. reflexivity. }
    assert (Hatt : forall b, attached s' b -> b <> n /\ attached s b).
    { intros b Hb. assert (Hbn : b <> n) by (intros ->; unfold attached in Hb; congruence).
      split; [exact Hbn|]. unfold attached in *. rewrite <- (Hdet b Hbn). exact Hb. }
    assert (Hatt' : forall b, attached s b -> attached s' b).
    { intros b Hb. assert (Hbn : b <> n) by (intros ->; unfold attached in Hb; congruence).
      unfold attached in *. rewrite (Hdet b Hbn). exact Hb. }
    split; [|split; [|split]].
    - intros i x Hx. rewrite Hreg in Hx. assert (Hxn := Hregn _ _ Hx). destruct (HR _ _ Hx) as [Hl Hi].
      split; [unfold live in *; rewrite Hlen; exact Hl|]. unfold id_of. rewrite (Hne x Hxn). exact Hi.
    - apply (rank_same_kids s s'); [exact Hlen | | exact HK].
      intros b. unfold skids, kids, kids_wf. destruct (Hsame b) as [_ [E _]]. rewrite E. reflexivity.
    - intros b Hb. destruct (Hsame b) as [_ [_ [E _]]]. rewrite E in Hb. destruct (HP b Hb) as [A B].
      split; [apply Hatt'; exact A | rewrite Hpar; exact B].
    - intros b Hlb Hab. destruct (Hatt b Hab) as [Hbn Hab0].
      assert (Hlb0 : live s b) by (unfold live in *; rewrite <- Hlen; exact Hlb).
      destruct (HL b Hlb0 Hab0) as [Hc Hs Hl Hcid]. destruct (Hsame b) as [_ [_ [_ [Epf [Epi Ecid]]]]].
      constructor.
      + intros k f0 i Hin. rewrite Hskw in Hin. destruct (Hc k f0 i Hin) as [A [B [C Dd]]].
        destruct (Hsame k) as [_ [_ [_ [Ekpf [Ekpi _]]]]].
        split; [apply Hatt'; exact A|]. rewrite Hpar, Ekpf, Ekpi. auto.
      + intros p Hp. rewrite Hpar in Hp. destruct (Hs p Hp) as [f0 [Hf0 Hin]].
        exists f0. rewrite Epf, Epi, Hskw. split; assumption.
      + unfold id_of. rewrite (Hne b Hbn), Hreg. exact Hl.
      + rewrite Ecid, Hcid. symmetry.
        assert (Hfu : fuel_of s' = fuel_of s) by (unfold fuel_of; rewrite Hlen; reflexivity).
        rewrite Hfu. apply tree_cid_skel. intros x. destruct (Hsame x) as [A [B _]]. split; assumption.
  Qed.

  (* replace_with(node) on a parent-less receiver, the new node being detached after the receiver was detached:
     detach() + the id flip on the detached new node + attach.  The guard of attach is read on the state in which the
     new node already carries the receiver's id (findings C18:ReplaceWith:child-detached / :content-id excluded). *)
  Theorem inv2_step_replace_with_root s a n s' :
    Inv2 H ct s -> parent s a = None ->
    step H ct s (OReplaceWith a (Some n)) = (s', RNone) ->
    detached (fst (step H ct s (ODetach a))) n = true ->
    att_guard H ct (fst (flip_ids (fst (step H ct s (ODetach a))) a n)) n ->
    Inv2 H ct s'.
  Proof.
    intros HI Hp E Hdn HG. simpl in E. unfold op_replace_with in E. rewrite Hp in E.
    destruct (is_attached_subtree s n); simpl in E; [discriminate|].
    assert (Ed : exists s1 b, op_detach false s a = Ok s1 b /\
                   (if negb (detached s a) then op_detach false s a else Ok s true) = Ok s1 b).
    { destruct (detached s a) eqn:Hda; simpl.
      - exists s, true. split; [apply detach_detached_noop; exact Hda | reflexivity].
      - destruct (op_detach false s a) as [s1 b|s1 e|] eqn:Ed; simpl in E; try discriminate.
        exists s1, b. split; reflexivity. }
    destruct Ed as [s1 [b [Ed Ed']]]. rewrite Ed' in E. simpl in E.
    assert (Hs1 : fst (step H ct s (ODetach a)) = s1) by (simpl; rewrite Ed; reflexivity).
    rewrite Hs1 in Hdn, HG.
    assert (HI1 : Inv2 H ct s1) by (eapply inv2_step_detach; eassumption).
    unfold flip_ids in E, HG. rewrite Hdn in E, HG. simpl in E, HG.
    match type of HG with att_guard _ _ ?t _ => set (s2 := t) in * end.
    assert (HI2 : Inv2 H ct s2).
    { apply inv2_flip_detached; [|exact HI1 | exact Hdn]. intros c. do 3 eexists. reflexivity. }
    destruct (attach_ s2 n) as [s3 u|s3 e|] eqn:Ea; simpl in E.
    - destruct HG as [Hl [HT [HA HC]]]. assert (HI3 := inv2_attach H ct s2 n s3 u HI2 Hl HT HA HC Ea).
      inversion E; subst s3. exact HI3.
    - destruct (detached s a); simpl in E.
      + inversion E.
      + destruct (attach_ s3 a); simpl in E; inversion E.
    - discriminate.
  Qed.
End Replace.
