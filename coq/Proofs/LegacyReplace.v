(* C18 round 2: replace() and replace_with(None) on a receiver WITHOUT a parent (an attached root or a detached
   node).  Then replace() = detach_self + constructor (same id, changed fields) and replace_with(None) = detach():
   no child field of an existing node is rewritten, Rank survives.  With a parent, _replace_child stores the YOUNGER
   new node in the parent's field: Rank (child address < parent address) is false afterwards; that case needs a rank
   function and the propagation of _reset_content_id along the ancestors - not done. *)
From Oak Require Import Spec.LegacySpec Spec.LegacySpec2 Proofs.LegacyProofs Proofs.LegacyInv Proofs.LegacyHeap
  Proofs.LegacyDetach Proofs.LegacyAttach Proofs.LegacyAttach2 Proofs.LegacyAttach3 Proofs.LegacyConstruct
  Proofs.LegacyConstruct2 Proofs.LegacyDup Proofs.LegacyDup2 Proofs.LegacyHistory.
From Coq Require Import List String Ascii ZArith Bool Arith Lia.
Import ListNotations.

Section Replace.
  Variable H : pystr -> pystr.
  Variable ct : ctable.

  (* detach(only_self) only writes parent slots and the registry *)
  Lemma op_detach_pframe os s a s' b : op_detach os s a = Ok s' b -> pframe s s'.
  Proof.
    intros E. unfold op_detach in E. destruct (detach_spec _ _ _ _ _ _ E) as [D [C [R _]]]. exact (dr_pf _ _ _ _ R).
  Qed.

  Lemma op_replace_root s a ch s' r :
    parent s a = None -> op_replace H ct s a ch = Ok s' r ->
    exists s2 b s3 o k,
      op_detach true s a = Ok s2 b /\
      construct H ct s2 (c_cls (cellD s2 a)) (changed_org (c_org (cellD s2 a)) ch)
                (apply_changes (c_fs (cellD s2 a)) ch) (Some (c_id (cellD s2 a))) false false (detached s a) = Ok s3 r /\
      s' = upd s3 r (fun c => with_ids (c_id c) o k c).
  Proof.
    intros Hp E. unfold op_replace in E. rewrite Hp in E.
    destruct (negb (forallb (fun kv => allowed_key ct (c_cls (cellD s a)) (fst kv)) ch)); [discriminate|].
    cbv zeta in E. destruct (detached s a) eqn:Hd; cbn [negb] in E; cbv iota in E.
    - unfold bind at 1 in E.
      match type of E with context [construct H ct s ?x1 ?x2 ?x3 ?x4 false false true] =>
        destruct (construct H ct s x1 x2 x3 x4 false false true) as [s3 r0|s3 e|] eqn:Ec end.
      + simpl in E. inversion E; subst. do 5 eexists. split; [apply detach_detached_noop; exact Hd|].
        split; [exact Ec | reflexivity].
      + cbv beta iota in E. first [discriminate E | destruct (c_pf (cellD s a)); discriminate E].
      + discriminate.
    - destruct (op_detach true s a) as [s2 b|s2 e|] eqn:Ed; simpl in E; try discriminate.
      match type of E with context [construct H ct s2 ?x1 ?x2 ?x3 ?x4 false false false] =>
        destruct (construct H ct s2 x1 x2 x3 x4 false false false) as [s3 r0|s3 e|] eqn:Ec end.
      + simpl in E. inversion E; subst. do 5 eexists. split; [reflexivity|]. split; [exact Ec | reflexivity].
      + cbv beta iota in E. first [discriminate E | destruct (c_pf (cellD s a)); discriminate E].
      + discriminate.
  Qed.

  Lemma new_guard_cframe s s3 s' r : cframe s3 s' -> new_guard H ct s s' r -> new_guard H ct s s3 r.
  Proof.
    intros CF [GT [GI GC]]. assert (SK : skel_eq s' s3) by (apply skel_sym; apply skel_cframe; exact CF).
    split; [eapply tree_shaped_skel; eassumption|]. split; [eapply ids_apart_skel; eassumption|].
    intros d Hr. apply GC. eapply skel_reach; [apply skel_sym; exact SK | exact Hr].
  Qed.

  (* replace() on a parent-less receiver.  Guards: the changed child values exist; and, when the receiver was attached
     (so the new node is attached), new_guard read after the receiver has left the registry - the excluded case is
     finding C18:Replace:child-detached (x.replace(f=x): the new node holds the now detached receiver, under its id) *)
  Theorem inv2_step_replace_root s a ch s' r :
    Inv2 H ct s -> parent s a = None ->
    step H ct s (OReplace a ch) = (s', RNode r) ->
    kids_live s (apply_changes (c_fs (cellD s a)) ch) ->
    (detached s a = false -> new_guard H ct (fst (step H ct s (ODetachSelf a))) s' r) ->
    Inv2 H ct s'.
  Proof.
    intros HI Hp E Hkl HG. simpl in E.
    destruct (op_replace H ct s a ch) as [s1 r1|s1 e|] eqn:Er; simpl in E; inversion E; subst s1 r1. clear E.
    destruct (op_replace_root _ _ _ _ _ Hp Er) as [s2 [b [s3 [o [k [Ed [Ec ->]]]]]]].
    assert (HI2 : Inv2 H ct s2) by (eapply inv2_step_detach; eassumption).
    assert (PF := op_detach_pframe _ _ _ _ _ Ed).
    assert (Hsm : fst (step H ct s (ODetachSelf a)) = s2) by (simpl; rewrite Ed; reflexivity).
    apply inv2_upd_ids. eapply inv2_construct; [exact HI2 | | exact Ec |].
    - rewrite (pf_fs _ _ PF). intros x Hx. apply (pf_live _ _ PF). apply Hkl; exact Hx.
    - intros Hd. eapply new_guard_cframe; [apply cframe_upd_ids|]. rewrite <- Hsm. apply HG; exact Hd.
  Qed.

  (* replace_with(None) on a parent-less receiver is detach() *)
  Theorem inv2_step_replace_with_none_root s a s' :
    Inv2 H ct s -> parent s a = None -> step H ct s (OReplaceWith a None) = (s', RNone) -> Inv2 H ct s'.
  Proof.
    intros HI Hp E. simpl in E. unfold op_replace_with in E. rewrite Hp in E. cbv iota beta in E.
    destruct (op_detach false s a) as [s1 b|s1 e|] eqn:Ed; simpl in E; inversion E; subst.
    eapply inv2_step_detach; eassumption.
  Qed.
End Replace.
