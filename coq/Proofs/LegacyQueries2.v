(* C18 round 2: under Inv2 the upward queries are total and agree with the stored structure: ancestors() of an
   attached node returns (does not run out of fuel = the real call returns), it is the chain of .parent links, every
   node of it is attached and holds the receiver in its stored subtree, and get_depth() is its length. *)
From Oak Require Import Spec.LegacySpec Spec.LegacySpec2 Proofs.LegacyProofs Proofs.LegacyInv Proofs.LegacyHeap
  Proofs.LegacyDetach Proofs.LegacyAttach2.
From Coq Require Import List String Ascii ZArith Bool Arith Lia.
Import ListNotations.

Section Queries2.
  Variable H : pystr -> pystr.
  Variable ct : ctable.

  Lemma parent_above s a p :
    Inv2 H ct s -> live s a -> attached s a -> parent s a = Some p ->
    live s p /\ attached s p /\ In a (skids s p).
  Proof.
    intros [HR [HK [HP HL]]] Hl Ha Hp. destruct (parent_attached _ _ _ HR Hp) as [Hpa _].
    assert (Hlp : live s p) by (apply attached_reg in Hpa; apply HR in Hpa; tauto).
    destruct (HL a Hl Ha) as [_ Hs _ _]. destruct (Hs p Hp) as [f [_ Hin]].
    assert (Hk : In a (skids s p)) by (eapply edge_kid; exact Hin).
    auto.
  Qed.

  Lemma ancestors_total s : Inv2 H ct s ->
    forall n a, live s a -> attached s a -> (forall i, i + n < S (List.length (heap s)) -> ~ depth_le s i a) ->
      exists l, ancestors n s a = Some l /\ forall x, In x l -> attached s x /\ live s x /\ reach s x a.
  Proof.
    (* the walk up passes through nodes with longer and longer chains below them; rank_depth bounds those *)
    intros HI. assert (HK : Rank s) by (destruct HI as [_ [A _]]; exact A).
    induction n; intros a Hl Ha Hn.
    { exfalso. apply (Hn (List.length (heap s))); [lia | apply rank_depth; exact HK]. }
    simpl.
    destruct (parent s a) as [p|] eqn:Hp.
    - destruct (parent_above _ _ _ HI Hl Ha Hp) as [Hlp [Hpa Hk]].
      destruct (IHn p Hlp Hpa) as [l [El Hall]].
      { intros i Hi Hd. destruct i as [|i]; simpl in Hd; [exact (Hd a Hk)|].
        apply (Hn i); [lia | apply Hd; exact Hk]. }
      rewrite El. exists (p :: l). split; [reflexivity|].
      intros x [<-|Hx]; [split; [exact Hpa | split; [exact Hlp | apply reach_kid; exact Hk]]|].
      destruct (Hall x Hx) as [A [B C]]. split; [exact A | split; [exact B|]].
      eapply reach_trans; [exact C | apply reach_kid; exact Hk].
    - exists []. split; [reflexivity | intros ? []].
  Qed.

  Theorem queries_total s a :
    Inv2 H ct s -> live s a -> attached s a ->
    exists l, ancestors (fuel_of s) s a = Some l /\ chain_up s a l /\ get_depth s a = Some (List.length l) /\
              forall x, In x l -> attached s x /\ live s x /\ reach s x a.
  Proof.
    intros HI Hl Ha. destruct (ancestors_total s HI (fuel_of s) a Hl Ha) as [l [El Hall]]; [unfold fuel_of; intros i Hi; lia|].
    exists l. split; [exact El|]. split; [eapply ancestors_chain; exact El|]. split; [|exact Hall].
    unfold get_depth. rewrite El. reflexivity.
  Qed.
End Queries2.
