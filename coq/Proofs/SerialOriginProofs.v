(* Proofs for C04, part 2: origins of every kind are read back (plain and index-based sources), and a source
   registry rebuilt by load_sources (all_as_dict reg) resolves every index reference to an equal source. *)
From Oak Require Import Model.SerOpts Model.Serial Proofs.AccessProofs Proofs.SerOptsProofs Proofs.SerialProofs.
From Coq Require Import Permutation.

(* ---------- what the constructors guarantee, and the fuel an origin needs ---------- *)
Fixpoint wf_origin (o : origin) : Prop :=
  match o with
  | OCode _ r => wf_range r
  | OMulti l => 2 <= length l /\ fold_right (fun y P => wf_origin y /\ P) True l
  | _ => True
  end.
Fixpoint origin_depth (o : origin) : nat :=
  match o with
  | ONo => 1
  | OCode s _ | OGen s | OXml s _ | OEntire s => S (source_depth s)
  | OMulti l => S (fold_right (fun y n => Nat.max (origin_depth y) n) 0 l)
  end.

(* the registry at reading time holds, at every index of the registry at writing time, an equal source *)
Definition reg_agree (reg0 reg : list source) : Prop :=
  forall i y, nth_error reg0 i = Some y -> exists y', nth_error reg i = Some y' /\ source_eqb y' y = true.

Lemma reg_agree_refl reg : reg_agree reg reg.
Proof. intros i y E. exists y. split; [exact E|apply source_eqb_refl]. Qed.
Lemma reg_agree_app reg0 reg k : reg_agree reg0 reg -> reg_agree reg0 (reg ++ k).
Proof.
  intros Ha i y E. destruct (Ha i y E) as [y' [E' Q]]. exists y'. split; [|exact Q].
  rewrite nth_error_app1; [exact E'|]. apply nth_error_Some. congruence.
Qed.
Lemma reg_agree_register1 reg0 reg x : reg_agree reg0 reg -> reg_agree reg0 (register1 x reg).
Proof. intros Ha. unfold register1. destruct (index_of x reg); [exact Ha|apply reg_agree_app; exact Ha]. Qed.

Lemma wf_origin_multi l : wf_origin (OMulti l) <-> 2 <= length l /\ Forall wf_origin l.
Proof.
  cbn [wf_origin]. split; intros [A B]; split; auto; clear A.
  - induction l as [|x l IH]; constructor; cbn [fold_right] in B; [tauto|]. apply IH. tauto.
  - induction B as [|x l Hx Hl IH]; cbn [fold_right]; auto.
Qed.
Lemma origin_depth_multi l fuel : origin_depth (OMulti l) <= S fuel -> Forall (fun o => origin_depth o <= fuel) l.
Proof.
  cbn [origin_depth]. intros Hf. apply le_S_n in Hf.
  induction l as [|x l IH]; constructor; simpl in Hf; [lia|]. apply IH. lia.
Qed.

(* ---------- sources, both ways of writing them ---------- *)
Section OriginRT.
  Variable s : slots.
  Hypothesis Hi : ints_as_str s = false.
  Hypothesis Hs : get_skip s = false.

  Lemma source_rt_gen x reg0 v fuel reg :
    ser_source s reg0 x = Some v -> source_depth x <= fuel -> (get_sidx s = true -> reg_agree reg0 reg) ->
    exists x' reg', deser_source fuel v reg = Ok (x', reg') /\ source_eqb x' x = true
                    /\ (get_sidx s = true -> reg' = reg).
  Proof.
    intros E Hf Ha. destruct (get_sidx s) eqn:Hx.
    - destruct fuel as [|fuel]; [destruct x; simpl in Hf; lia|].
      assert (Hsno : x = SNo \/ x <> SNo) by (destruct x; auto; right; discriminate).
      destruct Hsno as [->|Hn].
      + injection E as <-. exists SNo, reg. auto.
      + assert (Ei : exists i, index_of x reg0 = Some i /\ v = JMap [kv "idx" (JInt (Z.of_nat i))]).
        { destruct x; try congruence; simpl in E; rewrite Hx in E; destruct (index_of _ reg0) as [j|]; try discriminate;
            injection E as <-; eauto. }
        destruct Ei as [i [Ei ->]].
        destruct (source_index_roundtrip s x reg0 reg i fuel Hx Hn) as [y' [D Q]].
        * destruct x; try congruence; simpl; rewrite Hx, Ei; reflexivity.
        * apply Ha. reflexivity.
        * exists y', reg. auto.
    - destruct (source_roundtrip s Hx Hs x reg0 v fuel reg E Hf) as [x' [reg' [D Q]]].
      exists x', reg'. repeat split; auto. discriminate.
  Qed.

  (* ---------- reading the keys of an origin's mapping ---------- *)
  Lemma bp_tag cls d : jtag (base_post s cls d) = Some cls.
  Proof. unfold jtag. rewrite base_post_tag by exact Hs. reflexivity. Qed.

  Ltac key_ne := vm_compute; discriminate.
  Ltac bp_rewrite d :=
    repeat match goal with
    | |- context [jget ?k (base_post s ?cls d)] =>
      erewrite (base_post_get s cls d k) by (first [subst d; nodup_keys | subst d; notin_keys | subst d; simpl; auto 6])
    end.
  Ltac eval_tags :=
    repeat match goal with |- context [pystr_eqb ?a (lit ?b)] =>
      let r := eval vm_compute in (pystr_eqb a (lit b)) in change (pystr_eqb a (lit b)) with r end.

  Definition ort (fuel : nat) (o : origin) : Prop :=
    forall reg0 v reg, wf_origin o -> ser_origin s reg0 o = Some v -> (get_sidx s = true -> reg_agree reg0 reg) ->
    exists o' reg', deser_origin fuel s v reg = Ok (o', reg') /\ origin_eqb o' o = true
                    /\ (get_sidx s = true -> reg_agree reg0 reg').

  Lemma mapM_origins fuel l : Forall (ort fuel) l ->
    forall reg0 vs reg, Forall wf_origin l -> omap (ser_origin s reg0) l = Some vs -> (get_sidx s = true -> reg_agree reg0 reg) ->
    exists os reg', mapM_st (deser_origin fuel s) vs reg = Ok (os, reg') /\ origin_eqb (OMulti os) (OMulti l) = true
                    /\ length os = length l /\ (get_sidx s = true -> reg_agree reg0 reg').
  Proof.
    induction 1 as [|x l Hxx Hl IHl]; intros reg0 vs reg W E Ha; simpl in E.
    - injection E as <-. exists [], reg. simpl. auto.
    - destruct (ser_origin s reg0 x) as [v|] eqn:Ev; [|discriminate].
      destruct (omap _ l) as [vs'|] eqn:El; [|discriminate]. injection E as <-.
      inversion W as [|? ? Wx Wl]; subst.
      destruct (Hxx _ _ reg Wx Ev Ha) as [x' [reg1 [D1 [E1 A1]]]].
      destruct (IHl _ _ reg1 Wl El A1) as [ys [reg2 [D2 [E2 [L2 A2]]]]].
      exists (x' :: ys), reg2. simpl. rewrite D1, D2. repeat split; auto. simpl in E2. rewrite E1. exact E2.
  Qed.

  Lemma simple_rt cls src pos reg0 sv fuel reg :
    cls <> lit "NoOrigin" ->
    ser_source s reg0 src = Some sv -> source_depth src <= fuel -> (get_sidx s = true -> reg_agree reg0 reg) ->
    let m := base_post s cls [kv "source" sv; kv "position" pos] in
    is_empty_map m || tag_is m "NoOrigin" = false /\ jtag m = Some cls /\ jget (lit "position") m = Some pos /\
    exists x' reg', (match jget (lit "source") m with Some sv => deser_source fuel sv reg | None => Exc end) = Ok (x', reg')
                    /\ source_eqb x' src = true /\ (get_sidx s = true -> reg_agree reg0 reg').
  Proof.
    intros Hc E Hf Ha m. subst m. set (d := [kv "source" sv; kv "position" pos]).
    rewrite base_post_nonempty by exact Hs. unfold tag_is. rewrite bp_tag. bp_rewrite d.
    split; [|split; [reflexivity|split; [reflexivity|]]].
    - cbv beta iota delta [orb]. destruct (pystr_eqb_spec cls (lit "NoOrigin")); congruence.
    - destruct (source_rt_gen src reg0 sv fuel reg E Hf Ha) as [x' [reg' [D [Q R]]]].
      exists x', reg'. repeat split; auto. intros Hx. rewrite (R Hx). auto.
  Qed.

  Ltac use_simple_rt sc sv reg0 fuel reg Es Hf Ha A B C x' reg' D Q R :=
    match goal with |- context [base_post s ?c [kv "source" sv; kv "position" ?p]] =>
      destruct (simple_rt c sc p reg0 sv fuel reg ltac:(key_ne) Es Hf Ha) as [A [B [C [x' [reg' [D [Q R]]]]]]]
    end.

  Theorem origin_roundtrip o : forall fuel, origin_depth o <= fuel -> ort fuel o.
  Proof.
    induction o as [|sc r|sc|sc p|sc|l IH] using origin_ind'; intros fuel Hf reg0 v reg W E Ha;
      (destruct fuel as [|fuel]; [simpl in Hf; lia|]).
    - injection E as <-. exists ONo, reg. auto.
    - cbn [ser_origin] in E. destruct (ser_source s reg0 sc) as [sv|] eqn:Es; [|discriminate]. injection E as <-.
      cbn [origin_depth] in Hf. apply le_S_n in Hf.
      cbn [deser_origin]. use_simple_rt sc sv reg0 fuel reg Es Hf Ha A B C x' reg' D Q R. rewrite A, B. eval_tags. cbv beta iota. rewrite D, C.
      cbn [ser_position]. rewrite range_roundtrip by (auto; exact W).
      exists (OCode x' r), reg'. repeat split; auto. simpl. rewrite Q. apply andb_true_iff. split; auto.
      unfold range_eqb, point_eqb. rewrite !Z.eqb_refl. reflexivity.
    - cbn [ser_origin] in E. destruct (ser_source s reg0 sc) as [sv|] eqn:Es; [|discriminate]. injection E as <-.
      cbn [origin_depth] in Hf. apply le_S_n in Hf.
      cbn [deser_origin]. use_simple_rt sc sv reg0 fuel reg Es Hf Ha A B C x' reg' D Q R. rewrite A, B. eval_tags. cbv beta iota. rewrite D.
      exists (OGen x'), reg'. repeat split; auto.
    - cbn [ser_origin] in E. destruct (ser_source s reg0 sc) as [sv|] eqn:Es; [|discriminate]. injection E as <-.
      cbn [origin_depth] in Hf. apply le_S_n in Hf.
      cbn [deser_origin]. use_simple_rt sc sv reg0 fuel reg Es Hf Ha A B C x' reg' D Q R. rewrite A, B. eval_tags. cbv beta iota. rewrite D, C.
      cbn [ser_position]. unfold tag_is. rewrite bp_tag. eval_tags. cbv beta iota.
      unfold jget_str. set (d := [kv "xpath" (JStr p)]). bp_rewrite d.
      exists (OXml x' p), reg'. repeat split; auto. simpl. rewrite Q, pystr_eqb_refl. reflexivity.
    - cbn [ser_origin] in E. destruct (ser_source s reg0 sc) as [sv|] eqn:Es; [|discriminate]. injection E as <-.
      cbn [origin_depth] in Hf. apply le_S_n in Hf.
      cbn [deser_origin]. use_simple_rt sc sv reg0 fuel reg Es Hf Ha A B C x' reg' D Q R. rewrite A, B. eval_tags. cbv beta iota. rewrite D, C.
      cbn [ser_position]. unfold tag_is. rewrite bp_tag. eval_tags. cbv beta iota.
      exists (OEntire x'), reg'. repeat split; auto.
    - cbn [ser_origin] in E. destruct (ser_source s reg0 (osource (OMulti l))) as [sv|] eqn:Es; [|discriminate].
      destruct (omap (ser_origin s reg0) l) as [vs|] eqn:El; [|discriminate]. injection E as <-.
      apply wf_origin_multi in W as [W2 Wl].
      assert (IH' : Forall (ort fuel) l).
      { pose proof (origin_depth_multi l fuel Hf) as Hd. clear - IH Hd.
        induction IH as [|x l Hxx Hl IHl]; constructor; inversion Hd; subst; auto. }
      destruct (mapM_origins fuel l IH' reg0 vs reg Wl El Ha) as [os [reg1 [D [Q [L A1]]]]].
      cbn [deser_origin].
      match goal with |- context [base_post s _ ?dd] => set (d := dd) end.
      rewrite base_post_nonempty by exact Hs. unfold tag_is. rewrite !bp_tag. eval_tags. cbv beta iota delta [orb].
      bp_rewrite d. cbv beta iota. rewrite D.
      destruct (Nat.ltb_spec (length os) 2) as [Hlt|_]; [lia|].
      eexists (OMulti os), _. split; [reflexivity|]. split; [exact Q|].
      intros Hx. destruct (multi_source (map osource os)); auto. apply reg_agree_register1. auto.
  Qed.
End OriginRT.

(* ---------- the registry rebuilt from all_as_dict ---------- *)
(* sources of a registry as Source.__post_init__ leaves it: no NoSource entry, pairwise different *)
Fixpoint src_distinct (reg : list source) : Prop :=
  match reg with
  | [] => True
  | x :: r => x <> SNo /\ index_of x r = None /\ src_distinct r
  end.

(* what __post_init__ + from_dict build from a source's mapping: the raw text is not serialized *)
Definition strip (x : source) : source := match x with SMem u _ => SMem u None | _ => x end.
(* the tail of Source._deserialize: register the new object, hand back the registered instance *)
Definition reg_tail (obj : source) (reg1 : list source) : res (source * list source) :=
  let reg2 := register1 obj reg1 in
  match index_of obj reg2 with
  | Some i => match nth_error reg2 i with Some r => Ok (r, reg2) | None => Exc end
  | None => Exc
  end.

Lemma strip_eqb x : source_eqb (strip x) x = true.
Proof. destruct x; try apply source_eqb_refl. simpl. apply pystr_eqb_refl. Qed.

Section Unfold.
  Variable s : slots.
  Hypothesis Hx : get_sidx s = false.
  Hypothesis Hs : get_skip s = false.

  Ltac key_ne := vm_compute; discriminate.
  Ltac sp_rewrite d :=
    repeat match goal with
    | |- context [jget ?k (source_post s ?cls d)] =>
      first [ rewrite (sp_raw s cls d)
            | rewrite (sp_absent s cls d k) by (first [key_ne | subst d; notin_keys])
            | erewrite (sp_get s cls d k) by (first [key_ne | subst d; nodup_keys | subst d; notin_keys | subst d; simpl; auto 6]) ]
    end.
  Ltac eval_tags :=
    repeat match goal with |- context [pystr_eqb ?a (lit ?b)] =>
      let r := eval vm_compute in (pystr_eqb a (lit b)) in change (pystr_eqb a (lit b)) with r end.
  Ltac open_source :=
    cbn [deser_source];
    match goal with |- context [source_post s _ ?dd] =>
      let d := fresh "d" in set (d := dd);
      rewrite (sp_nonempty s Hs); unfold tag_is; rewrite !(sp_tag s Hs); sp_rewrite d; eval_tags;
      cbv beta iota delta [orb jget_str]; sp_rewrite d; cbv beta iota
    end.

  Lemma deser_plain x reg0 v fuel reg :
    x <> SNo -> (forall l, x <> SSet l) -> ser_source s reg0 x = Some v ->
    deser_source (S fuel) v reg = reg_tail (strip x) reg.
  Proof.
    intros Hn Hl E. destruct x as [|u t|u r|p|l]; try congruence.
    - cbn [ser_source] in E. rewrite Hx in E. injection E as <-. open_source. reflexivity.
    - cbn [ser_source] in E. rewrite Hx in E. injection E as <-. open_source. reflexivity.
    - cbn [ser_source] in E. rewrite Hx in E. injection E as <-. open_source. reflexivity.
  Qed.
  Lemma deser_set l reg0 v fuel reg :
    ser_source s reg0 (SSet l) = Some v ->
    exists vs, omap (ser_source s reg0) l = Some vs /\
      deser_source (S fuel) v reg = (dor (ys, reg1) <- mapM_st (deser_source fuel) vs reg; reg_tail (SSet ys) reg1).
  Proof.
    intros E. cbn [ser_source] in E. rewrite Hx in E.
    destruct (omap (ser_source s reg0) l) as [vs|] eqn:El; [|discriminate]. injection E as <-.
    exists vs. split; [reflexivity|]. open_source.
    destruct (mapM_st (deser_source fuel) vs reg) as [[ys reg1]|]; reflexivity.
  Qed.
  (* without index-based references every source serializes *)
  Lemma ser_source_total reg0 x : exists v, ser_source s reg0 x = Some v.
  Proof.
    induction x as [|u t|u r|p|l IH] using source_ind'; cbn [ser_source]; rewrite ?Hx; eauto.
    assert (E : exists vs, omap (ser_source s reg0) l = Some vs).
    { induction IH as [|y l [v Hy] Hl [vs IHl]]; simpl; eauto. rewrite Hy, IHl. eauto. }
    destruct E as [vs ->]. eauto.
  Qed.
End Unfold.

(* two registries holding pairwise == sources *)
Definition reg_eqv (p reg : list source) : Prop := Forall2 (fun a b => source_eqb b a = true) p reg.

Lemma source_eqb_sym x y : source_eqb x y = source_eqb y x.
Proof.
  revert y. induction x as [|u t|u r|p|l IH] using source_ind'; intros [|u' t'|u' r'|p'|l']; try reflexivity; simpl.
  - f_equal; destruct (pystr_eqb_spec u u'), (pystr_eqb_spec u' u); try congruence;
      destruct (pystr_eqb_spec t t'), (pystr_eqb_spec t' t); congruence.
  - destruct (pystr_eqb_spec u u'), (pystr_eqb_spec u' u); congruence.
  - destruct (pystr_eqb_spec p p'), (pystr_eqb_spec p' p); congruence.
  - revert l'. induction IH as [|a l Ha Hl IHl]; intros [|b l']; auto. rewrite Ha, IHl. reflexivity.
Qed.
Lemma source_eqb_cong a b x y : source_eqb b a = true -> source_eqb y x = true -> source_eqb b y = source_eqb a x.
Proof.
  intros E1 E2. destruct (source_eqb a x) eqn:E.
  - eapply source_eqb_trans; [exact E1|]. eapply source_eqb_trans; [exact E|]. rewrite source_eqb_sym. exact E2.
  - destruct (source_eqb b y) eqn:E'; auto. rewrite <- E. symmetry.
    eapply source_eqb_trans; [rewrite source_eqb_sym; exact E1|]. eapply source_eqb_trans; [exact E'|exact E2].
Qed.
Lemma index_of_eqv p reg x y : reg_eqv p reg -> source_eqb y x = true -> index_of y reg = index_of x p.
Proof.
  intros Hq E. induction Hq as [|a b p reg Hab Hq IH]; simpl; auto.
  rewrite (source_eqb_cong a b x y Hab E), IH. reflexivity.
Qed.
Lemma reg_eqv_agree p reg : reg_eqv p reg -> reg_agree p reg.
Proof.
  intros Hq. induction Hq as [|a b p reg Hab Hq IH]; intros [|i] y E; simpl in *; try discriminate.
  - injection E as <-. eauto.
  - apply IH. exact E.
Qed.
Lemma reg_eqv_snoc p reg x y : reg_eqv p reg -> source_eqb y x = true -> reg_eqv (p ++ [x]) (reg ++ [y]).
Proof. intros Hq E. apply Forall2_app; [exact Hq|]. constructor; auto. Qed.

Lemma reg_tail_found obj reg j : index_of obj reg = Some j ->
  exists y, reg_tail obj reg = Ok (y, reg) /\ source_eqb y obj = true.
Proof.
  intros E. unfold reg_tail, register1. cbv zeta. rewrite E, E.
  destruct (index_of_nth _ _ _ E) as [y [Hy Q]]. rewrite Hy. eauto.
Qed.
Lemma reg_tail_new obj reg : index_of obj reg = None -> reg_tail obj reg = Ok (obj, reg ++ [obj]).
Proof.
  intros E. unfold reg_tail, register1. cbv zeta. rewrite E, (index_of_app_self _ _ E).
  rewrite nth_error_app2 by lia. rewrite Nat.sub_diag. reflexivity.
Qed.

(* x and all its members (transitively) are NoSource or registered in p *)
Fixpoint closed (p : list source) (x : source) : Prop :=
  match x with
  | SNo => True
  | SSet l => index_of x p <> None /\ fold_right (fun y P => closed p y /\ P) True l
  | _ => index_of x p <> None
  end.
Lemma closed_set p l : closed p (SSet l) <-> index_of (SSet l) p <> None /\ Forall (closed p) l.
Proof.
  cbn [closed]. split; intros [A B]; split; auto; clear A.
  - induction l as [|x l IH]; constructor; cbn [fold_right] in B; [tauto|]. apply IH. tauto.
  - induction B as [|x l Hx Hl IH]; cbn [fold_right]; auto.
Qed.
Definition entry_ok (p : list source) (x : source) : Prop :=
  x <> SNo /\ index_of x p = None /\ match x with SSet l => Forall (closed p) l | _ => True end.
(* the registry as Source.__post_init__ builds it: no NoSource, no two == entries, members before their set *)
Definition reg_valid (reg : list source) : Prop := forall p x q, reg = p ++ x :: q -> entry_ok p x.

Section Reload.
  Let s := slots0.
  Let Hx : get_sidx s = false := eq_refl.
  Let Hs : get_skip s = false := eq_refl.

  (* a closed source is read back without touching the registry *)
  Lemma deser_closed p x : forall reg0 v fuel reg, closed p x -> reg_eqv p reg ->
    ser_source s reg0 x = Some v -> source_depth x <= fuel ->
    exists x', deser_source fuel v reg = Ok (x', reg) /\ source_eqb x' x = true.
  Proof.
    induction x as [|u t|u r|q|l IH] using source_ind'; intros reg0 v fuel reg Hc Hq E Hf;
      (destruct fuel as [|fuel]; [simpl in Hf; lia|]).
    - cbn [ser_source] in E. injection E as <-. exists SNo. auto.
    - rewrite (deser_plain s Hx Hs (SText u t) reg0 v fuel reg ltac:(discriminate) ltac:(discriminate) E).
      simpl in Hc. destruct (index_of (SText u t) p) as [j|] eqn:Ej; [|congruence].
      rewrite <- (index_of_eqv p reg _ _ Hq (strip_eqb (SText u t))) in Ej.
      destruct (reg_tail_found _ _ _ Ej) as [y [D Q]]. exists y. split; [exact D|]. exact Q.
    - rewrite (deser_plain s Hx Hs (SMem u r) reg0 v fuel reg ltac:(discriminate) ltac:(discriminate) E).
      simpl in Hc. destruct (index_of (SMem u r) p) as [j|] eqn:Ej; [|congruence].
      rewrite <- (index_of_eqv p reg _ _ Hq (strip_eqb (SMem u r))) in Ej.
      destruct (reg_tail_found _ _ _ Ej) as [y [D Q]]. exists y. split; [exact D|].
      eapply source_eqb_trans; [exact Q|apply strip_eqb].
    - rewrite (deser_plain s Hx Hs (SFile q) reg0 v fuel reg ltac:(discriminate) ltac:(discriminate) E).
      simpl in Hc. destruct (index_of (SFile q) p) as [j|] eqn:Ej; [|congruence].
      rewrite <- (index_of_eqv p reg _ _ Hq (strip_eqb (SFile q))) in Ej.
      destruct (reg_tail_found _ _ _ Ej) as [y [D Q]]. exists y. split; [exact D|]. exact Q.
    - destruct (deser_set s Hx Hs l reg0 v fuel reg E) as [vs [El ->]].
      apply closed_set in Hc as [Hi Hcl].
      assert (M : exists ys, mapM_st (deser_source fuel) vs reg = Ok (ys, reg) /\ source_eqb (SSet ys) (SSet l) = true).
      { simpl in Hf. apply le_S_n in Hf. clear E Hi. revert vs El.
        induction IH as [|y l Hy Hl IHl]; intros vs El; simpl in El.
        - injection El as <-. exists []. auto.
        - destruct (ser_source s reg0 y) as [vy|] eqn:Ey; [|discriminate].
          destruct (omap _ l) as [vs'|] eqn:El'; [|discriminate]. injection El as <-.
          inversion Hcl; subst. simpl in Hf.
          destruct (Hy reg0 vy fuel reg) as [y' [D1 Q1]]; auto; [lia|].
          destruct IHl with (vs := vs') as [ys [D2 Q2]]; auto; [lia|].
          exists (y' :: ys). simpl. rewrite D1, D2. split; auto. simpl in Q2. rewrite Q1. exact Q2. }
      destruct M as [ys [-> Q]].
      destruct (index_of (SSet l) p) as [j|] eqn:Ej; [|congruence].
      rewrite <- (index_of_eqv p reg _ _ Hq Q) in Ej.
      destruct (reg_tail_found _ _ _ Ej) as [y [D Q']]. exists y. split; [exact D|].
      eapply source_eqb_trans; [exact Q'|exact Q].
  Qed.

  (* a new entry is appended, under the index it had *)
  Lemma deser_entry p x reg0 v fuel reg : entry_ok p x -> reg_eqv p reg ->
    ser_source s reg0 x = Some v -> source_depth x <= fuel ->
    exists x' y, deser_source fuel v reg = Ok (x', reg ++ [y]) /\ source_eqb y x = true.
  Proof.
    intros [Hn [Hi Hm]] Hq E Hf. destruct fuel as [|fuel]; [destruct x; simpl in Hf; lia|].
    assert (Hset : (exists l, x = SSet l) \/ forall l, x <> SSet l) by (destruct x; eauto; right; discriminate).
    destruct Hset as [[l ->]|Hl].
    - destruct (deser_set s Hx Hs l reg0 v fuel reg E) as [vs [El ->]].
      assert (M : exists ys, mapM_st (deser_source fuel) vs reg = Ok (ys, reg) /\ source_eqb (SSet ys) (SSet l) = true).
      { simpl in Hf. apply le_S_n in Hf. clear E Hi Hn. revert vs El.
        induction l as [|y l IHl]; intros vs El; simpl in El.
        - injection El as <-. exists []. auto.
        - destruct (ser_source s reg0 y) as [vy|] eqn:Ey; [|discriminate].
          destruct (omap _ l) as [vs'|] eqn:El'; [|discriminate]. injection El as <-.
          inversion Hm; subst. simpl in Hf.
          destruct (deser_closed p y reg0 vy fuel reg) as [y' [D1 Q1]]; auto; [lia|].
          destruct IHl with (vs := vs') as [ys [D2 Q2]]; auto; [lia|].
          exists (y' :: ys). simpl. rewrite D1, D2. split; auto. simpl in Q2. rewrite Q1. exact Q2. }
      destruct M as [ys [-> Q]].
      rewrite <- (index_of_eqv p reg _ _ Hq Q) in Hi. rewrite (reg_tail_new _ _ Hi). eauto.
    - rewrite (deser_plain s Hx Hs x reg0 v fuel reg Hn Hl E).
      rewrite <- (index_of_eqv p reg _ _ Hq (strip_eqb x)) in Hi. rewrite (reg_tail_new _ _ Hi).
      exists (strip x), (strip x). split; auto. apply strip_eqb.
  Qed.

  Lemma load_from q : forall p reg ds fuel, reg_valid (p ++ q) -> reg_eqv p reg ->
    omap (ser_source s (p ++ q)) q = Some ds -> (forall x, In x q -> source_depth x <= fuel) ->
    exists reg', load_sources fuel ds reg = Ok reg' /\ reg_eqv (p ++ q) reg'.
  Proof.
    induction q as [|x q IH]; intros p reg ds fuel Hv Hq E Hf; simpl in E.
    - injection E as <-. exists reg. rewrite app_nil_r. auto.
    - destruct (ser_source s (p ++ x :: q) x) as [v|] eqn:Ev; [|discriminate].
      destruct (omap _ q) as [ds'|] eqn:Eq; [|discriminate]. injection E as <-.
      destruct (deser_entry p x _ v fuel reg (Hv p x q eq_refl) Hq Ev (Hf x (or_introl eq_refl))) as [x' [y [D Q]]].
      cbn [load_sources]. rewrite D.
      replace (p ++ x :: q) with ((p ++ [x]) ++ q) in * by (rewrite <- app_assoc; reflexivity).
      apply IH; auto.
      + apply reg_eqv_snoc; auto.
      + intros z Hz. apply Hf. right. exact Hz.
  Qed.

  (* Source.all_as_dict() in one process, clear, Source.load_serialized_sources() in another *)
  Theorem reload_registry reg fuel : reg_valid reg -> (forall x, In x reg -> source_depth x <= fuel) ->
    exists ds reg', all_as_dict reg = Some ds /\ load_sources fuel ds [] = Ok reg' /\ reg_eqv reg reg'.
  Proof.
    intros Hv Hf. unfold all_as_dict.
    assert (E : forall r0 l, exists ds, omap (ser_source slots0 r0) l = Some ds).
    { intros r0 l. induction l as [|x r [ds IHr]]; simpl; eauto.
      destruct (ser_source_total slots0 eq_refl r0 x) as [v ->]. rewrite IHr. eauto. }
    destruct (E reg reg) as [ds Ed]. clear E. rename Ed into E. exists ds.
    destruct (load_from reg [] [] ds fuel Hv (Forall2_nil _) E Hf) as [reg' [D Q]].
    exists reg'. auto.
  Qed.
End Reload.

(* index-based serialization round-trips to an equal source once the separately serialized sources are loaded *)
Theorem source_index_reload s' reg fuel : get_sidx s' = true -> reg_valid reg ->
  (forall y, In y reg -> source_depth y <= fuel) ->
  exists ds reg', all_as_dict reg = Some ds /\ load_sources fuel ds [] = Ok reg' /\ reg_eqv reg reg' /\
    forall x v k, ser_source s' reg x = Some v ->
      exists y', deser_source (S k) v reg' = Ok (y', reg') /\ source_eqb y' x = true.
Proof.
  intros Hx Hv Hf. destruct (reload_registry reg fuel Hv Hf) as [ds [reg' [A [B C]]]].
  exists ds, reg'. repeat split; auto. intros x v k E.
  assert (Hsno : x = SNo \/ x <> SNo) by (destruct x; auto; right; discriminate).
  destruct Hsno as [->|Hn].
  - injection E as <-. exists SNo. auto.
  - assert (Ei : exists i, index_of x reg = Some i /\ v = JMap [kv "idx" (JInt (Z.of_nat i))]).
    { destruct x; try congruence; simpl in E; rewrite Hx in E; destruct (index_of _ reg) as [j|]; try discriminate;
        injection E as <-; eauto. }
    destruct Ei as [i [Ei ->]].
    apply (source_index_roundtrip s' x reg reg' i k Hx Hn E). apply reg_eqv_agree. exact C.
Qed.

(* ---------- every registry the constructors can produce is valid ---------- *)
Lemma index_of_app_some x p k j : index_of x p = Some j -> index_of x (p ++ k) = Some j.
Proof.
  revert j. induction p as [|y p IH]; simpl; [discriminate|]. intros j.
  destruct (source_eqb y x); auto. destruct (index_of x p) as [i|]; [|discriminate].
  intros [= <-]. rewrite (IH i eq_refl). reflexivity.
Qed.
Lemma index_of_app_ne x p k : index_of x p <> None -> index_of x (p ++ k) <> None.
Proof. destruct (index_of x p) as [j|] eqn:E; [|congruence]. rewrite (index_of_app_some _ _ k _ E). discriminate. Qed.
Lemma closed_app p k x : closed p x -> closed (p ++ k) x.
Proof.
  induction x as [|u t|u r|q|l IH] using source_ind'; try (simpl; auto using index_of_app_ne; fail).
  rewrite !closed_set. intros [A B]. split; [apply index_of_app_ne; exact A|].
  clear A. induction IH as [|y l Hy Hl IHl]; inversion B; subst; constructor; auto.
Qed.
Lemma reg_valid_nil : reg_valid [].
Proof. intros [|? ?] x q E; discriminate. Qed.
Lemma reg_valid_snoc reg x : reg_valid reg -> entry_ok reg x -> reg_valid (reg ++ [x]).
Proof.
  intros Hv He p y q E.
  destruct q as [|z q].
  - apply app_inj_tail in E as [-> ->]. exact He.
  - assert (E' : exists q', reg = p ++ y :: q').
    { exists (removelast (z :: q)). rewrite (app_removelast_last x (l := z :: q)) in E by discriminate.
      change (reg ++ [x] = p ++ (y :: removelast (z :: q)) ++ [last (z :: q) x]) in E.
      rewrite app_assoc in E. apply app_inj_tail in E as [E _]. rewrite E. reflexivity. }
    destruct E' as [q' ->]. eapply Hv. reflexivity.
Qed.
Lemma register1_ext x reg : exists k, register1 x reg = reg ++ k.
Proof. unfold register1. destruct (index_of x reg); [exists []; rewrite app_nil_r|eexists]; reflexivity. Qed.
Lemma register1_valid x reg : reg_valid reg -> x <> SNo ->
  match x with SSet l => Forall (closed reg) l | _ => True end ->
  reg_valid (register1 x reg) /\ closed (register1 x reg) x.
Proof.
  intros Hv Hn Hm.
  assert (Hc : forall r, (exists k, r = reg ++ k) -> index_of x r <> None -> closed r x).
  { intros r [k ->] Hi. destruct x; simpl; auto. apply closed_set. split; auto.
    eapply Forall_impl; [|exact Hm]. intros y. apply closed_app. }
  unfold register1. destruct (index_of x reg) as [j|] eqn:E.
  - split; auto. apply Hc; [exists []; rewrite app_nil_r; reflexivity|congruence].
  - split; [apply reg_valid_snoc; auto; repeat split; auto|].
    apply Hc; [eauto|]. rewrite (index_of_app_self _ _ E). discriminate.
Qed.

Definition reg_sources (l : list source) (reg : list source) : list source :=
  fold_left (fun r y => register_source y r) l reg.
Lemma register_source_set l reg : register_source (SSet l) reg = register1 (SSet l) (reg_sources l reg).
Proof.
  reflexivity.
Qed.
Lemma register_source_valid x : forall reg, reg_valid reg ->
  reg_valid (register_source x reg) /\ closed (register_source x reg) x /\ exists k, register_source x reg = reg ++ k.
Proof.
  induction x as [|u t|u r|q|l IH] using source_ind'; intros reg Hv.
  - simpl. split; [|split]; auto. exists []. rewrite app_nil_r. reflexivity.
  - cbn [register_source]. destruct (register1_valid (SText u t) reg Hv ltac:(discriminate) I). auto using register1_ext.
  - cbn [register_source]. destruct (register1_valid (SMem u r) reg Hv ltac:(discriminate) I). auto using register1_ext.
  - cbn [register_source]. destruct (register1_valid (SFile q) reg Hv ltac:(discriminate) I). auto using register1_ext.
  - rewrite register_source_set.
    assert (G : reg_valid (reg_sources l reg) /\ Forall (closed (reg_sources l reg)) l /\ exists k, reg_sources l reg = reg ++ k).
    { clear - IH Hv. revert reg Hv. induction IH as [|y l Hy Hl IHl]; intros reg Hv.
      - simpl. split; [|split]; auto. exists []. rewrite app_nil_r. reflexivity.
      - cbn [reg_sources fold_left]. destruct (Hy reg Hv) as [V1 [C1 [k1 E1]]].
        destruct (IHl _ V1) as [V2 [C2 [k2 E2]]]. fold (reg_sources l (register_source y reg)) in *.
        split; [|split]; auto.
        + constructor; auto. rewrite E2. apply closed_app. exact C1.
        + exists (k1 ++ k2). rewrite E2, E1, app_assoc. reflexivity. }
    destruct G as [V [C [k E]]].
    destruct (register1_valid (SSet l) _ V ltac:(discriminate) C) as [V' C'].
    split; [|split]; auto. destruct (register1_ext (SSet l) (reg_sources l reg)) as [k' ->]. exists (k ++ k').
    rewrite E, app_assoc. reflexivity.
Qed.

Definition reg_origins (l : list origin) (reg : list source) : list source :=
  fold_left (fun r y => register_origin y r) l reg.
Lemma register_origin_multi l reg : register_origin (OMulti l) reg =
  let reg' := reg_origins l reg in
  match multi_source (map osource l) with SSet _ as ss => register1 ss reg' | _ => reg' end.
Proof.
  cbn [register_origin].
  assert (E : forall reg, (fix go (l : list origin) (reg : list source) {struct l} : list source :=
                 match l with [] => reg | y :: r => go r (register_origin y reg) end) l reg = reg_origins l reg).
  { induction l as [|y l IH]; intros r; [reflexivity|]. apply IH. }
  rewrite E. reflexivity.
Qed.
Lemma register_origin_valid o : forall reg, reg_valid reg ->
  reg_valid (register_origin o reg) /\ closed (register_origin o reg) (osource o) /\ exists k, register_origin o reg = reg ++ k.
Proof.
  induction o as [|sc r|sc|sc p|sc|l IH] using origin_ind'; intros reg Hv;
    try (cbn [register_origin osource]; apply register_source_valid; exact Hv).
  - simpl. split; [|split]; auto. exists []. rewrite app_nil_r. reflexivity.
  - rewrite register_origin_multi. cbv zeta.
    assert (G : reg_valid (reg_origins l reg) /\ Forall (closed (reg_origins l reg)) (map osource l) /\ exists k, reg_origins l reg = reg ++ k).
    { clear - IH Hv. revert reg Hv. induction IH as [|y l Hy Hl IHl]; intros reg Hv.
      - simpl. split; [|split]; auto. exists []. rewrite app_nil_r. reflexivity.
      - cbn [reg_origins fold_left map]. destruct (Hy reg Hv) as [V1 [C1 [k1 E1]]].
        destruct (IHl _ V1) as [V2 [C2 [k2 E2]]]. fold (reg_origins l (register_origin y reg)) in *.
        split; [|split]; auto.
        + constructor; auto. rewrite E2. apply closed_app. exact C1.
        + exists (k1 ++ k2). rewrite E2, E1, app_assoc. reflexivity. }
    destruct G as [V [C [k E]]]. cbn [osource].
    assert (Hms : multi_source (map osource l) = SNo /\ map osource l = [] \/
                  (exists s0 rest, map osource l = s0 :: rest /\ multi_source (map osource l) = s0) \/
                  multi_source (map osource l) = SSet (map osource l)).
    { unfold multi_source. destruct (map osource l) as [|s0 rest]; auto. destruct (all_same_source s0 rest); [right; left; eauto|right; right; reflexivity]. }
    assert (Hcl : multi_source (map osource l) <> SNo ->
                  match multi_source (map osource l) with SSet l0 => Forall (closed (reg_origins l reg)) l0 | _ => True end).
    { intros Hn. destruct Hms as [[Hm _]|[[s0 [rest [El Hm]]]|Hm]]; [congruence| |rewrite Hm; exact C].
      rewrite Hm. rewrite El in C. apply Forall_inv in C. destruct s0; auto. apply closed_set in C. tauto. }
    destruct (multi_source (map osource l)) as [|u t|u r|q|l0] eqn:Em.
    + split; [exact V|split; [exact I|eauto]].
    + split; [exact V|split; [|eauto]]. destruct Hms as [[Hm _]|[[s0 [rest [El Hm]]]|Hm]]; try discriminate.
      rewrite El in C. apply Forall_inv in C. rewrite Hm. exact C.
    + split; [exact V|split; [|eauto]]. destruct Hms as [[Hm _]|[[s0 [rest [El Hm]]]|Hm]]; try discriminate.
      rewrite El in C. apply Forall_inv in C. rewrite Hm. exact C.
    + split; [exact V|split; [|eauto]]. destruct Hms as [[Hm _]|[[s0 [rest [El Hm]]]|Hm]]; try discriminate.
      rewrite El in C. apply Forall_inv in C. rewrite Hm. exact C.
    + destruct (register1_valid (SSet l0) _ V ltac:(discriminate) (Hcl ltac:(discriminate))) as [V' C'].
      split; [|split]; auto. destruct (register1_ext (SSet l0) (reg_origins l reg)) as [k' ->]. exists (k ++ k').
      rewrite E, app_assoc. reflexivity.
Qed.
