(* C18 round 2: removal of a child, part 3: replace_with(None) of an attached node that sits in a tuple / list field. *)
From Oak Require Import Spec.LegacySpec Spec.LegacySpec2 Proofs.LegacyProofs Proofs.LegacyInv Proofs.LegacyHeap
  Proofs.LegacyDetach Proofs.LegacyAttach Proofs.LegacyAttach2 Proofs.LegacyAttach3 Proofs.LegacyConstruct
  Proofs.LegacyConstruct2 Proofs.LegacyRemove Proofs.LegacyRemove2.
From Oak Require Import Proofs.LegacyRemoveSeq Proofs.LegacyRemoveSeq2.
From Coq Require Import List String Ascii ZArith Bool Arith Lia.
Import ListNotations.

Lemma nth_error_skipn_plus {A} (l : list A) : forall n m, nth_error (skipn n l) m = nth_error l (n + m).
Proof.
  induction l as [|x l IH]; intros n m.
  - rewrite skipn_nil. destruct m, n; reflexivity.
  - destruct n as [|n]; [reflexivity|]. simpl. apply IH.
Qed.
Lemma in_skipn_iff {A} (l : list A) n c : In c (skipn n l) <-> exists j, n <= j /\ nth_error l j = Some c.
Proof.
  split.
  - intros Hin. apply In_nth_error in Hin. destruct Hin as [m Hm]. rewrite nth_error_skipn_plus in Hm.
    exists (n + m). split; [lia | exact Hm].
  - intros [j [Hle Hj]]. apply (nth_error_In _ (j - n)). rewrite nth_error_skipn_plus.
    replace (n + (j - n)) with j by lia. exact Hj.
Qed.
Lemma NoDup_skipn {A} (l : list A) : forall n, NoDup l -> NoDup (skipn n l).
Proof.
  induction l as [|x l IH]; intros n Hn; [rewrite skipn_nil; constructor|].
  destruct n as [|n]; [exact Hn|]. simpl. apply IH. inversion Hn; assumption.
Qed.
Lemma assoc_flat_incl fs f v e : assoc f fs = Some v -> In e (fkids (f, v)) -> In e (flat_map fkids fs).
Proof.
  induction fs as [|[n w] fs IH]; simpl; [discriminate|]. intros Ha Hin.
  apply in_or_app. destruct (pystr_eqb f n) eqn:E.
  - apply pystr_eqb_eq in E. subst n. inversion Ha; subst w. left; exact Hin.
  - right. apply IH; assumption.
Qed.

Section RemoveSeq.
  Variable H : pystr -> pystr.
  Variable ct : ctable.

  Theorem inv2_step_replace_with_none_seq s a p f ix s' :
    Inv2 H ct s -> live s a -> attached s a ->
    parent s a = Some p -> c_pf (cellD s a) = Some f -> c_pi (cellD s a) = Some ix ->
    NoDup (map fst (c_fs (cellD s p))) ->
    step H ct s (OReplaceWith a None) = (s', RNone) -> Inv2 H ct s'.
  Proof.
    intros HI Hla Haa Hpa Hpf Hpi Hnames E.
    assert (HI' := HI). destruct HI' as [HR [HK [HP HL]]].
    destruct (parent_attached _ _ _ HR Hpa) as [Hpatt Hpid_a].
    assert (Hlp : live s p) by (apply attached_reg in Hpatt; apply HR in Hpatt; tauto).
    assert (Hedge : In (a, f, Some ix) (skids_wf s p)).
    { destruct (HL a Hla Haa) as [_ Hs _ _]. destruct (Hs p Hpa) as [f' [Hf' Hin]].
      rewrite Hpf in Hf'. inversion Hf'; subst f'. rewrite Hpi in Hin. exact Hin. }
    destruct (edge_assoc_seq _ _ _ _ Hnames Hedge) as [l [Hassoc Hnth]].
    destruct (HL p Hlp Hpatt) as [Hcp _ _ _].
    (* the elements of the sequence: children of p at their positions *)
    assert (Hpos : forall j k, nth_error l j = Some k ->
              In (k, f, Some j) (skids_wf s p) /\ attached s k /\ parent s k = Some p /\
              c_pf (cellD s k) = Some f /\ c_pi (cellD s k) = Some j /\ (k <> p /\ live s k)).
    { intros j k Hj. assert (Hin : In (k, f, Some j) (skids_wf s p)).
      { unfold skids_wf, kids_wf. eapply assoc_flat_incl; [exact Hassoc|]. apply fkids_seq_in. exact Hj. }
      destruct (Hcp k f (Some j) Hin) as [A [B [C Dd]]]. repeat split; try assumption.
      - eapply reach_kid_ne; [exact HK | eapply edge_kid; exact Hin | apply reach_refl].
      - eapply rank_kid_live; [exact HK | eapply edge_kid; exact Hin]. }
    assert (Hinj : forall j1 j2 k, nth_error l j1 = Some k -> nth_error l j2 = Some k -> j1 = j2).
    { intros j1 j2 k H1 H2. destruct (Hpos _ _ H1) as [_ [_ [_ [_ [P1 _]]]]]. destruct (Hpos _ _ H2) as [_ [_ [_ [_ [P2 _]]]]].
      congruence. }
    assert (HnodupL : NoDup l).
    { apply NoDup_nth_error. intros i j Hi Eij. destruct (nth_error l i) as [k|] eqn:Ei.
      - eapply Hinj; [exact Ei | symmetry; exact Eij].
      - apply nth_error_None in Ei. lia. }
    set (cs := skipn (S ix) l).
    assert (Hcs : forall c, In c cs <-> exists j, ix < j /\ nth_error l j = Some c).
    { intros c. unfold cs. rewrite in_skipn_iff. split; intros [j [A B]]; exists j; split; try lia; exact B. }
    assert (Hcs_nodup : NoDup cs) by (apply NoDup_skipn; exact HnodupL).
    (* unfold the operation *)
    simpl in E. unfold op_replace_with in E. rewrite Hpa, Hpf in E. cbv beta iota in E.
    destruct (fdecl_of ct (c_cls (cellD s p)) f) as [dcl|]; [|simpl in E; discriminate].
    assert (Hrest : lift (fun _ : unit => RNone) s
          (let* (s2, _) := op_detach false (clear_parent s a) a in
           let* (s5, _) := Ok s2 tt in replace_child H ct s5 p a f (c_pi (cellD s a)) None) = (s', RNone) ->
          Inv2 H ct s').
    { clear E. intros E.
      destruct (op_detach false (clear_parent s a) a) as [s2 b|s2 e2|] eqn:Ed; unfold bind in E; cbv beta iota in E;
        [|simpl in E; discriminate|simpl in E; discriminate].
      rewrite Hpi, replace_child_none_seq in E.
      unfold op_detach in Ed. destruct (detach_spec _ _ _ _ _ _ Ed) as [D [C [R1 [[LA [LB LC]] _]]]].
      assert (R0 := det_clear s a).
      assert (R := det_trans _ _ _ _ _ _ _ R0 R1). simpl in R.
      assert (PF0 := dr_pf _ _ _ _ R0). assert (PF := dr_pf _ _ _ _ R).
      assert (LA' : forall d, In d D -> d = a \/ kid_of s D d).
      { intros d Hd. destruct (LA d Hd) as [[<-|[]]|Hk]; [left; reflexivity | right; exact (kid_of_pf _ _ _ _ PF0 Hk)]. }
      assert (LB' : forall d k, In d D -> In k (skids s d) -> In k C).
      { intros d k Hd Hk. eapply LB; [exact Hd|]. rewrite (pf_skids _ _ PF0). exact Hk. }
      assert (LC' : forall x, In x C -> kid_of s D x).
      { intros x Hx. destruct (LC x Hx) as [[]|Hk]. exact (kid_of_pf _ _ _ _ PF0 Hk). }
      (* siblings of a are not touched by the detach *)
      assert (Hsib : forall k, In k (skids s p) -> k <> a -> cellD s2 k = cellD s k).
      { intros k Hk Hka. apply (dr_same _ _ _ _ R). intros [Eq|Hc]; [congruence|].
        destruct (LC' k Hc) as [d [Hd Hkd]]. apply in_skids in Hkd. destruct Hkd as [f' [i' Hkd]].
        assert (Hdat := dr_att _ _ _ _ R d Hd).
        assert (Hld : live s d) by (apply attached_reg in Hdat; apply HR in Hdat; tauto).
        destruct (HL d Hld Hdat) as [Hcd _ _ _]. destruct (Hcd k f' i' Hkd) as [_ [Hpk' _]].
        apply in_skids in Hk. destruct Hk as [f0 [i0 Hk]]. destruct (Hcp k f0 i0 Hk) as [_ [Hpk _]].
        rewrite Hpk in Hpk'. inversion Hpk'; subst d.
        apply (D_not_above s D a p HK LA'); [|exact Hd].
        apply (proj2 HK). eapply edge_kid; exact Hedge. }
      assert (Hp2 : cellD s2 p = cellD s p).
      { apply (dr_same _ _ _ _ R).
        assert (Hap : ~ reach s a p) by (apply (proj2 HK); eapply edge_kid; exact Hedge).
        intros [Eq|Hc]; [subst p; apply Hap; apply reach_refl|].
        apply (C_not_above s D a p HK LA' Hap). apply LC'. exact Hc. }
      rewrite Hp2, Hassoc in E. cbv beta iota zeta in E.
      set (FS' := set_key f (FSeq (firstn ix l ++ skipn (S ix) l)) (c_fs (cellD s p))) in *.
      set (s1' := upd s2 p (with_fs FS')) in *. fold cs in E.
      destruct (shift_w p f s1' cs) as [s3 u|s3 e3|] eqn:Esh; unfold bind in E; cbv beta iota in E;
        [|simpl in E; discriminate|simpl in E; discriminate].
      assert (Hlen2 : List.length (heap s2) = List.length (heap s)) by exact (pf_len _ _ PF).
      assert (Hc1 : forall x, x <> p -> cellD s1' x = cellD s2 x).
      { intros x Hx. unfold s1'. rewrite cellD_upd. destruct (Nat.eqb p x) eqn:Ex; [|reflexivity].
        apply Nat.eqb_eq in Ex. congruence. }
      assert (Hp1 : cellD s1' p = with_fs FS' (cellD s p)).
      { unfold s1'. rewrite cellD_upd, Nat.eqb_refl. unfold live in Hlp. rewrite Hlen2.
        apply Nat.ltb_lt in Hlp. rewrite Hlp. simpl. rewrite Hp2. reflexivity. }
      assert (Hcs_lt : forall c, In c cs -> (c <> p /\ live s c) /\ c <> a /\ In c (skids s p)).
      { intros c Hc. apply Hcs in Hc. destruct Hc as [j [Hj Hn]]. destruct (Hpos _ _ Hn) as [Hin [_ [_ [_ [_ Hlt]]]]].
        split; [exact Hlt|]. split; [|eapply edge_kid; exact Hin].
        intros ->. assert (j = ix) by (eapply Hinj; eassumption). lia. }
      destruct (shift_spec p f cs s1' s3 u Hcs_nodup) as [PF13 [Hreg13 [Hsame13 Hsh13]]].
      { intros c Hc. destruct (Hcs_lt c Hc) as [[_ Hlt] _]. unfold live, s1' in *. rewrite heap_len_upd, Hlen2. exact Hlt. }
      { intros Hc. destruct (Hcs_lt p Hc) as [[Hlt _] _]. apply Hlt; reflexivity. }
      { exact Esh. }
      assert (Hidp : id_of s1' p = id_of s p) by (unfold id_of; rewrite Hp1; reflexivity).
      (* the shifted siblings *)
      assert (Hshift : forall c j, ix < j -> nth_error l j = Some c ->
                cellD s3 c = with_parent (Some (id_of s p)) (Some f) (Some (j - 1)) (cellD s c)).
      { intros c j Hj Hn. assert (Hc : In c cs) by (apply Hcs; eauto).
        destruct (Hcs_lt c Hc) as [Hlt [Hca Hck]]. destruct (Hsh13 c Hc) as [j' [Ej' Ec']].
        assert (Hcp1 : cellD s1' c = cellD s c) by (rewrite Hc1 by lia; apply Hsib; assumption).
        rewrite Hcp1 in Ej', Ec'. destruct (Hpos _ _ Hn) as [_ [_ [_ [_ [Pj _]]]]].
        rewrite Pj in Ej'. inversion Ej'; subst j'. rewrite Ec', Hidp. reflexivity. }
      assert (Hunshift : forall x, ~ In x cs -> x <> p -> cellD s3 x = cellD s2 x).
      { intros x Hx Hxp. rewrite (Hsame13 x Hx). apply Hc1; exact Hxp. }
      assert (Hp3 : cellD s3 p = with_fs FS' (cellD s p)).
      { rewrite Hsame13; [exact Hp1|]. intros Hc. destruct (Hcs_lt p Hc) as [Hlt _]. lia. }
      (* the new edges of p *)
      assert (Hnew : forall e, In e (skids_wf s3 p) <->
                ((In e (skids_wf s p) /\ snd (fst e) <> f) \/
                 exists k j, e = (k, f, Some j) /\ nth_error (firstn ix l ++ skipn (S ix) l) j = Some k)).
      { intros e. unfold skids_wf at 1. unfold kids_wf. rewrite Hp3. cbn [c_fs with_fs]. unfold FS'.
        rewrite (edges_set_seq _ _ _ _ Hnames Hassoc e). split; (intros [A|B]; [left; exact A | right]).
        - destruct (fkids_seq_shape _ _ _ B) as [k [j Ee]]. subst e. exists k, j. split; [reflexivity|].
          apply (proj1 (fkids_seq_in f _ k j)). exact B.
        - destruct B as [k [j [-> Hn]]]. apply (proj2 (fkids_seq_in f _ k j)). exact Hn. }
      assert (Hpi3 : forall x, c_pi (cellD s3 x) = c_pi (cellD s2 x) \/ (In x (skids s p) /\ x <> a)).
      { intros x. destruct (in_dec Nat.eq_dec x cs) as [Hc|Hc].
        - right. destruct (Hcs_lt x Hc) as [_ [A B]]. split; assumption.
        - left. destruct (Nat.eq_dec x p) as [->|Hxp]; [rewrite Hp3, Hp2; reflexivity|].
          rewrite (Hunshift x Hc Hxp). reflexivity. }
      assert (Hpi_at : forall j k, nth_error l j = Some k -> j <> ix ->
                c_pi (cellD s3 k) = Some (if Nat.ltb j ix then j else j - 1)).
      { intros j k Hn Hne. destruct (Hpos _ _ Hn) as [Hin [_ [_ [_ [Pj Hlt]]]]].
        destruct (Nat.ltb j ix) eqn:Elt.
        - apply Nat.ltb_lt in Elt.
          assert (Hnc : ~ In k cs).
          { intros Hc. apply Hcs in Hc. destruct Hc as [j2 [Hj2 Hn2]]. assert (j = j2) by (eapply Hinj; eassumption). lia. }
          rewrite (Hunshift k Hnc) by (apply Hlt).
          assert (Hka : k <> a) by (intros ->; assert (j = ix) by (eapply Hinj; eassumption); lia).
          rewrite (Hsib k (edge_kid _ _ _ _ _ Hin) Hka). exact Pj.
        - apply Nat.ltb_ge in Elt. rewrite (Hshift k j) by (try exact Hn; lia). reflexivity. }
      destruct (sinv_remove_gen H ct s a p s2 s3 D C HI Hla Haa Hpa R LA' LB' LC') as [HS3 [Hl3 [Ha3 HG3]]].
      + rewrite (pf_len _ _ PF13). unfold s1'. apply heap_len_upd.
      + intros i. rewrite Hreg13. unfold s1'. apply reg_get_upd.
      + intros x. destruct (in_dec Nat.eq_dec x cs) as [Hc|Hc].
        * apply Hcs in Hc. destruct Hc as [j [Hj Hn]]. destruct (Hpos _ _ Hn) as [Hin [_ [Hpx [Pf [_ Hlt]]]]].
          assert (Hxa : x <> a) by (intros ->; assert (j = ix) by (eapply Hinj; eassumption); lia).
          assert (Ex2 := Hsib x (edge_kid _ _ _ _ _ Hin) Hxa).
          destruct (parent_attached _ _ _ HR Hpx) as [_ Hpidx].
          unfold id_of. rewrite (Hshift x j Hj Hn), Ex2. simpl. rewrite Hpidx, Pf. repeat split; reflexivity.
        * destruct (Nat.eq_dec x p) as [->|Hxp].
          -- unfold id_of. rewrite Hp3, Hp2. repeat split; reflexivity.
          -- unfold id_of. rewrite (Hunshift x Hc Hxp). repeat split; reflexivity.
      + intros x Hxp. destruct (in_dec Nat.eq_dec x cs) as [Hc|Hc].
        * apply Hcs in Hc. destruct Hc as [j [Hj Hn]]. destruct (Hpos _ _ Hn) as [Hin _].
          assert (Hxa : x <> a) by (intros ->; assert (j = ix) by (eapply Hinj; eassumption); lia).
          rewrite (Hshift x j Hj Hn), (Hsib x (edge_kid _ _ _ _ _ Hin) Hxa). reflexivity.
        * rewrite (Hunshift x Hc Hxp). reflexivity.
      + exact Hpi3.
      + (* E1 *)
        intros k f' i' Hin. apply Hnew in Hin. destruct Hin as [[Hin Hne]|[k0 [j [Ee Hn]]]].
        * simpl in Hne. destruct (Hcp k f' i' Hin) as [_ [_ [Pf Pi]]].
          assert (Hka : k <> a) by (intros ->; congruence).
          split; [exact Hka|]. split; [eauto|].
          assert (Hnc : ~ In k cs).
          { intros Hc. apply Hcs in Hc. destruct Hc as [j2 [_ Hn2]]. destruct (Hpos _ _ Hn2) as [_ [_ [_ [Pf2 _]]]]. congruence. }
          assert (Hkp : k <> p) by (eapply reach_kid_ne; [exact HK | eapply edge_kid; exact Hin | apply reach_refl]).
          rewrite (Hunshift k Hnc Hkp), (Hsib k (edge_kid _ _ _ _ _ Hin) Hka). exact Pi.
        * inversion Ee; subst k0 f' i'. rewrite nth_error_remove in Hn.
          destruct (Nat.ltb j ix) eqn:Elt.
          -- apply Nat.ltb_lt in Elt. destruct (Hpos _ _ Hn) as [Hin _].
             split; [intros ->; assert (j = ix) by (eapply Hinj; eassumption); lia|]. split; [eauto|].
             rewrite (Hpi_at j k Hn) by lia. apply Nat.ltb_lt in Elt. rewrite Elt. reflexivity.
          -- apply Nat.ltb_ge in Elt. destruct (Hpos _ _ Hn) as [Hin _].
             split; [intros ->; assert (S j = ix) by (eapply Hinj; eassumption); lia|]. split; [eauto|].
             rewrite (Hpi_at (S j) k Hn) by lia.
             assert (Eb : Nat.ltb (S j) ix = false) by (apply Nat.ltb_ge; lia). rewrite Eb. f_equal. lia.
      + (* E3 *)
        intros k f' i0 Hin Hka. apply Hnew. destruct (pystr_eqb f' f) eqn:Ef.
        * apply pystr_eqb_eq in Ef. subst f'. right.
          assert (Hin' : In (k, f, i0) (fkids (f, FSeq l))).
          { eapply edges_field_seq; [exact Hnames | exact Hassoc | exact Hin | reflexivity]. }
          destruct (fkids_seq_shape _ _ _ Hin') as [k0 [j Ee]]. inversion Ee; subst k0 i0.
          apply fkids_seq_in in Hin'.
          assert (Hne : j <> ix) by (intros ->; congruence).
          rewrite (Hpi_at j k Hin' Hne). destruct (Nat.ltb j ix) eqn:Elt.
          -- exists k, j. split; [reflexivity|]. rewrite nth_error_remove, Elt. exact Hin'.
          -- apply Nat.ltb_ge in Elt. exists k, (j - 1). split; [reflexivity|]. rewrite nth_error_remove.
             assert (Eb : Nat.ltb (j - 1) ix = false) by (apply Nat.ltb_ge; lia). rewrite Eb.
             replace (S (j - 1)) with j by lia. exact Hin'.
        * apply pystr_eqb_neq in Ef. left. destruct (Hcp k f' i0 Hin) as [_ [_ [Pf Pi]]].
          assert (Hnc : ~ In k cs).
          { intros Hc. apply Hcs in Hc. destruct Hc as [j2 [_ Hn2]]. destruct (Hpos _ _ Hn2) as [_ [_ [_ [Pf2 _]]]]. congruence. }
          assert (Hkp : k <> p) by (eapply reach_kid_ne; [exact HK | eapply edge_kid; exact Hin | apply reach_refl]).
          rewrite (Hunshift k Hnc Hkp), (Hsib k (edge_kid _ _ _ _ _ Hin) Hka), Pi. split; [exact Hin | exact Ef].
      + destruct (reset_cid H ct (fuel_of s3) s3 p) as [s4 u4|s4 e4|] eqn:Er; simpl in E; [|inversion E|inversion E].
        assert (Es : s4 = s') by (inversion E; reflexivity). rewrite <- Es.
        destruct (reset_cid_repairs H ct _ _ _ _ _ HS3 Hl3 Ha3 HG3 Er) as [HS' [_ HC']].
        apply Inv2_split. split; assumption. }
    destruct (fd_kind dcl); simpl in E; try discriminate; apply Hrest; exact E.
  Qed.
End RemoveSeq.
