(* C18 round 2: the constructor.  push (a new unregistered parent-less cell), the content_id frame, set_cid. *)
From Oak Require Import Spec.LegacySpec Spec.LegacySpec2 Proofs.LegacyProofs Proofs.LegacyInv Proofs.LegacyHeap
  Proofs.LegacyAttach Proofs.LegacyAttach2 Proofs.LegacyAttach3.
From Coq Require Import List String Ascii ZArith Bool Arith Lia.
Import ListNotations.

(* ---------- push ---------- *)
Lemma cellD_push_ne s c b : b <> List.length (heap s) -> cellD (push s c) b = cellD s b.
Proof.
  intros Hne. destruct (Nat.lt_ge_cases b (List.length (heap s))) as [Hl|Hl]; [apply cellD_push; exact Hl|].
  unfold cellD, push; simpl. rewrite !nth_overflow; [reflexivity | lia | rewrite app_length; simpl; lia].
Qed.
Lemma cellD_push_eq s c : cellD (push s c) (List.length (heap s)) = c.
Proof. unfold cellD, push; simpl. rewrite app_nth2 by lia. rewrite Nat.sub_diag. reflexivity. Qed.
Lemma heap_len_push s c : List.length (heap (push s c)) = S (List.length (heap s)).
Proof. unfold push; simpl. rewrite app_length; simpl. lia. Qed.
Lemma set_nth_app_len {A} (l : list A) c x : set_nth (List.length l) x (l ++ [c]) = l ++ [x].
Proof. induction l; simpl; [reflexivity | rewrite IHl; reflexivity]. Qed.
Lemma upd_push s c f : upd (push s c) (List.length (heap s)) f = push s (f c).
Proof.
  unfold upd, cell_at, push; simpl.
  rewrite nth_error_app2 by lia. rewrite Nat.sub_diag. simpl. rewrite set_nth_app_len. reflexivity.
Qed.

Lemma rank_push s c : Rank s -> (forall k, In k (kids c) -> k < List.length (heap s)) -> Rank (push s c).
Proof.
  intros HK Hkids. set (n := List.length (heap s)).
  assert (Hsk : forall b, b <> n -> skids (push s c) b = skids s b).
  { intros b Hb. unfold skids. rewrite cellD_push_ne by exact Hb. reflexivity. }
  assert (Hskn : skids (push s c) n = kids c) by (unfold skids; unfold n; rewrite cellD_push_eq; reflexivity).
  (* from an old node only old nodes are reached, along old edges *)
  assert (Hback : forall a d, reach (push s c) a d -> live s a -> reach s a d).
  { intros a d Hr. induction Hr as [a|a k d Hk Hr IH]; intros Hl; [apply reach_refl|].
    rewrite Hsk in Hk by (unfold live in Hl; fold n in Hl; lia).
    eapply reach_step; [exact Hk|]. apply IH. eapply rank_kid_live; eassumption. }
  split.
  - intros a k Hk. unfold live. rewrite heap_len_push. destruct (Nat.eq_dec a n) as [->|Ha].
    + rewrite Hskn in Hk. apply Hkids in Hk. lia.
    + rewrite (Hsk a Ha) in Hk. apply (rank_kid_live _ _ _ HK) in Hk. unfold live in Hk. lia.
  - intros a k Hk Hr. destruct (Nat.eq_dec a n) as [->|Ha].
    + rewrite Hskn in Hk. apply Hkids in Hk. apply Hback in Hr; [|exact Hk].
      apply (reach_live _ _ _ HK Hk) in Hr. unfold live in Hr. fold n in Hr. lia.
    + rewrite (Hsk a Ha) in Hk. apply (rank_acyc _ _ _ HK Hk). apply Hback; [exact Hr|].
      eapply rank_kid_live; eassumption.
Qed.

Section Push.
  Variable H : pystr -> pystr.
  Variable ct : ctable.

  Lemma inv2_push s c :
    Inv2 H ct s -> c_pid c = None -> (forall k, In k (kids c) -> k < List.length (heap s)) -> Inv2 H ct (push s c).
  Proof.
    intros [HR [HK [HP HL]]] Hpid Hkids.
    set (n := List.length (heap s)). set (s' := push s c).
    assert (Hne : forall b, b <> n -> cellD s' b = cellD s b) by (intros; apply cellD_push_ne; assumption).
    assert (Heq : cellD s' n = c) by apply cellD_push_eq.
    assert (Hreg : forall i, reg_get s' i = reg_get s i) by reflexivity.
    assert (Hregn : forall i x, reg_get s i = Some x -> x <> n).
    { intros i x Hx. apply HR in Hx. destruct Hx as [Hl _]. unfold live in Hl. unfold n. lia. }
    assert (Hdet : forall b, b <> n -> detached s' b = detached s b).
    { intros b Hb. unfold detached, id_of. rewrite Hreg, (Hne b Hb). reflexivity. }
    assert (Hdetn : detached s' n = true).
    { unfold detached. rewrite Hreg. destruct (reg_get s (id_of s' n)) as [x|] eqn:E; [|reflexivity].
      apply Hregn in E. apply negb_true_iff. apply Nat.eqb_neq. exact E. }
    assert (Hpar : forall b, b <> n -> parent s' b = parent s b).
    { intros b Hb. unfold parent. rewrite (Hne b Hb). destruct (c_pid (cellD s b)); [apply Hreg | reflexivity]. }
    assert (Hskw : forall b, b <> n -> skids_wf s' b = skids_wf s b).
    { intros b Hb. unfold skids_wf. rewrite (Hne b Hb). reflexivity. }
    assert (Hsk : forall b, b <> n -> skids s' b = skids s b).
    { intros b Hb. unfold skids. rewrite (Hne b Hb). reflexivity. }
    split; [|split; [|split]].
    - intros i x Hx. rewrite Hreg in Hx. assert (Hxn := Hregn _ _ Hx). destruct (HR _ _ Hx) as [Hl Hi].
      split; [unfold live in *; unfold s'; rewrite heap_len_push; lia|].
      unfold id_of. rewrite (Hne x Hxn). exact Hi.
    - apply rank_push; assumption.
    - intros b Hb. destruct (Nat.eq_dec b n) as [->|Hbn]; [rewrite Heq in Hb; congruence|].
      rewrite (Hne b Hbn) in Hb. destruct (HP b Hb) as [A B].
      unfold attached. rewrite (Hdet b Hbn), (Hpar b Hbn). split; assumption.
    - intros b Hlb Hab. destruct (Nat.eq_dec b n) as [->|Hbn]; [unfold attached in Hab; congruence|].
      assert (Hlb0 : live s b).
      { unfold live in *. unfold s' in Hlb. rewrite heap_len_push in Hlb. fold n in Hlb |- *. lia. }
      assert (Hab0 : attached s b) by (unfold attached in *; rewrite <- (Hdet b Hbn); exact Hab).
      destruct (HL b Hlb0 Hab0) as [Hc Hs Hl Hcid]. constructor.
      + intros k f i Hin. rewrite (Hskw b Hbn) in Hin. destruct (Hc k f i Hin) as [A [B [C Dd]]].
        assert (Hkn : k <> n).
        { assert (Hk : In k (skids s b)) by (apply in_skids; eauto). apply (rank_kid_live _ _ _ HK) in Hk. unfold live in Hk. fold n in Hk. lia. }
        unfold attached. rewrite (Hdet k Hkn), (Hpar k Hkn), (Hne k Hkn). auto.
      + intros p Hp. rewrite (Hpar b Hbn) in Hp. destruct (Hs p Hp) as [f [Hf Hin]].
        assert (Hpn : p <> n).
        { unfold parent in Hp. destruct (c_pid (cellD s b)); [|discriminate]. eapply Hregn; eassumption. }
        exists f. rewrite (Hne b Hbn), (Hskw p Hpn). split; assumption.
      + unfold id_of. rewrite (Hne b Hbn), Hreg. exact Hl.
      + rewrite (Hne b Hbn), Hcid. symmetry. unfold live in Hlb0. fold n in Hlb0.
        apply tree_cid_reach_local.
        * exact HK.
        * intros y Hy. apply (reach_live _ _ _ HK Hlb0) in Hy. unfold live in Hy. fold n in Hy. rewrite Hne by lia. split; reflexivity.
        * unfold fuel_of, s'. rewrite heap_len_push. fold n. lia.
        * unfold fuel_of. fold n. lia.
  Qed.
End Push.

(* ---------- the content_id frame: two states that differ only in cached content_ids, original_id and
   id_collision_with (nothing the invariant reads besides the digest) ---------- *)
Definition cframe (s s' : st) : Prop :=
  reg s' = reg s /\ List.length (heap s') = List.length (heap s) /\
  forall b, exists x o k xp, cellD s' b = with_xp xp (with_cid x (with_ids (c_id (cellD s b)) o k (cellD s b))).

Lemma cframe_upd s a x : cframe s (upd s a (with_cid x)).
Proof.
  split; [apply reg_upd|]. split; [apply heap_len_upd|]. intros b. rewrite cellD_upd.
  destruct (Nat.eqb a b && Nat.ltb a (List.length (heap s))).
  - exists x, (c_oid (cellD s b)), (c_coll (cellD s b)), (c_xp (cellD s b)). destruct (cellD s b); reflexivity.
  - exists (c_cid (cellD s b)), (c_oid (cellD s b)), (c_coll (cellD s b)), (c_xp (cellD s b)). destruct (cellD s b); reflexivity.
Qed.
Lemma cframe_upd_ids s a o k : cframe s (upd s a (fun c => with_ids (c_id c) o k c)).
Proof.
  split; [apply reg_upd|]. split; [apply heap_len_upd|]. intros b. rewrite cellD_upd.
  destruct (Nat.eqb a b && Nat.ltb a (List.length (heap s))).
  - exists (c_cid (cellD s b)), o, k, (c_xp (cellD s b)). destruct (cellD s b); reflexivity.
  - exists (c_cid (cellD s b)), (c_oid (cellD s b)), (c_coll (cellD s b)), (c_xp (cellD s b)). destruct (cellD s b); reflexivity.
Qed.
Lemma cframe_refl s : cframe s s.
Proof.
  split; [reflexivity|]. split; [reflexivity|]. intros b.
  exists (c_cid (cellD s b)), (c_oid (cellD s b)), (c_coll (cellD s b)), (c_xp (cellD s b)). destruct (cellD s b); reflexivity.
Qed.
Lemma cframe_upd_xp s a xp : cframe s (upd s a (with_xp xp)).
Proof.
  split; [apply reg_upd|]. split; [apply heap_len_upd|]. intros b. rewrite cellD_upd.
  destruct (Nat.eqb a b && Nat.ltb a (List.length (heap s))).
  - exists (c_cid (cellD s b)), (c_oid (cellD s b)), (c_coll (cellD s b)), xp. destruct (cellD s b); reflexivity.
  - exists (c_cid (cellD s b)), (c_oid (cellD s b)), (c_coll (cellD s b)), (c_xp (cellD s b)). destruct (cellD s b); reflexivity.
Qed.
Lemma cframe_trans s1 s2 s3 : cframe s1 s2 -> cframe s2 s3 -> cframe s1 s3.
Proof.
  intros [R1 [L1 C1]] [R2 [L2 C2]]. split; [congruence|]. split; [congruence|]. intros b.
  destruct (C1 b) as [x1 [o1 [k1 [p1 E1]]]]. destruct (C2 b) as [x2 [o2 [k2 [p2 E2]]]].
  exists x2, o2, k2, p2. rewrite E2, E1. reflexivity.
Qed.

Section CFrame.
  Variables s s' : st.
  Hypothesis CF : cframe s s'.
  Lemma cf_reg i : reg_get s' i = reg_get s i.
  Proof. unfold reg_get. rewrite (proj1 CF). reflexivity. Qed.
  Lemma cf_live a : live s' a <-> live s a.
  Proof. unfold live. rewrite (proj1 (proj2 CF)). tauto. Qed.
  Lemma cf_fuel : fuel_of s' = fuel_of s.
  Proof. unfold fuel_of. rewrite (proj1 (proj2 CF)). reflexivity. Qed.
  Lemma cf_id b : id_of s' b = id_of s b.
  Proof. unfold id_of. destruct (proj2 (proj2 CF) b) as [x [o [k [xp E]]]]. rewrite E. reflexivity. Qed.
  Lemma cf_fs b : c_fs (cellD s' b) = c_fs (cellD s b).
  Proof. destruct (proj2 (proj2 CF) b) as [x [o [k [xp E]]]]. rewrite E. reflexivity. Qed.
  Lemma cf_cls b : c_cls (cellD s' b) = c_cls (cellD s b).
  Proof. destruct (proj2 (proj2 CF) b) as [x [o [k [xp E]]]]. rewrite E. reflexivity. Qed.
  Lemma cf_pid b : c_pid (cellD s' b) = c_pid (cellD s b).
  Proof. destruct (proj2 (proj2 CF) b) as [x [o [k [xp E]]]]. rewrite E. reflexivity. Qed.
  Lemma cf_pf b : c_pf (cellD s' b) = c_pf (cellD s b).
  Proof. destruct (proj2 (proj2 CF) b) as [x [o [k [xp E]]]]. rewrite E. reflexivity. Qed.
  Lemma cf_pi b : c_pi (cellD s' b) = c_pi (cellD s b).
  Proof. destruct (proj2 (proj2 CF) b) as [x [o [k [xp E]]]]. rewrite E. reflexivity. Qed.
  Lemma cf_detached b : detached s' b = detached s b.
  Proof. unfold detached. rewrite cf_reg, cf_id. reflexivity. Qed.
  Lemma cf_parent b : parent s' b = parent s b.
  Proof. unfold parent. rewrite cf_pid. destruct (c_pid (cellD s b)); [apply cf_reg | reflexivity]. Qed.
  Lemma cf_skids_wf b : skids_wf s' b = skids_wf s b.
  Proof. unfold skids_wf, kids_wf. rewrite cf_fs. reflexivity. Qed.
  Lemma cf_skids b : skids s' b = skids s b.
  Proof. unfold skids, kids, kids_wf. rewrite cf_fs. reflexivity. Qed.

  Lemma sinv_cframe : SInv s -> SInv s'.
  Proof.
    intros [HR [HK [HP HL]]]. split; [|split; [|split]].
    - intros i x Hx. rewrite cf_reg in Hx. destruct (HR _ _ Hx) as [A B].
      split; [apply cf_live; exact A | rewrite cf_id; exact B].
    - eapply rank_same_kids; [exact (proj1 (proj2 CF)) | exact cf_skids | exact HK].
    - intros b Hb. rewrite cf_pid in Hb. destruct (HP b Hb) as [A B].
      unfold attached. rewrite cf_detached, cf_parent. split; assumption.
    - intros b Hl Ha. apply cf_live in Hl. unfold attached in Ha. rewrite cf_detached in Ha.
      destruct (HL b Hl Ha) as [A [B C]]. split; [|split].
      + intros k f i Hin. rewrite cf_skids_wf in Hin. destruct (A k f i Hin) as [A1 [A2 [A3 A4]]].
        unfold attached. rewrite cf_detached, cf_parent, cf_pf, cf_pi. auto.
      + intros p Hp. rewrite cf_parent in Hp. destruct (B p Hp) as [f [Hf Hin]].
        exists f. rewrite cf_pf, cf_pi, cf_skids_wf. split; assumption.
      + rewrite cf_reg, cf_id. exact C.
  Qed.
End CFrame.

Section SetCid.
  Variable H : pystr -> pystr.
  Variable ct : ctable.

  Lemma tree_cid_cframe s s' a : cframe s s' -> tree_cid H ct (fuel_of s') s' a = tree_cid H ct (fuel_of s) s a.
  Proof.
    intros CF. rewrite (cf_fuel _ _ CF). apply tree_cid_skel. intros b.
    split; [apply (cf_cls _ _ CF) | apply (cf_fs _ _ CF)].
  Qed.

  Lemma cellD_set_cid_ne s a b : b <> a -> cellD (set_cid H ct s a) b = cellD s b.
  Proof.
    intros Hne. unfold set_cid. rewrite cellD_upd. destruct (Nat.eqb a b) eqn:E; [|reflexivity].
    apply Nat.eqb_eq in E. congruence.
  Qed.
  Lemma cid_ok_set_cid_ne s a b : b <> a -> cid_ok H ct s b -> cid_ok H ct (set_cid H ct s a) b.
  Proof.
    intros Hne E. unfold cid_ok in *. rewrite (cellD_set_cid_ne s a b Hne), E. symmetry.
    apply tree_cid_cframe. apply cframe_upd.
  Qed.
  (* the node whose digest is recomputed: right when its children's are *)
  Lemma cid_ok_set_cid s a :
    Rank s -> live s a -> (forall k, In k (skids s a) -> cid_ok H ct s k) -> cid_ok H ct (set_cid H ct s a) a.
  Proof.
    intros HK Hl Hkids. unfold cid_ok.
    assert (CF : cframe s (set_cid H ct s a)) by apply cframe_upd.
    rewrite (tree_cid_cframe _ _ a CF), (tree_cid_unfold H ct s a HK).
    unfold set_cid. rewrite cellD_upd, Nat.eqb_refl. apply Nat.ltb_lt in Hl. rewrite Hl. simpl.
    unfold cid_data. f_equal. f_equal. f_equal. apply kid_data_ext. intros k Hk. apply Hkids. exact Hk.
  Qed.
End SetCid.
