(* Proofs for C16: the slots are back at their defaults after every call, whatever the run does;
   every nested mapping of a call's output has the shape its options dictate. *)
From Oak Require Import Model.SerOpts Model.Serial Proofs.AccessProofs.
From Coq Require Import Sorted Permutation.

(* ================= part 1: set / run / clear ================= *)
Lemma od_update_empty o : od_update od_empty o = o.
Proof. destruct o as [a b c d]; destruct a, b, c, d; reflexivity. Qed.

Lemma call_resets {A} dir given md (run : slots -> outcome A) s :
  fst (call current_w dir given md run s) = slots0.
Proof. unfold call. destruct dir; simpl; destruct (run _); reflexivity. Qed.

Lemma call_decoded_resets {A} dec given md (run : slots -> outcome A) :
  fst (call_decoded current_w dec given md run slots0) = slots0.
Proof. unfold call_decoded. destruct dec; [apply call_resets|reflexivity]. Qed.

(* a history of calls; the run of each call is ANY function of the slots it sees (so: any output, any
   failure point, any dependence on the options) *)
Record acall := { ac_dir : direction; ac_decodable : bool; ac_given : option optdict; ac_md : option mdialect;
                  ac_run : slots -> outcome sval }.
Definition exec1 (w : wrapper) (s : slots) (c : acall) : slots * outcome sval :=
  match ac_dir c with
  | DirSer => call w DirSer (ac_given c) (ac_md c) (ac_run c) s
  | DirDeser => call_decoded w (ac_decodable c) (ac_given c) (ac_md c) (ac_run c) s
  end.
Fixpoint exec (w : wrapper) (s : slots) (cs : list acall) : slots * list (outcome sval) :=
  match cs with
  | [] => (s, [])
  | c :: r => let '(s1, o) := exec1 w s c in let '(s2, os) := exec w s1 r in (s2, o :: os)
  end.

Lemma exec1_resets c : fst (exec1 current_w slots0 c) = slots0.
Proof. unfold exec1. destruct (ac_dir c); [apply call_resets|apply call_decoded_resets]. Qed.

Lemma exec_resets cs : fst (exec current_w slots0 cs) = slots0.
Proof.
  induction cs as [|c r IH]; simpl; auto.
  pose proof (exec1_resets c) as E. destruct (exec1 current_w slots0 c) as [s1 o]. simpl in E. subst s1.
  destruct (exec current_w slots0 r) as [s2 os]. exact IH.
Qed.

Theorem later_default cs c :
  snd (exec1 current_w (fst (exec current_w slots0 cs)) c) = snd (exec1 current_w slots0 c).
Proof. rewrite exec_resets. reflexivity. Qed.

(* what the run of a call sees: exactly the call's own options and dialect *)
Definition own_slots (c : acall) : slots :=
  {| sl_opts := match ac_given c with Some o => o | None => od_empty end; sl_md := ac_md c |}.
Theorem whole_call cs c :
  (ac_dir c = DirSer \/ ac_decodable c = true) ->
  snd (exec1 current_w (fst (exec current_w slots0 cs)) c) = ac_run c (own_slots c).
Proof.
  intros Hd. rewrite exec_resets. unfold exec1, own_slots.
  assert (E : set_slots slots0 (ac_given c) (ac_md c)
              = {| sl_opts := match ac_given c with Some o => o | None => od_empty end; sl_md := ac_md c |}).
  { unfold set_slots. destruct (ac_given c); simpl; [rewrite od_update_empty|]; reflexivity. }
  destruct (ac_dir c) eqn:Ed.
  - unfold call. rewrite E. destruct (ac_run c _); reflexivity.
  - destruct Hd as [Hd|Hd]; [discriminate|]. unfold call_decoded. rewrite Hd. unfold call. rewrite E.
    destruct (ac_run c _); reflexivity.
Qed.

(* the calibration mutants, refuted on a two-call history *)
Definition sort_opts : optdict := {| od_skip := None; od_sort := Some true; od_dial := None; od_sidx := None |}.
Definition probe_run (s : slots) : outcome sval :=                     (* output depends on the options seen *)
  Return (JMap (base_post s (lit "A") [(lit "b", JInt 1%Z); (lit "a", JInt 2%Z)])).
Definition raising_call : acall :=
  {| ac_dir := DirSer; ac_decodable := true; ac_given := Some sort_opts; ac_md := None; ac_run := fun _ => Raise |}.
Definition deser_call : acall :=
  {| ac_dir := DirDeser; ac_decodable := true; ac_given := Some sort_opts; ac_md := Some MOrjson; ac_run := fun _ => Return JNull |}.
Definition default_call : acall :=
  {| ac_dir := DirSer; ac_decodable := true; ac_given := None; ac_md := None; ac_run := probe_run |}.

Lemma refuted_no_finally :
  let w := {| w_finally := false; w_clear_deser := true |} in
  snd (exec1 w (fst (exec w slots0 [raising_call])) default_call) <> snd (exec1 w slots0 default_call).
Proof. vm_compute. discriminate. Qed.
Lemma refuted_not_cleared_on_deser :
  let w := {| w_finally := true; w_clear_deser := false |} in
  snd (exec1 w (fst (exec w slots0 [deser_call])) default_call) <> snd (exec1 w slots0 default_call).
Proof. vm_compute. discriminate. Qed.

(* ================= part 2: shapes ================= *)
Lemma pystr_leb_trans a : forall b c, pystr_leb a b = true -> pystr_leb b c = true -> pystr_leb a c = true.
Proof.
  induction a as [|x a IH]; intros [|y b] [|z c]; simpl; try discriminate; auto.
  destruct (Nat.ltb_spec (nat_of_ascii x) (nat_of_ascii y)), (Nat.ltb_spec (nat_of_ascii y) (nat_of_ascii x)),
           (Nat.ltb_spec (nat_of_ascii y) (nat_of_ascii z)), (Nat.ltb_spec (nat_of_ascii z) (nat_of_ascii y)),
           (Nat.ltb_spec (nat_of_ascii x) (nat_of_ascii z)), (Nat.ltb_spec (nat_of_ascii z) (nat_of_ascii x));
    try discriminate; try lia; auto.
  intros. eapply IH; eauto.
Qed.

Lemma sorted_keys_cons x l : sorted_keys (x :: l) = true -> sorted_keys l = true.
Proof. destruct l; simpl; auto. intros E. apply andb_prop in E. tauto. Qed.
Lemma sorted_keys_head x l : sorted_keys (x :: l) = true -> forall y, In y l -> pystr_leb x y = true.
Proof.
  revert x. induction l as [|z l IH]; intros x Hs y []; subst.
  - simpl in Hs. apply andb_prop in Hs. tauto.
  - simpl in Hs. apply andb_prop in Hs as [Hxz Hs]. eapply pystr_leb_trans; [exact Hxz|]. eapply IH; eauto.
Qed.
Lemma sorted_keys_intro x l : sorted_keys l = true -> (forall y, In y l -> pystr_leb x y = true) -> sorted_keys (x :: l) = true.
Proof. destruct l as [|z l]; auto. intros Hs Hh. simpl. rewrite (Hh z) by (left; auto). exact Hs. Qed.

Lemma sorted_filter (p : pystr * sval -> bool) l :
  sorted_keys (map fst l) = true -> sorted_keys (map fst (filter p l)) = true.
Proof.
  induction l as [|[k v] l IH]; simpl; auto. intros Hs.
  pose proof (sorted_keys_cons _ _ Hs) as Hs'. destruct (p (k, v)); auto.
  cbn [map fst]. apply sorted_keys_intro; auto.
  intros y Hy. eapply sorted_keys_head; eauto.
  apply in_map_iff in Hy as [[k' v'] [<- Hi]]. apply filter_In in Hi as [Hi _].
  apply in_map_iff. exists (k', v'). auto.
Qed.

Lemma ls_sorted_keys l : LocallySorted (fun a b => key_leb a b = true) l -> sorted_keys (map fst l) = true.
Proof.
  induction 1 as [|[k v]|[k v] [k' v'] l Hs IH Hk]; simpl; auto.
  unfold key_leb in Hk. simpl in Hk. rewrite Hk. exact IH.
Qed.
Lemma sort_items_sorted d : sorted_keys (map fst (sort_items d)) = true.
Proof.
  apply ls_sorted_keys. apply isort_sorted. intros a b. unfold key_leb. apply pystr_leb_total.
Qed.
Lemma sort_items_perm d : Permutation d (sort_items d).
Proof. apply isort_perm. Qed.

(* keys of jset / jpop *)
Lemma jset_keys_in k v m : In k (map fst m) -> map fst (jset k v m) = map fst m.
Proof.
  induction m as [|[k' v'] m IH]; simpl; [tauto|]. intros Hin.
  destruct (pystr_eqb_spec k' k); simpl; auto. f_equal. apply IH. destruct Hin; congruence.
Qed.
Lemma jset_values k v m x : In x (jset k v m) -> In x m \/ x = (k, v) \/ (exists k', x = (k', v) /\ k' = k).
Proof.
  induction m as [|[k' v'] m IH]; simpl.
  - intros [<-|[]]; auto.
  - destruct (pystr_eqb_spec k' k); simpl; intros [<-|Hi]; auto.
    + subst. auto.
    + destruct (IH Hi) as [?|[?|?]]; auto.
Qed.
Lemma jget_in k m v : jget k m = Some v -> In (k, v) m.
Proof.
  induction m as [|[k' v'] m IH]; simpl; [discriminate|].
  destruct (pystr_eqb_spec k' k); [intros [= <-]; subst; auto|auto].
Qed.
Lemma jget_key k m v : jget k m = Some v -> In k (map fst m).
Proof. intros E. apply jget_in in E. apply in_map_iff. exists (k, v). auto. Qed.

(* ---------- the three shapes as closure conditions ---------- *)
Record shape (s : slots) (P : list (pystr * sval) -> Prop) : Prop := {
  sh_empty : P [];
  sh_idx : forall i, P [(lit "idx", JInt i)];
  sh_base : forall cls d, ~ In type_key (map fst d) -> P (base_post s cls d);
  sh_pop : forall m, P m -> P (jpop (lit "_raw") m);
  sh_set : is_test s = true -> forall k v m, In k (map fst m) -> P m -> P (jset k v m);
  sh_single : is_test s = true -> forall v, P [(lit "source", v)];
  sh_stub : is_test s = true -> all_maps P (test_stub true s) }.

Lemma tfs_tag_then_sorted cls l : sorted_keys (map fst l) = true -> tag_first_sorted ((type_key, JStr cls) :: l) = true.
Proof. intros. unfold tag_first_sorted. rewrite pystr_eqb_refl. auto. Qed.

Lemma tfs_of_sorted m : sorted_keys (map fst m) = true -> tag_first_sorted m = true.
Proof.
  destruct m as [|[k v] m]; auto. intros E. unfold tag_first_sorted.
  destruct (pystr_eqb k type_key); auto. simpl in E. apply sorted_keys_cons in E. exact E.
Qed.
Lemma tfs_filter p m : tag_first_sorted m = true -> tag_first_sorted (filter p m) = true.
Proof.
  destruct m as [|[k v] m]; auto. unfold tag_first_sorted at 1.
  destruct (pystr_eqb_spec k type_key) as [->|Hk]; intros Hs.
  - cbn [filter]. destruct (p (type_key, v)).
    + unfold tag_first_sorted. rewrite pystr_eqb_refl. apply sorted_filter. exact Hs.
    + apply tfs_of_sorted. apply sorted_filter. exact Hs.
  - apply tfs_of_sorted. apply sorted_filter. exact Hs.
Qed.

Lemma tfs_same_keys m m' : map fst m = map fst m' -> tag_first_sorted m = true -> tag_first_sorted m' = true.
Proof.
  destruct m as [|[k v] m], m' as [|[k' v'] m']; simpl; try discriminate; auto.
  intros [= -> E]. rewrite E. auto.
Qed.

Lemma stub_shape_sorted s : get_sort s = true -> all_maps (fun m => tag_first_sorted m = true) (test_stub true s).
Proof.
  intros _. unfold test_stub. destruct (get_skip s); constructor; try reflexivity; repeat constructor.
Qed.

Lemma shape_sorted s : get_sort s = true -> shape s (fun m => tag_first_sorted m = true).
Proof.
  intros Hs. constructor.
  - reflexivity.
  - reflexivity.
  - intros cls d _. unfold base_post. rewrite Hs. destruct (get_skip s); simpl.
    + pose proof (sort_items_sorted d) as E. destruct (sort_items d) as [|[k v] l]; auto.
      cbn [tag_first_sorted]. destruct (pystr_eqb k type_key); auto. simpl in E. apply sorted_keys_cons in E. exact E.
    + rewrite pystr_eqb_refl. apply sort_items_sorted.
  - intros m. apply tfs_filter.
  - intros _ k v m Hin. apply tfs_same_keys. symmetry. apply jset_keys_in. exact Hin.
  - reflexivity.
  - intros _. apply stub_shape_sorted. exact Hs.
Qed.

Lemma has_tag_in m : has_tag m = true <-> In type_key (map fst m).
Proof.
  unfold has_tag. rewrite existsb_exists. split.
  - intros [[k v] [Hi E]]. simpl in E. apply pystr_eqb_eq in E. subst. apply in_map_iff. exists (type_key, v). auto.
  - intros Hi. apply in_map_iff in Hi as [[k v] [E Hi]]. simpl in E. subst. exists (type_key, v). split; auto.
    simpl. apply pystr_eqb_refl.
Qed.
Lemma no_tag_iff m : no_tag m = true <-> ~ In type_key (map fst m).
Proof.
  unfold no_tag. rewrite <- has_tag_in. destruct (has_tag m); simpl; split; intros; try discriminate; auto.
  exfalso; auto.
Qed.

Lemma shape_no_tag s : get_skip s = true -> shape s (fun m => no_tag m = true).
Proof.
  intros Hs. constructor.
  - reflexivity.
  - reflexivity.
  - intros cls d Hd. apply no_tag_iff. unfold base_post. rewrite Hs. simpl.
    destruct (get_sort s); auto. intros Hi. apply Hd.
    apply in_map_iff in Hi as [x [E Hi]]. apply in_map_iff. exists x. split; auto.
    eapply Permutation_in; [apply Permutation_sym, sort_items_perm|exact Hi].
  - intros m Hm. apply no_tag_iff. apply no_tag_iff in Hm. intros Hi. apply Hm.
    apply in_map_iff in Hi as [x [E Hi]]. apply filter_In in Hi as [Hi _]. apply in_map_iff. exists x. auto.
  - intros _ k v m Hin Hm. apply no_tag_iff. apply no_tag_iff in Hm. rewrite jset_keys_in; auto.
  - intros _ v. reflexivity.
  - intros _. unfold test_stub. rewrite Hs. constructor; [reflexivity|repeat constructor].
Qed.

Lemma top_filter_raw m : tagged_or_placeholder m = true -> tagged_or_placeholder (jpop (lit "_raw") m) = true.
Proof.
  destruct m as [|[k v] m]; auto. unfold tagged_or_placeholder at 1.
  intros E. apply orb_prop in E as [E|E].
  - apply pystr_eqb_eq in E. subst. unfold jpop. simpl. reflexivity.
  - unfold is_idx_ref in E. destruct v; try discriminate. destruct m; try discriminate.
    apply pystr_eqb_eq in E. subst. reflexivity.
Qed.
(* the default shape: no skip, no test dialect *)
Definition is_default_tagging (s : slots) : Prop := get_skip s = false /\ is_test s = false.
