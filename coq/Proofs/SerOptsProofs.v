(* Proofs for C16: the slots are back at their defaults after every call, whatever the run does;
   every nested mapping of a call's output has the shape its options dictate. *)
From Oak Require Import Model.SerOpts Model.Serial Proofs.AccessProofs.
From Coq Require Import Sorted Permutation.

(* ================= part 1: set / run / clear ================= *)
Lemma od_update_empty o : od_update od_empty o = o.
Proof. destruct o as [a b c d]; destruct a, b, c, d; reflexivity. Qed.

Lemma call_resets {A} dir given md (run : slots -> outcome A) s :
  fst (call current_w dir given md run s) = slots0.
Proof. unfold call. destruct dir; simpl; destruct (run _); reflexivity. Qed.

Lemma call_decoded_resets {A} dec given md (run : slots -> outcome A) :
  fst (call_decoded current_w dec given md run slots0) = slots0.
Proof. unfold call_decoded. destruct dec; [apply call_resets|reflexivity]. Qed.

(* a history of calls; the run of each call is ANY function of the slots it sees (so: any output, any
   failure point, any dependence on the options) *)
Record acall := { ac_dir : direction; ac_decodable : bool; ac_given : option optdict; ac_md : option mdialect;
                  ac_run : slots -> outcome sval }.
Definition exec1 (w : wrapper) (s : slots) (c : acall) : slots * outcome sval :=
  match ac_dir c with
  | DirSer => call w DirSer (ac_given c) (ac_md c) (ac_run c) s
  | DirDeser => call_decoded w (ac_decodable c) (ac_given c) (ac_md c) (ac_run c) s
  end.
Fixpoint exec (w : wrapper) (s : slots) (cs : list acall) : slots * list (outcome sval) :=
  match cs with
  | [] => (s, [])
  | c :: r => let '(s1, o) := exec1 w s c in let '(s2, os) := exec w s1 r in (s2, o :: os)
  end.

Lemma exec1_resets c : fst (exec1 current_w slots0 c) = slots0.
Proof. unfold exec1. destruct (ac_dir c); [apply call_resets|apply call_decoded_resets]. Qed.

Lemma exec_resets cs : fst (exec current_w slots0 cs) = slots0.
Proof.
  induction cs as [|c r IH]; simpl; auto.
  pose proof (exec1_resets c) as E. destruct (exec1 current_w slots0 c) as [s1 o]. simpl in E. subst s1.
  destruct (exec current_w slots0 r) as [s2 os]. exact IH.
Qed.

Theorem later_default cs c :
  snd (exec1 current_w (fst (exec current_w slots0 cs)) c) = snd (exec1 current_w slots0 c).
Proof. rewrite exec_resets. reflexivity. Qed.

(* what the run of a call sees: exactly the call's own options and dialect *)
Definition own_slots (c : acall) : slots :=
  {| sl_opts := match ac_given c with Some o => o | None => od_empty end; sl_md := ac_md c |}.
Theorem whole_call cs c :
  (ac_dir c = DirSer \/ ac_decodable c = true) ->
  snd (exec1 current_w (fst (exec current_w slots0 cs)) c) = ac_run c (own_slots c).
Proof.
  intros Hd. rewrite exec_resets. unfold exec1, own_slots.
  assert (E : set_slots slots0 (ac_given c) (ac_md c)
              = {| sl_opts := match ac_given c with Some o => o | None => od_empty end; sl_md := ac_md c |}).
  { unfold set_slots. destruct (ac_given c); simpl; [rewrite od_update_empty|]; reflexivity. }
  destruct (ac_dir c) eqn:Ed.
  - unfold call. rewrite E. destruct (ac_run c _); reflexivity.
  - destruct Hd as [Hd|Hd]; [discriminate|]. unfold call_decoded. rewrite Hd. unfold call. rewrite E.
    destruct (ac_run c _); reflexivity.
Qed.

(* the calibration mutants, refuted on a two-call history *)
Definition sort_opts : optdict := {| od_skip := None; od_sort := Some true; od_dial := None; od_sidx := None |}.
Definition probe_run (s : slots) : outcome sval :=                     (* output depends on the options seen *)
  Return (JMap (base_post s (lit "A") [(lit "b", JInt 1%Z); (lit "a", JInt 2%Z)])).
Definition raising_call : acall :=
  {| ac_dir := DirSer; ac_decodable := true; ac_given := Some sort_opts; ac_md := None; ac_run := fun _ => Raise |}.
Definition deser_call : acall :=
  {| ac_dir := DirDeser; ac_decodable := true; ac_given := Some sort_opts; ac_md := Some MOrjson; ac_run := fun _ => Return JNull |}.
Definition default_call : acall :=
  {| ac_dir := DirSer; ac_decodable := true; ac_given := None; ac_md := None; ac_run := probe_run |}.

Lemma refuted_no_finally :
  let w := {| w_finally := false; w_clear_deser := true |} in
  snd (exec1 w (fst (exec w slots0 [raising_call])) default_call) <> snd (exec1 w slots0 default_call).
Proof. vm_compute. discriminate. Qed.
Lemma refuted_not_cleared_on_deser :
  let w := {| w_finally := true; w_clear_deser := false |} in
  snd (exec1 w (fst (exec w slots0 [deser_call])) default_call) <> snd (exec1 w slots0 default_call).
Proof. vm_compute. discriminate. Qed.

(* ================= part 2: shapes ================= *)
Lemma pystr_leb_trans a : forall b c, pystr_leb a b = true -> pystr_leb b c = true -> pystr_leb a c = true.
Proof.
  induction a as [|x a IH]; intros [|y b] [|z c]; simpl; try discriminate; auto.
  destruct (Nat.ltb_spec (nat_of_ascii x) (nat_of_ascii y)), (Nat.ltb_spec (nat_of_ascii y) (nat_of_ascii x)),
           (Nat.ltb_spec (nat_of_ascii y) (nat_of_ascii z)), (Nat.ltb_spec (nat_of_ascii z) (nat_of_ascii y)),
           (Nat.ltb_spec (nat_of_ascii x) (nat_of_ascii z)), (Nat.ltb_spec (nat_of_ascii z) (nat_of_ascii x));
    try discriminate; try lia; auto.
  intros. eapply IH; eauto.
Qed.

Lemma sorted_keys_cons x l : sorted_keys (x :: l) = true -> sorted_keys l = true.
Proof. destruct l; simpl; auto. intros E. apply andb_prop in E. tauto. Qed.
Lemma sorted_keys_head x l : sorted_keys (x :: l) = true -> forall y, In y l -> pystr_leb x y = true.
Proof.
  revert x. induction l as [|z l IH]; intros x Hs y []; subst.
  - simpl in Hs. apply andb_prop in Hs. tauto.
  - simpl in Hs. apply andb_prop in Hs as [Hxz Hs]. eapply pystr_leb_trans; [exact Hxz|]. eapply IH; eauto.
Qed.
Lemma sorted_keys_intro x l : sorted_keys l = true -> (forall y, In y l -> pystr_leb x y = true) -> sorted_keys (x :: l) = true.
Proof. destruct l as [|z l]; auto. intros Hs Hh. simpl. rewrite (Hh z) by (left; auto). exact Hs. Qed.

Lemma sorted_filter (p : pystr * sval -> bool) l :
  sorted_keys (map fst l) = true -> sorted_keys (map fst (filter p l)) = true.
Proof.
  induction l as [|[k v] l IH]; simpl; auto. intros Hs.
  pose proof (sorted_keys_cons _ _ Hs) as Hs'. destruct (p (k, v)); auto.
  cbn [map fst]. apply sorted_keys_intro; auto.
  intros y Hy. eapply sorted_keys_head; eauto.
  apply in_map_iff in Hy as [[k' v'] [<- Hi]]. apply filter_In in Hi as [Hi _].
  apply in_map_iff. exists (k', v'). auto.
Qed.

Lemma ls_sorted_keys l : LocallySorted (fun a b => key_leb a b = true) l -> sorted_keys (map fst l) = true.
Proof.
  induction 1 as [|[k v]|[k v] [k' v'] l Hs IH Hk]; simpl; auto.
  unfold key_leb in Hk. simpl in Hk. rewrite Hk. exact IH.
Qed.
Lemma sort_items_sorted d : sorted_keys (map fst (sort_items d)) = true.
Proof.
  apply ls_sorted_keys. apply isort_sorted. intros a b. unfold key_leb. apply pystr_leb_total.
Qed.
Lemma sort_items_perm d : Permutation d (sort_items d).
Proof. apply isort_perm. Qed.

(* keys of jset / jpop *)
Lemma jset_keys_in k v m : In k (map fst m) -> map fst (jset k v m) = map fst m.
Proof.
  induction m as [|[k' v'] m IH]; simpl; [tauto|]. intros Hin.
  destruct (pystr_eqb_spec k' k); simpl; auto. f_equal. apply IH. destruct Hin; congruence.
Qed.
Lemma jset_values k v m x : In x (jset k v m) -> In x m \/ x = (k, v) \/ (exists k', x = (k', v) /\ k' = k).
Proof.
  induction m as [|[k' v'] m IH]; simpl.
  - intros [<-|[]]; auto.
  - destruct (pystr_eqb_spec k' k); simpl; intros [<-|Hi]; auto.
    + subst. auto.
    + destruct (IH Hi) as [?|[?|?]]; auto.
Qed.
Lemma jget_in k m v : jget k m = Some v -> In (k, v) m.
Proof.
  induction m as [|[k' v'] m IH]; simpl; [discriminate|].
  destruct (pystr_eqb_spec k' k); [intros [= <-]; subst; auto|auto].
Qed.
Lemma jget_key k m v : jget k m = Some v -> In k (map fst m).
Proof. intros E. apply jget_in in E. apply in_map_iff. exists (k, v). auto. Qed.

(* ---------- the three shapes as closure conditions ---------- *)
Record shape (s : slots) (P : list (pystr * sval) -> Prop) : Prop := {
  sh_empty : P [];
  sh_idx : forall i, P [(lit "idx", JInt i)];
  sh_base : forall cls d, ~ In type_key (map fst d) -> P (base_post s cls d);
  sh_pop : forall m, P m -> P (jpop (lit "_raw") m);
  sh_set : is_test s = true -> forall k v m, In k (map fst m) -> P m -> P (jset k v m);
  sh_single : is_test s = true -> forall v, P [(lit "source", v)];
  sh_stub : is_test s = true -> all_maps P (test_stub true s) }.

Lemma tfs_tag_then_sorted cls l : sorted_keys (map fst l) = true -> tag_first_sorted ((type_key, JStr cls) :: l) = true.
Proof. intros. unfold tag_first_sorted. rewrite pystr_eqb_refl. auto. Qed.

Lemma tfs_of_sorted m : sorted_keys (map fst m) = true -> tag_first_sorted m = true.
Proof.
  destruct m as [|[k v] m]; auto. intros E. unfold tag_first_sorted.
  destruct (pystr_eqb k type_key); auto. simpl in E. apply sorted_keys_cons in E. exact E.
Qed.
Lemma tfs_filter p m : tag_first_sorted m = true -> tag_first_sorted (filter p m) = true.
Proof.
  destruct m as [|[k v] m]; auto. unfold tag_first_sorted at 1.
  destruct (pystr_eqb_spec k type_key) as [->|Hk]; intros Hs.
  - cbn [filter]. destruct (p (type_key, v)).
    + unfold tag_first_sorted. rewrite pystr_eqb_refl. apply sorted_filter. exact Hs.
    + apply tfs_of_sorted. apply sorted_filter. exact Hs.
  - apply tfs_of_sorted. apply sorted_filter. exact Hs.
Qed.

Lemma tfs_same_keys m m' : map fst m = map fst m' -> tag_first_sorted m = true -> tag_first_sorted m' = true.
Proof.
  destruct m as [|[k v] m], m' as [|[k' v'] m']; simpl; try discriminate; auto.
  intros [= -> E]. rewrite E. auto.
Qed.

Lemma stub_shape_sorted s : get_sort s = true -> all_maps (fun m => tag_first_sorted m = true) (test_stub true s).
Proof.
  intros _. unfold test_stub. destruct (get_skip s); constructor; try reflexivity; repeat constructor.
Qed.

Lemma shape_sorted s : get_sort s = true -> shape s (fun m => tag_first_sorted m = true).
Proof.
  intros Hs. constructor.
  - reflexivity.
  - reflexivity.
  - intros cls d _. unfold base_post. rewrite Hs. destruct (get_skip s); cbn [app].
    + apply tfs_of_sorted. apply sort_items_sorted.
    + apply tfs_tag_then_sorted. apply sort_items_sorted.
  - intros m. apply tfs_filter.
  - intros _ k v m Hin. apply tfs_same_keys. symmetry. apply jset_keys_in. exact Hin.
  - reflexivity.
  - intros _. apply stub_shape_sorted. exact Hs.
Qed.

Lemma has_tag_in m : has_tag m = true <-> In type_key (map fst m).
Proof.
  unfold has_tag. rewrite existsb_exists. split.
  - intros [[k v] [Hi E]]. simpl in E. apply pystr_eqb_eq in E. subst. apply in_map_iff. exists (type_key, v). auto.
  - intros Hi. apply in_map_iff in Hi as [[k v] [E Hi]]. simpl in E. subst. exists (type_key, v). split; [exact Hi|].
    reflexivity.
Qed.
Lemma no_tag_iff m : no_tag m = true <-> ~ In type_key (map fst m).
Proof.
  unfold no_tag. rewrite <- has_tag_in. destruct (has_tag m); simpl; split; intros; try discriminate; auto;
    try (exfalso; auto; fail); try congruence.
Qed.

Lemma shape_no_tag s : get_skip s = true -> shape s (fun m => no_tag m = true).
Proof.
  intros Hs. constructor.
  - reflexivity.
  - reflexivity.
  - intros cls d Hd. apply no_tag_iff. unfold base_post. rewrite Hs. simpl.
    destruct (get_sort s); auto. intros Hi. apply Hd.
    apply in_map_iff in Hi as [x [E Hi]]. apply in_map_iff. exists x. split; auto.
    eapply Permutation_in; [apply Permutation_sym, sort_items_perm|exact Hi].
  - intros m Hm. apply no_tag_iff. apply no_tag_iff in Hm. intros Hi. apply Hm.
    apply in_map_iff in Hi as [x [E Hi]]. apply filter_In in Hi as [Hi _]. apply in_map_iff. exists x. auto.
  - intros _ k v m Hin Hm. apply no_tag_iff. apply no_tag_iff in Hm. rewrite jset_keys_in; auto.
  - intros _ v. reflexivity.
  - intros _. unfold test_stub. rewrite Hs. constructor; [reflexivity|repeat constructor].
Qed.

Lemma top_filter_raw m : tagged_or_placeholder m = true -> tagged_or_placeholder (jpop (lit "_raw") m) = true.
Proof.
  destruct m as [|[k v] m]; auto. unfold tagged_or_placeholder at 1.
  intros E. apply orb_prop in E as [E|E].
  - apply pystr_eqb_eq in E. subst. unfold jpop. simpl. reflexivity.
  - unfold is_idx_ref in E. destruct v; try discriminate. destruct m; try discriminate.
    apply pystr_eqb_eq in E. subst. reflexivity.
Qed.
(* the default shape: no skip, no test dialect *)
Definition is_default_tagging (s : slots) : Prop := get_skip s = false /\ is_test s = false.

Lemma shape_default s : is_default_tagging s -> shape s (fun m => tagged_or_placeholder m = true).
Proof.
  intros [Hs Ht]. constructor; try (intros E; rewrite Ht in E; discriminate).
  - reflexivity.
  - intros i. reflexivity.
  - intros cls d _. unfold base_post. rewrite Hs. cbn [app]. unfold tagged_or_placeholder. rewrite pystr_eqb_refl. reflexivity.
  - apply top_filter_raw.
Qed.

(* ---------- induction principles for the nested types ---------- *)
Lemma pval_ind' (P : pval -> Prop) :
  P VNone -> (forall b, P (VBool b)) -> (forall z, P (VInt z)) -> (forall s, P (VStr s)) ->
  (forall c m p, P p -> P (VEnum c m p)) -> (forall r, P (VFloat r)) -> (forall p, P (VPath p)) ->
  (forall l, Forall P l -> P (VTuple l)) -> (forall l, Forall P l -> P (VFset l)) -> forall v, P v.
Proof.
  intros H1 H2 H3 H4 H5 H6 H7 H8 H9. fix IH 1.
  intros [|b|z|x|c m p|r|p|l|l]; [apply H1|apply H2|apply H3|apply H4|apply H5, IH|apply H6|apply H7|apply H8|apply H9].
  - induction l as [|y l IHl]; constructor; [apply IH|exact IHl].
  - induction l as [|y l IHl]; constructor; [apply IH|exact IHl].
Qed.
Lemma source_ind' (P : source -> Prop) :
  P SNo -> (forall u t, P (SText u t)) -> (forall u r, P (SMem u r)) -> (forall p, P (SFile p)) ->
  (forall l, Forall P l -> P (SSet l)) -> forall s, P s.
Proof.
  intros H1 H2 H3 H4 H5. fix IH 1. intros [|u t|u r|p|l]; [apply H1|apply H2|apply H3|apply H4|apply H5].
  induction l as [|y l IHl]; constructor; [apply IH|exact IHl].
Qed.
Lemma origin_ind' (P : origin -> Prop) :
  P ONo -> (forall s r, P (OCode s r)) -> (forall s, P (OGen s)) -> (forall s p, P (OXml s p)) -> (forall s, P (OEntire s)) ->
  (forall l, Forall P l -> P (OMulti l)) -> forall o, P o.
Proof.
  intros H1 H2 H3 H4 H5 H6. fix IH 1. intros [|sc r|sc|sc p|sc|l]; [apply H1|apply H2|apply H3|apply H4|apply H5|apply H6].
  induction l as [|y l IHl]; constructor; [apply IH|exact IHl].
Qed.
Lemma node_ind' (P : node -> Prop) :
  (forall a c o ps ks, Forall (fun k => Forall P (snd (snd k))) ks -> P (Node a c o ps ks)) -> forall n, P n.
Proof.
  intros Hn. fix IH 1. intros [a c o ps ks]. apply Hn.
  induction ks as [|[f [sh l]] ks IHk]; constructor; [|exact IHk]. simpl.
  induction l as [|y l IHl]; constructor; [apply IH|exact IHl].
Qed.

Lemma omap_Forall {A B} (f : A -> option B) (Q : B -> Prop) l : forall vs,
  omap f l = Some vs -> Forall (fun x => forall v, f x = Some v -> Q v) l -> Forall Q vs.
Proof.
  induction l as [|x l IH]; simpl; intros vs E Hl.
  - injection E as <-. constructor.
  - destruct (f x) eqn:Ex; [|discriminate]. destruct (omap f l) eqn:El; [|discriminate]. injection E as <-.
    inversion Hl; subst. constructor; auto.
Qed.

Section Shapes.
  Variable s : slots.
  Variable P : list (pystr * sval) -> Prop.
  Hypothesis HP : shape s P.
  Let Q (p : pystr * sval) : Prop := all_maps P (snd p).

  Lemma values_base_post cls d : Forall Q d -> Forall Q (base_post s cls d).
  Proof.
    intros Hd. unfold base_post. apply Forall_app. split.
    - destruct (get_skip s); repeat constructor.
    - destruct (get_sort s); auto. eapply Permutation_Forall; [apply sort_items_perm|exact Hd].
  Qed.
  Lemma values_filter (p : pystr * sval -> bool) m : Forall Q m -> Forall Q (filter p m).
  Proof. rewrite !Forall_forall. intros Hm x Hx. apply filter_In in Hx. apply Hm. tauto. Qed.
  Lemma values_jset k v m : Forall Q m -> all_maps P v -> Forall Q (jset k v m).
  Proof.
    intros Hm Hv. induction m as [|[k' v'] m IH]; simpl.
    - repeat constructor. exact Hv.
    - inversion Hm; subst. destruct (pystr_eqb k' k); constructor; auto.
  Qed.

  Lemma am_int z : all_maps P (ser_int s z).
  Proof. unfold ser_int. destruct (ints_as_str s); constructor. Qed.
  Lemma am_pval v : forall t, all_maps P (ser_pval s t v).
  Proof.
    induction v as [|b|z|x|c m p IH|r|p|l IH|l IH] using pval_ind'; intros t; simpl; try constructor; auto.
    - destruct (is_int_ty t); [apply am_int|constructor].
    - apply Forall_map. eapply Forall_impl; [|exact IH]. simpl. auto.
    - apply Forall_map. eapply Forall_impl; [|exact IH]. simpl. auto.
  Qed.

  Ltac fcons := repeat first [apply Forall_nil | apply Forall_cons]; unfold Q; cbn [snd kv].
  Ltac scalar := solve [apply am_str | apply am_null | apply am_int | apply am_bool].
  Ltac keys_ok := cbn [map fst kv]; unfold type_key; intros Hk; simpl in Hk; intuition discriminate.

  Lemma am_source reg x : forall v, ser_source s reg x = Some v -> all_maps P v.
  Proof.
    induction x as [|u t|u r|p|l IH] using source_ind'; intros v E.
    - injection E as <-. constructor; [apply (sh_empty _ _ HP)|constructor].
    - simpl in E. destruct (get_sidx s).
      + destruct (index_of _ reg); [|discriminate]. injection E as <-. constructor; [apply (sh_idx _ _ HP)|fcons; constructor].
      + injection E as <-. constructor.
        * apply (sh_pop _ _ HP). apply (sh_base _ _ HP). keys_ok.
        * apply values_filter, values_base_post. fcons; scalar.
    - simpl in E. destruct (get_sidx s).
      + destruct (index_of _ reg); [|discriminate]. injection E as <-. constructor; [apply (sh_idx _ _ HP)|fcons; constructor].
      + injection E as <-. constructor.
        * apply (sh_pop _ _ HP). apply (sh_base _ _ HP). keys_ok.
        * apply values_filter, values_base_post. fcons; try scalar. destruct r; constructor.
    - simpl in E. destruct (get_sidx s).
      + destruct (index_of _ reg); [|discriminate]. injection E as <-. constructor; [apply (sh_idx _ _ HP)|fcons; constructor].
      + injection E as <-. constructor.
        * apply (sh_pop _ _ HP). apply (sh_base _ _ HP). keys_ok.
        * apply values_filter, values_base_post. fcons; scalar.
    - simpl in E. destruct (get_sidx s).
      + destruct (index_of _ reg); [|discriminate]. injection E as <-. constructor; [apply (sh_idx _ _ HP)|fcons; constructor].
      + destruct (omap (ser_source s reg) l) as [vs|] eqn:El; [|discriminate]. injection E as <-. constructor.
        * apply (sh_pop _ _ HP). apply (sh_base _ _ HP). keys_ok.
        * apply values_filter, values_base_post. fcons; try scalar. constructor.
          eapply omap_Forall; [exact El|exact IH].
  Qed.

  Lemma am_point p : all_maps P (ser_point s p).
  Proof.
    unfold ser_point. constructor; [apply (sh_base _ _ HP); keys_ok|].
    apply values_base_post. fcons; apply am_int.
  Qed.
  Lemma am_range r : all_maps P (ser_range s r).
  Proof.
    unfold ser_range. constructor; [apply (sh_base _ _ HP); keys_ok|].
    apply values_base_post. fcons; apply am_point.
  Qed.
  Lemma am_position o : all_maps P (ser_position s o).
  Proof.
    induction o as [|sc r|sc|sc p|sc|l IH] using origin_ind'; simpl.
    - constructor; [apply (sh_empty _ _ HP)|constructor].
    - apply am_range.
    - apply am_range.
    - constructor; [apply (sh_base _ _ HP); keys_ok|]. apply values_base_post. fcons; scalar.
    - constructor; [apply (sh_base _ _ HP); keys_ok|]. apply values_base_post. constructor.
    - constructor; [apply (sh_base _ _ HP); keys_ok|]. apply values_base_post. fcons. constructor.
      apply Forall_map. exact IH.
  Qed.

  (* the origin mapping is empty (NoOrigin) or has a "source" key: what the test dialect's assignment relies on *)
  Definition origin_like (v : sval) : Prop :=
    exists m, v = JMap m /\ (m = [] \/ In (lit "source") (map fst m)).
  Lemma base_post_keeps_key cls d k : In k (map fst d) -> In k (map fst (base_post s cls d)).
  Proof.
    intros Hk. unfold base_post. rewrite map_app. apply in_or_app. right.
    destruct (get_sort s); auto. eapply Permutation_in; [apply Permutation_map, sort_items_perm|exact Hk].
  Qed.

  Lemma am_origin reg o : forall v, ser_origin s reg o = Some v -> all_maps P v /\ origin_like v.
  Proof.
    assert (Simple : forall (cls : string) sc o' v,
      match ser_source s reg sc with
      | Some sv => Some (JMap (base_post s (lit cls) [kv "source" sv; kv "position" (ser_position s o')]))
      | None => None
      end = Some v -> all_maps P v /\ origin_like v).
    { intros cls sc o' v E. destruct (ser_source s reg sc) as [sv|] eqn:Es; [|discriminate]. injection E as <-. split.
      - constructor; [apply (sh_base _ _ HP); keys_ok|]. apply values_base_post. fcons.
        + eapply am_source; eauto.
        + apply am_position.
      - eexists; split; [reflexivity|]. right. apply base_post_keeps_key. simpl. auto. }
    induction o as [|sc r|sc|sc p|sc|l IH] using origin_ind'; intros v E.
    - injection E as <-. split; [constructor; [apply (sh_empty _ _ HP)|constructor]|]. exists []. auto.
    - exact (Simple "CodeOrigin"%string sc (OCode sc r) v E).
    - exact (Simple "GeneratedCodeOrigin"%string sc (OGen sc) v E).
    - exact (Simple "XMLFileOrigin"%string sc (OXml sc p) v E).
    - exact (Simple "Origin"%string sc (OEntire sc) v E).
    - simpl in E. destruct (ser_source s reg _) as [sv|] eqn:Es; [|discriminate].
      destruct (omap (ser_origin s reg) l) as [vs|] eqn:El; [|discriminate]. injection E as <-. split.
      + constructor; [apply (sh_base _ _ HP); keys_ok|]. apply values_base_post. fcons.
        * eapply am_source; eauto.
        * apply (am_position (OMulti l)).
        * constructor. eapply omap_Forall; [exact El|]. eapply Forall_impl; [|exact IH]. simpl. intros a Ha v Hv. apply (Ha v Hv).
      + eexists; split; [reflexivity|]. right. apply base_post_keeps_key. simpl. auto.
  Qed.

  Section Nodes.
    Variable H : pystr -> pystr.
    Variable ct : ctable.
    Variable pt : ptab.
    (* no field is called like one of pyoak's own keys *)
    Hypothesis names_ok : forall c f, In f (fields_of ct c) -> fd_name f <> type_key /\ fd_name f <> lit "origin".

    Let Q' (p : pystr * sval) : Prop := all_maps P (snd p) /\ (fst p = lit "origin" -> origin_like (snd p)).

    Lemma q'_base_post cls d : Forall Q' d -> Forall Q' (base_post s cls d).
    Proof.
      intros Hd. unfold base_post. apply Forall_app. split.
      - destruct (get_skip s); repeat constructor. simpl. discriminate.
      - destruct (get_sort s); auto. eapply Permutation_Forall; [apply sort_items_perm|exact Hd].
    Qed.
    Lemma q'_q m : Forall Q' m -> Forall Q m.
    Proof. apply Forall_impl. intros a [Ha _]. exact Ha. Qed.

    Lemma stub_ok out : P out -> Forall Q' out -> is_test s = true ->
      all_maps P (JMap (stub_origin_source (test_stub true s) out)).
    Proof.
      intros Hout Hv Ht. unfold stub_origin_source.
      destruct (jget (lit "origin") out) as [x|] eqn:Eg; [|constructor; auto using q'_q].
      pose proof (jget_in _ _ _ Eg) as Hin. pose proof (jget_key _ _ _ Eg) as Hkey.
      rewrite Forall_forall in Hv. destruct (Hv _ Hin) as [Hx Hol]. simpl in Hx, Hol.
      destruct x; try (constructor; [exact Hout|apply q'_q, Forall_forall, Hv]).
      destruct (Hol eq_refl) as [m [[= <-] Hm]].
      inversion Hx as [| | | | | |kv0 Hpm Hvm]; subst.
      constructor.
      - apply (sh_set _ _ HP Ht); auto.
      - apply values_jset; [apply q'_q, Forall_forall, Hv|].
        constructor.
        + destruct Hm as [->|Hs]; [apply (sh_single _ _ HP Ht)|apply (sh_set _ _ HP Ht); auto].
        + apply values_jset; [exact Hvm|apply (sh_stub _ _ HP Ht)].
    Qed.

    Theorem ser_node_shape reg ids armed n : forall v,
      ser_node H ct pt current_nv s reg ids armed n = Some v -> all_maps P v.
    Proof.
      induction n as [a c o ps ks IH] using node_ind'. intros v E. simpl in E.
      destruct (assoc_nat a ids) as [i|]; [|discriminate].
      destruct (ser_origin s reg o) as [ov|] eqn:Eo; [|discriminate].
      destruct (omap _ ks) as [kvals|] eqn:Ek; [|discriminate].
      destruct (existsb _ armed); [discriminate|]. injection E as <-.
      destruct (am_origin _ _ _ Eo) as [Hov Hol].
      (* the values of the child fields *)
      assert (Hkv : Forall Q kvals).
      { eapply omap_Forall; [exact Ek|]. eapply Forall_impl; [|exact IH]. intros [f [sh l]] Hl v Ev. simpl in *.
        destruct (omap _ l) as [vs|] eqn:El; [|discriminate]. injection Ev as <-. unfold Q. simpl.
        assert (Hvs : Forall (all_maps P) vs).
        { eapply omap_Forall; [exact El|]. eapply Forall_impl; [|exact Hl]. simpl. intros x Hx w Hw. apply (Hx w Hw). }
        destruct sh; simpl; [constructor| |constructor; exact Hvs].
        destruct vs; [constructor|]. inversion Hvs; auto. }
      set (user := map _ (fields_of ct c)).
      assert (Huser : Forall Q' user).
      { subst user. apply Forall_map. apply Forall_forall. intros f Hf. destruct (names_ok c f Hf) as [_ Hno]. split; simpl.
        - destruct (fd_role f).
          + destruct (assoc (fd_name f) ps); [apply am_pval|constructor].
          + destruct (assoc (fd_name f) kvals) as [w|] eqn:Ea; [|constructor].
            clear - Ea Hkv. induction kvals as [|[k' v'] r IHr]; simpl in Ea; [discriminate|]. inversion Hkv; subst.
            destruct (pystr_eqb k' (fd_name f)); [injection Ea as <-; auto|auto].
        - intros Ef. exfalso. apply Hno. exact Ef. }
      assert (Hkeys : ~ In type_key (map fst ([kv "id" (JStr i); kv "content_id" (JStr (cid_of H ct (Node a c o ps ks))); kv "origin" ov] ++ user))).
      { rewrite map_app. intros Hi. apply in_app_or in Hi as [Hi|Hi].
        - revert Hi. keys_ok.
        - subst user. rewrite map_map in Hi. simpl in Hi. apply in_map_iff in Hi as [f [Ef Hf]].
          destruct (names_ok c f Hf) as [Hn _]. congruence. }
      assert (Hd : Forall Q' ([kv "id" (JStr i); kv "content_id" (JStr (cid_of H ct (Node a c o ps ks))); kv "origin" ov] ++ user)).
      { apply Forall_app. split; [|exact Huser]. repeat constructor; simpl; try discriminate; auto. }
      unfold node_post. cbn [v_d16 v_stub current_nv].
      set (ch := (children_key, JList (map JStr (get_child_fields ct c)))).
      assert (Hch : Q' ch). { split; simpl; [constructor; apply Forall_map, Forall_forall; constructor|discriminate]. }
      assert (Hout : forall d, d = [kv "id" (JStr i); kv "content_id" (JStr (cid_of H ct (Node a c o ps ks))); kv "origin" ov] ++ user ->
                     P (base_post s c (if is_explorer s then d ++ [ch] else d))
                     /\ Forall Q' (base_post s c (if is_explorer s then d ++ [ch] else d))).
      { intros d ->. split.
        - apply (sh_base _ _ HP). destruct (is_explorer s); [|exact Hkeys].
          rewrite map_app. intros Hi. apply in_app_or in Hi as [Hi|Hi]; [auto|]. revert Hi. subst ch. keys_ok.
        - apply q'_base_post. destruct (is_explorer s); [|exact Hd]. apply Forall_app. split; auto. }
      destruct (Hout _ eq_refl) as [Hp Hq].
      destruct (is_explorer s); (destruct (is_test s) eqn:Et; [apply stub_ok; auto|constructor; auto using q'_q]).
    Qed.
  End Nodes.
End Shapes.

(* ---------- the explorer dialect lists each node's child field names ---------- *)
Lemma jget_unique k v m : In (k, v) m -> (forall v', In (k, v') m -> v' = v) -> jget k m = Some v.
Proof.
  induction m as [|[k' w] m IH]; simpl; [tauto|]. intros Hin Hu.
  destruct (pystr_eqb_spec k' k) as [->|Hk].
  - f_equal. apply Hu. auto.
  - apply IH.
    + destruct Hin as [[= -> ->]|]; [congruence|auto].
    + intros v' Hv'. apply Hu. auto.
Qed.

Theorem explorer_children H ct pt s reg ids armed n m :
  (forall c f, In f (fields_of ct c) -> fd_name f <> children_key) ->
  is_explorer s = true ->
  ser_node H ct pt current_nv s reg ids armed n = Some (JMap m) ->
  jget children_key m = Some (JList (map JStr (get_child_fields ct (cls n)))).
Proof.
  intros Hnames He E. destruct n as [a c o ps ks]. simpl in E.
  destruct (assoc_nat a ids) as [i|]; [|discriminate].
  destruct (ser_origin s reg o) as [ov|]; [|discriminate].
  destruct (omap _ ks) as [kvals|]; [|discriminate].
  destruct (existsb _ armed); [discriminate|]. injection E as <-.
  unfold node_post. rewrite He. cbn [v_d16 current_nv].
  assert (Ht : is_test s = false). { unfold is_explorer in He. unfold is_test. destruct (od_dial (sl_opts s)) as [[]|]; auto; discriminate. }
  rewrite Ht. simpl cls.
  match goal with |- jget _ (base_post _ _ (?d0 ++ _)) = _ => set (d := d0) end.
  set (ch := JList (map JStr (get_child_fields ct c))).
  assert (Hin : In (children_key, ch) (base_post s c (d ++ [(children_key, ch)]))).
  { unfold base_post. apply in_or_app. right. destruct (get_sort s).
    - eapply Permutation_in; [apply sort_items_perm|]. apply in_or_app. right. left. reflexivity.
    - apply in_or_app. right. left. reflexivity. }
  apply jget_unique; [exact Hin|].
  intros v' Hv'. unfold base_post in Hv'. apply in_app_or in Hv' as [Hv'|Hv'].
  - destruct (get_skip s); [destruct Hv'|]. destruct Hv' as [Hv'|[]]. exfalso. apply (f_equal fst) in Hv'. vm_compute in Hv'. discriminate.
  - assert (Hv2 : In (children_key, v') (d ++ [(children_key, ch)])).
    { destruct (get_sort s); auto. eapply Permutation_in; [apply Permutation_sym, sort_items_perm|exact Hv']. }
    apply in_app_or in Hv2 as [Hv2|[[= <-]|[]]]; auto. exfalso. subst d.
    destruct Hv2 as [E1|[E1|[E1|Hv2]]]; try (apply (f_equal fst) in E1; vm_compute in E1; discriminate).
    apply in_map_iff in Hv2 as [f [[= Ef _] Hf]]. apply (Hnames c f Hf). exact Ef.
Qed.

(* ---------- the behaviour before the repairs, on witnesses ---------- *)
Definition sorted_explorer : slots :=
  {| sl_opts := {| od_skip := None; od_sort := Some true; od_dial := Some DExplorer; od_sidx := None |}; sl_md := None |}.
Definition wit_fields : list (pystr * sval) := [(lit "id", JStr (lit "x")); (lit "origin", JMap []); (lit "z", JInt 1%Z)].
(* D16: _children after the sorted keys *)
Lemma refuted_children_unsorted :
  tag_first_sorted (node_post {| v_d16 := false; v_stub := true |} sorted_explorer (lit "A") [lit "kid"] wit_fields) = false
  /\ tag_first_sorted (node_post current_nv sorted_explorer (lit "A") [lit "kid"] wit_fields) = true.
Proof. vm_compute. auto. Qed.

Definition skip_test : slots :=
  {| sl_opts := {| od_skip := Some true; od_sort := None; od_dial := Some DTest; od_sidx := None |}; sl_md := None |}.
Definition sorted_test : slots :=
  {| sl_opts := {| od_skip := None; od_sort := Some true; od_dial := Some DTest; od_sidx := None |}; sl_md := None |}.
(* D20: the old stub keeps its tag under SKIP_CLASS *)
Lemma refuted_skip_class_test_stub :
  all_mapsb no_tag (JMap (node_post {| v_d16 := true; v_stub := false |} skip_test (lit "A") [] wit_fields)) = false
  /\ all_mapsb no_tag (JMap (node_post current_nv skip_test (lit "A") [] wit_fields)) = true.
Proof. vm_compute. auto. Qed.
(* D21: the old stub lists source_uri before source_type under SORT_KEYS *)
Lemma refuted_sorted_test_stub :
  all_mapsb tag_first_sorted (JMap (node_post {| v_d16 := true; v_stub := false |} sorted_test (lit "A") [] wit_fields)) = false
  /\ all_mapsb tag_first_sorted (JMap (node_post current_nv sorted_test (lit "A") [] wit_fields)) = true.
Proof. vm_compute. auto. Qed.
