(* C06: the rendering of paths to xpath STRINGS is injective (names without / @ [ ], decimal indices), hence no two
   nodes of a tree share one get_xpath string. *)
From Oak Require Import Spec.XpathText Proofs.TraverseProofs Proofs.TreeQProofs.
From Coq Require Import Lia.

(* ================= Part 1: reading the string back ================= *)
Definition slash : ascii := "/"%char.
(* the segments followed by a sentinel "/" : then every class name is followed by "/" *)
Definition segs (l : list tinfo) : pystr := List.concat (map xp_seg l) ++ [slash].

Lemma segs_cons t l :
  segs (t :: l) = "/"%char :: "@"%char :: ti_field t ++ "["%char :: idx_str (ti_index t) ++ "]"%char :: cls (ti_node t) ++ segs l.
Proof.
  unfold segs, xp_seg. cbn [map List.concat].
  change (lit "/@") with ["/"%char; "@"%char]. change (lit "[") with ["["%char]. change (lit "]") with ["]"%char].
  repeat (rewrite <- app_assoc; cbn [app]). reflexivity.
Qed.
Lemma segs_head l : exists t, segs l = slash :: t.
Proof. destruct l as [|a l]; [exists []; reflexivity|]. rewrite segs_cons. eauto. Qed.

Lemma idx_str_digits i : forallb is_digit (idx_str i) = true.
Proof. destruct i as [[|k]|]; try reflexivity. apply dec_digits. Qed.
Lemma idx_str_some_inj a b : idx_str (Some a) = idx_str (Some b) -> a = b.
Proof.
  destruct a as [|a], b as [|b]; cbn [idx_str]; intro E; auto.
  - change (lit "0") with (dec 0) in E. apply dec_inj in E. discriminate.
  - change (lit "0") with (dec 0) in E. apply dec_inj in E. discriminate.
  - now apply dec_inj in E.
Qed.

Lemma segs_inj : forall l1 l2, Forall seg_ok l1 -> Forall seg_ok l2 -> segs l1 = segs l2 ->
  map seg_key l1 = map seg_key l2.
Proof.
  induction l1 as [|t1 l1 IH]; intros [|t2 l2] H1 H2 E.
  - reflexivity.
  - rewrite segs_cons in E. unfold segs in E. simpl in E. injection E as E. discriminate.
  - rewrite segs_cons in E. unfold segs in E at 2. simpl in E. injection E as E. discriminate.
  - rewrite !segs_cons in E. injection E as E.
    inversion H1 as [|? ? [F1 C1] H1']; subst. inversion H2 as [|? ? [F2 C2] H2']; subst.
    apply (split_unique name_char_ok "["%char eq_refl) in E as [Ef E]; auto.
    apply (split_unique is_digit "]"%char eq_refl) in E as [Ei E]; auto using idx_str_digits.
    destruct (segs_head l1) as (r1 & R1). destruct (segs_head l2) as (r2 & R2).
    rewrite R1, R2 in E.
    apply (split_unique name_char_ok slash eq_refl) in E as [Ec E]; auto.
    cbn [map]. f_equal.
    + unfold seg_key. now rewrite Ef, Ei, Ec.
    + apply IH; auto. rewrite R1, R2. now f_equal.
Qed.

Theorem xpath_render_injective root l1 l2 : Forall seg_ok l1 -> Forall seg_ok l2 ->
  xpath_of root l1 = xpath_of root l2 -> map seg_key l1 = map seg_key l2.
Proof.
  intros H1 H2 E. unfold xpath_of in E. apply app_inv_head in E. apply segs_inj; auto.
  unfold segs. now rewrite E.
Qed.

(* ================= Part 2: within one parent a (field, printed index) names one stored position ================= *)
Lemma number_from_ge {A} (l : list A) : forall s x i, In (x, i) (number_from s l) -> s <= i.
Proof.
  induction l as [|a l IH]; intros s x i; simpl; [tauto|]. intros [[= _ <-]|H]; [lia|]. apply IH in H. lia.
Qed.
Lemma number_from_fun {A} (l : list A) : forall s x1 x2 i,
  In (x1, i) (number_from s l) -> In (x2, i) (number_from s l) -> x1 = x2.
Proof.
  induction l as [|a l IH]; intros s x1 x2 i; simpl; [tauto|].
  intros [[= <- <-]|H1] [[= <-]|H2]; auto.
  - apply number_from_ge in H2. lia.
  - apply number_from_ge in H1. lia.
  - eapply IH; eauto.
Qed.

Lemma direct_key_inj n : NoDup (map fst (nkids n)) -> forall t1 t2,
  In t1 (direct_infos n) -> In t2 (direct_infos n) ->
  ti_field t1 = ti_field t2 -> idx_str (ti_index t1) = idx_str (ti_index t2) -> t1 = t2.
Proof.
  intros ND t1 t2 H1 H2 Ef Ei. unfold direct_infos in H1, H2.
  apply in_flat_map in H1 as (k1 & K1 & H1). apply in_flat_map in H2 as (k2 & K2 & H2).
  apply in_map_iff in H1 as (c1 & <- & C1). apply in_map_iff in H2 as (c2 & <- & C2).
  simpl in Ef, Ei.
  assert (k1 = k2) by (eapply (nodup_map_inj fst); eauto). subst k2.
  assert (Ec : c1 = c2); [|now subst]. destruct k1 as [f [sh l]]. simpl in C1, C2.
  destruct sh; simpl in C1, C2.
  - tauto.
  - destruct l as [|x l]; simpl in C1, C2; [tauto|].
    destruct C1 as [<-|[]]. destruct C2 as [<-|[]]. reflexivity.
  - apply in_map_iff in C1 as ([x1 i1] & <- & C1). apply in_map_iff in C2 as ([x2 i2] & <- & C2).
    simpl in *. apply idx_str_some_inj in Ei. subst i2.
    f_equal. eapply number_from_fun; eauto.
Qed.

Lemma wf_nodup_kids ct n : wf_node ct n = true -> NoDup (map fst (nkids n)).
Proof. intros W. rewrite <- (wf_child_names ct n W). apply child_fields_nodup. Qed.

(* two paths from one node that are spelled alike are the same path *)
Lemma path_keys_inj ct : forall n l1 x1, path n l1 x1 -> wf_node ct n = true ->
  forall l2 x2, path n l2 x2 -> map seg_key l1 = map seg_key l2 -> l1 = l2.
Proof.
  induction 1 as [n|n t1 l1 x1 Hd Hp IH]; intros W l2 x2 H2 E.
  - destruct l2; [reflexivity|discriminate].
  - destruct l2 as [|t2 l2]; [discriminate|]. cbn [map] in E. unfold seg_key at 1 3 in E.
    injection E as Ef Ei Ec E.
    inversion H2 as [|? ? ? ? Hd2 Hp2]; subst.
    assert (t1 = t2) by (eapply direct_key_inj; eauto using wf_nodup_kids). subst t2.
    f_equal. eapply IH; eauto. eapply wf_direct; eauto.
Qed.

(* ================= Part 3: get_xpath is injective on the nodes of the tree ================= *)
Theorem xpath_injective ct root : wf_node ct root = true -> nodup_tree root -> clean_names root ->
  forall t, is_tree root t -> forall l1 x1 l2 x2, path root l1 x1 -> path root l2 x2 ->
  get_xpath t x1 = get_xpath t x2 -> l1 = l2 /\ x1 = x2 /\ addr x1 = addr x2.
Proof.
  intros W ND CN t T l1 x1 l2 x2 H1 H2 E.
  rewrite (xpath_path root ND t T _ _ H1), (xpath_path root ND t T _ _ H2) in E.
  assert (E' : xpath_of root l1 = xpath_of root l2) by congruence. clear E. rename E' into E.
  apply xpath_render_injective in E; [|eapply CN; eauto|eapply CN; eauto].
  assert (l1 = l2) by (eapply path_keys_inj; eauto). subst l2.
  assert (x1 = x2) by (eapply path_functional; eauto). subst. auto.
Qed.

(* clean_names from a check over the pre-order listing *)
Lemma clean_by_P root : (forall ti, In ti (P root) -> seg_ok ti) -> clean_names root.
Proof.
  intros H l x Hp. apply Forall_forall. intros ti Hin.
  apply in_split in Hin as (a & b & ->). apply path_app_inv in Hp as (y & Ha & Hb).
  inversion Hb; subst. apply H. eapply in_P_of_path; eauto.
Qed.

(* premises inhabited: the example tree (twins L3, L4, L6 at different positions get different strings) *)
Lemma xpath_inj_inhabited :
  wf_node ex_ct ex_root = true /\ nodup_tree ex_root /\ clean_names ex_root /\
  (exists t, tree_build ex_ct ex_root = Some t /\
     get_xpath t (ex_leaf 4 "L") = Ok (lit "/@root[0]P/@items[0]L") /\
     get_xpath t (ex_leaf 3 "L") = Ok (lit "/@root[0]P/@child[0]P/@child[0]L")).
Proof.
  destruct premises_inhabited as (W & ND & _). split; auto. split; auto. split.
  - apply clean_by_P. intros ti Hin.
    assert (F : forallb (fun ti => name_ok (ti_field ti) && name_ok (cls (ti_node ti))) (P ex_root) = true)
      by (vm_compute; reflexivity).
    rewrite forallb_forall in F. apply F in Hin. apply andb_prop in Hin. exact Hin.
  - eexists. split; [vm_compute; reflexivity|]. split; vm_compute; reflexivity.
Qed.
