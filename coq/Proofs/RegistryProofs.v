(* Proofs about the registry state machine (Model/Registry.v): for EVERY digest H (collisions allowed). *)
From Oak Require Import Model.Registry.
From Coq Require Import FinFun.

(* ================= the dictionary ================= *)
Lemma lookup_in i r a : lookup i r = Some a -> In (i, a) r.
Proof.
  induction r as [|[j b] r IH]; simpl; [discriminate|].
  destruct (pystr_eqb_spec i j); [intros [= ->]; subst; auto|auto].
Qed.
Lemma lookup_none i r : lookup i r = None -> ~ In i (keys r).
Proof.
  induction r as [|[j b] r IH]; simpl; [tauto|].
  destruct (pystr_eqb_spec i j); [discriminate|]. intros E [->|Hin]; [congruence|]. now apply IH.
Qed.
Lemma lookup_notin i r : ~ In i (keys r) -> lookup i r = None.
Proof.
  induction r as [|[j b] r IH]; simpl; auto. intros Hn.
  destruct (pystr_eqb_spec i j); [subst; tauto|]. apply IH. tauto.
Qed.
Lemma in_lookup i a r : NoDup (keys r) -> In (i, a) r -> lookup i r = Some a.
Proof.
  induction r as [|[j b] r IH]; simpl; [tauto|]. intros Hnd [E|Hin].
  - injection E as -> ->. now rewrite pystr_eqb_refl.
  - inversion Hnd; subst. destruct (pystr_eqb_spec i j).
    + subst. exfalso. apply H1. change j with (fst (j, a)). now apply in_map.
    + auto.
Qed.
Lemma in_keys i a (r : list (pystr * nat)) : In (i, a) r -> In i (keys r).
Proof. intro Hin. change i with (fst (i, a)). now apply in_map. Qed.

Lemma remove_in i r : forall j a, In (j, a) (remove_id i r) <-> In (j, a) r /\ j <> i.
Proof.
  induction r as [|[k b] r IH]; simpl; [tauto|]. intros j a.
  destruct (pystr_eqb_spec i k).
  - rewrite IH. subst. split; [tauto|]. intros [[E|Hin] Hne]; [congruence|auto].
  - simpl. rewrite IH. split.
    + intros [E|[Hin Hne]]; [injection E as <- <-; auto|auto].
    + intros [[E|Hin] Hne]; auto.
Qed.
Lemma remove_keys i r j : In j (keys (remove_id i r)) -> In j (keys r) /\ j <> i.
Proof.
  unfold keys. rewrite in_map_iff. intros [[k a] [<- Hin]]. apply remove_in in Hin as [Hin Hne].
  split; auto. now apply in_keys in Hin.
Qed.
Lemma remove_nodup i r : NoDup (keys r) -> NoDup (keys (remove_id i r)).
Proof.
  induction r as [|[k b] r IH]; simpl; [auto|]. intro Hnd. inversion Hnd; subst.
  destruct (pystr_eqb_spec i k); [auto|]. simpl. constructor; auto.
  intro Hin. apply remove_keys in Hin as [? _]. auto.
Qed.
Lemma lookup_remove_same i r : lookup i (remove_id i r) = None.
Proof.
  induction r as [|[k b] r IH]; simpl; auto.
  destruct (pystr_eqb_spec i k); auto. simpl. destruct (pystr_eqb_spec i k); congruence.
Qed.
Lemma lookup_remove_other i j r : j <> i -> lookup j (remove_id i r) = lookup j r.
Proof.
  intro Hne. induction r as [|[k b] r IH]; simpl; auto.
  destruct (pystr_eqb_spec i k).
  - subst. destruct (pystr_eqb_spec j k); congruence.
  - simpl. destruct (pystr_eqb_spec j k); auto.
Qed.
Lemma remove_notin i r : ~ In i (keys r) -> remove_id i r = r.
Proof.
  induction r as [|[k b] r IH]; simpl; auto. intro Hn.
  destruct (pystr_eqb_spec i k); [subst; tauto|]. f_equal. apply IH. tauto.
Qed.

Lemma filter_keys_nodup (P : pystr * nat -> bool) r : NoDup (keys r) -> NoDup (keys (filter P r)).
Proof.
  induction r as [|e r IH]; simpl; auto. intro Hnd. inversion Hnd; subst.
  destruct (P e); simpl; auto. constructor; auto.
  intro Hin. apply H1. unfold keys in *. apply in_map_iff in Hin as [x [E Hx]].
  apply filter_In in Hx as [Hx _]. rewrite <- E. now apply in_map.
Qed.
Lemma filter_all {A} (P : A -> bool) l : (forall x, In x l -> P x = true) -> filter P l = l.
Proof.
  induction l as [|x l IH]; simpl; auto. intro Hall. rewrite (Hall x) by auto. f_equal. apply IH. auto.
Qed.

Lemma memb_in a l : memb a l = true <-> In a l.
Proof.
  unfold memb. rewrite existsb_exists. split.
  - intros [x [Hin E]]. apply Nat.eqb_eq in E. now subst.
  - intro Hin. exists a. split; auto. apply Nat.eqb_refl.
Qed.
Lemma smemb_in a l : smemb a l = true <-> In a l.
Proof.
  unfold smemb. rewrite existsb_exists. split.
  - intros [x [Hin E]]. apply pystr_eqb_eq in E. now subst.
  - intro Hin. exists a. split; auto. apply pystr_eqb_refl.
Qed.

(* ================= _get_next_unique_id terminates and returns an unused id ================= *)
Lemma cand_inj d k k' : cand d k = cand d k' -> k = k'.
Proof.
  unfold cand. destruct k, k'; auto; intro E.
  - exfalso. rewrite <- (app_nil_r d) in E at 1. apply app_inv_head in E. discriminate.
  - exfalso. rewrite <- (app_nil_r d) in E at 2. apply app_inv_head in E. discriminate.
  - apply app_inv_head in E. simpl in E. injection E as E. now apply dec_inj in E.
Qed.

Lemma next_unique_fresh d : forall fuel k r i, next_unique d k fuel r = Some i -> lookup i r = None.
Proof.
  induction fuel as [|f IH]; intros k r i; simpl.
  - destruct (lookup (cand d k) r) eqn:E; [discriminate|]. now intros [= <-].
  - destruct (lookup (cand d k) r) eqn:E; [apply IH|]. now intros [= <-].
Qed.

Lemma next_unique_none d : forall fuel k r, next_unique d k fuel r = None ->
  forall j, k <= j <= k + fuel -> In (cand d j) (keys r).
Proof.
  induction fuel as [|f IH]; intros k r; simpl.
  - destruct (lookup (cand d k) r) eqn:E; [|discriminate]. intros _ j Hj.
    assert (j = k) by lia. subst. apply lookup_in in E. now apply in_keys in E.
  - destruct (lookup (cand d k) r) eqn:E; [|discriminate]. intros Hn j Hj.
    destruct (Nat.eq_dec j k) as [->|Hne].
    + apply lookup_in in E. now apply in_keys in E.
    + apply (IH (S k) r Hn). lia.
Qed.

(* pigeonhole: fuel = number of registered ids is enough *)
Lemma next_unique_total d r : next_unique d 0 (length r) r <> None.
Proof.
  intro E. pose proof (next_unique_none d _ _ _ E) as Hall.
  assert (Hnd : NoDup (map (cand d) (seq 0 (S (length r))))).
  { apply FinFun.Injective_map_NoDup; [|apply seq_NoDup]. intros x y. apply cand_inj. }
  assert (Hincl : incl (map (cand d) (seq 0 (S (length r)))) (keys r)).
  { intros x Hx. apply in_map_iff in Hx as [j [<- Hj]]. apply in_seq in Hj. apply Hall. lia. }
  pose proof (NoDup_incl_length Hnd Hincl) as Hlen.
  rewrite map_length, seq_length in Hlen. unfold keys in Hlen. rewrite map_length in Hlen. lia.
Qed.

Lemma next_unique_ok d r : exists i, next_unique d 0 (length r) r = Some i /\ lookup i r = None.
Proof.
  destruct (next_unique d 0 (length r) r) as [i|] eqn:E.
  - exists i. split; auto. eapply next_unique_fresh; eauto.
  - exfalso. revert E. apply next_unique_total.
Qed.

(* the id is the bare digest whenever that is not taken *)
Lemma next_unique_base d fuel r : lookup d r = None -> next_unique d 0 fuel r = Some d.
Proof. intro E. destruct fuel; simpl; now rewrite E. Qed.

(* ================= the invariant ================= *)
Record Inv0 (s : st) : Prop := {
  I_fun : NoDup (keys (reg s));
  I_ok : forall i a, In (i, a) (reg s) -> exists c, cell_at s a = Some c /\ k_id c = i;
  I_all : forall a c, cell_at s a = Some c -> ~ In a (det s) -> ~ In a (gone s) -> In (k_id c, a) (reg s);
  I_det : forall i a, In (i, a) (reg s) -> ~ In a (det s) /\ ~ In a (gone s);
  I_bound : forall a, In a (det s) \/ In a (gone s) -> a < length (heap s);
  I_heap : forall a c, cell_at s a = Some c -> forall k, In k (all_kids c) -> k < a
}.
(* after a step: additionally every entry of the weak registry is reachable from the variables *)
Definition RInv (s : st) : Prop := Inv0 s /\ forall i a, In (i, a) (reg s) -> reachable s a = true.

Lemma cell_at_lt s a c : cell_at s a = Some c -> a < length (heap s).
Proof. unfold cell_at. intro E. apply nth_error_Some. congruence. Qed.

Lemma inv_init n : RInv (init_st n).
Proof.
  split; [constructor; simpl; try tauto; try constructor|simpl; tauto].
  - intros a c E. unfold cell_at in E; simpl in E. destruct a; discriminate.
  - intros a c E. unfold cell_at in E; simpl in E. destruct a; discriminate.
Qed.

(* ----- collection ----- *)
Lemma gc_reach s : reachable_set (gc s) = reachable_set s.
Proof. reflexivity. Qed.

Lemma gc_inv s : Inv0 s -> RInv (gc s).
Proof.
  intros [Hf Hok Hall Hdet Hb Hh]. split; [constructor|]; simpl.
  - now apply filter_keys_nodup.
  - intros i a Hin. apply filter_In in Hin as [Hin _]. now apply Hok.
  - intros a c Hc Hnd Hng. apply filter_In.
    assert (Hlt : a < length (heap s)) by (eapply cell_at_lt; eauto).
    destruct (memb a (reachable_set s)) eqn:Em.
    + split; auto. apply Hall; auto. intro Hg. apply Hng. apply filter_In. split.
      * apply in_seq. lia.
      * apply memb_in in Hg. rewrite Hg. apply orb_true_r.
    + exfalso. apply Hng. apply filter_In. split; [apply in_seq; lia|]. now rewrite Em.
  - intros i a Hin. apply filter_In in Hin as [Hin Hm]. simpl in Hm. destruct (Hdet _ _ Hin) as [Hd Hg].
    split; auto. intro Hg'. apply filter_In in Hg' as [_ Hg']. rewrite Hm in Hg'. simpl in Hg'.
    apply memb_in in Hg'. auto.
  - intros a [Hd|Hg]; [apply Hb; auto|]. apply filter_In in Hg as [Hs _]. apply in_seq in Hs. lia.
  - exact Hh.
  - intros i a Hin. apply filter_In in Hin as [_ Hm]. exact Hm.
Qed.

Lemma set_var_inv s v x : Inv0 s -> Inv0 (set_var s v x).
Proof. intros [Hf Hok Hall Hdet Hb Hh]. constructor; simpl; auto. Qed.

(* ----- construction ----- *)
Section Inv.
  Variable H : pystr -> pystr.
  Variable ct : ctable.

  Definition mkcell c o ps ks i (hp : list cell) : cell :=
    {| k_cls := c; k_org := o; k_props := ps; k_kids := ks; k_id := i;
       k_cid := H (cid_data_of ct current c ps (kd_of hp ks)) |}.

  Lemma alloc_shape s c o ps ks s' a : alloc H ct s c o ps ks = Some (s', a) ->
    exists i, lookup i (reg s) = None /\ a = length (heap s) /\
      next_unique (H (id_data_of ct current c o ps (kd_of (heap s) ks))) 0 (length (reg s)) (reg s) = Some i /\
      s' = {| heap := heap s ++ [mkcell c o ps ks i (heap s)]; reg := (i, length (heap s)) :: reg s;
              vars := vars s; det := det s; gone := gone s |}.
  Proof.
    unfold alloc. destruct (next_unique _ 0 _ _) as [i|] eqn:E; [|discriminate].
    intros [= <- <-]. exists i. split; [eapply next_unique_fresh; eauto|]. repeat split; auto.
  Qed.

  Lemma alloc_some s c o ps ks : alloc H ct s c o ps ks <> None.
  Proof.
    unfold alloc. destruct (next_unique_ok (H (id_data_of ct current c o ps (kd_of (heap s) ks))) (reg s)) as [i [-> _]].
    discriminate.
  Qed.

  Definition kids_below (n : nat) (ks : kidsr) : Prop :=
    forall k, In k (flat_map (fun k => snd (snd k)) ks) -> k < n.

  Lemma alloc_inv s c o ps ks s' a : Inv0 s -> kids_below (length (heap s)) ks ->
    alloc H ct s c o ps ks = Some (s', a) -> Inv0 s'.
  Proof.
    intros [Hf Hok Hall Hdet Hb Hh] Hk Ea. apply alloc_shape in Ea as [i [Hi [-> [_ ->]]]].
    constructor; simpl.
    - constructor; auto. now apply lookup_none.
    - intros j x [E|Hin].
      + injection E as <- <-. exists (mkcell c o ps ks i (heap s)). split; [|reflexivity].
        unfold cell_at; simpl. rewrite nth_error_app2, Nat.sub_diag by lia. reflexivity.
      + destruct (Hok _ _ Hin) as [cx [Hc Hj]]. exists cx. split; auto.
        unfold cell_at in *; simpl. rewrite nth_error_app1; auto. apply nth_error_Some. congruence.
    - intros x cx Hc Hnd Hng. unfold cell_at in Hc; simpl in Hc.
      destruct (Nat.lt_ge_cases x (length (heap s))) as [Hlt|Hge].
      + rewrite nth_error_app1 in Hc by auto. right. now apply Hall.
      + rewrite nth_error_app2 in Hc by auto.
        destruct (x - length (heap s)) eqn:Ed; simpl in Hc.
        * injection Hc as <-. simpl. left. f_equal. lia.
        * destruct n; discriminate.
    - intros j x [E|Hin]; [|now apply Hdet in Hin].
      injection E as <- <-. split; intro Hx; [specialize (Hb _ (or_introl Hx))|specialize (Hb _ (or_intror Hx))]; lia.
    - intros x Hx. rewrite app_length; simpl. specialize (Hb _ Hx). lia.
    - intros x cx Hc k Hin. unfold cell_at in Hc; simpl in Hc.
      destruct (Nat.lt_ge_cases x (length (heap s))) as [Hlt|Hge].
      + rewrite nth_error_app1 in Hc by auto. eapply Hh; eauto.
      + rewrite nth_error_app2 in Hc by auto.
        destruct (x - length (heap s)) eqn:Ed; simpl in Hc.
        * injection Hc as <-. unfold all_kids in Hin; simpl in Hin. apply Hk in Hin. lia.
        * destruct n; discriminate.
  Qed.

  (* ----- detach_self (after the repair) ----- *)
  Lemma detach_self_inv s a : Inv0 s -> Inv0 (fst (detach_self true s a)).
  Proof.
    intros [Hf Hok Hall Hdet Hb Hh]. unfold detach_self.
    destruct (cell_at s a) as [c|] eqn:Ec; [|constructor; auto].
    assert (Hlt : a < length (heap s)) by (eapply cell_at_lt; eauto).
    assert (Hmark : lookup (k_id c) (reg s) <> Some a -> Inv0 (set_reg s (reg s) (a :: det s))).
    { intro Hne. constructor; simpl.
      - exact Hf.
      - exact Hok.
      - intros x cx Hx Hnd Hng. apply Hall; auto.
      - intros j x Hin. destruct (Hdet _ _ Hin) as [Hd Hg]. split; auto. intros [<-|Hd']; auto.
        destruct (Hok _ _ Hin) as [c' [Hc' Hj]]. rewrite Ec in Hc'. injection Hc' as <-. subst j.
        apply Hne. now apply in_lookup.
      - intros x [[<-|Hd]|Hg]; auto.
      - exact Hh. }
    destruct (lookup (k_id c) (reg s)) as [b|] eqn:El; simpl.
    - destruct (Nat.eqb_spec a b) as [->|Hne]; simpl.
      + constructor; simpl.
        * now apply remove_nodup.
        * intros i x Hin. apply remove_in in Hin as [Hin _]. now apply Hok.
        * intros x cx Hx Hnd Hng. apply remove_in. split; [apply Hall; auto|].
          intro E. assert (Hx' : In (k_id cx, x) (reg s)) by (apply Hall; auto).
          rewrite E in Hx'. apply in_lookup in Hx'; auto. rewrite El in Hx'. injection Hx' as ->. auto.
        * intros j x Hin. apply remove_in in Hin as [Hin Hj]. destruct (Hdet _ _ Hin) as [Hd Hg]. split; auto.
          intros [<-|Hd']; auto. destruct (Hok _ _ Hin) as [c' [Hc' Hj']]. rewrite Ec in Hc'. injection Hc' as <-. auto.
        * intros x [[<-|Hd]|Hg]; auto.
        * exact Hh.
      + apply Hmark. congruence.
    - apply Hmark. congruence.
  Qed.

  Lemma detach_self_frame fx s a :
    heap (fst (detach_self fx s a)) = heap s /\ vars (fst (detach_self fx s a)) = vars s /\ gone (fst (detach_self fx s a)) = gone s.
  Proof.
    unfold detach_self. destruct (cell_at s a); [|auto]. destruct (lookup _ _); [|simpl; auto].
    destruct (fx && _); simpl; auto.
  Qed.

  Lemma fold_detach_inv l : forall s, Inv0 s -> Inv0 (fold_left (fun s x => fst (detach_self true s x)) l s).
  Proof. induction l as [|x l IH]; simpl; auto. intros s Hs. apply IH. now apply detach_self_inv. Qed.
  Lemma fold_detach_frame fx l : forall s,
    let s' := fold_left (fun s x => fst (detach_self fx s x)) l s in
    heap s' = heap s /\ vars s' = vars s /\ gone s' = gone s.
  Proof.
    induction l as [|x l IH]; simpl; auto. intros s.
    destruct (IH (fst (detach_self fx s x))) as [-> [-> ->]]. apply detach_self_frame.
  Qed.
  Lemma detach_inv s a : Inv0 s -> Inv0 (detach true s a).
  Proof. apply fold_detach_inv. Qed.
End Inv.

(* ================= addresses handed to constructions are existing addresses ================= *)
Lemma pre_in_bound hp : forall fuel a x, In x (pre hp fuel a) -> x < length hp.
Proof.
  induction fuel as [|f IH]; simpl; [tauto|]. intros a x.
  destruct (nth_error hp a) as [c|] eqn:E; [|simpl; tauto].
  intros [<-|Hin].
  - apply nth_error_Some. congruence.
  - apply in_flat_map in Hin as [k [_ Hk]]. eapply IH; eauto.
Qed.
Lemma resolve_lt s l a : resolve s l = Some a -> a < length (heap s).
Proof.
  unfold resolve. destruct (nth_error (vars s) (fst l)) as [[r|]|]; try discriminate.
  intro E. apply nth_error_In in E. eapply pre_in_bound; eauto.
Qed.
Lemma resolve_reachable s l a : resolve s l = Some a -> reachable s a = true.
Proof.
  unfold resolve. destruct (nth_error (vars s) (fst l)) as [[r|]|] eqn:Ev; try discriminate.
  intro E. apply nth_error_In in E. apply nth_error_In in Ev.
  apply memb_in. unfold reachable_set. apply in_flat_map. exists r. split; auto.
  unfold roots. apply in_flat_map. exists (Some r). split; simpl; auto.
Qed.

Lemma mapO_in {A B} (f : A -> option B) : forall l l', mapO f l = Some l' ->
  forall y, In y l' -> exists x, In x l /\ f x = Some y.
Proof.
  induction l as [|x l IH]; simpl; intros l'.
  - intros [= <-] y [].
  - destruct (f x) as [y0|] eqn:Ex; [|discriminate]. destruct (mapO f l) as [t|] eqn:Et; [|discriminate].
    intros [= <-] y [<-|Hin]; [exists x; auto|]. destruct (IH _ eq_refl _ Hin) as [x' [? ?]]. exists x'; auto.
Qed.
Lemma mapO_resolve_lt s ls l : mapO (resolve s) ls = Some l -> forall k, In k l -> k < length (heap s).
Proof. intros E k Hin. destruct (mapO_in _ _ _ E _ Hin) as [x [_ Hx]]. eapply resolve_lt; eauto. Qed.

Lemma assoc_in {A} k (l : list (pystr * A)) v : assoc k l = Some v -> In (k, v) l.
Proof.
  induction l as [|[k' v'] l IH]; simpl; [discriminate|].
  destruct (pystr_eqb_spec k' k); [intros [= ->]; subst; auto|auto].
Qed.

Section Inv2.
  Variable H : pystr -> pystr.
  Variable ct : ctable.

  Lemma new_args_below s c ps ks ks' : new_args ct s c ps ks = ROk ks' -> kids_below (length (heap s)) ks'.
  Proof.
    unfold new_args. destruct (find_class ct c); [|discriminate]. destruct (_ && _); [|discriminate].
    destruct (mapO _ ks) as [l|] eqn:E; [|discriminate]. intros [= <-] k Hin.
    apply in_flat_map in Hin as [e [He Hk]]. destruct (mapO_in _ _ _ E _ He) as [x [_ Hx]].
    destruct (mapO (resolve s) (snd (snd x))) as [l0|] eqn:E0; [|discriminate]. simpl in Hx. injection Hx as <-.
    simpl in Hk. eapply mapO_resolve_lt; eauto.
  Qed.

  Definition changes_below (n : nat) (ch : list (pystr * rval)) : Prop :=
    forall name sh l, In (name, VKids (sh, l)) ch -> forall k, In k l -> k < n.

  Lemma changes_are_below s c ch ch' : changes ct s c ch = ROk ch' -> changes_below (length (heap s)) ch'.
  Proof.
    unfold changes. destruct (_ && _); [|discriminate]. destruct (mapO _ ch) as [l|] eqn:E; [|discriminate].
    intros [= <-] name sh l0 Hin k Hk. destruct (mapO_in _ _ _ E _ Hin) as [[n cv] [_ Hx]]. simpl in Hx.
    destruct cv as [v|o|sh' ls]; simpl in Hx; try discriminate.
    destruct (mapO (resolve s) ls) as [l1|] eqn:E1; [|discriminate]. simpl in Hx. injection Hx as _ <- <-.
    eapply mapO_resolve_lt; eauto.
  Qed.

  Lemma new_kids_below s a c ch : Inv0 s -> cell_at s a = Some c -> changes_below (length (heap s)) ch ->
    kids_below (length (heap s)) (new_kids c ch).
  Proof.
    intros Hs Hc Hch k Hin. apply in_flat_map in Hin as [e [He Hk]]. unfold new_kids in He.
    apply in_map_iff in He as [e0 [<- He0]].
    assert (Hold : forall k, In k (snd (snd e0)) -> k < length (heap s)).
    { intros k0 Hk0. apply cell_at_lt in Hc as Hlt.
      assert (k0 < a); [|lia]. eapply (I_heap _ Hs); eauto. unfold all_kids. apply in_flat_map. eauto. }
    destruct (assoc (fst e0) ch) as [[v|o|[sh l]]|] eqn:Ea; auto.
    simpl in Hk. apply assoc_in in Ea. eapply Hch; eauto.
  Qed.

  Lemma dc_replace_raised s a ch s' e : dc_replace H ct s a ch = (s', Raised e) -> s' = s.
  Proof.
    unfold dc_replace. destruct (cell_at s a); [|intros [= <-]; auto].
    destruct (dc_check _ _ _); [intros [= <- _]; auto|].
    destruct (alloc _ _ _ _ _ _ _) as [[s1 a1]|]; intros [= ]; auto.
  Qed.

  Lemma dc_replace_inv s a ch s' r : Inv0 s -> changes_below (length (heap s)) ch ->
    dc_replace H ct s a ch = (s', r) -> Inv0 s'.
  Proof.
    intros Hs Hch. unfold dc_replace. destruct (cell_at s a) as [c|] eqn:Ec; [|intros [= <- _]; auto].
    destruct (dc_check _ _ _); [intros [= <- _]; auto|].
    destruct (alloc _ _ _ _ _ _ _) as [[s1 a1]|] eqn:Ea; intros [= <- _]; auto.
    eapply alloc_inv; eauto. eapply new_kids_below; eauto.
  Qed.

  (* a registry with the same entries in another order *)
  Lemma inv_reg_equiv s r' : Inv0 s -> NoDup (keys r') -> (forall i a, In (i, a) r' <-> In (i, a) (reg s)) ->
    Inv0 (set_reg s r' (det s)).
  Proof.
    intros [Hf Hok Hall Hdet Hb Hh] Hnd Heq. constructor; simpl; auto.
    - intros i a Hin. apply Hok. now apply Heq.
    - intros a c Hc Hd Hg. apply Heq. now apply Hall.
    - intros i a Hin. apply Hdet with i. now apply Heq.
  Qed.

  Lemma restore_equiv i a r : NoDup (keys r) -> In (i, a) r ->
    NoDup (keys (dict_set i a (remove_id i r))) /\
    forall j x, In (j, x) (dict_set i a (remove_id i r)) <-> In (j, x) r.
  Proof.
    intros Hnd Hin. unfold dict_set. split.
    - simpl. constructor; [|now do 2 apply remove_nodup].
      intro Hk. apply remove_keys in Hk as [_ Hk]. congruence.
    - intros j x. simpl. rewrite !remove_in. split.
      + intros [E|[[? _] _]]; auto. now injection E as <- <-.
      + intro Hx. destruct (pystr_eqb_spec j i) as [->|Hne]; [left|right; auto].
        f_equal. apply (in_lookup _ _ _ Hnd) in Hx. apply (in_lookup _ _ _ Hnd) in Hin. congruence.
  Qed.

  Lemma detach_self_registered s a c : cell_at s a = Some c -> lookup (k_id c) (reg s) = Some a ->
    detach_self true s a = (set_reg s (remove_id (k_id c) (reg s)) (a :: det s), true).
  Proof. intros Ec El. unfold detach_self. rewrite Ec, El, Nat.eqb_refl. reflexivity. Qed.
  Lemma detach_self_unregistered s a c : cell_at s a = Some c -> lookup (k_id c) (reg s) <> Some a ->
    detach_self true s a = (set_reg s (reg s) (a :: det s), false).
  Proof.
    intros Ec El. unfold detach_self. rewrite Ec. destruct (lookup _ _) as [b|]; auto.
    destruct (Nat.eqb_spec a b); [congruence|reflexivity].
  Qed.

  Lemma replace_inv s a ch s' r : Inv0 s -> changes_below (length (heap s)) ch ->
    replace H ct true s a ch = (s', r) -> Inv0 s'.
  Proof.
    intros Hs Hch. unfold replace. destruct (cell_at s a) as [c|] eqn:Ec; [|intros [= <- _]; auto].
    pose proof (detach_self_inv s a Hs) as Hs1.
    destruct (detach_self_frame true s a) as [Hh1 _].
    destruct (dc_replace H ct (fst (detach_self true s a)) a ch) as [s2 r2] eqn:Ed.
    assert (Hs2 : Inv0 s2) by (eapply dc_replace_inv; eauto; now rewrite Hh1).
    destruct r2; try (intros [= <- _]; exact Hs2).
    apply dc_replace_raised in Ed. subst s2.
    destruct (lookup (k_id c) (reg s)) as [b|] eqn:El; [|intros [= <- _]; exact Hs2].
    destruct (Nat.eqb_spec a b) as [<-|Hne]; simpl; [|intros [= <- _]; exact Hs2].
    rewrite Ec. rewrite (detach_self_registered _ _ _ Ec El). simpl. intros [= <- _].
    destruct (restore_equiv (k_id c) a (reg s) (I_fun _ Hs) (lookup_in _ _ _ El)) as [Hnd Heq].
    exact (inv_reg_equiv s _ Hs Hnd Heq).
  Qed.
End Inv2.

(* ================= duplicate ================= *)
Lemma mapM_st_spec {S A B} (f : S -> A -> option (S * B)) (P : S -> Prop) (R : S -> S -> Prop) (Q : S -> B -> Prop) :
  (forall s, R s s) -> (forall a b c, R a b -> R b c -> R a c) ->
  (forall s s' y, Q s y -> R s s' -> Q s' y) ->
  (forall s x s' y, P s -> f s x = Some (s', y) -> P s' /\ R s s' /\ Q s' y) ->
  forall l s s' ys, P s -> mapM_st f s l = Some (s', ys) -> P s' /\ R s s' /\ Forall (Q s') ys.
Proof.
  intros Rrefl Rtrans Qmono Hf. induction l as [|x l IH]; simpl; intros s s' ys Hs.
  - intros [= <- <-]. auto.
  - destruct (f s x) as [[s1 y]|] eqn:Ef; [|discriminate].
    destruct (mapM_st f s1 l) as [[s2 ys']|] eqn:Em; [|discriminate]. intros [= <- <-].
    destruct (Hf _ _ _ _ Hs Ef) as [Hs1 [R1 Q1]]. destruct (IH _ _ _ Hs1 Em) as [Hs2 [R2 Q2]].
    split; auto. split; [eauto|]. constructor; eauto.
Qed.

(* the heap and the registry only grow; ghost sets and variables are untouched *)
Definition grow (s s' : st) : Prop :=
  (exists ext, heap s' = heap s ++ ext) /\ (exists nr, reg s' = nr ++ reg s) /\
  vars s' = vars s /\ det s' = det s /\ gone s' = gone s.
(* every cell at an address >= n is registered under its id and has its children at addresses >= n *)
Definition range_ok (n : nat) (s' : st) : Prop :=
  forall x, n <= x < length (heap s') ->
    exists c, cell_at s' x = Some c /\ (forall k, In k (all_kids c) -> n <= k) /\ In (k_id c, x) (reg s').

Lemma grow_refl s : grow s s.
Proof. repeat split; try (exists []; now rewrite ?app_nil_r). Qed.
Lemma grow_trans a b c : grow a b -> grow b c -> grow a c.
Proof.
  intros [[e1 H1] [[n1 R1] [V1 [D1 G1]]]] [[e2 H2] [[n2 R2] [V2 [D2 G2]]]].
  repeat split; try congruence.
  - exists (e1 ++ e2). now rewrite H2, H1, app_assoc.
  - exists (n2 ++ n1). now rewrite R2, R1, app_assoc.
Qed.
Lemma grow_len s s' : grow s s' -> length (heap s) <= length (heap s').
Proof. intros [[e ->] _]. rewrite app_length. lia. Qed.
Lemma grow_cell s s' x c : grow s s' -> cell_at s x = Some c -> cell_at s' x = Some c.
Proof.
  intros [[e He] _] Hc. unfold cell_at in *. rewrite He, nth_error_app1; auto. apply nth_error_Some. congruence.
Qed.
Lemma grow_reg s s' e : grow s s' -> In e (reg s) -> In e (reg s').
Proof. intros [_ [[n ->] _]] Hin. apply in_or_app. auto. Qed.

Definition growR (s s' : st) : Prop := grow s s' /\ range_ok (length (heap s)) s'.
Lemma growR_refl s : growR s s.
Proof. split; [apply grow_refl|]. intros x Hx. lia. Qed.
Lemma growR_trans a b c : growR a b -> growR b c -> growR a c.
Proof.
  intros [G1 K1] [G2 K2]. split; [eapply grow_trans; eauto|]. intros x Hx.
  destruct (Nat.lt_ge_cases x (length (heap b))) as [Hlt|Hge].
  - destruct (K1 x) as [cx [Hc [Hk Hr]]]; [lia|]. exists cx. repeat split; auto.
    + eapply grow_cell; eauto.
    + eapply grow_reg; eauto.
  - destruct (K2 x) as [cx [Hc [Hk Hr]]]; [lia|]. exists cx. repeat split; auto.
    intros k Hin. apply Hk in Hin. apply grow_len in G1. lia.
Qed.

Section DupProofs.
  Variable H : pystr -> pystr.
  Variable ct : ctable.

  Lemma alloc_grow s c o ps ks s' a : alloc H ct s c o ps ks = Some (s', a) -> grow s s'.
  Proof.
    intro Ea. apply alloc_shape in Ea as [i [_ [_ [_ ->]]]]. repeat split; simpl; auto.
    - eexists; reflexivity.
    - exists [(i, length (heap s))]. reflexivity.
  Qed.

  Lemma dup_spec : forall fuel s a s' a', Inv0 s -> dup H ct fuel s a = Some (s', a') ->
    Inv0 s' /\ growR s s' /\ length (heap s) <= a' < length (heap s').
  Proof.
    induction fuel as [|f IH]; simpl; intros s a s' a' Hs; [discriminate|].
    destruct (cell_at s a) as [c|] eqn:Ec; [|discriminate].
    set (n := length (heap s)).
    destruct (mapM_st _ s (k_kids c)) as [[s1 ks']|] eqn:Em; [|discriminate].
    intro Ea.
    pose (P := fun t : st => Inv0 t /\ n <= length (heap t)).
    pose (Q := fun (t : st) (y : nat) => n <= y < length (heap t)).
    pose (Q' := fun (t : st) (k : pystr * (kshape * list nat)) => Forall (Q t) (snd (snd k))).
    assert (Qmono : forall t t' y, Q t y -> growR t t' -> Q t' y).
    { intros t t' y [? ?] [G _]. apply grow_len in G. unfold Q. lia. }
    assert (Hinner : forall t x t' y, P t -> dup H ct f t x = Some (t', y) -> P t' /\ growR t t' /\ Q t' y).
    { intros t x t' y [Ht Hn] Ed. destruct (IH _ _ _ _ Ht Ed) as [Ht' [G Hy]].
      pose proof (grow_len _ _ (proj1 G)). unfold P, Q. split; [split; [auto|lia]|split; [exact G|lia]]. }
    assert (Houter : forall t k t' y, P t ->
       match mapM_st (dup H ct f) t (snd (snd k)) with
       | Some (t', l) => Some (t', (fst k, (fst (snd k), l)))
       | None => None
       end = Some (t', y) -> P t' /\ growR t t' /\ Q' t' y).
    { intros t k t' y Ht. destruct (mapM_st (dup H ct f) t (snd (snd k))) as [[t1 l]|] eqn:E1; [|discriminate].
      intros [= <- <-]. unfold Q'; simpl.
      exact (mapM_st_spec _ P growR Q growR_refl growR_trans Qmono Hinner _ _ _ _ Ht E1). }
    assert (Q'mono : forall t t' y, Q' t y -> growR t t' -> Q' t' y).
    { intros t t' y Hq G. unfold Q' in *. eapply Forall_impl; [|exact Hq]. intros z Hz. eapply Qmono; eauto. }
    assert (Hp0 : P s) by (split; auto).
    destruct (mapM_st_spec _ P growR Q' growR_refl growR_trans Q'mono Houter _ _ _ _ Hp0 Em) as [[Hs1 Hn1] [G1 Hq]].
    assert (Hbelow : forall k, In k (flat_map (fun k => snd (snd k)) ks') -> n <= k < length (heap s1)).
    { intros k Hin. apply in_flat_map in Hin as [e [He Hk]]. rewrite Forall_forall in Hq.
      specialize (Hq _ He). unfold Q' in Hq. rewrite Forall_forall in Hq. apply Hq. auto. }
    assert (Hs' : Inv0 s') by (eapply alloc_inv; eauto; intros k Hk; apply Hbelow in Hk; lia).
    pose proof (alloc_grow _ _ _ _ _ _ _ Ea) as G2.
    apply alloc_shape in Ea as [i [_ [-> [_ ->]]]].
    split; auto. split; [|simpl; rewrite app_length; simpl; fold n; lia].
    split; [eapply grow_trans; [exact (proj1 G1)|exact G2]|].
    intros x Hx. simpl in Hx. rewrite app_length in Hx; simpl in Hx.
    destruct (Nat.lt_ge_cases x (length (heap s1))) as [Hlt|Hge].
    - destruct (proj2 G1 x) as [cx [Hc [Hk Hr]]]; [fold n; lia|]. exists cx. repeat split; auto.
      + eapply grow_cell; eauto.
      + eapply grow_reg; eauto.
    - assert (x = length (heap s1)) by lia. subst x.
      eexists. split; [unfold cell_at; simpl; rewrite nth_error_app2, Nat.sub_diag by lia; reflexivity|].
      split; [|simpl; auto]. intros k Hk. unfold all_kids in Hk; simpl in Hk. apply Hbelow in Hk. fold n. lia.
  Qed.
End DupProofs.

(* ================= every step preserves the invariant ================= *)
Section StepProofs.
  Variable H : pystr -> pystr.
  Variable ct : ctable.

  Lemma bind_inv dst r : Inv0 (fst r) -> Inv0 (fst (bind dst r)).
  Proof. destruct r as [s [| a | b | e | | |]]; simpl; auto. apply set_var_inv. Qed.

  Lemma step_raw_inv s o : Inv0 s -> Inv0 (fst (step_raw H ct true s o)).
  Proof.
    intro Hs. destruct o as [dst c og ps ks|dst src|dst src ch|dst src ch|x|x|v|x k]; simpl.
    - destruct (negb _); [exact Hs|]. destruct (new_args ct s c ps ks) as [| |ks'] eqn:En; try exact Hs.
      destruct (alloc H ct s c og ps ks') as [[s' a]|] eqn:Ea; [|exact Hs]. simpl.
      apply set_var_inv. eapply alloc_inv; eauto. eapply new_args_below; eauto.
    - destruct (negb _); [exact Hs|]. destruct (resolve s src) as [a|]; [|exact Hs].
      destruct (dup H ct (length (heap s)) s a) as [[s' a']|] eqn:Ed; [|exact Hs]. simpl.
      apply set_var_inv. eapply dup_spec; eauto.
    - destruct (negb _); [exact Hs|]. destruct (resolve s src) as [a|]; [|exact Hs].
      destruct (cell_at s a) as [c|] eqn:Ec; [|exact Hs].
      destruct (changes ct s (k_cls c) ch) as [| |ch'] eqn:Ech; try exact Hs.
      apply bind_inv. destruct (dc_replace H ct s a ch') as [s' r] eqn:Ed. simpl.
      eapply dc_replace_inv; eauto. eapply changes_are_below; eauto.
    - destruct (negb _); [exact Hs|]. destruct (resolve s src) as [a|]; [|exact Hs].
      destruct (cell_at s a) as [c|] eqn:Ec; [|exact Hs].
      destruct (changes ct s (k_cls c) ch) as [| |ch'] eqn:Ech; try exact Hs.
      apply bind_inv. destruct (replace H ct true s a ch') as [s' r] eqn:Ed. simpl.
      eapply replace_inv; eauto. eapply changes_are_below; eauto.
    - destruct (resolve s x) as [a|]; [|exact Hs]. simpl. now apply detach_inv.
    - destruct (resolve s x) as [a|]; [|exact Hs].
      pose proof (detach_self_inv s a Hs). destruct (detach_self true s a); auto.
    - now apply set_var_inv.
    - destruct (resolve s x); exact Hs.
  Qed.

  Lemma step_inv0 s o : Inv0 s -> RInv (fst (step H ct true s o)).
  Proof.
    intro Hs. unfold step. pose proof (step_raw_inv s o Hs) as Hr.
    destruct (step_raw H ct true s o) as [s' r]. simpl in *. now apply gc_inv.
  Qed.
  Theorem step_inv s o : RInv s -> RInv (fst (step H ct true s o)).
  Proof. intros [Hs _]. now apply step_inv0. Qed.
  Theorem run_inv l : forall s, RInv s -> RInv (run H ct true s l).
  Proof. induction l as [|o l IH]; simpl; auto. intros s Hs. apply IH. now apply step_inv. Qed.
End StepProofs.

(* ================= what the invariant says about lookups ================= *)
Section Lookups.
  Variable ct : ctable.

  Theorem lookup_exact s i a : RInv s ->
    (get_any s i = Some a <->
     exists c, cell_at s a = Some c /\ k_id c = i /\ ~ In a (det s) /\ ~ In a (gone s)).
  Proof.
    intros [Hs _]. unfold get_any. split.
    - intro E. apply lookup_in in E. destruct (I_ok _ Hs _ _ E) as [c [Hc Hi]].
      destruct (I_det _ Hs _ _ E). exists c. auto.
    - intros [c [Hc [<- [Hd Hg]]]]. apply in_lookup; [apply (I_fun _ Hs)|]. now apply (I_all _ Hs).
  Qed.

  Theorem registered_reachable s i a : RInv s -> get_any s i = Some a -> reachable s a = true.
  Proof. intros [_ Hr] E. apply lookup_in in E. eauto. Qed.

  Theorem unreachable_not_returned s a : RInv s -> reachable s a = false -> forall i, get_any s i <> Some a.
  Proof. intros Hs Hu i E. rewrite (registered_reachable _ _ _ Hs E) in Hu. discriminate. Qed.

  Theorem detached_not_returned s a : RInv s -> In a (det s) -> forall i, get_any s i <> Some a.
  Proof. intros Hs Hd i E. apply (lookup_exact _ _ _ Hs) in E as [c [_ [_ [Hn _]]]]. auto. Qed.

  Theorem get_class s cls i strict a : RInv s ->
    (get ct s cls i strict = Some a <->
     exists c, get_any s i = Some a /\ cell_at s a = Some c /\
               (if strict then k_cls c = cls else subclass ct (k_cls c) cls = true)).
  Proof.
    intros [Hs _]. unfold get, get_any. split.
    - destruct (lookup i (reg s)) as [b|] eqn:El; [|discriminate].
      destruct (cell_at s b) as [c|] eqn:Ec; [|discriminate]. destruct strict.
      + destruct (pystr_eqb_spec (k_cls c) cls); [|discriminate]. intros [= <-]. exists c. auto.
      + destruct (subclass ct (k_cls c) cls) eqn:Es; [|discriminate]. intros [= <-]. exists c. auto.
    - intros [c [-> [-> Hc]]]. destruct strict.
      + subst. now rewrite pystr_eqb_refl.
      + now rewrite Hc.
  Qed.

  Theorem unique_ids s a b ca cb : RInv s ->
    cell_at s a = Some ca -> cell_at s b = Some cb ->
    get_any s (k_id ca) = Some a -> get_any s (k_id cb) = Some b ->
    k_id ca = k_id cb -> a = b.
  Proof. unfold get_any. intros _ _ _ Ea Eb E. rewrite E in Ea. congruence. Qed.

  (* the same, said about the registry as a set of entries: no id is held twice *)
  Theorem unique_ids_entries s i a b : RInv s -> In (i, a) (reg s) -> In (i, b) (reg s) -> a = b.
  Proof.
    intros [Hs _] Ha Hb. apply (in_lookup _ _ _ (I_fun _ Hs)) in Ha. apply (in_lookup _ _ _ (I_fun _ Hs)) in Hb. congruence.
  Qed.
End Lookups.

(* ================= a replace() that raises leaves the registry as it was ================= *)
Lemma reach_ext s s' : heap s' = heap s -> vars s' = vars s -> reachable_set s' = reachable_set s.
Proof. intros Hh Hv. unfold reachable_set, roots, tree_of. now rewrite Hh, Hv. Qed.

Lemma lookup_restore i a r j : lookup i r = Some a -> lookup j (dict_set i a (remove_id i r)) = lookup j r.
Proof.
  intro E. unfold dict_set. simpl. destruct (pystr_eqb_spec j i) as [->|Hne]; [congruence|].
  now rewrite !lookup_remove_other.
Qed.

Section Frame.
  Variable H : pystr -> pystr.
  Variable ct : ctable.

  Lemma replace_raised s a ch s' e : Inv0 s -> replace H ct true s a ch = (s', Raised e) ->
    heap s' = heap s /\ vars s' = vars s /\ NoDup (keys (reg s')) /\
    forall j x, In (j, x) (reg s') <-> In (j, x) (reg s).
  Proof.
    intro Hs. unfold replace. destruct (cell_at s a) as [c|] eqn:Ec; [|discriminate].
    destruct (dc_replace H ct (fst (detach_self true s a)) a ch) as [s2 r2] eqn:Ed.
    destruct r2; try discriminate.
    apply dc_replace_raised in Ed. subst s2.
    destruct (lookup (k_id c) (reg s)) as [b|] eqn:El.
    - destruct (Nat.eqb_spec a b) as [<-|Hne]; simpl.
      + rewrite Ec, (detach_self_registered _ _ _ Ec El). simpl. intros [= <- _]. simpl.
        destruct (restore_equiv (k_id c) a (reg s) (I_fun _ Hs) (lookup_in _ _ _ El)) as [Hnd Heq]. auto.
      + rewrite (detach_self_unregistered _ _ _ Ec) by congruence. simpl. intros [= <- _]. simpl.
        repeat split; auto; apply (I_fun _ Hs).
    - rewrite (detach_self_unregistered _ _ _ Ec) by congruence. simpl. intros [= <- _]. simpl.
      repeat split; auto; apply (I_fun _ Hs).
  Qed.

  Lemma lookup_equiv r r' : NoDup (keys r) -> NoDup (keys r') ->
    (forall j x, In (j, x) r' <-> In (j, x) r) -> forall j, lookup j r' = lookup j r.
  Proof.
    intros Hn Hn' Heq j. destruct (lookup j r) as [a|] eqn:E.
    - apply lookup_in in E. apply Heq in E. now apply in_lookup.
    - destruct (lookup j r') as [b|] eqn:E'; auto. apply lookup_in in E'. apply Heq in E'.
      apply lookup_none in E. apply in_keys in E'. tauto.
  Qed.

  Lemma bind_raised dst r s' e : bind dst r = (s', Raised e) -> r = (s', Raised e).
  Proof. destruct r as [s [| a | b | e' | | |]]; simpl; auto; discriminate. Qed.

  Theorem replace_fail_frame s dst src ch s' e : RInv s ->
    step H ct true s (Replace dst src ch) = (s', Raised e) ->
    heap s' = heap s /\ vars s' = vars s /\ forall j, get_any s' j = get_any s j.
  Proof.
    intros [Hs Hr]. unfold step. destruct (step_raw H ct true s (Replace dst src ch)) as [s2 r] eqn:Er.
    intros [= <- ->]. simpl in Er.
    destruct (negb _); [discriminate|]. destruct (resolve s src) as [a|]; [|discriminate].
    destruct (cell_at s a) as [c|]; [|discriminate].
    destruct (changes ct s (k_cls c) ch) as [| |ch']; try discriminate.
    apply bind_raised in Er. destruct (replace_raised _ _ _ _ _ Hs Er) as [Hh [Hv [Hnd Heq]]].
    simpl. repeat split; auto. intro j. unfold get_any. simpl.
    rewrite (reach_ext _ _ Hh Hv). rewrite filter_all.
    - apply lookup_equiv; auto. apply (I_fun _ Hs).
    - intros [i x] Hin. simpl. apply Heq in Hin. exact (Hr _ _ Hin).
  Qed.
End Frame.

(* ================= ids ================= *)
Section Ids.
  Variable H : pystr -> pystr.
  Variable ct : ctable.

  (* the id of a new node is the bare digest of its id preimage whenever no registered node holds that id *)
  Theorem id_deterministic s c o ps ks s' a :
    alloc H ct s c o ps ks = Some (s', a) ->
    get_any s (H (id_data_of ct current c o ps (kd_of (heap s) ks))) = None ->
    exists cl, cell_at s' a = Some cl /\ k_id cl = H (id_data_of ct current c o ps (kd_of (heap s) ks)).
  Proof.
    intros Ea El. apply alloc_shape in Ea as [i [_ [-> [En ->]]]].
    rewrite (next_unique_base _ _ _ El) in En. injection En as <-.
    eexists. split; [unfold cell_at; simpl; rewrite nth_error_app2, Nat.sub_diag by lia; reflexivity|reflexivity].
  Qed.

  (* in general: the digest, or the digest with the first free suffix _k, all smaller ones being taken *)
  Theorem id_is_first_free s c o ps ks s' a :
    alloc H ct s c o ps ks = Some (s', a) ->
    exists cl k, cell_at s' a = Some cl /\
      k_id cl = cand (H (id_data_of ct current c o ps (kd_of (heap s) ks))) k /\
      get_any s (k_id cl) = None.
  Proof.
    intro Ea. apply alloc_shape in Ea as [i [Hi [-> [En ->]]]].
    assert (Hk : forall fuel k0 r j, next_unique (H (id_data_of ct current c o ps (kd_of (heap s) ks))) k0 fuel r = Some j ->
                 exists k, j = cand (H (id_data_of ct current c o ps (kd_of (heap s) ks))) k).
    { induction fuel as [|f IH]; intros k0 r j; simpl; destruct (lookup _ r); try discriminate; eauto;
        intros [= <-]; eauto. }
    destruct (Hk _ _ _ _ En) as [k ->].
    eexists; exists k. split; [unfold cell_at; simpl; rewrite nth_error_app2, Nat.sub_diag by lia; reflexivity|].
    split; [reflexivity|exact Hi].
  Qed.

  (* the preimage reads the origin through its fqn only and the properties through the comparable ones only *)
  Theorem id_data_deps vr c o o' ps ps' kd :
    ofqn o = ofqn o' -> enc_props ct c ps = enc_props ct c ps' ->
    id_data_of ct vr c o ps kd = id_data_of ct vr c o' ps' kd.
  Proof. intros Eo Ep. unfold id_data_of, props_data. now rewrite Eo, Ep. Qed.
End Ids.

(* ================= the defect repaired by D4, against the code before the repair ================= *)
Definition demo_ct : ctable := [{| cd_name := lit "A"; cd_bases := []; cd_own := [] |}].
Definition demo_H (s : pystr) : pystr := s.
Definition demo_ops : list op :=
  [New 0 (lit "A") ONo [] []; DetachSelf (0, 0); New 1 (lit "A") ONo [] []; DetachSelf (0, 0)].
Definition demo (fx : bool) : st := run demo_H demo_ct fx (init_st 2) demo_ops.

(* unrepaired: after x.detach_self(); y = twin; x.detach_self() the live, never detached y (address 1) is not found *)
Lemma refuted_double_detach :
  let s := demo false in
  exists c, cell_at s 1 = Some c /\ reachable s 1 = true /\ ~ In 1 (det s) /\ ~ In 1 (gone s) /\
            get_any s (k_id c) = None.
Proof.
  eexists. split; [vm_compute; reflexivity|]. split; [vm_compute; reflexivity|].
  split; [vm_compute; intuition lia|]. split; [vm_compute; intuition lia|]. vm_compute. reflexivity.
Qed.
Lemma repaired_double_detach :
  let s := demo true in exists c, cell_at s 1 = Some c /\ get_any s (k_id c) = Some 1.
Proof. eexists. split; vm_compute; reflexivity. Qed.

(* ================= C14: duplicate ================= *)
Lemma nodup_app_disjoint {A} (l1 l2 : list A) x : NoDup (l1 ++ l2) -> In x l1 -> ~ In x l2.
Proof.
  induction l1 as [|y l1 IH]; simpl; [tauto|]. intro Hnd. inversion Hnd; subst.
  intros [->|Hin]; [|auto]. intro Hx. apply H1. apply in_or_app. auto.
Qed.

Lemma pre_above n s' : range_ok n s' ->
  forall fuel a x, n <= a -> In x (pre (heap s') fuel a) -> n <= x.
Proof.
  intro Hr. induction fuel as [|f IH]; simpl; [tauto|]. intros a x Ha.
  destruct (nth_error (heap s') a) as [c|] eqn:E; [|simpl; tauto].
  intros [<-|Hin]; auto. apply in_flat_map in Hin as [k [Hk Hx]].
  assert (Hlt : a < length (heap s')) by (apply nth_error_Some; congruence).
  destruct (Hr a) as [c' [Hc' [Hkids _]]]; [lia|]. unfold cell_at in Hc'. rewrite E in Hc'. injection Hc' as <-.
  eapply IH; [|exact Hx]. auto.
Qed.

Section Copies.
  Variable H : pystr -> pystr.
  Variable ct : ctable.

  (* every node of the copy is a new object, registered under its id *)
  Theorem dup_fresh fuel s a s' a' : Inv0 s -> dup H ct fuel s a = Some (s', a') ->
    forall x, In x (tree_of s' a') ->
      length (heap s) <= x /\ exists c, cell_at s' x = Some c /\ get_any s' (k_id c) = Some x.
  Proof.
    intros Hs Ed x Hx. destruct (dup_spec H ct _ _ _ _ _ Hs Ed) as [Hs' [[G Hr] Ha']].
    assert (Hge : length (heap s) <= x) by (apply (pre_above _ _ Hr (length (heap s')) a' x); [lia|exact Hx]).
    split; auto. apply pre_in_bound in Hx. destruct (Hr x) as [c [Hc [_ Hin]]]; [lia|].
    exists c. split; auto. apply in_lookup; auto. apply (I_fun _ Hs').
  Qed.

  (* ... and its id is the id of no node registered before the call *)
  Theorem dup_ids_disjoint fuel s a s' a' : Inv0 s -> dup H ct fuel s a = Some (s', a') ->
    forall x c, In x (tree_of s' a') -> cell_at s' x = Some c -> get_any s (k_id c) = None.
  Proof.
    intros Hs Ed x c Hx Hc. destruct (dup_spec H ct _ _ _ _ _ Hs Ed) as [Hs' [[G Hr] Ha']].
    assert (Hge : length (heap s) <= x) by (apply (pre_above _ _ Hr (length (heap s')) a' x); [lia|exact Hx]).
    apply pre_in_bound in Hx. destruct (Hr x) as [c' [Hc' [_ Hin]]]; [lia|]. rewrite Hc in Hc'. injection Hc' as <-.
    destruct G as [_ [[nr Hnr] _]]. pose proof (I_fun _ Hs') as Hnd. rewrite Hnr in Hnd, Hin.
    unfold keys in Hnd. rewrite map_app in Hnd.
    apply in_app_or in Hin as [Hin|Hin].
    - apply lookup_notin. eapply nodup_app_disjoint; eauto. now apply in_keys in Hin.
    - exfalso. destruct (I_ok _ Hs _ _ Hin) as [c0 [Hc0 _]]. apply cell_at_lt in Hc0. lia.
  Qed.

  (* duplicate never runs out of fuel: the recursion follows children, which have smaller addresses *)
  Lemma mapM_st_some {S A B} (f : S -> A -> option (S * B)) (P : S -> Prop) :
    forall l, (forall s x, In x l -> P s -> exists s' y, f s x = Some (s', y) /\ P s') ->
    forall s, P s -> exists s' ys, mapM_st f s l = Some (s', ys) /\ P s'.
  Proof.
    induction l as [|x l IH]; simpl; intros Hf s Hs; [eauto|].
    destruct (Hf s x (or_introl eq_refl) Hs) as [s1 [y [-> Hs1]]].
    destruct (IH (fun s x Hin => Hf s x (or_intror Hin)) s1 Hs1) as [s2 [ys [-> Hs2]]]. eauto.
  Qed.

  Lemma dup_total : forall fuel s0 s a, Inv0 s0 -> Inv0 s -> grow s0 s -> a < fuel -> a < length (heap s0) ->
    exists s' a', dup H ct fuel s a = Some (s', a').
  Proof.
    induction fuel as [|f IH]; intros s0 s a Hs0 Hs G Hlt Ha; [lia|]. simpl.
    destruct (cell_at s0 a) as [c|] eqn:Ec0; [|apply nth_error_None in Ec0; lia].
    rewrite (grow_cell _ _ _ _ G Ec0).
    pose (P := fun t : st => Inv0 t /\ grow s0 t).
    assert (Hin : forall t k, In k (k_kids c) -> P t -> exists t' y,
       match mapM_st (dup H ct f) t (snd (snd k)) with
       | Some (t', l) => Some (t', (fst k, (fst (snd k), l)))
       | None => None
       end = Some (t', y) /\ P t').
    { intros t k Hk [Ht Gt].
      destruct (mapM_st_some (dup H ct f) P (snd (snd k))) with (s := t) as [t' [ys [E Ht']]].
      - intros t1 x Hx [Ht1 Gt1].
        assert (x < a) by (eapply (I_heap _ Hs0); eauto; unfold all_kids; apply in_flat_map; eauto).
        destruct (IH s0 t1 x Hs0 Ht1 Gt1) as [t2 [y E]]; try lia.
        exists t2, y. split; auto. destruct (dup_spec H ct _ _ _ _ _ Ht1 E) as [Ht2 [[G2 _] _]].
        split; auto. eapply grow_trans; eauto.
      - split; auto.
      - rewrite E. eauto. }
    destruct (mapM_st_some _ P (k_kids c) Hin s) as [s1 [ks' [-> [Hs1 G1]]]]; [split; auto|].
    destruct (alloc H ct s1 (k_cls c) (k_org c) (k_props c) ks') as [[s' a']|] eqn:Ea;
      [eauto|exfalso; revert Ea; apply alloc_some].
  Qed.

  Theorem dup_never_out_of_fuel s a : Inv0 s -> a < length (heap s) ->
    dup H ct (length (heap s)) s a <> None.
  Proof.
    intros Hs Ha. destruct (dup_total (length (heap s)) s s a Hs Hs (grow_refl s) Ha Ha) as [s' [a' ->]]. discriminate.
  Qed.
End Copies.

(* ================= C14: replace ================= *)
Lemma assoc_map_upd {A} (g : pystr -> A -> A) (l : list (pystr * A)) n :
  assoc n (map (fun k => (fst k, g (fst k) (snd k))) l) = option_map (g n) (assoc n l).
Proof.
  induction l as [|[k v] l IH]; simpl; auto.
  destruct (pystr_eqb_spec k n) as [->|Hne]; auto.
Qed.

Section Replace.
  Variable H : pystr -> pystr.
  Variable ct : ctable.

  Lemma new_kids_upd c ch : new_kids c ch =
    map (fun k => (fst k, (fun n old => match assoc n ch with Some (VKids v) => v | _ => old end) (fst k) (snd k))) (k_kids c).
  Proof. unfold new_kids. apply map_ext. intros [n v]; simpl. destruct (assoc n ch) as [[| |]|]; auto. Qed.
  Lemma new_props_upd c ch : new_props c ch =
    map (fun k => (fst k, (fun n old => match assoc n ch with Some (VProp v) => v | _ => old end) (fst k) (snd k))) (k_props c).
  Proof. unfold new_props. apply map_ext. intros [n v]; simpl. destruct (assoc n ch) as [[| |]|]; auto. Qed.

  (* dataclasses.replace and ASTNode.replace: same class; a changed field holds the given value, every other
     field holds what the original holds (children: the very same addresses) *)
  Theorem dc_replace_fields s a ch s' a' c : cell_at s a = Some c -> dc_replace H ct s a ch = (s', OkNode a') ->
    exists c', cell_at s' a' = Some c' /\ a' = length (heap s) /\ k_cls c' = k_cls c /\
      k_org c' = (match assoc (lit "origin") ch with Some (VOrigin o) => o | _ => k_org c end) /\
      (forall n, assoc n (k_props c') =
                 option_map (fun old => match assoc n ch with Some (VProp v) => v | _ => old end) (assoc n (k_props c))) /\
      (forall n, assoc n (k_kids c') =
                 option_map (fun old => match assoc n ch with Some (VKids v) => v | _ => old end) (assoc n (k_kids c))).
  Proof.
    intros Ec. unfold dc_replace. rewrite Ec. destruct (dc_check _ _ _); [discriminate|].
    destruct (alloc _ _ _ _ _ _ _) as [[s1 a1]|] eqn:Ea; [|discriminate]. intros [= <- <-].
    apply alloc_shape in Ea as [i [_ [-> [_ ->]]]].
    eexists. split; [unfold cell_at; simpl; rewrite nth_error_app2, Nat.sub_diag by lia; reflexivity|].
    simpl. repeat split; auto.
    - intro n. rewrite new_props_upd.
      exact (assoc_map_upd (fun n old => match assoc n ch with Some (VProp v) => v | _ => old end) (k_props c) n).
    - intro n. rewrite new_kids_upd.
      exact (assoc_map_upd (fun n old => match assoc n ch with Some (VKids v) => v | _ => old end) (k_kids c) n).
  Qed.

  (* dataclasses.replace leaves a registered original registered and the copy gets another id *)
  Theorem dc_replace_keeps_orig s a ch s' a' c : cell_at s a = Some c -> get_any s (k_id c) = Some a ->
    dc_replace H ct s a ch = (s', OkNode a') ->
    get_any s' (k_id c) = Some a /\ exists c', cell_at s' a' = Some c' /\ k_id c' <> k_id c /\ get_any s' (k_id c') = Some a'.
  Proof.
    intros Ec El. unfold dc_replace. rewrite Ec. destruct (dc_check _ _ _); [discriminate|].
    destruct (alloc _ _ _ _ _ _ _) as [[s1 a1]|] eqn:Ea; [|discriminate]. intros [= <- <-].
    apply alloc_shape in Ea as [i [Hi [-> [_ ->]]]]. unfold get_any in *. simpl.
    assert (Hne : i <> k_id c) by congruence.
    split.
    - destruct (pystr_eqb_spec (k_id c) i); [congruence|auto].
    - eexists. split; [unfold cell_at; simpl; rewrite nth_error_app2, Nat.sub_diag by lia; reflexivity|].
      simpl. split; auto. now rewrite pystr_eqb_refl.
  Qed.

  (* ASTNode.replace = unregister the original (if it is registered), then dataclasses.replace *)
  Theorem replace_is_fresh_construction s a ch s' a' : replace H ct true s a ch = (s', OkNode a') ->
    dc_replace H ct (fst (detach_self true s a)) a ch = (s', OkNode a').
  Proof.
    unfold replace. destruct (cell_at s a) as [c|] eqn:Ec; [|discriminate].
    destruct (dc_replace H ct (fst (detach_self true s a)) a ch) as [s2 r2] eqn:Ed.
    destruct r2; try discriminate; auto.
    destruct (match lookup (k_id c) (reg s) with Some b => _ | None => None end); discriminate.
  Qed.

  Lemma dc_replace_ghost s a ch s' a' : dc_replace H ct s a ch = (s', OkNode a') ->
    det s' = det s /\ gone s' = gone s /\ vars s' = vars s.
  Proof.
    unfold dc_replace. destruct (cell_at s a); [|discriminate]. destruct (dc_check _ _ _); [discriminate|].
    destruct (alloc _ _ _ _ _ _ _) as [[s1 a1]|] eqn:Ea; [|discriminate]. intros [= <- <-].
    apply alloc_shape in Ea as [i [_ [_ [_ ->]]]]. simpl. auto.
  Qed.

  Theorem replace_unregisters s a ch s' a' c : Inv0 s -> changes_below (length (heap s)) ch ->
    cell_at s a = Some c -> replace H ct true s a ch = (s', OkNode a') ->
    In a (det s') /\ get_any s' (k_id c) <> Some a.
  Proof.
    intros Hs Hch Ec Er. pose proof (replace_inv H ct _ _ _ _ _ Hs Hch Er) as Hs'.
    apply replace_is_fresh_construction in Er.
    assert (Hd : In a (det (fst (detach_self true s a)))).
    { unfold detach_self. rewrite Ec. destruct (lookup _ _); [destruct (_ && _)|]; simpl; auto. }
    destruct (dc_replace_ghost _ _ _ _ _ Er) as [Hdet _]. rewrite <- Hdet in Hd.
    split; auto. intro E. apply lookup_in in E. destruct (I_det _ Hs' _ _ E). auto.
  Qed.

  (* corollary: when the original is registered and carries exactly the digest the new content hashes to
     (only non-comparable fields changed; no twin holds the id), the new node takes over the original's id *)
  Theorem replace_keeps_id s a ch s' a' c : cell_at s a = Some c -> get_any s (k_id c) = Some a ->
    replace H ct true s a ch = (s', OkNode a') ->
    k_id c = H (id_data_of ct current (k_cls c) (new_origin c ch) (new_props c ch) (kd_of (heap s) (new_kids c ch))) ->
    exists c', cell_at s' a' = Some c' /\ k_id c' = k_id c.
  Proof.
    intros Ec El Er Eid. apply replace_is_fresh_construction in Er.
    rewrite (detach_self_registered _ _ _ Ec El) in Er. simpl in Er.
    unfold dc_replace in Er. unfold cell_at in Er; simpl in Er. fold (cell_at s a) in Er. rewrite Ec in Er.
    destruct (dc_check _ _ _); [discriminate|].
    destruct (alloc _ _ _ _ _ _ _) as [[s1 a1]|] eqn:Ea; [|discriminate]. injection Er as <- <-.
    destruct (id_deterministic H ct _ _ _ _ _ _ _ Ea) as [cl [Hc Hi]].
    - simpl. rewrite <- Eid. unfold get_any. simpl. apply lookup_remove_same.
    - exists cl. split; auto. rewrite Hi. simpl. now rewrite <- Eid.
  Qed.
End Replace.

(* ================= C10: no step changes an existing cell (either variant of detach) ================= *)
Definition hext (s s' : st) : Prop := exists ext, heap s' = heap s ++ ext.
Lemma hext_refl s : hext s s. Proof. exists []. now rewrite app_nil_r. Qed.
Lemma hext_trans a b c : hext a b -> hext b c -> hext a c.
Proof. intros [e1 H1] [e2 H2]. exists (e1 ++ e2). now rewrite H2, H1, app_assoc. Qed.
Lemma hext_eq s s' : heap s' = heap s -> hext s s'.
Proof. intro E. exists []. now rewrite app_nil_r. Qed.

Section FrameProofs.
  Variable H : pystr -> pystr.
  Variable ct : ctable.
  Variable fx : bool.

  Lemma alloc_hext s c o ps ks s' a : alloc H ct s c o ps ks = Some (s', a) -> hext s s'.
  Proof. intro Ea. apply alloc_shape in Ea as [i [_ [_ [_ ->]]]]. eexists; reflexivity. Qed.

  Lemma dup_hext : forall fuel s a s' a', dup H ct fuel s a = Some (s', a') -> hext s s'.
  Proof.
    induction fuel as [|f IH]; simpl; intros s a s' a'; [discriminate|].
    destruct (cell_at s a) as [c|]; [|discriminate].
    destruct (mapM_st _ s (k_kids c)) as [[s1 ks']|] eqn:Em; [|discriminate]. intro Ea.
    assert (H1 : hext s s1).
    { refine (proj1 (proj2 (mapM_st_spec _ (fun _ => True) hext (fun _ _ => True) hext_refl hext_trans
                               (fun _ _ _ _ _ => I) _ _ _ _ _ I Em))).
      intros t k t' y _. destruct (mapM_st (dup H ct f) t (snd (snd k))) as [[t1 l]|] eqn:E1; [|discriminate].
      intros [= <- <-]. split; auto. split; auto.
      refine (proj1 (proj2 (mapM_st_spec _ (fun _ => True) hext (fun _ _ => True) hext_refl hext_trans
                               (fun _ _ _ _ _ => I) _ _ _ _ _ I E1))).
      intros t2 x t3 y2 _ Ed. split; auto. split; auto. eapply IH; eauto. }
    eapply hext_trans; eauto. eapply alloc_hext; eauto.
  Qed.

  Lemma dc_replace_hext s a ch s' r : dc_replace H ct s a ch = (s', r) -> hext s s'.
  Proof.
    unfold dc_replace. destruct (cell_at s a); [|intros [= <- _]; apply hext_refl].
    destruct (dc_check _ _ _); [intros [= <- _]; apply hext_refl|].
    destruct (alloc _ _ _ _ _ _ _) as [[s1 a1]|] eqn:Ea; intros [= <- _]; [eapply alloc_hext; eauto|apply hext_refl].
  Qed.

  Lemma replace_hext s a ch s' r : replace H ct fx s a ch = (s', r) -> hext s s'.
  Proof.
    unfold replace. destruct (cell_at s a) as [c|]; [|intros [= <- _]; apply hext_refl].
    destruct (detach_self_frame fx s a) as [Hh _].
    destruct (dc_replace H ct (fst (detach_self fx s a)) a ch) as [s2 r2] eqn:Ed.
    apply dc_replace_hext in Ed.
    assert (H2 : hext s s2) by (eapply hext_trans; [apply hext_eq; exact Hh|exact Ed]).
    destruct r2; try (intros [= <- _]; exact H2).
    destruct (match lookup (k_id c) (reg s) with Some b => _ | None => None end); intros [= <- _]; exact H2.
  Qed.

  Lemma bind_hext dst r s : hext s (fst r) -> hext s (fst (bind dst r)).
  Proof. destruct r as [s1 [| a | b | e | | |]]; simpl; auto. Qed.

  Lemma step_hext s o : hext s (fst (step H ct fx s o)).
  Proof.
    unfold step. destruct (step_raw H ct fx s o) as [s' r] eqn:E. simpl.
    assert (Hx : hext s s'); [|destruct Hx as [e He]; exists e; exact He].
    replace s' with (fst (step_raw H ct fx s o)) by now rewrite E. clear E.
    destruct o as [dst c og ps ks|dst src|dst src ch|dst src ch|x|x|v|x k]; simpl.
    - destruct (negb _); [apply hext_refl|]. destruct (new_args ct s c ps ks); try apply hext_refl.
      destruct (alloc H ct s c og ps x) as [[s1 a]|] eqn:Ea; [|apply hext_refl]. simpl.
      apply alloc_hext in Ea. destruct Ea as [e He]. exists e. exact He.
    - destruct (negb _); [apply hext_refl|]. destruct (resolve s src) as [a|]; [|apply hext_refl].
      destruct (dup H ct (length (heap s)) s a) as [[s1 a']|] eqn:Ed; [|apply hext_refl]. simpl.
      apply dup_hext in Ed. destruct Ed as [e He]. exists e. exact He.
    - destruct (negb _); [apply hext_refl|]. destruct (resolve s src) as [a|]; [|apply hext_refl].
      destruct (cell_at s a) as [c|]; [|apply hext_refl].
      destruct (changes ct s (k_cls c) ch); try apply hext_refl.
      apply bind_hext. destruct (dc_replace H ct s a x) as [s1 r1] eqn:Ed. eapply dc_replace_hext; eauto.
    - destruct (negb _); [apply hext_refl|]. destruct (resolve s src) as [a|]; [|apply hext_refl].
      destruct (cell_at s a) as [c|]; [|apply hext_refl].
      destruct (changes ct s (k_cls c) ch); try apply hext_refl.
      apply bind_hext. destruct (replace H ct fx s a x) as [s1 r1] eqn:Ed. eapply replace_hext; eauto.
    - destruct (resolve s x) as [a|]; [|apply hext_refl]. simpl. apply hext_eq.
      apply (fold_detach_frame fx (tree_of s a) s).
    - destruct (resolve s x) as [a|]; [|apply hext_refl].
      destruct (detach_self_frame fx s a) as [Hh _]. destruct (detach_self fx s a). apply hext_eq. exact Hh.
    - apply hext_eq. reflexivity.
    - destruct (resolve s x); apply hext_refl.
  Qed.

  Theorem heap_frame s o a : a < length (heap s) ->
    nth_error (heap (fst (step H ct fx s o))) a = nth_error (heap s) a.
  Proof. intro Ha. destruct (step_hext s o) as [e ->]. now apply nth_error_app1. Qed.

  Theorem run_heap_frame l : forall s a, a < length (heap s) ->
    nth_error (heap (run H ct fx s l)) a = nth_error (heap s) a.
  Proof.
    induction l as [|o l IH]; simpl; auto. intros s a Ha.
    rewrite IH; [now apply heap_frame|]. destruct (step_hext s o) as [e ->]. rewrite app_length. lia.
  Qed.
End FrameProofs.

(* ================= no fuelled loop runs out ================= *)
Section Fuel.
  Variable H : pystr -> pystr.
  Variable ct : ctable.

  Lemma dc_replace_no_fuel s a ch : snd (dc_replace H ct s a ch) <> FuelOut.
  Proof.
    unfold dc_replace. destruct (cell_at s a); [|discriminate]. destruct (dc_check _ _ _); [discriminate|].
    destruct (alloc _ _ _ _ _ _ _) as [[s1 a1]|] eqn:Ea; [discriminate|]. exfalso. revert Ea. apply alloc_some.
  Qed.
  Lemma bind_snd dst r : snd r <> FuelOut -> snd (bind dst r) <> FuelOut.
  Proof. destruct r as [s1 [| a | b | e | | |]]; simpl; auto. Qed.

  Theorem step_no_fuel_out s o : RInv s -> snd (step H ct true s o) <> FuelOut.
  Proof.
    intros [Hs _]. unfold step. destruct (step_raw H ct true s o) as [s' r] eqn:E. simpl.
    replace r with (snd (step_raw H ct true s o)) by now rewrite E. clear E.
    destruct o as [dst c og ps ks|dst src|dst src ch|dst src ch|x|x|v|x k]; simpl.
    - destruct (negb _); [discriminate|]. destruct (new_args ct s c ps ks); try discriminate.
      destruct (alloc H ct s c og ps x) as [[s1 a]|] eqn:Ea; [discriminate|]. exfalso. revert Ea. apply alloc_some.
    - destruct (negb _); [discriminate|]. destruct (resolve s src) as [a|] eqn:Er; [|discriminate].
      destruct (dup H ct (length (heap s)) s a) as [[s1 a']|] eqn:Ed; [discriminate|].
      exfalso. revert Ed. apply dup_never_out_of_fuel; auto. eapply resolve_lt; eauto.
    - destruct (negb _); [discriminate|]. destruct (resolve s src) as [a|]; [|discriminate].
      destruct (cell_at s a) as [c|]; [|discriminate]. destruct (changes ct s (k_cls c) ch); try discriminate.
      apply bind_snd. apply dc_replace_no_fuel.
    - destruct (negb _); [discriminate|]. destruct (resolve s src) as [a|]; [|discriminate].
      destruct (cell_at s a) as [c|] eqn:Ec; [|discriminate]. destruct (changes ct s (k_cls c) ch); try discriminate.
      apply bind_snd. unfold replace. rewrite Ec.
      pose proof (dc_replace_no_fuel (fst (detach_self true s a)) a x) as Hn.
      destruct (dc_replace H ct (fst (detach_self true s a)) a x) as [s2 r2]. simpl in Hn.
      destruct r2; try discriminate; auto.
      destruct (match lookup (k_id c) (reg s) with Some b => _ | None => None end); discriminate.
    - destruct (resolve s x); discriminate.
    - destruct (resolve s x); [|discriminate]. destruct (detach_self true s n). discriminate.
    - discriminate.
    - destruct (resolve s x); discriminate.
  Qed.
End Fuel.

(* ================= example states (premises of the theorems are inhabited) ================= *)
Definition ex_ct : ctable :=
  [{| cd_name := lit "A"; cd_bases := [];
      cd_own := [{| fd_name := lit "v"; fd_role := RProp; fd_compare := true; fd_init := true; fd_kwonly := false |};
                 {| fd_name := lit "note"; fd_role := RProp; fd_compare := false; fd_init := true; fd_kwonly := false |}] |};
   {| cd_name := lit "B"; cd_bases := [];
      cd_own := [{| fd_name := lit "xs"; fd_role := RChild KTup; fd_compare := true; fd_init := true; fd_kwonly := false |}] |}].
Definition ex_leaf (dst : nat) (v : Z) : op :=
  New dst (lit "A") ONo [(lit "v", VInt v); (lit "note", VStr (lit "n"))] [].
Definition ex_ops : list op :=
  [ex_leaf 0 1; ex_leaf 1 1; New 2 (lit "B") ONo [] [(lit "xs", (ShMany, [(0, 0); (1, 0)]))];
   DetachSelf (0, 0); Drop 1].
(* a one-character "digest": plenty of collisions *)
Definition ex_H (s : pystr) : pystr := firstn 1 (rev s).
Definition ex_state : st := run ex_H ex_ct true (init_st 4) ex_ops.

Lemma ex_state_inv : RInv ex_state.
Proof. apply run_inv. apply inv_init. Qed.
