(* Proofs about the registry state machine (Model/Registry.v): for EVERY digest H (collisions allowed). *)
From Oak Require Import Model.Registry.
From Coq Require Import FinFun.

(* ================= the dictionary ================= *)
Lemma lookup_in i r a : lookup i r = Some a -> In (i, a) r.
Proof.
  induction r as [|[j b] r IH]; simpl; [discriminate|].
  destruct (pystr_eqb_spec i j); [intros [= ->]; subst; auto|auto].
Qed.
Lemma lookup_none i r : lookup i r = None -> ~ In i (keys r).
Proof.
  induction r as [|[j b] r IH]; simpl; [tauto|].
  destruct (pystr_eqb_spec i j); [discriminate|]. intros E [->|Hin]; [congruence|]. now apply IH.
Qed.
Lemma lookup_notin i r : ~ In i (keys r) -> lookup i r = None.
Proof.
  induction r as [|[j b] r IH]; simpl; auto. intros Hn.
  destruct (pystr_eqb_spec i j); [subst; tauto|]. apply IH. tauto.
Qed.
Lemma in_lookup i a r : NoDup (keys r) -> In (i, a) r -> lookup i r = Some a.
Proof.
  induction r as [|[j b] r IH]; simpl; [tauto|]. intros Hnd [E|Hin].
  - injection E as -> ->. now rewrite pystr_eqb_refl.
  - inversion Hnd; subst. destruct (pystr_eqb_spec i j).
    + subst. exfalso. apply H1. change j with (fst (j, a)). now apply in_map.
    + auto.
Qed.
Lemma in_keys i a (r : list (pystr * nat)) : In (i, a) r -> In i (keys r).
Proof. intro Hin. change i with (fst (i, a)). now apply in_map. Qed.

Lemma remove_in i r : forall j a, In (j, a) (remove_id i r) <-> In (j, a) r /\ j <> i.
Proof.
  induction r as [|[k b] r IH]; simpl; [tauto|]. intros j a.
  destruct (pystr_eqb_spec i k).
  - rewrite IH. subst. split; [tauto|]. intros [[E|Hin] Hne]; [congruence|auto].
  - simpl. rewrite IH. split.
    + intros [E|[Hin Hne]]; [injection E as <- <-; auto|auto].
    + intros [[E|Hin] Hne]; auto.
Qed.
Lemma remove_keys i r j : In j (keys (remove_id i r)) -> In j (keys r) /\ j <> i.
Proof.
  unfold keys. rewrite in_map_iff. intros [[k a] [<- Hin]]. apply remove_in in Hin as [Hin Hne].
  split; auto. now apply in_keys in Hin.
Qed.
Lemma remove_nodup i r : NoDup (keys r) -> NoDup (keys (remove_id i r)).
Proof.
  induction r as [|[k b] r IH]; simpl; [auto|]. intro Hnd. inversion Hnd; subst.
  destruct (pystr_eqb_spec i k); [auto|]. simpl. constructor; auto.
  intro Hin. apply remove_keys in Hin as [? _]. auto.
Qed.
Lemma lookup_remove_same i r : lookup i (remove_id i r) = None.
Proof.
  induction r as [|[k b] r IH]; simpl; auto.
  destruct (pystr_eqb_spec i k); auto. simpl. destruct (pystr_eqb_spec i k); congruence.
Qed.
Lemma lookup_remove_other i j r : j <> i -> lookup j (remove_id i r) = lookup j r.
Proof.
  intro Hne. induction r as [|[k b] r IH]; simpl; auto.
  destruct (pystr_eqb_spec i k).
  - subst. destruct (pystr_eqb_spec j k); congruence.
  - simpl. destruct (pystr_eqb_spec j k); auto.
Qed.
Lemma remove_notin i r : ~ In i (keys r) -> remove_id i r = r.
Proof.
  induction r as [|[k b] r IH]; simpl; auto. intro Hn.
  destruct (pystr_eqb_spec i k); [subst; tauto|]. f_equal. apply IH. tauto.
Qed.

Lemma filter_keys_nodup (P : pystr * nat -> bool) r : NoDup (keys r) -> NoDup (keys (filter P r)).
Proof.
  induction r as [|e r IH]; simpl; auto. intro Hnd. inversion Hnd; subst.
  destruct (P e); simpl; auto. constructor; auto.
  intro Hin. apply H1. unfold keys in *. apply in_map_iff in Hin as [x [E Hx]].
  apply filter_In in Hx as [Hx _]. rewrite <- E. now apply in_map.
Qed.
Lemma filter_all {A} (P : A -> bool) l : (forall x, In x l -> P x = true) -> filter P l = l.
Proof.
  induction l as [|x l IH]; simpl; auto. intro Hall. rewrite (Hall x) by auto. f_equal. apply IH. auto.
Qed.

Lemma memb_in a l : memb a l = true <-> In a l.
Proof.
  unfold memb. rewrite existsb_exists. split.
  - intros [x [Hin E]]. apply Nat.eqb_eq in E. now subst.
  - intro Hin. exists a. split; auto. apply Nat.eqb_refl.
Qed.
Lemma smemb_in a l : smemb a l = true <-> In a l.
Proof.
  unfold smemb. rewrite existsb_exists. split.
  - intros [x [Hin E]]. apply pystr_eqb_eq in E. now subst.
  - intro Hin. exists a. split; auto. apply pystr_eqb_refl.
Qed.

(* ================= _get_next_unique_id terminates and returns an unused id ================= *)
Lemma cand_inj d k k' : cand d k = cand d k' -> k = k'.
Proof.
  unfold cand. destruct k, k'; auto; intro E.
  - exfalso. rewrite <- (app_nil_r d) in E at 1. apply app_inv_head in E. discriminate.
  - exfalso. rewrite <- (app_nil_r d) in E at 2. apply app_inv_head in E. discriminate.
  - apply app_inv_head in E. simpl in E. injection E as E. now apply dec_inj in E.
Qed.

Lemma next_unique_fresh d : forall fuel k r i, next_unique d k fuel r = Some i -> lookup i r = None.
Proof.
  induction fuel as [|f IH]; intros k r i; simpl.
  - destruct (lookup (cand d k) r) eqn:E; [discriminate|]. now intros [= <-].
  - destruct (lookup (cand d k) r) eqn:E; [apply IH|]. now intros [= <-].
Qed.

Lemma next_unique_none d : forall fuel k r, next_unique d k fuel r = None ->
  forall j, k <= j <= k + fuel -> In (cand d j) (keys r).
Proof.
  induction fuel as [|f IH]; intros k r; simpl.
  - destruct (lookup (cand d k) r) eqn:E; [|discriminate]. intros _ j Hj.
    assert (j = k) by lia. subst. apply lookup_in in E. now apply in_keys in E.
  - destruct (lookup (cand d k) r) eqn:E; [|discriminate]. intros Hn j Hj.
    destruct (Nat.eq_dec j k) as [->|Hne].
    + apply lookup_in in E. now apply in_keys in E.
    + apply (IH (S k) r Hn). lia.
Qed.

(* pigeonhole: fuel = number of registered ids is enough *)
Lemma next_unique_total d r : next_unique d 0 (length r) r <> None.
Proof.
  intro E. pose proof (next_unique_none d _ _ _ E) as Hall.
  assert (Hnd : NoDup (map (cand d) (seq 0 (S (length r))))).
  { apply FinFun.Injective_map_NoDup; [|apply seq_NoDup]. intros x y. apply cand_inj. }
  assert (Hincl : incl (map (cand d) (seq 0 (S (length r)))) (keys r)).
  { intros x Hx. apply in_map_iff in Hx as [j [<- Hj]]. apply in_seq in Hj. apply Hall. lia. }
  pose proof (NoDup_incl_length Hnd Hincl) as Hlen.
  rewrite map_length, seq_length in Hlen. unfold keys in Hlen. rewrite map_length in Hlen. lia.
Qed.

Lemma next_unique_ok d r : exists i, next_unique d 0 (length r) r = Some i /\ lookup i r = None.
Proof.
  destruct (next_unique d 0 (length r) r) as [i|] eqn:E.
  - exists i. split; auto. eapply next_unique_fresh; eauto.
  - exfalso. revert E. apply next_unique_total.
Qed.

(* the id is the bare digest whenever that is not taken *)
Lemma next_unique_base d fuel r : lookup d r = None -> next_unique d 0 fuel r = Some d.
Proof. intro E. destruct fuel; simpl; now rewrite E. Qed.

(* ================= the invariant ================= *)
Record Inv0 (s : st) : Prop := {
  I_fun : NoDup (keys (reg s));
  I_ok : forall i a, In (i, a) (reg s) -> exists c, cell_at s a = Some c /\ k_id c = i;
  I_all : forall a c, cell_at s a = Some c -> ~ In a (det s) -> ~ In a (gone s) -> In (k_id c, a) (reg s);
  I_det : forall i a, In (i, a) (reg s) -> ~ In a (det s) /\ ~ In a (gone s);
  I_bound : forall a, In a (det s) \/ In a (gone s) -> a < length (heap s);
  I_heap : forall a c, cell_at s a = Some c -> forall k, In k (all_kids c) -> k < a
}.
(* after a step: additionally every entry of the weak registry is reachable from the variables *)
Definition RInv (s : st) : Prop := Inv0 s /\ forall i a, In (i, a) (reg s) -> reachable s a = true.

Lemma cell_at_lt s a c : cell_at s a = Some c -> a < length (heap s).
Proof. unfold cell_at. intro E. apply nth_error_Some. congruence. Qed.

Lemma inv_init n : RInv (init_st n).
Proof.
  split; [constructor; simpl; try tauto; try constructor|simpl; tauto].
  - intros a c E. unfold cell_at in E; simpl in E. destruct a; discriminate.
  - intros a c E. unfold cell_at in E; simpl in E. destruct a; discriminate.
Qed.

(* ----- collection ----- *)
Lemma gc_reach s : reachable_set (gc s) = reachable_set s.
Proof. reflexivity. Qed.

Lemma gc_inv s : Inv0 s -> RInv (gc s).
Proof.
  intros [Hf Hok Hall Hdet Hb Hh]. split; [constructor|]; simpl.
  - now apply filter_keys_nodup.
  - intros i a Hin. apply filter_In in Hin as [Hin _]. now apply Hok.
  - intros a c Hc Hnd Hng. apply filter_In.
    assert (Hlt : a < length (heap s)) by (eapply cell_at_lt; eauto).
    destruct (memb a (reachable_set s)) eqn:Em.
    + split; auto. apply Hall; auto. intro Hg. apply Hng. apply filter_In. split.
      * apply in_seq. lia.
      * apply memb_in in Hg. rewrite Hg. apply orb_true_r.
    + exfalso. apply Hng. apply filter_In. split; [apply in_seq; lia|]. now rewrite Em.
  - intros i a Hin. apply filter_In in Hin as [Hin Hm]. simpl in Hm. destruct (Hdet _ _ Hin) as [Hd Hg].
    split; auto. intro Hg'. apply filter_In in Hg' as [_ Hg']. rewrite Hm in Hg'. simpl in Hg'.
    apply memb_in in Hg'. auto.
  - intros a [Hd|Hg]; [apply Hb; auto|]. apply filter_In in Hg as [Hs _]. apply in_seq in Hs. lia.
  - exact Hh.
  - intros i a Hin. apply filter_In in Hin as [_ Hm]. exact Hm.
Qed.

Lemma set_var_inv s v x : Inv0 s -> Inv0 (set_var s v x).
Proof. intros [Hf Hok Hall Hdet Hb Hh]. constructor; simpl; auto. Qed.

(* ----- construction ----- *)
Section Inv.
  Variable H : pystr -> pystr.
  Variable ct : ctable.

  Definition mkcell c o ps ks i (hp : list cell) : cell :=
    {| k_cls := c; k_org := o; k_props := ps; k_kids := ks; k_id := i;
       k_cid := H (cid_data_of ct current c ps (kd_of hp ks)) |}.

  Lemma alloc_shape s c o ps ks s' a : alloc H ct s c o ps ks = Some (s', a) ->
    exists i, lookup i (reg s) = None /\ a = length (heap s) /\
      next_unique (H (id_data_of ct current c o ps (kd_of (heap s) ks))) 0 (length (reg s)) (reg s) = Some i /\
      s' = {| heap := heap s ++ [mkcell c o ps ks i (heap s)]; reg := (i, length (heap s)) :: reg s;
              vars := vars s; det := det s; gone := gone s |}.
  Proof.
    unfold alloc. destruct (next_unique _ 0 _ _) as [i|] eqn:E; [|discriminate].
    intros [= <- <-]. exists i. split; [eapply next_unique_fresh; eauto|]. repeat split; auto.
  Qed.

  Lemma alloc_some s c o ps ks : alloc H ct s c o ps ks <> None.
  Proof.
    unfold alloc. destruct (next_unique_ok (H (id_data_of ct current c o ps (kd_of (heap s) ks))) (reg s)) as [i [-> _]].
    discriminate.
  Qed.

  Definition kids_below (n : nat) (ks : kidsr) : Prop :=
    forall k, In k (flat_map (fun k => snd (snd k)) ks) -> k < n.

  Lemma alloc_inv s c o ps ks s' a : Inv0 s -> kids_below (length (heap s)) ks ->
    alloc H ct s c o ps ks = Some (s', a) -> Inv0 s'.
  Proof.
    intros [Hf Hok Hall Hdet Hb Hh] Hk Ea. apply alloc_shape in Ea as [i [Hi [-> [_ ->]]]].
    constructor; simpl.
    - constructor; auto. now apply lookup_none.
    - intros j x [E|Hin].
      + injection E as <- <-. exists (mkcell c o ps ks i (heap s)). split; [|reflexivity].
        unfold cell_at; simpl. rewrite nth_error_app2, Nat.sub_diag by lia. reflexivity.
      + destruct (Hok _ _ Hin) as [cx [Hc Hj]]. exists cx. split; auto.
        unfold cell_at in *; simpl. rewrite nth_error_app1; auto. apply nth_error_Some. congruence.
    - intros x cx Hc Hnd Hng. unfold cell_at in Hc; simpl in Hc.
      destruct (Nat.lt_ge_cases x (length (heap s))) as [Hlt|Hge].
      + rewrite nth_error_app1 in Hc by auto. right. now apply Hall.
      + rewrite nth_error_app2 in Hc by auto.
        destruct (x - length (heap s)) eqn:Ed; simpl in Hc.
        * injection Hc as <-. simpl. left. f_equal. lia.
        * destruct n; discriminate.
    - intros j x [E|Hin]; [|now apply Hdet in Hin].
      injection E as <- <-. split; intro Hx; [specialize (Hb _ (or_introl Hx))|specialize (Hb _ (or_intror Hx))]; lia.
    - intros x Hx. rewrite app_length; simpl. specialize (Hb _ Hx). lia.
    - intros x cx Hc k Hin. unfold cell_at in Hc; simpl in Hc.
      destruct (Nat.lt_ge_cases x (length (heap s))) as [Hlt|Hge].
      + rewrite nth_error_app1 in Hc by auto. eapply Hh; eauto.
      + rewrite nth_error_app2 in Hc by auto.
        destruct (x - length (heap s)) eqn:Ed; simpl in Hc.
        * injection Hc as <-. unfold all_kids in Hin; simpl in Hin. apply Hk in Hin. lia.
        * destruct n; discriminate.
  Qed.

  (* ----- detach_self (after the repair) ----- *)
  Lemma detach_self_inv s a : Inv0 s -> Inv0 (fst (detach_self true s a)).
  Proof.
    intros [Hf Hok Hall Hdet Hb Hh]. unfold detach_self.
    destruct (cell_at s a) as [c|] eqn:Ec; [|constructor; auto].
    assert (Hlt : a < length (heap s)) by (eapply cell_at_lt; eauto).
    assert (Hmark : lookup (k_id c) (reg s) <> Some a -> Inv0 (set_reg s (reg s) (a :: det s))).
    { intro Hne. constructor; simpl.
      - exact Hf.
      - exact Hok.
      - intros x cx Hx Hnd Hng. apply Hall; auto.
      - intros j x Hin. destruct (Hdet _ _ Hin) as [Hd Hg]. split; auto. intros [<-|Hd']; auto.
        destruct (Hok _ _ Hin) as [c' [Hc' Hj]]. rewrite Ec in Hc'. injection Hc' as <-. subst j.
        apply Hne. now apply in_lookup.
      - intros x [[<-|Hd]|Hg]; auto.
      - exact Hh. }
    destruct (lookup (k_id c) (reg s)) as [b|] eqn:El; simpl.
    - destruct (Nat.eqb_spec a b) as [->|Hne]; simpl.
      + constructor; simpl.
        * now apply remove_nodup.
        * intros i x Hin. apply remove_in in Hin as [Hin _]. now apply Hok.
        * intros x cx Hx Hnd Hng. apply remove_in. split; [apply Hall; auto|].
          intro E. assert (Hx' : In (k_id cx, x) (reg s)) by (apply Hall; auto).
          rewrite E in Hx'. apply in_lookup in Hx'; auto. rewrite El in Hx'. injection Hx' as ->. auto.
        * intros j x Hin. apply remove_in in Hin as [Hin Hj]. destruct (Hdet _ _ Hin) as [Hd Hg]. split; auto.
          intros [<-|Hd']; auto. destruct (Hok _ _ Hin) as [c' [Hc' Hj']]. rewrite Ec in Hc'. injection Hc' as <-. auto.
        * intros x [[<-|Hd]|Hg]; auto.
        * exact Hh.
      + apply Hmark. congruence.
    - apply Hmark. congruence.
  Qed.

  Lemma detach_self_frame fx s a :
    heap (fst (detach_self fx s a)) = heap s /\ vars (fst (detach_self fx s a)) = vars s /\ gone (fst (detach_self fx s a)) = gone s.
  Proof.
    unfold detach_self. destruct (cell_at s a); [|auto]. destruct (lookup _ _); [|simpl; auto].
    destruct (fx && _); simpl; auto.
  Qed.

  Lemma fold_detach_inv l : forall s, Inv0 s -> Inv0 (fold_left (fun s x => fst (detach_self true s x)) l s).
  Proof. induction l as [|x l IH]; simpl; auto. intros s Hs. apply IH. now apply detach_self_inv. Qed.
  Lemma fold_detach_frame fx l : forall s,
    let s' := fold_left (fun s x => fst (detach_self fx s x)) l s in
    heap s' = heap s /\ vars s' = vars s /\ gone s' = gone s.
  Proof.
    induction l as [|x l IH]; simpl; auto. intros s.
    destruct (IH (fst (detach_self fx s x))) as [-> [-> ->]]. apply detach_self_frame.
  Qed.
  Lemma detach_inv s a : Inv0 s -> Inv0 (detach true s a).
  Proof. apply fold_detach_inv. Qed.
End Inv.

(* ================= addresses handed to constructions are existing addresses ================= *)
Lemma pre_in_bound hp : forall fuel a x, In x (pre hp fuel a) -> x < length hp.
Proof.
  induction fuel as [|f IH]; simpl; [tauto|]. intros a x.
  destruct (nth_error hp a) as [c|] eqn:E; [|simpl; tauto].
  intros [<-|Hin].
  - apply nth_error_Some. congruence.
  - apply in_flat_map in Hin as [k [_ Hk]]. eapply IH; eauto.
Qed.
Lemma resolve_lt s l a : resolve s l = Some a -> a < length (heap s).
Proof.
  unfold resolve. destruct (nth_error (vars s) (fst l)) as [[r|]|]; try discriminate.
  intro E. apply nth_error_In in E. eapply pre_in_bound; eauto.
Qed.
Lemma resolve_reachable s l a : resolve s l = Some a -> reachable s a = true.
Proof.
  unfold resolve. destruct (nth_error (vars s) (fst l)) as [[r|]|] eqn:Ev; try discriminate.
  intro E. apply nth_error_In in E. apply nth_error_In in Ev.
  apply memb_in. unfold reachable_set. apply in_flat_map. exists r. split; auto.
  unfold roots. apply in_flat_map. exists (Some r). split; simpl; auto.
Qed.

Lemma mapO_in {A B} (f : A -> option B) : forall l l', mapO f l = Some l' ->
  forall y, In y l' -> exists x, In x l /\ f x = Some y.
Proof.
  induction l as [|x l IH]; simpl; intros l'.
  - intros [= <-] y [].
  - destruct (f x) as [y0|] eqn:Ex; [|discriminate]. destruct (mapO f l) as [t|] eqn:Et; [|discriminate].
    intros [= <-] y [<-|Hin]; [exists x; auto|]. destruct (IH _ eq_refl _ Hin) as [x' [? ?]]. exists x'; auto.
Qed.
Lemma mapO_resolve_lt s ls l : mapO (resolve s) ls = Some l -> forall k, In k l -> k < length (heap s).
Proof. intros E k Hin. destruct (mapO_in _ _ _ E _ Hin) as [x [_ Hx]]. eapply resolve_lt; eauto. Qed.

Lemma assoc_in {A} k (l : list (pystr * A)) v : assoc k l = Some v -> In (k, v) l.
Proof.
  induction l as [|[k' v'] l IH]; simpl; [discriminate|].
  destruct (pystr_eqb_spec k' k); [intros [= ->]; subst; auto|auto].
Qed.

Section Inv2.
  Variable H : pystr -> pystr.
  Variable ct : ctable.

  Lemma new_args_below s c ps ks ks' : new_args ct s c ps ks = ROk ks' -> kids_below (length (heap s)) ks'.
  Proof.
    unfold new_args. destruct (find_class ct c); [|discriminate]. destruct (_ && _); [|discriminate].
    destruct (mapO _ ks) as [l|] eqn:E; [|discriminate]. intros [= <-] k Hin.
    apply in_flat_map in Hin as [e [He Hk]]. destruct (mapO_in _ _ _ E _ He) as [x [_ Hx]].
    destruct (mapO (resolve s) (snd (snd x))) as [l0|] eqn:E0; [|discriminate]. simpl in Hx. injection Hx as <-.
    simpl in Hk. eapply mapO_resolve_lt; eauto.
  Qed.

  Definition changes_below (n : nat) (ch : list (pystr * rval)) : Prop :=
    forall name sh l, In (name, VKids (sh, l)) ch -> forall k, In k l -> k < n.

  Lemma changes_are_below s c ch ch' : changes ct s c ch = ROk ch' -> changes_below (length (heap s)) ch'.
  Proof.
    unfold changes. destruct (_ && _); [|discriminate]. destruct (mapO _ ch) as [l|] eqn:E; [|discriminate].
    intros [= <-] name sh l0 Hin k Hk. destruct (mapO_in _ _ _ E _ Hin) as [[n cv] [_ Hx]]. simpl in Hx.
    destruct cv as [v|o|sh' ls]; simpl in Hx; try discriminate.
    destruct (mapO (resolve s) ls) as [l1|] eqn:E1; [|discriminate]. simpl in Hx. injection Hx as _ <- <-.
    eapply mapO_resolve_lt; eauto.
  Qed.

  Lemma new_kids_below s a c ch : Inv0 s -> cell_at s a = Some c -> changes_below (length (heap s)) ch ->
    kids_below (length (heap s)) (new_kids c ch).
  Proof.
    intros Hs Hc Hch k Hin. apply in_flat_map in Hin as [e [He Hk]]. unfold new_kids in He.
    apply in_map_iff in He as [e0 [<- He0]].
    assert (Hold : forall k, In k (snd (snd e0)) -> k < length (heap s)).
    { intros k0 Hk0. apply cell_at_lt in Hc as Hlt.
      assert (k0 < a); [|lia]. eapply (I_heap _ Hs); eauto. unfold all_kids. apply in_flat_map. eauto. }
    destruct (assoc (fst e0) ch) as [[v|o|[sh l]]|] eqn:Ea; auto.
    simpl in Hk. apply assoc_in in Ea. eapply Hch; eauto.
  Qed.

  Lemma dc_replace_raised s a ch s' e : dc_replace H ct s a ch = (s', Raised e) -> s' = s.
  Proof.
    unfold dc_replace. destruct (cell_at s a); [|intros [= <-]; auto].
    destruct (dc_check _ _ _); [intros [= <- _]; auto|].
    destruct (alloc _ _ _ _ _ _ _) as [[s1 a1]|]; intros [= ]; auto.
  Qed.

  Lemma dc_replace_inv s a ch s' r : Inv0 s -> changes_below (length (heap s)) ch ->
    dc_replace H ct s a ch = (s', r) -> Inv0 s'.
  Proof.
    intros Hs Hch. unfold dc_replace. destruct (cell_at s a) as [c|] eqn:Ec; [|intros [= <- _]; auto].
    destruct (dc_check _ _ _); [intros [= <- _]; auto|].
    destruct (alloc _ _ _ _ _ _ _) as [[s1 a1]|] eqn:Ea; intros [= <- _]; auto.
    eapply alloc_inv; eauto. eapply new_kids_below; eauto.
  Qed.

  (* a registry with the same entries in another order *)
  Lemma inv_reg_equiv s r' : Inv0 s -> NoDup (keys r') -> (forall i a, In (i, a) r' <-> In (i, a) (reg s)) ->
    Inv0 (set_reg s r' (det s)).
  Proof.
    intros [Hf Hok Hall Hdet Hb Hh] Hnd Heq. constructor; simpl; auto.
    - intros i a Hin. apply Hok. now apply Heq.
    - intros a c Hc Hd Hg. apply Heq. now apply Hall.
    - intros i a Hin. apply Hdet with i. now apply Heq.
  Qed.

  Lemma restore_equiv i a r : NoDup (keys r) -> In (i, a) r ->
    NoDup (keys (dict_set i a (remove_id i r))) /\
    forall j x, In (j, x) (dict_set i a (remove_id i r)) <-> In (j, x) r.
  Proof.
    intros Hnd Hin. unfold dict_set. split.
    - simpl. constructor; [|now do 2 apply remove_nodup].
      intro Hk. apply remove_keys in Hk as [_ Hk]. congruence.
    - intros j x. simpl. rewrite !remove_in. split.
      + intros [E|[[? _] _]]; auto. now injection E as <- <-.
      + intro Hx. destruct (pystr_eqb_spec j i) as [->|Hne]; [left|right; auto].
        f_equal. apply (in_lookup _ _ _ Hnd) in Hx. apply (in_lookup _ _ _ Hnd) in Hin. congruence.
  Qed.

  Lemma detach_self_registered s a c : cell_at s a = Some c -> lookup (k_id c) (reg s) = Some a ->
    detach_self true s a = (set_reg s (remove_id (k_id c) (reg s)) (a :: det s), true).
  Proof. intros Ec El. unfold detach_self. rewrite Ec, El, Nat.eqb_refl. reflexivity. Qed.
  Lemma detach_self_unregistered s a c : cell_at s a = Some c -> lookup (k_id c) (reg s) <> Some a ->
    detach_self true s a = (set_reg s (reg s) (a :: det s), false).
  Proof.
    intros Ec El. unfold detach_self. rewrite Ec. destruct (lookup _ _) as [b|]; auto.
    destruct (Nat.eqb_spec a b); [congruence|reflexivity].
  Qed.

  Lemma replace_inv s a ch s' r : Inv0 s -> changes_below (length (heap s)) ch ->
    replace H ct true s a ch = (s', r) -> Inv0 s'.
  Proof.
    intros Hs Hch. unfold replace. destruct (cell_at s a) as [c|] eqn:Ec; [|intros [= <- _]; auto].
    pose proof (detach_self_inv s a Hs) as Hs1.
    destruct (detach_self_frame true s a) as [Hh1 _].
    destruct (dc_replace H ct (fst (detach_self true s a)) a ch) as [s2 r2] eqn:Ed.
    assert (Hs2 : Inv0 s2) by (eapply dc_replace_inv; eauto; now rewrite Hh1).
    destruct r2; try (intros [= <- _]; exact Hs2).
    apply dc_replace_raised in Ed. subst s2.
    destruct (lookup (k_id c) (reg s)) as [b|] eqn:El; [|intros [= <- _]; exact Hs2].
    destruct (Nat.eqb_spec a b) as [<-|Hne]; simpl; [|intros [= <- _]; exact Hs2].
    rewrite Ec. rewrite (detach_self_registered _ _ _ Ec El). simpl. intros [= <- _].
    destruct (restore_equiv (k_id c) a (reg s) (I_fun _ Hs) (lookup_in _ _ _ El)) as [Hnd Heq].
    exact (inv_reg_equiv s _ Hs Hnd Heq).
  Qed.
End Inv2.
