(* Proofs about the registry state machine (Model/Registry.v): for EVERY digest H (collisions allowed). *)
From Oak Require Import Model.Registry.
From Coq Require Import FinFun.

(* ================= the dictionary ================= *)
Lemma lookup_in i r a : lookup i r = Some a -> In (i, a) r.
Proof.
  induction r as [|[j b] r IH]; simpl; [discriminate|].
  destruct (pystr_eqb_spec i j); [intros [= ->]; subst; auto|auto].
Qed.
Lemma lookup_none i r : lookup i r = None -> ~ In i (keys r).
Proof.
  induction r as [|[j b] r IH]; simpl; [tauto|].
  destruct (pystr_eqb_spec i j); [discriminate|]. intros E [->|Hin]; [congruence|]. now apply IH.
Qed.
Lemma lookup_notin i r : ~ In i (keys r) -> lookup i r = None.
Proof.
  induction r as [|[j b] r IH]; simpl; auto. intros Hn.
  destruct (pystr_eqb_spec i j); [subst; tauto|]. apply IH. tauto.
Qed.
Lemma in_lookup i a r : NoDup (keys r) -> In (i, a) r -> lookup i r = Some a.
Proof.
  induction r as [|[j b] r IH]; simpl; [tauto|]. intros Hnd [E|Hin].
  - injection E as -> ->. now rewrite pystr_eqb_refl.
  - inversion Hnd; subst. destruct (pystr_eqb_spec i j).
    + subst. exfalso. apply H1. change j with (fst (j, a)). now apply in_map.
    + auto.
Qed.
Lemma in_keys i a (r : list (pystr * nat)) : In (i, a) r -> In i (keys r).
Proof. intro Hin. change i with (fst (i, a)). now apply in_map. Qed.

Lemma remove_in i r : forall j a, In (j, a) (remove_id i r) <-> In (j, a) r /\ j <> i.
Proof.
  induction r as [|[k b] r IH]; simpl; [tauto|]. intros j a.
  destruct (pystr_eqb_spec i k).
  - rewrite IH. subst. split; [tauto|]. intros [[E|Hin] Hne]; [congruence|auto].
  - simpl. rewrite IH. split.
    + intros [E|[Hin Hne]]; [injection E as <- <-; auto|auto].
    + intros [[E|Hin] Hne]; auto.
Qed.
Lemma remove_keys i r j : In j (keys (remove_id i r)) -> In j (keys r) /\ j <> i.
Proof.
  unfold keys. rewrite in_map_iff. intros [[k a] [<- Hin]]. apply remove_in in Hin as [Hin Hne].
  split; auto. now apply in_keys in Hin.
Qed.
Lemma remove_nodup i r : NoDup (keys r) -> NoDup (keys (remove_id i r)).
Proof.
  induction r as [|[k b] r IH]; simpl; [auto|]. intro Hnd. inversion Hnd; subst.
  destruct (pystr_eqb_spec i k); [auto|]. simpl. constructor; auto.
  intro Hin. apply remove_keys in Hin as [? _]. auto.
Qed.
Lemma lookup_remove_same i r : lookup i (remove_id i r) = None.
Proof.
  induction r as [|[k b] r IH]; simpl; auto.
  destruct (pystr_eqb_spec i k); auto. simpl. destruct (pystr_eqb_spec i k); congruence.
Qed.
Lemma lookup_remove_other i j r : j <> i -> lookup j (remove_id i r) = lookup j r.
Proof.
  intro Hne. induction r as [|[k b] r IH]; simpl; auto.
  destruct (pystr_eqb_spec i k).
  - subst. destruct (pystr_eqb_spec j k); congruence.
  - simpl. destruct (pystr_eqb_spec j k); auto.
Qed.
Lemma remove_notin i r : ~ In i (keys r) -> remove_id i r = r.
Proof.
  induction r as [|[k b] r IH]; simpl; auto. intro Hn.
  destruct (pystr_eqb_spec i k); [subst; tauto|]. f_equal. apply IH. tauto.
Qed.

Lemma filter_keys_nodup (P : pystr * nat -> bool) r : NoDup (keys r) -> NoDup (keys (filter P r)).
Proof.
  induction r as [|e r IH]; simpl; auto. intro Hnd. inversion Hnd; subst.
  destruct (P e); simpl; auto. constructor; auto.
  intro Hin. apply H1. unfold keys in *. apply in_map_iff in Hin as [x [E Hx]].
  apply filter_In in Hx as [Hx _]. rewrite <- E. now apply in_map.
Qed.
Lemma filter_all {A} (P : A -> bool) l : (forall x, In x l -> P x = true) -> filter P l = l.
Proof.
  induction l as [|x l IH]; simpl; auto. intro Hall. rewrite (Hall x) by auto. f_equal. apply IH. auto.
Qed.

Lemma memb_in a l : memb a l = true <-> In a l.
Proof.
  unfold memb. rewrite existsb_exists. split.
  - intros [x [Hin E]]. apply Nat.eqb_eq in E. now subst.
  - intro Hin. exists a. split; auto. apply Nat.eqb_refl.
Qed.
Lemma smemb_in a l : smemb a l = true <-> In a l.
Proof.
  unfold smemb. rewrite existsb_exists. split.
  - intros [x [Hin E]]. apply pystr_eqb_eq in E. now subst.
  - intro Hin. exists a. split; auto. apply pystr_eqb_refl.
Qed.

(* ================= _get_next_unique_id terminates and returns an unused id ================= *)
Lemma cand_inj d k k' : cand d k = cand d k' -> k = k'.
Proof.
  unfold cand. destruct k, k'; auto; intro E.
  - exfalso. rewrite <- (app_nil_r d) in E at 1. apply app_inv_head in E. discriminate.
  - exfalso. rewrite <- (app_nil_r d) in E at 2. apply app_inv_head in E. discriminate.
  - apply app_inv_head in E. simpl in E. injection E as E. now apply dec_inj in E.
Qed.

Lemma next_unique_fresh d : forall fuel k r i, next_unique d k fuel r = Some i -> lookup i r = None.
Proof.
  induction fuel as [|f IH]; intros k r i; simpl.
  - destruct (lookup (cand d k) r) eqn:E; [discriminate|]. now intros [= <-].
  - destruct (lookup (cand d k) r) eqn:E; [apply IH|]. now intros [= <-].
Qed.

Lemma next_unique_none d : forall fuel k r, next_unique d k fuel r = None ->
  forall j, k <= j <= k + fuel -> In (cand d j) (keys r).
Proof.
  induction fuel as [|f IH]; intros k r; simpl.
  - destruct (lookup (cand d k) r) eqn:E; [|discriminate]. intros _ j Hj.
    assert (j = k) by lia. subst. apply lookup_in in E. now apply in_keys in E.
  - destruct (lookup (cand d k) r) eqn:E; [|discriminate]. intros Hn j Hj.
    destruct (Nat.eq_dec j k) as [->|Hne].
    + apply lookup_in in E. now apply in_keys in E.
    + apply (IH (S k) r Hn). lia.
Qed.

(* pigeonhole: fuel = number of registered ids is enough *)
Lemma next_unique_total d r : next_unique d 0 (length r) r <> None.
Proof.
  intro E. pose proof (next_unique_none d _ _ _ E) as Hall.
  assert (Hnd : NoDup (map (cand d) (seq 0 (S (length r))))).
  { apply FinFun.Injective_map_NoDup; [|apply seq_NoDup]. intros x y. apply cand_inj. }
  assert (Hincl : incl (map (cand d) (seq 0 (S (length r)))) (keys r)).
  { intros x Hx. apply in_map_iff in Hx as [j [<- Hj]]. apply in_seq in Hj. apply Hall. lia. }
  pose proof (NoDup_incl_length Hnd Hincl) as Hlen.
  rewrite map_length, seq_length in Hlen. unfold keys in Hlen. rewrite map_length in Hlen. lia.
Qed.

Lemma next_unique_ok d r : exists i, next_unique d 0 (length r) r = Some i /\ lookup i r = None.
Proof.
  destruct (next_unique d 0 (length r) r) as [i|] eqn:E.
  - exists i. split; auto. eapply next_unique_fresh; eauto.
  - exfalso. revert E. apply next_unique_total.
Qed.

(* the id is the bare digest whenever that is not taken *)
Lemma next_unique_base d fuel r : lookup d r = None -> next_unique d 0 fuel r = Some d.
Proof. intro E. destruct fuel; simpl; now rewrite E. Qed.

(* ================= the invariant ================= *)
Record Inv0 (s : st) : Prop := {
  I_fun : NoDup (keys (reg s));
  I_ok : forall i a, In (i, a) (reg s) -> exists c, cell_at s a = Some c /\ k_id c = i;
  I_all : forall a c, cell_at s a = Some c -> ~ In a (det s) -> ~ In a (gone s) -> In (k_id c, a) (reg s);
  I_det : forall i a, In (i, a) (reg s) -> ~ In a (det s) /\ ~ In a (gone s);
  I_bound : forall a, In a (det s) \/ In a (gone s) -> a < length (heap s);
  I_heap : forall a c, cell_at s a = Some c -> forall k, In k (all_kids c) -> k < a;
  I_roots : forall r, In r (roots s) -> r < length (heap s)      (* a variable holds an existing node *)
}.
(* after a step: additionally every entry of the weak registry is reachable from the variables *)
Definition RInv (s : st) : Prop := Inv0 s /\ forall i a, In (i, a) (reg s) -> reachable s a = true.

Lemma cell_at_lt s a c : cell_at s a = Some c -> a < length (heap s).
Proof. unfold cell_at. intro E. apply nth_error_Some. congruence. Qed.

Lemma roots_init n : roots (init_st n) = [].
Proof. unfold roots; simpl. induction n; simpl; auto. Qed.
Lemma inv_init n : RInv (init_st n).
Proof.
  split; [constructor; simpl; try tauto; try constructor|simpl; tauto].
  - intros a c E. unfold cell_at in E; simpl in E. destruct a; discriminate.
  - intros a c E. unfold cell_at in E; simpl in E. destruct a; discriminate.
  - intros r. rewrite roots_init. intros [].
Qed.

Lemma roots_set_nth v (x : option nat) (l : list (option nat)) (r : nat) :
  In r (flat_map (fun v => match v with Some a => [a] | None => [] end) (set_nth v x l)) ->
  In r (flat_map (fun v => match v with Some a => [a] | None => [] end) l) \/ x = Some r.
Proof.
  revert v. induction l as [|y l IH]; intros v; [destruct v; simpl; tauto|].
  destruct v as [|v]; simpl.
  - rewrite !in_app_iff. intros [Hx|Hr]; auto. destruct x as [a|]; simpl in Hx; [|tauto].
    destruct Hx as [->|[]]. auto.
  - rewrite !in_app_iff. intros [Hy|Hr]; auto. destruct (IH _ Hr); auto.
Qed.

(* ----- collection ----- *)
Lemma gc_reach s : reachable_set (gc s) = reachable_set s.
Proof. reflexivity. Qed.

(* what holds between a raw step and the collection that ends it: as Inv0, except that a node nobody references any
   more may be neither registered nor marked (the half-built node of a replace() whose constructor raised late: the
   except-branch has put the original back under the id, possibly over the half-built node's entry, while the
   traceback still holds that node) *)
Record Inv1 (s : st) : Prop := {
  J_fun : NoDup (keys (reg s));
  J_ok : forall i a, In (i, a) (reg s) -> exists c, cell_at s a = Some c /\ k_id c = i;
  J_all : forall a c, cell_at s a = Some c -> ~ In a (det s) -> ~ In a (gone s) -> reachable s a = true ->
                      In (k_id c, a) (reg s);
  J_det : forall i a, In (i, a) (reg s) -> ~ In a (det s) /\ ~ In a (gone s);
  J_bound : forall a, In a (det s) \/ In a (gone s) -> a < length (heap s);
  J_heap : forall a c, cell_at s a = Some c -> forall k, In k (all_kids c) -> k < a;
  J_roots : forall r, In r (roots s) -> r < length (heap s)
}.
Lemma inv0_inv1 s : Inv0 s -> Inv1 s.
Proof. intros [Hf Hok Hall Hdet Hb Hh Hr]. constructor; auto. Qed.

Lemma gc_inv1 s : Inv1 s -> RInv (gc s).
Proof.
  intros [Hf Hok Hall Hdet Hb Hh Hro]. split; [constructor|]; simpl.
  - now apply filter_keys_nodup.
  - intros i a Hin. apply filter_In in Hin as [Hin _]. now apply Hok.
  - intros a c Hc Hnd Hng. apply filter_In.
    assert (Hlt : a < length (heap s)) by (eapply cell_at_lt; eauto).
    destruct (memb a (reachable_set s)) eqn:Em.
    + split; auto. apply Hall; auto. intro Hg. apply Hng. apply filter_In. split.
      * apply in_seq. lia.
      * apply memb_in in Hg. rewrite Hg. apply orb_true_r.
    + exfalso. apply Hng. apply filter_In. split; [apply in_seq; lia|]. now rewrite Em.
  - intros i a Hin. apply filter_In in Hin as [Hin Hm]. simpl in Hm. destruct (Hdet _ _ Hin) as [Hd Hg].
    split; auto. intro Hg'. apply filter_In in Hg' as [_ Hg']. rewrite Hm in Hg'. simpl in Hg'.
    apply memb_in in Hg'. auto.
  - intros a [Hd|Hg]; [apply Hb; auto|]. apply filter_In in Hg as [Hs _]. apply in_seq in Hs. lia.
  - exact Hh.
  - exact Hro.
  - intros i a Hin. apply filter_In in Hin as [_ Hm]. exact Hm.
Qed.
Lemma gc_inv s : Inv0 s -> RInv (gc s).
Proof. intro Hs. apply gc_inv1. now apply inv0_inv1. Qed.

Lemma set_var_inv s v x : Inv0 s -> (forall a, x = Some a -> a < length (heap s)) -> Inv0 (set_var s v x).
Proof.
  intros [Hf Hok Hall Hdet Hb Hh Hr] Hx. constructor; simpl; auto.
  intros r Hin. unfold roots in Hin; simpl in Hin. apply roots_set_nth in Hin as [Hin|E]; auto.
Qed.

(* ----- construction ----- *)
Section Inv.
  Variable H : pystr -> pystr.
  Variable ct : ctable.

  Definition mkcell c o ps ks i (hp : list cell) : cell :=
    {| k_cls := c; k_org := o; k_props := ps; k_kids := ks; k_id := i;
       k_cid := H (cid_data_of ct current c ps (kd_of hp ks)) |}.

  Lemma alloc_shape s c o ps ks s' a : alloc H ct s c o ps ks = Some (s', a) ->
    exists i, lookup i (reg s) = None /\ a = length (heap s) /\
      next_unique (H (id_data_of ct current c o ps (kd_of (heap s) ks))) 0 (length (reg s)) (reg s) = Some i /\
      s' = {| heap := heap s ++ [mkcell c o ps ks i (heap s)]; reg := (i, length (heap s)) :: reg s;
              vars := vars s; det := det s; gone := gone s; slots := slots s |}.
  Proof.
    unfold alloc. destruct (next_unique _ 0 _ _) as [i|] eqn:E; [|discriminate].
    intros [= <- <-]. exists i. split; [eapply next_unique_fresh; eauto|]. repeat split; auto.
  Qed.

  Lemma alloc_some s c o ps ks : alloc H ct s c o ps ks <> None.
  Proof.
    unfold alloc. destruct (next_unique_ok (H (id_data_of ct current c o ps (kd_of (heap s) ks))) (reg s)) as [i [-> _]].
    discriminate.
  Qed.

  Definition kids_below (n : nat) (ks : kidsr) : Prop :=
    forall k, In k (flat_map (fun k => snd (snd k)) ks) -> k < n.

  Lemma alloc_inv s c o ps ks s' a : Inv0 s -> kids_below (length (heap s)) ks ->
    alloc H ct s c o ps ks = Some (s', a) -> Inv0 s'.
  Proof.
    intros [Hf Hok Hall Hdet Hb Hh Hro] Hk Ea. apply alloc_shape in Ea as [i [Hi [-> [_ ->]]]].
    constructor; simpl.
    - constructor; auto. now apply lookup_none.
    - intros j x [E|Hin].
      + injection E as <- <-. exists (mkcell c o ps ks i (heap s)). split; [|reflexivity].
        unfold cell_at; simpl. rewrite nth_error_app2, Nat.sub_diag by lia. reflexivity.
      + destruct (Hok _ _ Hin) as [cx [Hc Hj]]. exists cx. split; auto.
        unfold cell_at in *; simpl. rewrite nth_error_app1; auto. apply nth_error_Some. congruence.
    - intros x cx Hc Hnd Hng. unfold cell_at in Hc; simpl in Hc.
      destruct (Nat.lt_ge_cases x (length (heap s))) as [Hlt|Hge].
      + rewrite nth_error_app1 in Hc by auto. right. now apply Hall.
      + rewrite nth_error_app2 in Hc by auto.
        destruct (x - length (heap s)) eqn:Ed; simpl in Hc.
        * injection Hc as <-. simpl. left. f_equal. lia.
        * destruct n; discriminate.
    - intros j x [E|Hin]; [|now apply Hdet in Hin].
      injection E as <- <-. split; intro Hx; [specialize (Hb _ (or_introl Hx))|specialize (Hb _ (or_intror Hx))]; lia.
    - intros x Hx. rewrite app_length; simpl. specialize (Hb _ Hx). lia.
    - intros x cx Hc k Hin. unfold cell_at in Hc; simpl in Hc.
      destruct (Nat.lt_ge_cases x (length (heap s))) as [Hlt|Hge].
      + rewrite nth_error_app1 in Hc by auto. eapply Hh; eauto.
      + rewrite nth_error_app2 in Hc by auto.
        destruct (x - length (heap s)) eqn:Ed; simpl in Hc.
        * injection Hc as <-. unfold all_kids in Hin; simpl in Hin. apply Hk in Hin. lia.
        * destruct n; discriminate.
    - intros r Hr. rewrite app_length; simpl. specialize (Hro _ Hr). lia.
  Qed.

  (* ----- detach_self (after the repair) ----- *)
  Lemma detach_self_inv s a : Inv0 s -> Inv0 (fst (detach_self true s a)).
  Proof.
    intros [Hf Hok Hall Hdet Hb Hh Hro]. unfold detach_self.
    destruct (cell_at s a) as [c|] eqn:Ec; [|constructor; auto].
    assert (Hlt : a < length (heap s)) by (eapply cell_at_lt; eauto).
    assert (Hmark : lookup (k_id c) (reg s) <> Some a -> Inv0 (set_reg s (reg s) (a :: det s))).
    { intro Hne. constructor; simpl.
      - exact Hf.
      - exact Hok.
      - intros x cx Hx Hnd Hng. apply Hall; auto.
      - intros j x Hin. destruct (Hdet _ _ Hin) as [Hd Hg]. split; auto. intros [<-|Hd']; auto.
        destruct (Hok _ _ Hin) as [c' [Hc' Hj]]. rewrite Ec in Hc'. injection Hc' as <-. subst j.
        apply Hne. now apply in_lookup.
      - intros x [[<-|Hd]|Hg]; auto.
      - exact Hh.
      - exact Hro. }
    destruct (lookup (k_id c) (reg s)) as [b|] eqn:El; simpl.
    - destruct (Nat.eqb_spec a b) as [->|Hne]; simpl.
      + constructor; simpl.
        * now apply remove_nodup.
        * intros i x Hin. apply remove_in in Hin as [Hin _]. now apply Hok.
        * intros x cx Hx Hnd Hng. apply remove_in. split; [apply Hall; auto|].
          intro E. assert (Hx' : In (k_id cx, x) (reg s)) by (apply Hall; auto).
          rewrite E in Hx'. apply in_lookup in Hx'; auto. rewrite El in Hx'. injection Hx' as ->. auto.
        * intros j x Hin. apply remove_in in Hin as [Hin Hj]. destruct (Hdet _ _ Hin) as [Hd Hg]. split; auto.
          intros [<-|Hd']; auto. destruct (Hok _ _ Hin) as [c' [Hc' Hj']]. rewrite Ec in Hc'. injection Hc' as <-. auto.
        * intros x [[<-|Hd]|Hg]; auto.
        * exact Hh.
        * exact Hro.
      + apply Hmark. congruence.
    - apply Hmark. congruence.
  Qed.

  Lemma detach_self_frame fx s a :
    heap (fst (detach_self fx s a)) = heap s /\ vars (fst (detach_self fx s a)) = vars s /\ gone (fst (detach_self fx s a)) = gone s.
  Proof.
    unfold detach_self. destruct (cell_at s a); [|auto]. destruct (lookup _ _); [|simpl; auto].
    destruct (fx && _); simpl; auto.
  Qed.

  Lemma fold_detach_inv l : forall s, Inv0 s -> Inv0 (fold_left (fun s x => fst (detach_self true s x)) l s).
  Proof. induction l as [|x l IH]; simpl; auto. intros s Hs. apply IH. now apply detach_self_inv. Qed.
  Lemma fold_detach_frame fx l : forall s,
    let s' := fold_left (fun s x => fst (detach_self fx s x)) l s in
    heap s' = heap s /\ vars s' = vars s /\ gone s' = gone s.
  Proof.
    induction l as [|x l IH]; simpl; auto. intros s.
    destruct (IH (fst (detach_self fx s x))) as [-> [-> ->]]. apply detach_self_frame.
  Qed.
  Lemma detach_inv s a : Inv0 s -> Inv0 (detach true s a).
  Proof. apply fold_detach_inv. Qed.
End Inv.

(* ================= addresses handed to constructions are existing addresses ================= *)
Lemma pre_in_bound hp : forall fuel a x, In x (pre hp fuel a) -> x < length hp.
Proof.
  induction fuel as [|f IH]; simpl; [tauto|]. intros a x.
  destruct (nth_error hp a) as [c|] eqn:E; [|simpl; tauto].
  intros [<-|Hin].
  - apply nth_error_Some. congruence.
  - apply in_flat_map in Hin as [k [_ Hk]]. eapply IH; eauto.
Qed.
Lemma resolve_lt s l a : resolve s l = Some a -> a < length (heap s).
Proof.
  unfold resolve. destruct (nth_error (vars s) (fst l)) as [[r|]|]; try discriminate.
  intro E. apply nth_error_In in E. eapply pre_in_bound; eauto.
Qed.
Lemma resolve_reachable s l a : resolve s l = Some a -> reachable s a = true.
Proof.
  unfold resolve. destruct (nth_error (vars s) (fst l)) as [[r|]|] eqn:Ev; try discriminate.
  intro E. apply nth_error_In in E. apply nth_error_In in Ev.
  apply memb_in. unfold reachable_set. apply in_flat_map. exists r. split; auto.
  unfold roots. apply in_flat_map. exists (Some r). split; simpl; auto.
Qed.

Lemma mapO_in {A B} (f : A -> option B) : forall l l', mapO f l = Some l' ->
  forall y, In y l' -> exists x, In x l /\ f x = Some y.
Proof.
  induction l as [|x l IH]; simpl; intros l'.
  - intros [= <-] y [].
  - destruct (f x) as [y0|] eqn:Ex; [|discriminate]. destruct (mapO f l) as [t|] eqn:Et; [|discriminate].
    intros [= <-] y [<-|Hin]; [exists x; auto|]. destruct (IH _ eq_refl _ Hin) as [x' [? ?]]. exists x'; auto.
Qed.
Lemma mapO_resolve_lt s ls l : mapO (resolve s) ls = Some l -> forall k, In k l -> k < length (heap s).
Proof. intros E k Hin. destruct (mapO_in _ _ _ E _ Hin) as [x [_ Hx]]. eapply resolve_lt; eauto. Qed.

Lemma assoc_in {A} k (l : list (pystr * A)) v : assoc k l = Some v -> In (k, v) l.
Proof.
  induction l as [|[k' v'] l IH]; simpl; [discriminate|].
  destruct (pystr_eqb_spec k' k); [intros [= ->]; subst; auto|auto].
Qed.

(* nothing above the roots is reachable (children have smaller addresses) *)
Lemma pre_le hp : (forall a c, nth_error hp a = Some c -> forall k, In k (all_kids c) -> k < a) ->
  forall fuel r x, In x (pre hp fuel r) -> x <= r.
Proof.
  intro Hwf. induction fuel as [|f IH]; simpl; [tauto|]. intros r x.
  destruct (nth_error hp r) as [c|] eqn:E; [|simpl; tauto].
  intros [<-|Hin]; auto. apply in_flat_map in Hin as [k [Hk Hx]].
  specialize (Hwf _ _ E _ Hk). specialize (IH _ _ Hx). lia.
Qed.
Lemma unreachable_above s n x :
  (forall a c, cell_at s a = Some c -> forall k, In k (all_kids c) -> k < a) ->
  (forall r, In r (roots s) -> r < n) -> n <= x -> reachable s x = false.
Proof.
  intros Hwf Hr Hx. destruct (reachable s x) eqn:E; auto. exfalso.
  apply memb_in in E. unfold reachable_set in E. apply in_flat_map in E as [r [Hin Hp]].
  apply (pre_le _ Hwf) in Hp. specialize (Hr _ Hin). lia.
Qed.

Section Inv2.
  Variable H : pystr -> pystr.
  Variable ct : ctable.
  Variable late : st -> nat -> bool.

  (* the constructor call = the base __post_init__ (alloc), then the subclass's own validation *)
  Lemma construct_ok s c o ps ks s' a : construct H ct late s c o ps ks = DOk s' a ->
    alloc H ct s c o ps ks = Some (s', a) /\ late s' a = false.
  Proof.
    unfold construct. destruct (alloc _ _ _ _ _ _ _) as [[s1 a1]|]; [|discriminate].
    destruct (late s1 a1) eqn:El; [discriminate|]. intros [= <- <-]. auto.
  Qed.
  Lemma construct_late s c o ps ks s' : construct H ct late s c o ps ks = DLate s' ->
    exists a, alloc H ct s c o ps ks = Some (s', a) /\ late s' a = true.
  Proof.
    unfold construct. destruct (alloc _ _ _ _ _ _ _) as [[s1 a1]|]; [|discriminate].
    destruct (late s1 a1) eqn:El; [|discriminate]. intros [= <-]. eauto.
  Qed.
  Lemma construct_no_fuel s c o ps ks : construct H ct late s c o ps ks <> DFuel.
  Proof.
    unfold construct. destruct (alloc _ _ _ _ _ _ _) as [[s1 a1]|] eqn:Ea.
    - destruct (late s1 a1); discriminate.
    - exfalso. revert Ea. apply alloc_some.
  Qed.

  Lemma new_args_below s c ps ks ks' : new_args ct s c ps ks = ROk ks' -> kids_below (length (heap s)) ks'.
  Proof.
    unfold new_args. destruct (find_class ct c); [|discriminate]. destruct (_ && _); [|discriminate].
    destruct (mapO _ ks) as [l|] eqn:E; [|discriminate]. intros [= <-] k Hin.
    apply in_flat_map in Hin as [e [He Hk]]. destruct (mapO_in _ _ _ E _ He) as [x [_ Hx]].
    destruct (mapO (resolve s) (snd (snd x))) as [l0|] eqn:E0; [|discriminate]. simpl in Hx. injection Hx as <-.
    simpl in Hk. eapply mapO_resolve_lt; eauto.
  Qed.

  Definition changes_below (n : nat) (ch : list (pystr * rval)) : Prop :=
    forall name sh l, In (name, VKids (sh, l)) ch -> forall k, In k l -> k < n.

  Lemma changes_are_below s c ch ch' : changes ct s c ch = ROk ch' -> changes_below (length (heap s)) ch'.
  Proof.
    unfold changes. destruct (_ && _); [|discriminate]. destruct (mapO _ ch) as [l|] eqn:E; [|discriminate].
    intros [= <-] name sh l0 Hin k Hk. destruct (mapO_in _ _ _ E _ Hin) as [[n cv] [_ Hx]]. simpl in Hx.
    destruct cv as [v|o|sh' ls]; simpl in Hx; try discriminate.
    destruct (mapO (resolve s) ls) as [l1|] eqn:E1; [|discriminate]. simpl in Hx. injection Hx as _ <- <-.
    eapply mapO_resolve_lt; eauto.
  Qed.

  Lemma new_kids_below s a c ch : Inv0 s -> cell_at s a = Some c -> changes_below (length (heap s)) ch ->
    kids_below (length (heap s)) (new_kids c ch).
  Proof.
    intros Hs Hc Hch k Hin. apply in_flat_map in Hin as [e [He Hk]]. unfold new_kids in He.
    apply in_map_iff in He as [e0 [<- He0]].
    assert (Hold : forall k, In k (snd (snd e0)) -> k < length (heap s)).
    { intros k0 Hk0. apply cell_at_lt in Hc as Hlt.
      assert (k0 < a); [|lia]. eapply (I_heap _ Hs); eauto. unfold all_kids. apply in_flat_map. eauto. }
    destruct (assoc (fst e0) ch) as [[v|o|[sh l]]|] eqn:Ea; auto.
    simpl in Hk. apply assoc_in in Ea. eapply Hch; eauto.
  Qed.

  (* a raising dataclasses.replace: either nothing was built (non-init key, unknown key), or the new node was built,
     given its id and registered, and then rejected by its class's own validation *)
  Lemma dc_replace_raised s a ch s' e : dc_replace H ct late s a ch = (s', Raised e) ->
    s' = s \/ exists c a', cell_at s a = Some c /\
                 alloc H ct s (k_cls c) (new_origin c ch) (new_props c ch) (new_kids c ch) = Some (s', a').
  Proof.
    unfold dc_replace. destruct (cell_at s a) as [c|]; [|discriminate].
    destruct (dc_check _ _ _); [intros [= <- _]; auto|].
    destruct (construct _ _ _ _ _ _ _ _) as [s1 a1|s1|] eqn:Ec; intros [= <- _]; try discriminate.
    apply construct_late in Ec as [a' [Ea _]]. right. eauto.
  Qed.

  Lemma dc_replace_inv s a ch s' r : Inv0 s -> changes_below (length (heap s)) ch ->
    dc_replace H ct late s a ch = (s', r) -> Inv0 s' /\ forall a', r = OkNode a' -> a' < length (heap s').
  Proof.
    intros Hs Hch. unfold dc_replace. destruct (cell_at s a) as [c|] eqn:Ec; [|intros [= <- <-]; split; [auto|discriminate]].
    destruct (dc_check _ _ _); [intros [= <- <-]; split; [auto|discriminate]|].
    destruct (construct _ _ _ _ _ _ _ _) as [s1 a1|s1|] eqn:Eco; intros [= <- <-].
    - apply construct_ok in Eco as [Ea _]. split; [eapply alloc_inv; eauto; eapply new_kids_below; eauto|].
      intros a' [= <-]. apply alloc_shape in Ea as [i [_ [-> [_ ->]]]]. simpl. rewrite app_length; simpl. lia.
    - apply construct_late in Eco as [a1 [Ea _]]. split; [eapply alloc_inv; eauto; eapply new_kids_below; eauto|discriminate].
    - split; [auto|discriminate].
  Qed.

  (* a registry with the same entries in another order *)
  Lemma inv_reg_equiv s r' : Inv0 s -> NoDup (keys r') -> (forall i a, In (i, a) r' <-> In (i, a) (reg s)) ->
    Inv0 (set_reg s r' (det s)).
  Proof.
    intros [Hf Hok Hall Hdet Hb Hh Hro] Hnd Heq. constructor; simpl; auto.
    - intros i a Hin. apply Hok. now apply Heq.
    - intros a c Hc Hd Hg. apply Heq. now apply Hall.
    - intros i a Hin. apply Hdet with i. now apply Heq.
  Qed.

  Lemma restore_equiv i a r : NoDup (keys r) -> In (i, a) r ->
    NoDup (keys (dict_set i a (remove_id i r))) /\
    forall j x, In (j, x) (dict_set i a (remove_id i r)) <-> In (j, x) r.
  Proof.
    intros Hnd Hin. unfold dict_set. split.
    - simpl. constructor; [|now do 2 apply remove_nodup].
      intro Hk. apply remove_keys in Hk as [_ Hk]. congruence.
    - intros j x. simpl. rewrite !remove_in. split.
      + intros [E|[[? _] _]]; auto. now injection E as <- <-.
      + intro Hx. destruct (pystr_eqb_spec j i) as [->|Hne]; [left|right; auto].
        f_equal. apply (in_lookup _ _ _ Hnd) in Hx. apply (in_lookup _ _ _ Hnd) in Hin. congruence.
  Qed.

  Lemma detach_self_registered s a c : cell_at s a = Some c -> lookup (k_id c) (reg s) = Some a ->
    detach_self true s a = (set_reg s (remove_id (k_id c) (reg s)) (a :: det s), true).
  Proof. intros Ec El. unfold detach_self. rewrite Ec, El, Nat.eqb_refl. reflexivity. Qed.
  Lemma detach_self_unregistered s a c : cell_at s a = Some c -> lookup (k_id c) (reg s) <> Some a ->
    detach_self true s a = (set_reg s (reg s) (a :: det s), false).
  Proof.
    intros Ec El. unfold detach_self. rewrite Ec. destruct (lookup _ _) as [b|]; auto.
    destruct (Nat.eqb_spec a b); [congruence|reflexivity].
  Qed.

  (* the except-branch of ASTNode.replace: NODE_REGISTRY[ori.id] = ori, whatever sits under that id now.  What sits
     there can only be the half-built replacement, which nothing references once the exception has left. *)
  Lemma restore_inv1 s2 a c d : Inv0 s2 -> cell_at s2 a = Some c -> det s2 = a :: d -> ~ In a d -> ~ In a (gone s2) ->
    (forall x, In (k_id c, x) (reg s2) -> reachable s2 x = false) ->
    Inv1 (set_reg s2 (dict_set (k_id c) a (reg s2)) d).
  Proof.
    intros [Hf Hok Hall Hdet Hb Hh Hro] Hc Hd Hnd Hng Hun. constructor; simpl.
    - constructor; [|now apply remove_nodup]. intro Hk. apply remove_keys in Hk as [_ Hk]. congruence.
    - intros i x [E|Hin]; [injection E as <- <-; eauto|]. apply remove_in in Hin as [Hin _]. now apply Hok.
    - intros x cx Hx Hxd Hxg Hxr. change (cell_at s2 x = Some cx) in Hx. destruct (Nat.eq_dec x a) as [->|Hne].
      + rewrite Hc in Hx. injection Hx as <-. auto.
      + assert (Hin : In (k_id cx, x) (reg s2)).
        { apply Hall; auto. rewrite Hd. intros [E|Hin]; [congruence|auto]. }
        right. apply remove_in. split; auto. intro E. rewrite E in Hin.
        change (reachable s2 x = true) in Hxr. rewrite (Hun _ Hin) in Hxr. discriminate.
    - intros i x [E|Hin]; [injection E as <- <-; auto|]. apply remove_in in Hin as [Hin _].
      destruct (Hdet _ _ Hin) as [Hx Hg]. split; auto. intro Hx'. apply Hx. rewrite Hd. now right.
    - intros x [Hx|Hx]; apply Hb; auto. left. rewrite Hd. now right.
    - exact Hh.
    - exact Hro.
  Qed.

  (* how a raising ASTNode.replace ends *)
  Lemma replace_raised_cases s a ch s' e : replace H ct late true s a ch = (s', Raised e) ->
    exists c s2, cell_at s a = Some c /\ dc_replace H ct late (fst (detach_self true s a)) a ch = (s2, Raised e) /\
      ((lookup (k_id c) (reg s) = Some a /\ s' = set_reg s2 (dict_set (k_id c) a (reg s2)) (det s)) \/
       (lookup (k_id c) (reg s) <> Some a /\ s' = s2)).
  Proof.
    unfold replace. destruct (cell_at s a) as [c|] eqn:Ec; [|discriminate].
    destruct (dc_replace H ct late (fst (detach_self true s a)) a ch) as [s2 r2] eqn:Ed.
    destruct r2; try discriminate.
    destruct (lookup (k_id c) (reg s)) as [b|] eqn:El.
    - destruct (Nat.eqb_spec a b) as [<-|Hne]; simpl.
      + rewrite Ec. intros [= <- <-]. exists c, s2. auto.
      + intros [= <- <-]. exists c, s2. repeat split; auto. right. split; [congruence|auto].
    - intros [= <- <-]. exists c, s2. repeat split; auto. right. split; [congruence|auto].
  Qed.

  Lemma replace_ok_is_dc s a ch s' a' : replace H ct late true s a ch = (s', OkNode a') ->
    dc_replace H ct late (fst (detach_self true s a)) a ch = (s', OkNode a').
  Proof.
    unfold replace. destruct (cell_at s a) as [c|] eqn:Ec; [|discriminate].
    destruct (dc_replace H ct late (fst (detach_self true s a)) a ch) as [s2 r2] eqn:Ed.
    destruct r2; try discriminate; auto.
    destruct (match lookup (k_id c) (reg s) with Some b => _ | None => None end); discriminate.
  Qed.

  Lemma replace_inv s a ch s' r : Inv0 s -> changes_below (length (heap s)) ch ->
    replace H ct late true s a ch = (s', r) ->
    Inv1 s' /\ forall a', r = OkNode a' -> Inv0 s' /\ a' < length (heap s').
  Proof.
    intros Hs Hch Er.
    pose proof (detach_self_inv s a Hs) as Hs1.
    destruct (detach_self_frame true s a) as [Hh1 [Hv1 Hg1]].
    assert (Hch1 : changes_below (length (heap (fst (detach_self true s a)))) ch) by now rewrite Hh1.
    destruct r as [| a' | b | e | | |].
    all: try (split; [|discriminate]; apply inv0_inv1; revert Er; unfold replace;
              destruct (cell_at s a) as [c|] eqn:Ec; [|intros [= <-]; exact Hs];
              destruct (dc_replace H ct late (fst (detach_self true s a)) a ch) as [s2 r2] eqn:Ed;
              destruct (dc_replace_inv _ _ _ _ _ Hs1 Hch1 Ed) as [Hs2 _];
              destruct r2; try (intros [= <-]; exact Hs2); try discriminate;
              destruct (match lookup (k_id c) (reg s) with Some b => _ | None => None end); discriminate).
    - (* OkNode *)
      apply replace_ok_is_dc in Er. destruct (dc_replace_inv _ _ _ _ _ Hs1 Hch1 Er) as [Hs2 Hlt].
      split; [now apply inv0_inv1|]. intros a2 [= <-]. auto.
    - (* Raised *)
      split; [|discriminate].
      apply replace_raised_cases in Er as [c [s2 [Ec [Ed [[El ->]|[El ->]]]]]].
      + destruct (dc_replace_inv _ _ _ _ _ Hs1 Hch1 Ed) as [Hs2 _].
        rewrite (detach_self_registered _ _ _ Ec El) in *. simpl in *.
        destruct (I_det _ Hs _ _ (lookup_in _ _ _ El)) as [Hnd Hng].
        apply dc_replace_raised in Ed as [->|[c1 [a1 [Ec1 Ea]]]].
        * apply restore_inv1; simpl; auto. intros x Hin. apply remove_in in Hin as [_ Hne]. congruence.
        * pose proof Ea as Esh. apply alloc_shape in Esh as [i [_ [_ [_ Esh]]]]. simpl in Esh.
          assert (Hc2 : cell_at s2 a = Some c).
          { subst s2. unfold cell_at in *; simpl. rewrite nth_error_app1; auto. apply nth_error_Some. congruence. }
          apply (restore_inv1 s2 a c (det s) Hs2 Hc2); try (subst s2; simpl; auto; fail).
          intros x Hin. apply unreachable_above with (n := length (heap s)).
          -- exact (I_heap _ Hs2).
          -- subst s2. unfold roots; simpl. exact (I_roots _ Hs).
          -- subst s2. simpl in Hin. destruct Hin as [E|Hin]; [injection E as _ <-; lia|].
             apply remove_in in Hin as [_ Hne]. congruence.
      + destruct (dc_replace_inv _ _ _ _ _ Hs1 Hch1 Ed) as [Hs2 _]. now apply inv0_inv1.
  Qed.
End Inv2.

(* ================= duplicate ================= *)
Lemma mapM_d_spec {A B} (f : st -> A -> dres B) (P : st -> Prop) (R : st -> st -> Prop) (Q : st -> B -> Prop) :
  (forall s, R s s) -> (forall a b c, R a b -> R b c -> R a c) ->
  (forall s s' y, Q s y -> R s s' -> Q s' y) ->
  (forall s x, P s -> match f s x with
                      | DOk s' y => P s' /\ R s s' /\ Q s' y
                      | DLate s' => P s' /\ R s s'
                      | DFuel => True
                      end) ->
  forall l s, P s -> match mapM_d f s l with
                     | DOk s' ys => P s' /\ R s s' /\ Forall (Q s') ys
                     | DLate s' => P s' /\ R s s'
                     | DFuel => True
                     end.
Proof.
  intros Rrefl Rtrans Qmono Hf. induction l as [|x l IH]; simpl; intros s Hs; [auto|].
  specialize (Hf s x Hs). destruct (f s x) as [s1 y|s1|]; auto.
  destruct Hf as [Hs1 [R1 Q1]]. specialize (IH s1 Hs1).
  destruct (mapM_d f s1 l) as [s2 ys|s2|]; auto.
  - destruct IH as [Hs2 [R2 Q2]]. split; auto. split; [eauto|]. constructor; eauto.
  - destruct IH as [Hs2 R2]. split; eauto.
Qed.

(* the heap and the registry only grow (new entries are entries of new cells); ghost sets and variables are untouched *)
Definition grow (s s' : st) : Prop :=
  (exists ext, heap s' = heap s ++ ext) /\
  (exists nr, reg s' = nr ++ reg s /\ forall e, In e nr -> length (heap s) <= snd e) /\
  vars s' = vars s /\ det s' = det s /\ gone s' = gone s.
(* every cell at an address >= n is registered under its id and has its children at addresses >= n *)
Definition range_ok (n : nat) (s' : st) : Prop :=
  forall x, n <= x < length (heap s') ->
    exists c, cell_at s' x = Some c /\ (forall k, In k (all_kids c) -> n <= k) /\ In (k_id c, x) (reg s').

Lemma grow_refl s : grow s s.
Proof.
  repeat split; try (exists []; now rewrite ?app_nil_r).
  all: exists []; split; [reflexivity|intros e []].
Qed.
Lemma grow_len s s' : grow s s' -> length (heap s) <= length (heap s').
Proof. intros [[e ->] _]. rewrite app_length. lia. Qed.
Lemma grow_trans a b c : grow a b -> grow b c -> grow a c.
Proof.
  intros G1 G2. pose proof (grow_len _ _ G1) as Hl.
  destruct G1 as [[e1 H1] [[n1 [R1 A1]] [V1 [D1 G1]]]]. destruct G2 as [[e2 H2] [[n2 [R2 A2]] [V2 [D2 G2]]]].
  repeat split; try congruence.
  - exists (e1 ++ e2). now rewrite H2, H1, app_assoc.
  - exists (n2 ++ n1). split; [now rewrite R2, R1, app_assoc|].
    intros e Hin. apply in_app_or in Hin as [Hin|Hin]; [specialize (A2 _ Hin); lia|auto].
Qed.
Lemma grow_cell s s' x c : grow s s' -> cell_at s x = Some c -> cell_at s' x = Some c.
Proof.
  intros [[e He] _] Hc. unfold cell_at in *. rewrite He, nth_error_app1; auto. apply nth_error_Some. congruence.
Qed.
Lemma grow_reg s s' e : grow s s' -> In e (reg s) -> In e (reg s').
Proof. intros [_ [[n [-> _]] _]] Hin. apply in_or_app. auto. Qed.
Lemma grow_reg_inv s s' e : grow s s' -> In e (reg s') -> In e (reg s) \/ length (heap s) <= snd e.
Proof. intros [_ [[n [-> Hn]] _]] Hin. apply in_app_or in Hin as [Hin|Hin]; auto. Qed.

Definition growR (s s' : st) : Prop := grow s s' /\ range_ok (length (heap s)) s'.
Lemma growR_refl s : growR s s.
Proof. split; [apply grow_refl|]. intros x Hx. lia. Qed.
Lemma growR_trans a b c : growR a b -> growR b c -> growR a c.
Proof.
  intros [G1 K1] [G2 K2]. split; [eapply grow_trans; eauto|]. intros x Hx.
  destruct (Nat.lt_ge_cases x (length (heap b))) as [Hlt|Hge].
  - destruct (K1 x) as [cx [Hc [Hk Hr]]]; [lia|]. exists cx. repeat split; auto.
    + eapply grow_cell; eauto.
    + eapply grow_reg; eauto.
  - destruct (K2 x) as [cx [Hc [Hk Hr]]]; [lia|]. exists cx. repeat split; auto.
    intros k Hin. apply Hk in Hin. apply grow_len in G1. lia.
Qed.

Section DupProofs.
  Variable H : pystr -> pystr.
  Variable ct : ctable.
  Variable late : st -> nat -> bool.

  Lemma alloc_grow s c o ps ks s' a : alloc H ct s c o ps ks = Some (s', a) -> grow s s'.
  Proof.
    intro Ea. apply alloc_shape in Ea as [i [_ [_ [_ ->]]]]. repeat split; simpl; auto.
    - eexists; reflexivity.
    - exists [(i, length (heap s))]. split; [reflexivity|]. intros e [<-|[]]. simpl. lia.
  Qed.

  (* one construction on top of copies built since state s *)
  Lemma alloc_growR s s1 c o ps ks s' a : Inv0 s1 -> growR s s1 ->
    (forall k, In k (flat_map (fun k => snd (snd k)) ks) -> length (heap s) <= k < length (heap s1)) ->
    alloc H ct s1 c o ps ks = Some (s', a) ->
    Inv0 s' /\ growR s s' /\ length (heap s) <= a < length (heap s').
  Proof.
    intros Hs1 G1 Hbelow Ea. pose proof (grow_len _ _ (proj1 G1)) as Hn1.
    assert (Hs' : Inv0 s') by (eapply alloc_inv; eauto; intros k Hk; apply Hbelow in Hk; lia).
    pose proof (alloc_grow _ _ _ _ _ _ _ Ea) as G2.
    apply alloc_shape in Ea as [i [_ [-> [_ ->]]]].
    split; auto. split; [|simpl; rewrite app_length; simpl; lia].
    split; [eapply grow_trans; [exact (proj1 G1)|exact G2]|].
    intros x Hx. simpl in Hx. rewrite app_length in Hx; simpl in Hx.
    destruct (Nat.lt_ge_cases x (length (heap s1))) as [Hlt|Hge].
    - destruct (proj2 G1 x) as [cx [Hc [Hk Hr]]]; [lia|]. exists cx. repeat split; auto.
      + eapply grow_cell; eauto.
      + eapply grow_reg; eauto.
    - assert (x = length (heap s1)) by lia. subst x.
      eexists. split; [unfold cell_at; simpl; rewrite nth_error_app2, Nat.sub_diag by lia; reflexivity|].
      split; [|simpl; auto]. intros k Hk. unfold all_kids in Hk; simpl in Hk. apply Hbelow in Hk. lia.
  Qed.

  (* duplicate, whether it returns or a copy's validation raises on the way: invariant kept, heap and registry
     only grow, every new cell is registered and points at new cells only *)
  Lemma dup_spec_gen : forall fuel s a, Inv0 s ->
    match dup H ct late fuel s a with
    | DOk s' a' => Inv0 s' /\ growR s s' /\ length (heap s) <= a' < length (heap s')
    | DLate s' => Inv0 s' /\ growR s s'
    | DFuel => True
    end.
  Proof.
    induction fuel as [|f IH]; simpl; intros s a Hs; [exact I|].
    destruct (cell_at s a) as [c|] eqn:Ec; [|exact I].
    set (n := length (heap s)).
    pose (P := fun t : st => Inv0 t /\ n <= length (heap t)).
    pose (Q := fun (t : st) (y : nat) => n <= y < length (heap t)).
    pose (Q' := fun (t : st) (k : pystr * (kshape * list nat)) => Forall (Q t) (snd (snd k))).
    assert (Qmono : forall t t' y, Q t y -> growR t t' -> Q t' y).
    { intros t t' y [? ?] [G _]. apply grow_len in G. unfold Q. lia. }
    assert (Hinner : forall t x, P t -> match dup H ct late f t x with
                                        | DOk t' y => P t' /\ growR t t' /\ Q t' y
                                        | DLate t' => P t' /\ growR t t'
                                        | DFuel => True
                                        end).
    { intros t x [Ht Hn]. specialize (IH t x Ht). destruct (dup H ct late f t x) as [t' y|t'|]; auto.
      - destruct IH as [Ht' [G Hy]]. pose proof (grow_len _ _ (proj1 G)). unfold P, Q.
        split; [split; [auto|lia]|split; [exact G|lia]].
      - destruct IH as [Ht' G]. pose proof (grow_len _ _ (proj1 G)). unfold P. split; [split; [auto|lia]|exact G]. }
    assert (Houter : forall t k, P t ->
       match (match mapM_d (dup H ct late f) t (snd (snd k)) with
              | DOk t' l => DOk t' (fst k, (fst (snd k), l))
              | DLate t' => DLate t'
              | DFuel => DFuel
              end) with
       | DOk t' y => P t' /\ growR t t' /\ Q' t' y
       | DLate t' => P t' /\ growR t t'
       | DFuel => True
       end).
    { intros t k Ht.
      pose proof (mapM_d_spec _ P growR Q growR_refl growR_trans Qmono Hinner (snd (snd k)) t Ht) as M.
      destruct (mapM_d (dup H ct late f) t (snd (snd k))) as [t1 l|t1|]; auto. }
    assert (Q'mono : forall t t' y, Q' t y -> growR t t' -> Q' t' y).
    { intros t t' y Hq G. unfold Q' in *. eapply Forall_impl; [|exact Hq]. intros z Hz. eapply Qmono; eauto. }
    assert (Hp0 : P s) by (split; auto).
    pose proof (mapM_d_spec _ P growR Q' growR_refl growR_trans Q'mono Houter (k_kids c) s Hp0) as M.
    destruct (mapM_d _ s (k_kids c)) as [s1 ks'|s1|]; auto.
    - destruct M as [[Hs1 Hn1] [G1 Hq]].
      assert (Hbelow : forall k, In k (flat_map (fun k => snd (snd k)) ks') -> n <= k < length (heap s1)).
      { intros k Hin. apply in_flat_map in Hin as [e [He Hk]]. rewrite Forall_forall in Hq.
        specialize (Hq _ He). unfold Q' in Hq. rewrite Forall_forall in Hq. apply Hq. auto. }
      destruct (construct H ct late s1 (k_cls c) (k_org c) (k_props c) ks') as [s' a'|s'|] eqn:Eco; auto.
      + apply construct_ok in Eco as [Ea _]. eapply alloc_growR; eauto.
      + apply construct_late in Eco as [a' [Ea _]].
        destruct (alloc_growR _ _ _ _ _ _ _ _ Hs1 G1 Hbelow Ea) as [? [? _]]. auto.
    - destruct M as [[Hs1 _] G1]. auto.
  Qed.

  Lemma dup_spec fuel s a s' a' : Inv0 s -> dup H ct late fuel s a = DOk s' a' ->
    Inv0 s' /\ growR s s' /\ length (heap s) <= a' < length (heap s').
  Proof. intros Hs E. pose proof (dup_spec_gen fuel s a Hs) as M. now rewrite E in M. Qed.
  Lemma dup_spec_late fuel s a s' : Inv0 s -> dup H ct late fuel s a = DLate s' -> Inv0 s' /\ growR s s'.
  Proof. intros Hs E. pose proof (dup_spec_gen fuel s a Hs) as M. now rewrite E in M. Qed.
End DupProofs.

(* what a raising operation leaves behind (before the collection that ends the step): the heap has only grown, variables
   and the ghost `gone` are as they were, every old registration is still there, and whatever else is registered is a
   node built by the failed call *)
Definition failrel (s s2 : st) : Prop :=
  (exists ext, heap s2 = heap s ++ ext) /\ vars s2 = vars s /\ gone s2 = gone s /\
  (forall e, In e (reg s) -> In e (reg s2)) /\
  (forall e, In e (reg s2) -> In e (reg s) \/ length (heap s) <= snd e).
Lemma grow_failrel s s2 : grow s s2 -> failrel s s2.
Proof.
  intros G. destruct G as [Hh [[nr [Hr Hn]] [Hv [_ Hg]]]]. repeat split; auto.
  - intros e Hin. rewrite Hr. apply in_or_app. auto.
  - intros e Hin. rewrite Hr in Hin. apply in_app_or in Hin as [Hin|Hin]; auto.
Qed.

(* ================= as_dict / as_obj (the registry effect of ASTNode._deserialize) ================= *)
Lemma set_nth_length {A} (x : A) : forall l n, length (set_nth n x l) = length l.
Proof. induction l as [|y l IH]; intros [|n]; simpl; auto. Qed.
Lemma set_nth_same {A} (x : A) : forall l n, n < length l -> nth_error (set_nth n x l) n = Some x.
Proof. induction l as [|y l IH]; intros [|n] Hn; simpl in *; try lia; auto. apply IH. lia. Qed.
Lemma set_nth_other {A} (x : A) : forall l n m, n <> m -> nth_error (set_nth n x l) m = nth_error l m.
Proof. induction l as [|y l IH]; intros [|n] [|m] Hne; simpl; auto; try congruence. Qed.

(* a value slot is no reference: writing one changes nothing the invariant speaks about *)
Lemma inv0_set_slot s k v : Inv0 s -> Inv0 (set_slot s k v).
Proof. intros [Hf Hok Hall Hdet Hb Hh Hro]. constructor; auto. Qed.

Lemma prefix_ext {A} (l : list A) : forall l', length l <= length l' ->
  (forall a, a < length l -> nth_error l' a = nth_error l a) -> l' = l ++ skipn (length l) l'.
Proof.
  induction l as [|x l IH]; intros l' Hl Hn; simpl; [reflexivity|].
  destruct l' as [|y l']; simpl in *; [lia|]. f_equal.
  - specialize (Hn 0 ltac:(lia)). simpl in Hn. congruence.
  - apply IH; [lia|]. intros a Ha. apply (Hn (S a)). lia.
Qed.

Lemma force_id_true s a cl i :
  force_id true s a cl i = match lookup i (reg s) with Some _ => s | None => force_id false s a cl i end.
Proof. unfold force_id. simpl. destruct (lookup i (reg s)); reflexivity. Qed.
Lemma force_id_cases fx s a cl i : force_id fx s a cl i = s \/ force_id fx s a cl i = force_id false s a cl i.
Proof. unfold force_id. destruct (fx && _); simpl; auto. Qed.
Lemma force_len fx s a cl i : length (heap (force_id fx s a cl i)) = length (heap s).
Proof. destruct (force_id_cases fx s a cl i) as [->| ->]; auto. unfold force_id; simpl. apply set_nth_length. Qed.

Section SerProofs.
  Variable H : pystr -> pystr.
  Variable ct : ctable.
  Variable late : st -> nat -> bool.

  (* an id that is registered is answered by the registered node - the original if it is still alive, or whichever
     node has meanwhile taken the id over (the premise "no other live node has taken over its id" of C04) *)
  Theorem deser_registered fx fuel s i c o ps ks b : lookup i (reg s) = Some b ->
    deser H ct late fx (S fuel) s (SNode i c o ps ks) = DOk s b.
  Proof. intro E. simpl. now rewrite E. Qed.

  (* forcing the serialized id onto the node just built (the code before the repair: over whatever holds the id) *)
  Lemma force_inv_raw s a cl i : Inv0 s -> cell_at s a = Some cl -> In (k_id cl, a) (reg s) -> k_id cl <> i ->
    Inv0 (force_id false s a cl i).
  Proof.
    intros Hs Hc Hin Hne. pose proof Hs as [Hf Hok Hall Hdet Hb Hh Hro].
    assert (Ha : a < length (heap s)) by (eapply cell_at_lt; eauto).
    set (r1 := remove_id (k_id cl) (reg s)).
    assert (Hr1 : forall j x, In (j, x) r1 <-> In (j, x) (reg s) /\ j <> k_id cl) by (intros; apply remove_in).
    assert (Hn1 : NoDup (keys r1)) by now apply remove_nodup.
    assert (Hcell : forall x, x <> a -> cell_at (force_id false s a cl i) x = cell_at s x).
    { intros x Hx. unfold cell_at; simpl. apply set_nth_other. congruence. }
    assert (Hcella : cell_at (force_id false s a cl i) a = Some (with_id cl i)).
    { unfold cell_at; simpl. now apply set_nth_same. }
    assert (Hown : forall j, In (j, a) (reg s) -> j = k_id cl).
    { intros j Hj. destruct (Hok _ _ Hj) as [c' [Hc' <-]]. rewrite Hc in Hc'. now injection Hc' as <-. }
    assert (Hdet' : forall x, In x (det (force_id false s a cl i)) -> In x (det s) \/ In (i, x) r1).
    { intros x. unfold force_id; simpl. fold r1. destruct (lookup i r1) as [b|] eqn:El; auto.
      intros [<-|Hx]; auto. right. now apply lookup_in. }
    constructor.
    - simpl. fold r1. constructor; [|now apply remove_nodup]. intro Hk. apply remove_keys in Hk as [_ Hk]. congruence.
    - intros j x. simpl. fold r1. intros [E|Hx].
      + injection E as <- <-. exists (with_id cl i). auto.
      + apply remove_in in Hx as [Hx Hji]. apply Hr1 in Hx as [Hx Hjc].
        destruct (Nat.eq_dec x a) as [->|Hxa]; [apply Hown in Hx; congruence|].
        rewrite (Hcell _ Hxa). now apply Hok.
    - intros x cx Hx Hxd Hxg. simpl. fold r1. destruct (Nat.eq_dec x a) as [->|Hxa].
      + rewrite Hcella in Hx. injection Hx as <-. left. reflexivity.
      + rewrite (Hcell _ Hxa) in Hx. right. apply remove_in.
        assert (Hd0 : ~ In x (det s)).
        { intro Hd. apply Hxd. unfold force_id; simpl. fold r1. destruct (lookup i r1); simpl; auto. }
        pose proof (Hall _ _ Hx Hd0 Hxg) as Hreg.
        assert (Hkc : k_id cx <> k_id cl).
        { intro E. rewrite E in Hreg. apply Hxa. apply (in_lookup _ _ _ Hf) in Hreg. apply (in_lookup _ _ _ Hf) in Hin. congruence. }
        split; [apply Hr1; auto|]. intro E. apply Hxd. unfold force_id; simpl. fold r1.
        assert (Hl : lookup i r1 = Some x) by (apply in_lookup; auto; apply Hr1; rewrite <- E; auto).
        rewrite Hl. simpl. auto.
    - intros j x. simpl. fold r1. intros [E|Hx].
      + injection E as <- <-. destruct (Hdet _ _ Hin) as [Hd Hg]. split; auto. intro Hd'.
        apply Hdet' in Hd' as [Hd'|Hd']; auto. apply Hr1 in Hd' as [Hd' _]. apply Hown in Hd'. congruence.
      + apply remove_in in Hx as [Hx Hji]. apply Hr1 in Hx as [Hx Hjc]. destruct (Hdet _ _ Hx) as [Hd Hg]. split; auto.
        intro Hd'. apply Hdet' in Hd' as [Hd'|Hd']; auto. apply Hr1 in Hd' as [Hd' _].
        destruct (Hok _ _ Hx) as [c1 [Hc1 E1]]. destruct (Hok _ _ Hd') as [c2 [Hc2 E2]]. rewrite Hc1 in Hc2.
        injection Hc2 as <-. congruence.
    - intros x [Hx|Hx]; simpl; rewrite set_nth_length.
      + apply Hdet' in Hx as [Hx|Hx]; [apply Hb; auto|]. apply Hr1 in Hx as [Hx _].
        destruct (Hok _ _ Hx) as [c1 [Hc1 _]]. eapply cell_at_lt; eauto.
      + apply Hb; auto.
    - intros x cx Hx k Hk. destruct (Nat.eq_dec x a) as [->|Hxa].
      + rewrite Hcella in Hx. injection Hx as <-. eapply Hh; eauto.
      + rewrite (Hcell _ Hxa) in Hx. eapply Hh; eauto.
    - intros r Hr. simpl. rewrite set_nth_length. now apply Hro.
  Qed.
  (* either variant of the forced-id branch keeps the invariant (the repaired one does nothing when the id is held) *)
  Theorem force_inv fx s a cl i : Inv0 s -> cell_at s a = Some cl -> In (k_id cl, a) (reg s) -> k_id cl <> i ->
    Inv0 (force_id fx s a cl i).
  Proof.
    intros Hs Hc Hin Hne. destruct (force_id_cases fx s a cl i) as [->| ->]; auto. now apply force_inv_raw.
  Qed.

  (* when nothing has taken the serialized id (the premise of the property), nobody is evicted: `det` is as it was *)
  Theorem force_no_takeover fx s a cl i : k_id cl <> i -> lookup i (reg s) = None ->
    det (force_id fx s a cl i) = det s /\ get_any (force_id fx s a cl i) i = Some a.
  Proof.
    intros Hne E. unfold force_id, get_any. rewrite E, andb_false_r. simpl.
    rewrite lookup_remove_other, E, pystr_eqb_refl by auto. auto.
  Qed.

  (* no existing node is modified: only the node just built has its id overwritten *)
  Theorem force_frame fx s a cl i x : x <> a -> cell_at (force_id fx s a cl i) x = cell_at s x.
  Proof.
    intro Hx. destruct (force_id_cases fx s a cl i) as [->| ->]; auto.
    unfold cell_at; simpl. apply set_nth_other. congruence.
  Qed.

  Definition len_le (s s' : st) : Prop := length (heap s) <= length (heap s').

  (* as_obj - returning, or rejected half-way by a class's own validation - keeps the invariant of C03 (both variants) *)
  Theorem deser_inv fx : forall fuel s v, Inv0 s ->
    match deser H ct late fx fuel s v with
    | DOk s' a => Inv0 s' /\ len_le s s' /\ a < length (heap s')
    | DLate s' => Inv0 s' /\ len_le s s'
    | DFuel => True
    end.
  Proof.
    induction fuel as [|f IH]; intros s v Hs; simpl; [exact I|]. destruct v as [i c o ps ks].
    destruct (lookup i (reg s)) as [b|] eqn:El.
    - split; auto. split; [unfold len_le; lia|]. apply lookup_in in El.
      destruct (I_ok _ Hs _ _ El) as [cb [Hcb _]]. eapply cell_at_lt; eauto.
    - pose (Q := fun (t : st) (y : nat) => y < length (heap t)).
      pose (Q' := fun (t : st) (k : pystr * (kshape * list nat)) => Forall (Q t) (snd (snd k))).
      assert (Rrefl : forall t, len_le t t) by (intro; unfold len_le; lia).
      assert (Rtrans : forall a b c, len_le a b -> len_le b c -> len_le a c) by (unfold len_le; intros; lia).
      assert (Qmono : forall t t' y, Q t y -> len_le t t' -> Q t' y) by (unfold Q, len_le; intros; lia).
      assert (Q'mono : forall t t' y, Q' t y -> len_le t t' -> Q' t' y).
      { intros t t' y Hq G. unfold Q' in *. eapply Forall_impl; [|exact Hq]. intros z Hz. eapply Qmono; eauto. }
      assert (Hinner : forall t x, Inv0 t -> match deser H ct late fx f t x with
                                              | DOk t' y => Inv0 t' /\ len_le t t' /\ Q t' y
                                              | DLate t' => Inv0 t' /\ len_le t t'
                                              | DFuel => True
                                              end) by (intros t x Ht; exact (IH t x Ht)).
      assert (Houter : forall t k, Inv0 t ->
         match (match mapM_d (deser H ct late fx f) t (snd (snd k)) with
                | DOk t' l => DOk t' (fst k, (fst (snd k), l))
                | DLate t' => DLate t'
                | DFuel => DFuel
                end) with
         | DOk t' y => Inv0 t' /\ len_le t t' /\ Q' t' y
         | DLate t' => Inv0 t' /\ len_le t t'
         | DFuel => True
         end).
      { intros t k Ht. pose proof (mapM_d_spec _ Inv0 len_le Q Rrefl Rtrans Qmono Hinner (snd (snd k)) t Ht) as M.
        destruct (mapM_d (deser H ct late fx f) t (snd (snd k))) as [t1 l|t1|]; auto. }
      pose proof (mapM_d_spec _ Inv0 len_le Q' Rrefl Rtrans Q'mono Houter ks s Hs) as M.
      destruct (mapM_d _ s ks) as [s1 ks'|s1|]; auto.
      destruct M as [Hs1 [G1 Hq]].
      assert (Hbelow : kids_below (length (heap s1)) ks').
      { intros k Hin. apply in_flat_map in Hin as [e [He Hk]]. rewrite Forall_forall in Hq.
        specialize (Hq _ He). unfold Q' in Hq. rewrite Forall_forall in Hq. apply Hq. auto. }
      destruct (construct H ct late s1 c o ps ks') as [s2 a|s2|] eqn:Eco; auto.
      + apply construct_ok in Eco as [Ea _]. pose proof (alloc_inv H ct _ _ _ _ _ _ _ Hs1 Hbelow Ea) as Hs2.
        pose proof Ea as Esh. apply alloc_shape in Esh as [i' [_ [Ha [_ Esh]]]].
        assert (Hl2 : length (heap s2) = S (length (heap s1))) by (rewrite Esh; simpl; rewrite app_length; simpl; lia).
        assert (Hc2 : cell_at s2 a = Some (mkcell H ct c o ps ks' i' (heap s1))).
        { rewrite Esh, Ha. unfold cell_at; simpl. rewrite nth_error_app2, Nat.sub_diag by lia. reflexivity. }
        rewrite Hc2. cbn [k_id mkcell]. destruct (pystr_eqb_spec i' i) as [->|Hne].
        * split; auto. unfold len_le in *. split; lia.
        * split; [apply force_inv; auto; rewrite Esh, Ha; simpl; auto|].
          unfold len_le in *. rewrite force_len. split; lia.
      + apply construct_late in Eco as [a [Ea _]]. pose proof (alloc_inv H ct _ _ _ _ _ _ _ Hs1 Hbelow Ea) as Hs2.
        split; auto. apply alloc_shape in Ea as [i' [_ [_ [_ ->]]]]. unfold len_le in *. simpl. rewrite app_length. lia.
  Qed.

  (* ---------- the code in /repo (forced id only while free): what ONE as_obj call does to a state ----------
     Relative to the state s0 in which the call started: the invariant holds, the old cells, the variables, the ghost
     sets and the slots are what they were, EVERY entry of the registry is still there (nobody is evicted), every other
     entry belongs to a node built by the call, and a node built by the call points at nodes built by the call or at
     nodes that were registered when the call started. *)
  Record DP (s0 t : st) : Prop := {
    dp_inv : Inv0 t;
    dp_len : length (heap s0) <= length (heap t);
    dp_old : forall a, a < length (heap s0) -> nth_error (heap t) a = nth_error (heap s0) a;
    dp_vars : vars t = vars s0;
    dp_gone : gone t = gone s0;
    dp_det : det t = det s0;
    dp_slots : slots t = slots s0;
    dp_sub : forall e, In e (reg s0) -> In e (reg t);
    dp_sup : forall e, In e (reg t) -> In e (reg s0) \/ length (heap s0) <= snd e;
    dp_new : forall y c, length (heap s0) <= y -> cell_at t y = Some c ->
               forall k, In k (all_kids c) -> k < length (heap s0) -> exists j, In (j, k) (reg s0)
  }.
  Definition DQ (s0 t : st) (y : nat) : Prop :=
    y < length (heap t) /\ (y < length (heap s0) -> exists j, In (j, y) (reg s0)).

  Lemma DP_refl s : Inv0 s -> DP s s.
  Proof.
    intro Hs. constructor; auto.
    intros y c Hy Hc. apply cell_at_lt in Hc. lia.
  Qed.

  Lemma reg_lt s i a : Inv0 s -> In (i, a) (reg s) -> a < length (heap s).
  Proof. intros Hs Hin. destruct (I_ok _ Hs _ _ Hin) as [c [Hc _]]. eapply cell_at_lt; eauto. Qed.

  Lemma alloc_DP s0 s1 c o ps ks s2 a : DP s0 s1 ->
    (forall k, In k (flat_map (fun k => snd (snd k)) ks) -> DQ s0 s1 k) ->
    alloc H ct s1 c o ps ks = Some (s2, a) -> DP s0 s2 /\ a = length (heap s1).
  Proof.
    intros [Hi Hl Ho Hv Hg Hd Hsl Hsub Hsup Hnew] Hk Ea.
    assert (Hs2 : Inv0 s2) by (eapply alloc_inv; eauto; intros k Hin; apply Hk; auto).
    apply alloc_shape in Ea as [i [_ [-> [_ ->]]]]. split; [|reflexivity]. constructor; simpl; auto.
    - rewrite app_length. lia.
    - intros x Hx. rewrite nth_error_app1 by lia. auto.
    - intros e [<-|Hin]; simpl; auto.
    - intros y cy Hy Hc k Hin Hlt. unfold cell_at in Hc; simpl in Hc.
      destruct (Nat.lt_ge_cases y (length (heap s1))) as [Hy1|Hy1].
      + rewrite nth_error_app1 in Hc by auto. eapply Hnew; eauto.
      + rewrite nth_error_app2 in Hc by auto. destruct (y - length (heap s1)) as [|m]; simpl in Hc; [|destruct m; discriminate].
        injection Hc as <-. unfold all_kids in Hin; simpl in Hin. apply Hk in Hin as [_ Hj]. auto.
  Qed.

  Lemma force_DP s0 s2 a cl i : Inv0 s0 -> DP s0 s2 -> cell_at s2 a = Some cl -> In (k_id cl, a) (reg s2) ->
    length (heap s0) <= a -> k_id cl <> i -> lookup i (reg s2) = None -> DP s0 (force_id false s2 a cl i).
  Proof.
    intros Hs0 [Hi Hl Ho Hv Hg Hd Hsl Hsub Hsup Hnew] Hc Hin Ha Hne El.
    assert (Hl1 : lookup i (remove_id (k_id cl) (reg s2)) = None) by (rewrite lookup_remove_other; auto).
    constructor; simpl; auto.
    - now apply force_inv_raw.
    - rewrite set_nth_length. auto.
    - intros x Hx. rewrite set_nth_other by lia. auto.
    - now rewrite Hl1.
    - intros [j x] Hjx. right. apply remove_in. pose proof (Hsub _ Hjx) as H2.
      assert (Hji : j <> i). { intro E. subst j. apply lookup_none in El. apply El. eapply in_keys; eauto. }
      split; auto. apply remove_in. split; auto. intro E. subst j.
      apply (in_lookup _ _ _ (I_fun _ Hi)) in H2. apply (in_lookup _ _ _ (I_fun _ Hi)) in Hin.
      assert (x = a) by congruence. subst x. pose proof (reg_lt _ _ _ Hs0 Hjx). lia.
    - intros [j x] [E|Hin']; [injection E as <- <-; right; simpl; auto|]. apply remove_in in Hin' as [Hin' _].
      apply remove_in in Hin' as [Hin' _]. auto.
    - intros y cy Hy Hcy k Hk Hlt. unfold cell_at in Hcy; simpl in Hcy.
      destruct (Nat.eq_dec y a) as [->|Hya].
      + rewrite set_nth_same in Hcy by (eapply cell_at_lt; eauto). injection Hcy as <-.
        eapply (Hnew a cl); eauto.
      + rewrite set_nth_other in Hcy by auto. eapply Hnew; eauto.
  Qed.

  Lemma DQ_mono s0 t t' y : DQ s0 t y -> len_le t t' -> DQ s0 t' y.
  Proof. unfold DQ, len_le. intros [? ?] ?. split; auto. lia. Qed.

  Theorem deser_spec s0 : Inv0 s0 -> forall fuel t v, DP s0 t ->
    match deser H ct late true fuel t v with
    | DOk t' a => DP s0 t' /\ len_le t t' /\ DQ s0 t' a
    | DLate t' => DP s0 t' /\ len_le t t'
    | DFuel => True
    end.
  Proof.
    intro Hs0. induction fuel as [|f IH]; intros s v Hs; simpl; [exact I|]. destruct v as [i c o ps ks].
    destruct (lookup i (reg s)) as [b|] eqn:El.
    - split; auto. split; [unfold len_le; lia|]. apply lookup_in in El. split.
      + eapply reg_lt; eauto. apply Hs.
      + intro Hb. destruct (dp_sup _ _ Hs _ El) as [Hin|Hge]; [eauto|simpl in Hge; lia].
    - pose (Q := DQ s0).
      pose (Q' := fun (t : st) (k : pystr * (kshape * list nat)) => Forall (Q t) (snd (snd k))).
      assert (Rrefl : forall t, len_le t t) by (intro; unfold len_le; lia).
      assert (Rtrans : forall a b c, len_le a b -> len_le b c -> len_le a c) by (unfold len_le; intros; lia).
      assert (Qmono : forall t t' y, Q t y -> len_le t t' -> Q t' y) by (intros; eapply DQ_mono; eauto).
      assert (Q'mono : forall t t' y, Q' t y -> len_le t t' -> Q' t' y).
      { intros t t' y Hq G. unfold Q' in *. eapply Forall_impl; [|exact Hq]. intros z Hz. eapply Qmono; eauto. }
      assert (Hinner : forall t x, DP s0 t -> match deser H ct late true f t x with
                                              | DOk t' y => DP s0 t' /\ len_le t t' /\ Q t' y
                                              | DLate t' => DP s0 t' /\ len_le t t'
                                              | DFuel => True
                                              end) by (intros t x Ht; exact (IH t x Ht)).
      assert (Houter : forall t k, DP s0 t ->
         match (match mapM_d (deser H ct late true f) t (snd (snd k)) with
                | DOk t' l => DOk t' (fst k, (fst (snd k), l))
                | DLate t' => DLate t'
                | DFuel => DFuel
                end) with
         | DOk t' y => DP s0 t' /\ len_le t t' /\ Q' t' y
         | DLate t' => DP s0 t' /\ len_le t t'
         | DFuel => True
         end).
      { intros t k Ht. pose proof (mapM_d_spec _ (DP s0) len_le Q Rrefl Rtrans Qmono Hinner (snd (snd k)) t Ht) as M.
        destruct (mapM_d (deser H ct late true f) t (snd (snd k))) as [t1 l|t1|]; auto. }
      pose proof (mapM_d_spec _ (DP s0) len_le Q' Rrefl Rtrans Q'mono Houter ks s Hs) as M.
      destruct (mapM_d _ s ks) as [s1 ks'|s1|]; auto.
      destruct M as [Hs1 [G1 Hq]].
      assert (Hkq : forall k, In k (flat_map (fun k => snd (snd k)) ks') -> DQ s0 s1 k).
      { intros k Hin. apply in_flat_map in Hin as [e [He Hk]]. rewrite Forall_forall in Hq.
        specialize (Hq _ He). unfold Q' in Hq. rewrite Forall_forall in Hq. apply Hq. auto. }
      destruct (construct H ct late s1 c o ps ks') as [s2 a|s2|] eqn:Eco; auto.
      + apply construct_ok in Eco as [Ea _]. destruct (alloc_DP _ _ _ _ _ _ _ _ Hs1 Hkq Ea) as [Hs2 Ha].
        pose proof Ea as Esh. apply alloc_shape in Esh as [i' [_ [_ [_ Esh]]]].
        assert (Hl2 : length (heap s2) = S (length (heap s1))) by (rewrite Esh; simpl; rewrite app_length; simpl; lia).
        assert (Hc2 : cell_at s2 a = Some (mkcell H ct c o ps ks' i' (heap s1))).
        { rewrite Esh, Ha. unfold cell_at; simpl. rewrite nth_error_app2, Nat.sub_diag by lia. reflexivity. }
        assert (Hlen1 : length (heap s0) <= length (heap s1)) by apply Hs1.
        assert (Hqa : forall t, length (heap t) = length (heap s2) -> DQ s0 t a).
        { intros t Ht. split; [lia|]. intro. lia. }
        rewrite Hc2. cbn [k_id mkcell]. destruct (pystr_eqb_spec i' i) as [->|Hne].
        * split; auto. unfold len_le in *. split; [lia|auto].
        * rewrite force_id_true. destruct (lookup i (reg s2)) as [b|] eqn:El2.
          -- split; auto. unfold len_le in *. split; [lia|auto].
          -- split; [|unfold len_le in *; rewrite force_len; split; [lia|apply Hqa; apply force_len]].
             apply force_DP; auto; [rewrite Esh, Ha; simpl; auto|lia].
      + apply construct_late in Eco as [a [Ea _]]. destruct (alloc_DP _ _ _ _ _ _ _ _ Hs1 Hkq Ea) as [Hs2 Ha].
        split; auto. apply alloc_shape in Ea as [i' [_ [_ [_ ->]]]]. unfold len_le in *. simpl. rewrite app_length. lia.
  Qed.

  (* deserialization NEVER evicts anybody: every lookup that answered before the call answers the same after it
     (whether the call returns or is rejected half-way), every existing node is what it was, nothing is detached *)
  Theorem deser_never_evicts fuel s v s' : Inv0 s ->
    (deser H ct late true fuel s v = DLate s' \/ exists a, deser H ct late true fuel s v = DOk s' a) ->
    (forall j b, get_any s j = Some b -> get_any s' j = Some b) /\
    (forall a, a < length (heap s) -> cell_at s' a = cell_at s a) /\ det s' = det s /\ Inv0 s'.
  Proof.
    intros Hs Hr. pose proof (deser_spec s Hs fuel s v (DP_refl s Hs)) as M.
    assert (Hd : DP s s') by (destruct Hr as [E|[a E]]; rewrite E in M; apply M).
    split; [|split; [|split]].
    - intros j b E. unfold get_any in *. apply lookup_in in E. apply (dp_sub _ _ Hd) in E.
      apply in_lookup; auto. apply (I_fun _ (dp_inv _ _ Hd)).
    - intros a Ha. unfold cell_at. now apply (dp_old _ _ Hd).
    - apply Hd.
    - apply Hd.
  Qed.

  Lemma DP_hext s s' : DP s s' -> exists ext, heap s' = heap s ++ ext.
  Proof. intros Hd. eexists. apply prefix_ext; [apply Hd|]. intros a Ha. now apply (dp_old _ _ Hd). Qed.

  Lemma DP_failrel s s' : DP s s' -> failrel s s'.
  Proof.
    intro Hd. split; [now apply DP_hext|]. split; [apply Hd|]. split; [apply Hd|]. split; [apply Hd|apply Hd].
  Qed.

  (* ---------- no fuelled loop of as_dict / as_obj runs out ---------- *)
  Lemma sdepth_kid (ks : list (pystr * (kshape * list sval))) k x : In k ks -> In x (snd (snd k)) ->
    sdepth x <= fold_right (fun (k : pystr * (kshape * list sval)) m =>
                              fold_right (fun x m' => Nat.max (sdepth x) m') m (snd (snd k))) 0 ks.
  Proof.
    intros Hk Hx. induction ks as [|k0 ks IHk]; [destruct Hk|]. simpl. destruct Hk as [->|Hk].
    - clear IHk. induction (snd (snd k)) as [|y l IHl]; [destruct Hx|]. simpl. destruct Hx as [->|Hx]; [lia|].
      specialize (IHl Hx). lia.
    - specialize (IHk Hk). clear -IHk. induction (snd (snd k0)) as [|y l IHl]; simpl; lia.
  Qed.
End SerProofs.

(* ================= every step preserves the invariant ================= *)
Section StepProofs.
  Variable H : pystr -> pystr.
  Variable ct : ctable.
  Variable late : st -> nat -> bool.

  Lemma alloc_addr s c o ps ks s' a : alloc H ct s c o ps ks = Some (s', a) -> a < length (heap s').
  Proof. intro Ea. apply alloc_shape in Ea as [i [_ [-> [_ ->]]]]. simpl. rewrite app_length; simpl. lia. Qed.

  Lemma bind_inv dst r : Inv0 (fst r) -> (forall a, snd r = OkNode a -> a < length (heap (fst r))) ->
    Inv0 (fst (bind dst r)).
  Proof.
    destruct r as [s [| a | b | e | | |]]; simpl; auto. intros Hs Ha. apply set_var_inv; auto.
    intros a0 [= <-]. auto.
  Qed.
  Lemma bind_inv1 dst r : Inv1 (fst r) -> (forall a, snd r = OkNode a -> Inv0 (fst r) /\ a < length (heap (fst r))) ->
    Inv1 (fst (bind dst r)).
  Proof.
    destruct r as [s [| a | b | e | | |]]; simpl; auto. intros _ Ha. destruct (Ha a eq_refl) as [Hs Hlt].
    apply inv0_inv1. apply set_var_inv; auto. intros a0 [= <-]. auto.
  Qed.

  Lemma step_raw_inv s o : Inv0 s -> Inv1 (fst (step_raw H ct late true s o)).
  Proof.
    intro Hs. pose proof (inv0_inv1 s Hs) as Hs1.
    destruct o as [dst c og ps ks|dst src|dst src ch|dst src ch|x|x|v|x k|src slot|slot dst]; simpl.
    - destruct (negb _); [exact Hs1|]. destruct (new_args ct s c ps ks) as [| |ks'] eqn:En; try exact Hs1.
      destruct (construct H ct late s c og ps ks') as [s' a|s'|] eqn:Eco; [| |exact Hs1]; simpl.
      + apply construct_ok in Eco as [Ea _]. apply inv0_inv1. apply set_var_inv.
        * eapply alloc_inv; eauto. eapply new_args_below; eauto.
        * intros a0 [= <-]. eapply alloc_addr; eauto.
      + apply construct_late in Eco as [a [Ea _]]. apply inv0_inv1. eapply alloc_inv; eauto. eapply new_args_below; eauto.
    - destruct (negb _); [exact Hs1|]. destruct (resolve s src) as [a|]; [|exact Hs1].
      pose proof (dup_spec_gen H ct late (length (heap s)) s a Hs) as M.
      destruct (dup H ct late (length (heap s)) s a) as [s' a'|s'|]; [| |exact Hs1]; simpl.
      + destruct M as [Hs' [_ Ha']]. apply inv0_inv1. apply set_var_inv; auto. intros a0 [= <-]. lia.
      + apply inv0_inv1. apply M.
    - destruct (negb _); [exact Hs1|]. destruct (resolve s src) as [a|]; [|exact Hs1].
      destruct (cell_at s a) as [c|] eqn:Ec; [|exact Hs1].
      destruct (changes ct s (k_cls c) ch) as [| |ch'] eqn:Ech; try exact Hs1.
      destruct (dc_replace H ct late s a ch') as [s' r] eqn:Ed.
      destruct (dc_replace_inv H ct late _ _ _ _ _ Hs (changes_are_below ct _ _ _ _ Ech) Ed) as [Hs' Hlt].
      apply inv0_inv1. apply bind_inv; auto.
    - destruct (negb _); [exact Hs1|]. destruct (resolve s src) as [a|]; [|exact Hs1].
      destruct (cell_at s a) as [c|] eqn:Ec; [|exact Hs1].
      destruct (changes ct s (k_cls c) ch) as [| |ch'] eqn:Ech; try exact Hs1.
      destruct (replace H ct late true s a ch') as [s' r] eqn:Ed.
      destruct (replace_inv H ct late _ _ _ _ _ Hs (changes_are_below ct _ _ _ _ Ech) Ed) as [Hs' Hok].
      apply bind_inv1; auto.
    - destruct (resolve s x) as [a|]; [|exact Hs1]. simpl. apply inv0_inv1. now apply detach_inv.
    - destruct (resolve s x) as [a|]; [|exact Hs1].
      pose proof (detach_self_inv s a Hs). destruct (detach_self true s a); simpl in *. now apply inv0_inv1.
    - apply inv0_inv1. apply set_var_inv; auto. discriminate.
    - destruct (resolve s x); exact Hs1.
    - destruct (resolve s src) as [a|]; [|exact Hs1]. destruct (ser_st s a); [|exact Hs1]. simpl.
      apply inv0_inv1. now apply inv0_set_slot.
    - destruct (negb _); [exact Hs1|]. destruct (slot_get slot (slots s)) as [v|]; [|exact Hs1].
      pose proof (deser_inv H ct late true (S (sdepth v)) s v Hs) as M. unfold asobj.
      destruct (deser H ct late true (S (sdepth v)) s v) as [s' a|s'|]; [| |exact Hs1]; simpl.
      + destruct M as [Hs' [_ Ha]]. apply inv0_inv1. apply set_var_inv; auto. intros a0 [= <-]. auto.
      + apply inv0_inv1. apply M.
  Qed.

  Lemma step_inv0 s o : Inv0 s -> RInv (fst (step H ct late true s o)).
  Proof.
    intro Hs. unfold step. pose proof (step_raw_inv s o Hs) as Hr.
    destruct (step_raw H ct late true s o) as [s' r]. simpl in *. now apply gc_inv1.
  Qed.
  Theorem step_inv s o : RInv s -> RInv (fst (step H ct late true s o)).
  Proof. intros [Hs _]. now apply step_inv0. Qed.
  Theorem run_inv l : forall s, RInv s -> RInv (run H ct late true s l).
  Proof. induction l as [|o l IH]; simpl; auto. intros s Hs. apply IH. now apply step_inv. Qed.
End StepProofs.

(* ================= what the invariant says about lookups ================= *)
Section Lookups.
  Variable ct : ctable.

  Theorem lookup_exact s i a : RInv s ->
    (get_any s i = Some a <->
     exists c, cell_at s a = Some c /\ k_id c = i /\ ~ In a (det s) /\ ~ In a (gone s)).
  Proof.
    intros [Hs _]. unfold get_any. split.
    - intro E. apply lookup_in in E. destruct (I_ok _ Hs _ _ E) as [c [Hc Hi]].
      destruct (I_det _ Hs _ _ E). exists c. auto.
    - intros [c [Hc [<- [Hd Hg]]]]. apply in_lookup; [apply (I_fun _ Hs)|]. now apply (I_all _ Hs).
  Qed.

  Theorem registered_reachable s i a : RInv s -> get_any s i = Some a -> reachable s a = true.
  Proof. intros [_ Hr] E. apply lookup_in in E. eauto. Qed.

  Theorem unreachable_not_returned s a : RInv s -> reachable s a = false -> forall i, get_any s i <> Some a.
  Proof. intros Hs Hu i E. rewrite (registered_reachable _ _ _ Hs E) in Hu. discriminate. Qed.

  Theorem detached_not_returned s a : RInv s -> In a (det s) -> forall i, get_any s i <> Some a.
  Proof. intros Hs Hd i E. apply (lookup_exact _ _ _ Hs) in E as [c [_ [_ [Hn _]]]]. auto. Qed.

  Theorem get_class s cls i strict a : RInv s ->
    (get ct s cls i strict = Some a <->
     exists c, get_any s i = Some a /\ cell_at s a = Some c /\
               (if strict then k_cls c = cls else subclass ct (k_cls c) cls = true)).
  Proof.
    intros [Hs _]. unfold get, get_any. split.
    - destruct (lookup i (reg s)) as [b|] eqn:El; [|discriminate].
      destruct (cell_at s b) as [c|] eqn:Ec; [|discriminate]. destruct strict.
      + destruct (pystr_eqb_spec (k_cls c) cls); [|discriminate]. intros [= <-]. exists c. auto.
      + destruct (subclass ct (k_cls c) cls) eqn:Es; [|discriminate]. intros [= <-]. exists c. auto.
    - intros [c [-> [-> Hc]]]. destruct strict.
      + subst. now rewrite pystr_eqb_refl.
      + now rewrite Hc.
  Qed.

  Theorem unique_ids s a b ca cb : RInv s ->
    cell_at s a = Some ca -> cell_at s b = Some cb ->
    get_any s (k_id ca) = Some a -> get_any s (k_id cb) = Some b ->
    k_id ca = k_id cb -> a = b.
  Proof. unfold get_any. intros _ _ _ Ea Eb E. rewrite E in Ea. congruence. Qed.

  (* the same, said about the registry as a set of entries: no id is held twice *)
  Theorem unique_ids_entries s i a b : RInv s -> In (i, a) (reg s) -> In (i, b) (reg s) -> a = b.
  Proof.
    intros [Hs _] Ha Hb. apply (in_lookup _ _ _ (I_fun _ Hs)) in Ha. apply (in_lookup _ _ _ (I_fun _ Hs)) in Hb. congruence.
  Qed.
End Lookups.

(* ================= a replace() that raises leaves the registry as it was ================= *)
Lemma reach_ext s s' : heap s' = heap s -> vars s' = vars s -> reachable_set s' = reachable_set s.
Proof. intros Hh Hv. unfold reachable_set, roots, tree_of. now rewrite Hh, Hv. Qed.

Lemma lookup_restore i a r j : lookup i r = Some a -> lookup j (dict_set i a (remove_id i r)) = lookup j r.
Proof.
  intro E. unfold dict_set. simpl. destruct (pystr_eqb_spec j i) as [->|Hne]; [congruence|].
  now rewrite !lookup_remove_other.
Qed.

Lemma lookup_equiv r r' : NoDup (keys r) -> NoDup (keys r') ->
  (forall j x, In (j, x) r' <-> In (j, x) r) -> forall j, lookup j r' = lookup j r.
Proof.
  intros Hn Hn' Heq j. destruct (lookup j r) as [a|] eqn:E.
  - apply lookup_in in E. apply Heq in E. now apply in_lookup.
  - destruct (lookup j r') as [b|] eqn:E'; auto. apply lookup_in in E'. apply Heq in E'.
    apply lookup_none in E. apply in_keys in E'. tauto.
Qed.

Lemma bind_raised dst r s' e : bind dst r = (s', Raised e) -> r = (s', Raised e).
Proof. destruct r as [s [| a | b | e' | | |]]; simpl; auto; discriminate. Qed.

Section Fail.
  Variable H : pystr -> pystr.
  Variable ct : ctable.
  Variable late : st -> nat -> bool.

  Lemma dc_replace_raised_grow s a ch s' e : dc_replace H ct late s a ch = (s', Raised e) -> grow s s'.
  Proof.
    intro Ed. apply dc_replace_raised in Ed as [->|[c [a' [_ Ea]]]]; [apply grow_refl|eapply alloc_grow; eauto].
  Qed.

  Lemma replace_raised_failrel s a ch s' e : Inv0 s -> replace H ct late true s a ch = (s', Raised e) -> failrel s s'.
  Proof.
    intros Hs Er. apply replace_raised_cases in Er as [c [s2 [Ec [Ed [[El ->]|[El ->]]]]]].
    - rewrite (detach_self_registered _ _ _ Ec El) in Ed. simpl in Ed.
      apply dc_replace_raised_grow in Ed. destruct Ed as [Hh [[nr [Hr Hn]] [Hv [_ Hg]]]]. simpl in *.
      repeat split; auto; simpl.
      + intros [j x] Hin. destruct (pystr_eqb_spec j (k_id c)) as [->|Hne].
        * left. f_equal. apply (in_lookup _ _ _ (I_fun _ Hs)) in Hin. congruence.
        * right. apply remove_in. split; auto. rewrite Hr. apply in_or_app. right. apply remove_in. auto.
      + intros [j x] [E|Hin].
        * injection E as <- <-. left. now apply lookup_in.
        * apply remove_in in Hin as [Hin _]. rewrite Hr in Hin. apply in_app_or in Hin as [Hin|Hin]; [right; auto|].
          left. apply remove_in in Hin. tauto.
    - rewrite (detach_self_unregistered _ _ _ Ec El) in Ed. simpl in Ed.
      apply dc_replace_raised_grow in Ed. destruct Ed as [Hh [[nr [Hr Hn]] [Hv [_ Hg]]]]. simpl in *.
      repeat split; auto.
      + intros e0 Hin. rewrite Hr. apply in_or_app. auto.
      + intros e0 Hin. rewrite Hr in Hin. apply in_app_or in Hin as [Hin|Hin]; auto.
  Qed.

  Lemma step_raw_raised s o s2 e : Inv0 s -> step_raw H ct late true s o = (s2, Raised e) -> failrel s s2.
  Proof.
    intro Hs. destruct o as [dst c og ps ks|dst src|dst src ch|dst src ch|x|x|v|x k|src slot|slot dst]; simpl.
    - destruct (negb _); [discriminate|]. destruct (new_args ct s c ps ks) as [| |ks']; try discriminate.
      destruct (construct H ct late s c og ps ks') as [s' a|s'|] eqn:Eco; try (simpl; discriminate).
      intros [= <- _]. apply construct_late in Eco as [a [Ea _]]. apply grow_failrel. eapply alloc_grow; eauto.
    - destruct (negb _); [discriminate|]. destruct (resolve s src) as [a|]; [|discriminate].
      destruct (dup H ct late (length (heap s)) s a) as [s' a'|s'|] eqn:Ed; try (simpl; discriminate).
      intros [= <- _]. apply grow_failrel. apply (dup_spec_late H ct late _ _ _ _ Hs Ed).
    - destruct (negb _); [discriminate|]. destruct (resolve s src) as [a|]; [|discriminate].
      destruct (cell_at s a) as [c|]; [|discriminate].
      destruct (changes ct s (k_cls c) ch) as [| |ch']; try discriminate.
      intro Eb. apply bind_raised in Eb. apply grow_failrel. eapply dc_replace_raised_grow; eauto.
    - destruct (negb _); [discriminate|]. destruct (resolve s src) as [a|]; [|discriminate].
      destruct (cell_at s a) as [c|]; [|discriminate].
      destruct (changes ct s (k_cls c) ch) as [| |ch']; try discriminate.
      intro Eb. apply bind_raised in Eb. eapply replace_raised_failrel; eauto.
    - destruct (resolve s x); discriminate.
    - destruct (resolve s x) as [a|]; [|discriminate]. destruct (detach_self true s a). discriminate.
    - discriminate.
    - destruct (resolve s x); discriminate.
    - destruct (resolve s src) as [a|]; [|discriminate]. destruct (ser_st s a); discriminate.
    - destruct (negb _); [discriminate|]. destruct (slot_get slot (slots s)) as [v|]; [|discriminate].
      pose proof (deser_spec H ct late s Hs (S (sdepth v)) s v (DP_refl s Hs)) as M. unfold asobj.
      destruct (deser H ct late true (S (sdepth v)) s v) as [s' a'|s'|]; try (simpl; discriminate).
      intros [= <- _]. apply DP_failrel. apply M.
  Qed.
End Fail.

(* ================= ids ================= *)
Section Ids.
  Variable H : pystr -> pystr.
  Variable ct : ctable.

  (* the id of a new node is the bare digest of its id preimage whenever no registered node holds that id *)
  Theorem id_deterministic s c o ps ks s' a :
    alloc H ct s c o ps ks = Some (s', a) ->
    get_any s (H (id_data_of ct current c o ps (kd_of (heap s) ks))) = None ->
    exists cl, cell_at s' a = Some cl /\ k_id cl = H (id_data_of ct current c o ps (kd_of (heap s) ks)).
  Proof.
    intros Ea El. apply alloc_shape in Ea as [i [_ [-> [En ->]]]].
    rewrite (next_unique_base _ _ _ El) in En. injection En as <-.
    eexists. split; [unfold cell_at; simpl; rewrite nth_error_app2, Nat.sub_diag by lia; reflexivity|reflexivity].
  Qed.

  (* in general: the digest, or the digest with the first free suffix _k, all smaller ones being taken *)
  Theorem id_is_first_free s c o ps ks s' a :
    alloc H ct s c o ps ks = Some (s', a) ->
    exists cl k, cell_at s' a = Some cl /\
      k_id cl = cand (H (id_data_of ct current c o ps (kd_of (heap s) ks))) k /\
      get_any s (k_id cl) = None.
  Proof.
    intro Ea. apply alloc_shape in Ea as [i [Hi [-> [En ->]]]].
    assert (Hk : forall fuel k0 r j, next_unique (H (id_data_of ct current c o ps (kd_of (heap s) ks))) k0 fuel r = Some j ->
                 exists k, j = cand (H (id_data_of ct current c o ps (kd_of (heap s) ks))) k).
    { induction fuel as [|f IH]; intros k0 r j; simpl; destruct (lookup _ r); try discriminate; eauto;
        intros [= <-]; eauto. }
    destruct (Hk _ _ _ _ En) as [k ->].
    eexists; exists k. split; [unfold cell_at; simpl; rewrite nth_error_app2, Nat.sub_diag by lia; reflexivity|].
    split; [reflexivity|exact Hi].
  Qed.

  (* the preimage reads the origin through its fqn only and the properties through the comparable ones only *)
  Theorem id_data_deps vr c o o' ps ps' kd :
    ofqn o = ofqn o' -> enc_props ct c ps = enc_props ct c ps' ->
    id_data_of ct vr c o ps kd = id_data_of ct vr c o' ps' kd.
  Proof. intros Eo Ep. unfold id_data_of, props_data. now rewrite Eo, Ep. Qed.
End Ids.

(* ================= the defect repaired by D4, against the code before the repair ================= *)
Definition demo_ct : ctable := [{| cd_name := lit "A"; cd_bases := []; cd_own := [] |}].
Definition demo_H (s : pystr) : pystr := s.
Definition demo_ops : list op :=
  [New 0 (lit "A") ONo [] []; DetachSelf (0, 0); New 1 (lit "A") ONo [] []; DetachSelf (0, 0)].
Definition demo (fx : bool) : st := run demo_H demo_ct no_late fx (init_st 2) demo_ops.

(* unrepaired: after x.detach_self(); y = twin; x.detach_self() the live, never detached y (address 1) is not found *)
Lemma refuted_double_detach :
  let s := run demo_H demo_ct no_late false (init_st 2) demo_ops in
  exists c, cell_at s 1 = Some c /\ reachable s 1 = true /\ ~ In 1 (det s) /\ ~ In 1 (gone s) /\
            get_any s (k_id c) = None.
Proof.
  eexists. split; [vm_compute; reflexivity|]. split; [vm_compute; reflexivity|].
  split; [vm_compute; intuition lia|]. split; [vm_compute; intuition lia|]. vm_compute. reflexivity.
Qed.
Lemma repaired_double_detach :
  let s := run demo_H demo_ct no_late true (init_st 2) demo_ops in exists c, cell_at s 1 = Some c /\ get_any s (k_id c) = Some 1.
Proof. eexists. split; vm_compute; reflexivity. Qed.

(* ================= C14: duplicate ================= *)
Lemma nodup_app_disjoint {A} (l1 l2 : list A) x : NoDup (l1 ++ l2) -> In x l1 -> ~ In x l2.
Proof.
  induction l1 as [|y l1 IH]; simpl; [tauto|]. intro Hnd. inversion Hnd; subst.
  intros [->|Hin]; [|auto]. intro Hx. apply H1. apply in_or_app. auto.
Qed.

Lemma pre_above n s' : range_ok n s' ->
  forall fuel a x, n <= a -> In x (pre (heap s') fuel a) -> n <= x.
Proof.
  intro Hr. induction fuel as [|f IH]; simpl; [tauto|]. intros a x Ha.
  destruct (nth_error (heap s') a) as [c|] eqn:E; [|simpl; tauto].
  intros [<-|Hin]; auto. apply in_flat_map in Hin as [k [Hk Hx]].
  assert (Hlt : a < length (heap s')) by (apply nth_error_Some; congruence).
  destruct (Hr a) as [c' [Hc' [Hkids _]]]; [lia|]. unfold cell_at in Hc'. rewrite E in Hc'. injection Hc' as <-.
  eapply IH; [|exact Hx]. auto.
Qed.

Section Copies.
  Variable H : pystr -> pystr.
  Variable ct : ctable.
  Variable late : st -> nat -> bool.

  (* every node of the copy is a new object, registered under its id *)
  Theorem dup_fresh fuel s a s' a' : Inv0 s -> dup H ct late fuel s a = DOk s' a' ->
    forall x, In x (tree_of s' a') ->
      length (heap s) <= x /\ exists c, cell_at s' x = Some c /\ get_any s' (k_id c) = Some x.
  Proof.
    intros Hs Ed x Hx. destruct (dup_spec H ct late _ _ _ _ _ Hs Ed) as [Hs' [[G Hr] Ha']].
    assert (Hge : length (heap s) <= x) by (apply (pre_above _ _ Hr (length (heap s')) a' x); [lia|exact Hx]).
    split; auto. apply pre_in_bound in Hx. destruct (Hr x) as [c [Hc [_ Hin]]]; [lia|].
    exists c. split; auto. apply in_lookup; auto. apply (I_fun _ Hs').
  Qed.

  (* ... and its id is the id of no node registered before the call *)
  Theorem dup_ids_disjoint fuel s a s' a' : Inv0 s -> dup H ct late fuel s a = DOk s' a' ->
    forall x c, In x (tree_of s' a') -> cell_at s' x = Some c -> get_any s (k_id c) = None.
  Proof.
    intros Hs Ed x c Hx Hc. destruct (dup_spec H ct late _ _ _ _ _ Hs Ed) as [Hs' [[G Hr] Ha']].
    assert (Hge : length (heap s) <= x) by (apply (pre_above _ _ Hr (length (heap s')) a' x); [lia|exact Hx]).
    apply pre_in_bound in Hx. destruct (Hr x) as [c' [Hc' [_ Hin]]]; [lia|]. rewrite Hc in Hc'. injection Hc' as <-.
    destruct G as [_ [[nr [Hnr _]] _]]. pose proof (I_fun _ Hs') as Hnd. rewrite Hnr in Hnd, Hin.
    unfold keys in Hnd. rewrite map_app in Hnd.
    apply in_app_or in Hin as [Hin|Hin].
    - apply lookup_notin. eapply nodup_app_disjoint; eauto. now apply in_keys in Hin.
    - exfalso. destruct (I_ok _ Hs _ _ Hin) as [c0 [Hc0 _]]. apply cell_at_lt in Hc0. lia.
  Qed.

  (* duplicate never runs out of fuel: the recursion follows children, which have smaller addresses *)
  Lemma mapM_d_no_fuel {A B} (f : st -> A -> dres B) (P : st -> Prop) :
    forall l, (forall s x, In x l -> P s -> f s x <> DFuel /\ forall s', (f s x = DLate s' \/ exists y, f s x = DOk s' y) -> P s') ->
    forall s, P s -> mapM_d f s l <> DFuel /\ forall s', (mapM_d f s l = DLate s' \/ exists y, mapM_d f s l = DOk s' y) -> P s'.
  Proof.
    induction l as [|x l IH]; simpl; intros Hf s Hs.
    - split; [discriminate|]. intros s' [E|[y E]]; [discriminate|]. now injection E as <- _.
    - destruct (Hf s x (or_introl eq_refl) Hs) as [Hn Hp]. destruct (f s x) as [s1 y|s1|] eqn:Ef; [| |congruence].
      + assert (Hs1 : P s1) by (apply Hp; right; eauto).
        destruct (IH (fun s x Hin => Hf s x (or_intror Hin)) s1 Hs1) as [Hn2 Hp2].
        destruct (mapM_d f s1 l) as [s2 ys|s2|] eqn:Em; [| |congruence].
        * split; [discriminate|]. intros s' [E|[y' E]]; [discriminate|]. injection E as <- _. apply Hp2. right; eauto.
        * split; [discriminate|]. intros s' [E|[y' E]]; [|discriminate]. injection E as <-. apply Hp2. left; auto.
      + split; [discriminate|]. intros s' [E|[y' E]]; [|discriminate]. injection E as <-. apply Hp. left; auto.
  Qed.

  Lemma dup_total : forall fuel s0 s a, Inv0 s0 -> Inv0 s -> grow s0 s -> a < fuel -> a < length (heap s0) ->
    dup H ct late fuel s a <> DFuel.
  Proof.
    induction fuel as [|f IH]; intros s0 s a Hs0 Hs G Hlt Ha; [lia|]. simpl.
    destruct (cell_at s0 a) as [c|] eqn:Ec0; [|apply nth_error_None in Ec0; lia].
    rewrite (grow_cell _ _ _ _ G Ec0).
    pose (P := fun t : st => Inv0 t /\ grow s0 t).
    assert (Hdup : forall t x t', P t -> (dup H ct late f t x = DLate t' \/ exists y, dup H ct late f t x = DOk t' y) -> P t').
    { intros t x t' [Ht Gt] Hr. pose proof (dup_spec_gen H ct late f t x Ht) as M.
      destruct Hr as [E|[y E]]; rewrite E in M.
      - destruct M as [Ht' [G' _]]. split; auto. eapply grow_trans; eauto.
      - destruct M as [Ht' [[G' _] _]]. split; auto. eapply grow_trans; eauto. }
    assert (Hin : forall t k, In k (k_kids c) -> P t ->
       (match mapM_d (dup H ct late f) t (snd (snd k)) with
        | DOk t' l => DOk t' (fst k, (fst (snd k), l))
        | DLate t' => DLate t'
        | DFuel => DFuel
        end) <> DFuel /\
       forall t', ((match mapM_d (dup H ct late f) t (snd (snd k)) with
                    | DOk t' l => DOk t' (fst k, (fst (snd k), l))
                    | DLate t' => DLate t'
                    | DFuel => DFuel
                    end) = DLate t' \/
                   exists y, (match mapM_d (dup H ct late f) t (snd (snd k)) with
                              | DOk t' l => DOk t' (fst k, (fst (snd k), l))
                              | DLate t' => DLate t'
                              | DFuel => DFuel
                              end) = DOk t' y) -> P t').
    { intros t k Hk Ht.
      destruct (mapM_d_no_fuel (dup H ct late f) P (snd (snd k))) with (s := t) as [Hn Hp]; auto.
      - intros t1 x Hx [Ht1 Gt1]. split.
        + assert (x < a) by (eapply (I_heap _ Hs0); eauto; unfold all_kids; apply in_flat_map; eauto).
          apply (IH s0 t1 x Hs0 Ht1 Gt1); lia.
        + intros t2. apply Hdup. split; auto.
      - destruct (mapM_d (dup H ct late f) t (snd (snd k))) as [t1 l|t1|]; [| |congruence].
        + split; [discriminate|]. intros t' [E|[y E]]; [discriminate|]. injection E as <- _. apply Hp. right; eauto.
        + split; [discriminate|]. intros t' [E|[y E]]; [|discriminate]. injection E as <-. apply Hp. left; auto. }
    destruct (mapM_d_no_fuel _ P (k_kids c) Hin s) as [Hn _]; [split; auto|].
    destruct (mapM_d _ s (k_kids c)) as [s1 ks'|s1|]; [apply construct_no_fuel|discriminate|congruence].
  Qed.

  Theorem dup_never_out_of_fuel s a : Inv0 s -> a < length (heap s) ->
    dup H ct late (length (heap s)) s a <> DFuel.
  Proof. intros Hs Ha. exact (dup_total (length (heap s)) s s a Hs Hs (grow_refl s) Ha Ha). Qed.
End Copies.

(* ================= C14: replace ================= *)
Lemma assoc_map_upd {A} (g : pystr -> A -> A) (l : list (pystr * A)) n :
  assoc n (map (fun k => (fst k, g (fst k) (snd k))) l) = option_map (g n) (assoc n l).
Proof.
  induction l as [|[k v] l IH]; simpl; auto.
  destruct (pystr_eqb_spec k n) as [->|Hne]; auto.
Qed.

Section Replace.
  Variable H : pystr -> pystr.
  Variable ct : ctable.
  Variable late : st -> nat -> bool.

  Lemma new_kids_upd c ch : new_kids c ch =
    map (fun k => (fst k, (fun n old => match assoc n ch with Some (VKids v) => v | _ => old end) (fst k) (snd k))) (k_kids c).
  Proof. unfold new_kids. apply map_ext. intros [n v]; simpl. destruct (assoc n ch) as [[| |]|]; auto. Qed.
  Lemma new_props_upd c ch : new_props c ch =
    map (fun k => (fst k, (fun n old => match assoc n ch with Some (VProp v) => v | _ => old end) (fst k) (snd k))) (k_props c).
  Proof. unfold new_props. apply map_ext. intros [n v]; simpl. destruct (assoc n ch) as [[| |]|]; auto. Qed.

  (* a dataclasses.replace that returns is exactly one construction that passed its class's validation *)
  Lemma dc_replace_ok s a ch s' a' c : cell_at s a = Some c -> dc_replace H ct late s a ch = (s', OkNode a') ->
    alloc H ct s (k_cls c) (new_origin c ch) (new_props c ch) (new_kids c ch) = Some (s', a').
  Proof.
    intros Ec. unfold dc_replace. rewrite Ec. destruct (dc_check _ _ _); [discriminate|].
    destruct (construct _ _ _ _ _ _ _ _) as [s1 a1|s1|] eqn:Eco; try discriminate. intros [= <- <-].
    now apply construct_ok in Eco as [Ea _].
  Qed.

  (* dataclasses.replace and ASTNode.replace: same class; a changed field holds the given value, every other
     field holds what the original holds (children: the very same addresses) *)
  Theorem dc_replace_fields s a ch s' a' c : cell_at s a = Some c -> dc_replace H ct late s a ch = (s', OkNode a') ->
    exists c', cell_at s' a' = Some c' /\ a' = length (heap s) /\ k_cls c' = k_cls c /\
      k_org c' = (match assoc (lit "origin") ch with Some (VOrigin o) => o | _ => k_org c end) /\
      (forall n, assoc n (k_props c') =
                 option_map (fun old => match assoc n ch with Some (VProp v) => v | _ => old end) (assoc n (k_props c))) /\
      (forall n, assoc n (k_kids c') =
                 option_map (fun old => match assoc n ch with Some (VKids v) => v | _ => old end) (assoc n (k_kids c))).
  Proof.
    intros Ec Ed. pose proof (dc_replace_ok _ _ _ _ _ _ Ec Ed) as Ea.
    apply alloc_shape in Ea as [i [_ [-> [_ ->]]]].
    eexists. split; [unfold cell_at; simpl; rewrite nth_error_app2, Nat.sub_diag by lia; reflexivity|].
    simpl. repeat split; auto.
    - intro n. rewrite new_props_upd.
      exact (assoc_map_upd (fun n old => match assoc n ch with Some (VProp v) => v | _ => old end) (k_props c) n).
    - intro n. rewrite new_kids_upd.
      exact (assoc_map_upd (fun n old => match assoc n ch with Some (VKids v) => v | _ => old end) (k_kids c) n).
  Qed.

  (* dataclasses.replace leaves a registered original registered and the copy gets another id *)
  Theorem dc_replace_keeps_orig s a ch s' a' c : cell_at s a = Some c -> get_any s (k_id c) = Some a ->
    dc_replace H ct late s a ch = (s', OkNode a') ->
    get_any s' (k_id c) = Some a /\ exists c', cell_at s' a' = Some c' /\ k_id c' <> k_id c /\ get_any s' (k_id c') = Some a'.
  Proof.
    intros Ec El Ed. pose proof (dc_replace_ok _ _ _ _ _ _ Ec Ed) as Ea.
    apply alloc_shape in Ea as [i [Hi [-> [_ ->]]]]. unfold get_any in *. simpl.
    assert (Hne : i <> k_id c) by congruence.
    split.
    - destruct (pystr_eqb_spec (k_id c) i); [congruence|auto].
    - eexists. split; [unfold cell_at; simpl; rewrite nth_error_app2, Nat.sub_diag by lia; reflexivity|].
      simpl. split; auto. now rewrite pystr_eqb_refl.
  Qed.

  (* ASTNode.replace = unregister the original (if it is registered), then dataclasses.replace *)
  Theorem replace_is_fresh_construction s a ch s' a' : replace H ct late true s a ch = (s', OkNode a') ->
    dc_replace H ct late (fst (detach_self true s a)) a ch = (s', OkNode a').
  Proof. apply replace_ok_is_dc. Qed.

  Lemma dc_replace_ghost s a ch s' a' : dc_replace H ct late s a ch = (s', OkNode a') ->
    det s' = det s /\ gone s' = gone s /\ vars s' = vars s.
  Proof.
    intro Ed. destruct (cell_at s a) as [c|] eqn:Ec; [|unfold dc_replace in Ed; rewrite Ec in Ed; discriminate].
    pose proof (dc_replace_ok _ _ _ _ _ _ Ec Ed) as Ea.
    apply alloc_shape in Ea as [i [_ [_ [_ ->]]]]. simpl. auto.
  Qed.

  Theorem replace_unregisters s a ch s' a' c : Inv0 s -> changes_below (length (heap s)) ch ->
    cell_at s a = Some c -> replace H ct late true s a ch = (s', OkNode a') ->
    In a (det s') /\ get_any s' (k_id c) <> Some a.
  Proof.
    intros Hs Hch Ec Er. destruct (replace_inv H ct late _ _ _ _ _ Hs Hch Er) as [_ Hok].
    destruct (Hok a' eq_refl) as [Hs' _].
    apply replace_is_fresh_construction in Er.
    assert (Hd : In a (det (fst (detach_self true s a)))).
    { unfold detach_self. rewrite Ec. destruct (lookup _ _); [destruct (_ && _)|]; simpl; auto. }
    destruct (dc_replace_ghost _ _ _ _ _ Er) as [Hdet _]. rewrite <- Hdet in Hd.
    split; auto. intro E. apply lookup_in in E. destruct (I_det _ Hs' _ _ E). auto.
  Qed.

  (* corollary: when the original is registered and carries exactly the digest the new content hashes to
     (only non-comparable fields changed; no twin holds the id), the new node takes over the original's id *)
  Theorem replace_keeps_id s a ch s' a' c : cell_at s a = Some c -> get_any s (k_id c) = Some a ->
    replace H ct late true s a ch = (s', OkNode a') ->
    k_id c = H (id_data_of ct current (k_cls c) (new_origin c ch) (new_props c ch) (kd_of (heap s) (new_kids c ch))) ->
    exists c', cell_at s' a' = Some c' /\ k_id c' = k_id c.
  Proof.
    intros Ec El Er Eid. apply replace_is_fresh_construction in Er.
    rewrite (detach_self_registered _ _ _ Ec El) in Er. simpl in Er.
    assert (Ec1 : cell_at (set_reg s (remove_id (k_id c) (reg s)) (a :: det s)) a = Some c) by exact Ec.
    pose proof (dc_replace_ok _ _ _ _ _ _ Ec1 Er) as Ea.
    destruct (id_deterministic H ct _ _ _ _ _ _ _ Ea) as [cl [Hc Hi]].
    - simpl. rewrite <- Eid. unfold get_any. simpl. apply lookup_remove_same.
    - exists cl. split; auto. rewrite Hi. simpl. now rewrite <- Eid.
  Qed.
End Replace.

(* ================= C10: no step changes an existing cell (either variant of detach) ================= *)
Definition hext (s s' : st) : Prop := exists ext, heap s' = heap s ++ ext.
Lemma hext_refl s : hext s s. Proof. exists []. now rewrite app_nil_r. Qed.
Lemma hext_trans a b c : hext a b -> hext b c -> hext a c.
Proof. intros [e1 H1] [e2 H2]. exists (e1 ++ e2). now rewrite H2, H1, app_assoc. Qed.
Lemma hext_eq s s' : heap s' = heap s -> hext s s'.
Proof. intro E. exists []. now rewrite app_nil_r. Qed.

Section FrameProofs.
  Variable H : pystr -> pystr.
  Variable ct : ctable.
  Variable late : st -> nat -> bool.
  Variable fx : bool.

  Lemma alloc_hext s c o ps ks s' a : alloc H ct s c o ps ks = Some (s', a) -> hext s s'.
  Proof. intro Ea. apply alloc_shape in Ea as [i [_ [_ [_ ->]]]]. eexists; reflexivity. Qed.

  (* whatever state a construction ends in (returned or raised late) *)
  Definition dstate {A} (d : dres A) (s : st) : st :=
    match d with DOk s' _ => s' | DLate s' => s' | DFuel => s end.

  Lemma construct_hext s c o ps ks : hext s (dstate (construct H ct late s c o ps ks) s).
  Proof.
    unfold construct. destruct (alloc _ _ _ _ _ _ _) as [[s1 a1]|] eqn:Ea; [|apply hext_refl].
    apply alloc_hext in Ea. destruct (late s1 a1); exact Ea.
  Qed.

  Lemma mapM_d_hext {A B} (f : st -> A -> dres B) : (forall s x, hext s (dstate (f s x) s)) ->
    forall l s, hext s (dstate (mapM_d f s l) s).
  Proof.
    intros Hf. induction l as [|x l IH]; simpl; intro s; [apply hext_refl|].
    specialize (Hf s x). destruct (f s x) as [s1 y|s1|]; simpl in *; auto.
    specialize (IH s1). destruct (mapM_d f s1 l) as [s2 ys|s2|]; simpl in *;
      [eapply hext_trans; eauto|eapply hext_trans; eauto|apply hext_refl].
  Qed.

  Lemma dup_hext : forall fuel s a, hext s (dstate (dup H ct late fuel s a) s).
  Proof.
    induction fuel as [|f IH]; simpl; intros s a; [apply hext_refl|].
    destruct (cell_at s a) as [c|]; [|apply hext_refl].
    assert (H1 : hext s (dstate (mapM_d (fun s k => match mapM_d (dup H ct late f) s (snd (snd k)) with
                                 | DOk s' l => DOk s' (fst k, (fst (snd k), l))
                                 | DLate s' => DLate s'
                                 | DFuel => DFuel
                                 end) s (k_kids c)) s)).
    { apply mapM_d_hext. intros t k. pose proof (mapM_d_hext (dup H ct late f) (IH) (snd (snd k)) t) as M.
      destruct (mapM_d (dup H ct late f) t (snd (snd k))); exact M. }
    destruct (mapM_d _ s (k_kids c)) as [s1 ks'|s1|]; simpl in *; auto.
    pose proof (construct_hext s1 (k_cls c) (k_org c) (k_props c) ks') as H2.
    destruct (construct _ _ _ _ _ _ _ _); simpl in *;
      [eapply hext_trans; eauto|eapply hext_trans; eauto|apply hext_refl].
  Qed.

  Lemma dc_replace_hext s a ch s' r : dc_replace H ct late s a ch = (s', r) -> hext s s'.
  Proof.
    unfold dc_replace. destruct (cell_at s a) as [c|]; [|intros [= <- _]; apply hext_refl].
    destruct (dc_check _ _ _); [intros [= <- _]; apply hext_refl|].
    pose proof (construct_hext s (k_cls c) (new_origin c ch) (new_props c ch) (new_kids c ch)) as M.
    destruct (construct _ _ _ _ _ _ _ _) as [s1 a1|s1|]; intros [= <- _]; exact M.
  Qed.

  Lemma replace_hext s a ch s' r : replace H ct late fx s a ch = (s', r) -> hext s s'.
  Proof.
    unfold replace. destruct (cell_at s a) as [c|]; [|intros [= <- _]; apply hext_refl].
    destruct (detach_self_frame fx s a) as [Hh _].
    destruct (dc_replace H ct late (fst (detach_self fx s a)) a ch) as [s2 r2] eqn:Ed.
    apply dc_replace_hext in Ed.
    assert (H2 : hext s s2) by (eapply hext_trans; [apply hext_eq; exact Hh|exact Ed]).
    destruct r2; try (intros [= <- _]; exact H2).
    destruct (match lookup (k_id c) (reg s) with Some b => _ | None => None end); intros [= <- _]; exact H2.
  Qed.

  (* as_obj: the forced-id branch writes into the node just built, never below the heap the call started on *)
  Definition hpre (n : nat) (s s' : st) : Prop :=
    length (heap s) <= length (heap s') /\ forall a, a < n -> nth_error (heap s') a = nth_error (heap s) a.
  Lemma hpre_refl n s : hpre n s s.
  Proof. split; auto. Qed.
  Lemma hpre_trans n a b c : hpre n a b -> hpre n b c -> hpre n a c.
  Proof. intros [L1 H1] [L2 H2]. split; [lia|]. intros x Hx. rewrite H2, H1; auto. Qed.
  Lemma hext_hpre n s s' : hext s s' -> n <= length (heap s) -> hpre n s s'.
  Proof.
    intros [e He] Hn. split; [rewrite He, app_length; lia|]. intros a Ha. rewrite He, nth_error_app1; auto. lia.
  Qed.
  Lemma mapM_d_hpre {A B} n (f : st -> A -> dres B) :
    (forall s x, n <= length (heap s) -> hpre n s (dstate (f s x) s)) ->
    forall l s, n <= length (heap s) -> hpre n s (dstate (mapM_d f s l) s).
  Proof.
    intros Hf. induction l as [|x l IH]; simpl; intros s Hn; [apply hpre_refl|].
    specialize (Hf s x Hn). destruct (f s x) as [s1 y|s1|]; simpl in *; [|exact Hf|apply hpre_refl].
    assert (Hn1 : n <= length (heap s1)) by (destruct Hf; lia).
    specialize (IH s1 Hn1). destruct (mapM_d f s1 l) as [s2 ys|s2|]; simpl in *;
      [eapply hpre_trans; eauto|eapply hpre_trans; eauto|apply hpre_refl].
  Qed.
  Lemma deser_hpre n : forall fuel s v, n <= length (heap s) -> hpre n s (dstate (deser H ct late fx fuel s v) s).
  Proof.
    induction fuel as [|f IH]; simpl; intros s v Hn; [apply hpre_refl|]. destruct v as [i c o ps ks].
    destruct (lookup i (reg s)); [apply hpre_refl|].
    assert (H1 : hpre n s (dstate (mapM_d (fun s k => match mapM_d (deser H ct late fx f) s (snd (snd k)) with
                                 | DOk s' l => DOk s' (fst k, (fst (snd k), l))
                                 | DLate s' => DLate s'
                                 | DFuel => DFuel
                                 end) s ks) s)).
    { apply mapM_d_hpre; auto. intros t k Ht. pose proof (mapM_d_hpre n (deser H ct late fx f) IH (snd (snd k)) t Ht) as M.
      destruct (mapM_d (deser H ct late fx f) t (snd (snd k))); exact M. }
    destruct (mapM_d _ s ks) as [s1 ks'|s1|]; simpl in *; [|exact H1|apply hpre_refl].
    assert (Hn1 : n <= length (heap s1)) by (destruct H1; lia).
    pose proof (construct_hext s1 c o ps ks') as H2.
    destruct (construct H ct late s1 c o ps ks') as [s2 a|s2|] eqn:Eco; simpl in *.
    - assert (H3 : hpre n s s2) by (eapply hpre_trans; [exact H1|apply hext_hpre; auto]).
      apply construct_ok in Eco as [Ea _]. apply alloc_shape in Ea as [i' [_ [Ha [_ Esh]]]].
      destruct (cell_at s2 a) as [cl|]; simpl; [|apply hpre_refl].
      destruct (pystr_eqb (k_id cl) i); simpl; auto.
      destruct (force_id_cases fx s2 a cl i) as [-> | ->]; auto.
      eapply hpre_trans; [exact H3|]. split; simpl; [rewrite set_nth_length; lia|].
      intros x Hx. apply set_nth_other. rewrite Ha. lia.
    - eapply hpre_trans; [exact H1|apply hext_hpre; auto].
    - apply hpre_refl.
  Qed.

  Lemma bind_hext dst r s : hext s (fst r) -> hext s (fst (bind dst r)).
  Proof. destruct r as [s1 [| a | b | e | | |]]; simpl; auto. Qed.

  Lemma step_hext s o : hext s (fst (step H ct late fx s o)).
  Proof.
    unfold step. destruct (step_raw H ct late fx s o) as [s' r] eqn:E. simpl.
    assert (Hx : hext s s'); [|destruct Hx as [e He]; exists e; exact He].
    replace s' with (fst (step_raw H ct late fx s o)) by now rewrite E. clear E.
    destruct o as [dst c og ps ks|dst src|dst src ch|dst src ch|x|x|v|x k|src slot|slot dst]; simpl.
    - destruct (negb _); [apply hext_refl|]. destruct (new_args ct s c ps ks); try apply hext_refl.
      pose proof (construct_hext s c og ps x) as M.
      destruct (construct H ct late s c og ps x) as [s1 a|s1|]; simpl in *; auto.
    - destruct (negb _); [apply hext_refl|]. destruct (resolve s src) as [a|]; [|apply hext_refl].
      pose proof (dup_hext (length (heap s)) s a) as M.
      destruct (dup H ct late (length (heap s)) s a) as [s1 a'|s1|]; simpl in *; auto.
    - destruct (negb _); [apply hext_refl|]. destruct (resolve s src) as [a|]; [|apply hext_refl].
      destruct (cell_at s a) as [c|]; [|apply hext_refl].
      destruct (changes ct s (k_cls c) ch); try apply hext_refl.
      apply bind_hext. destruct (dc_replace H ct late s a x) as [s1 r1] eqn:Ed. eapply dc_replace_hext; eauto.
    - destruct (negb _); [apply hext_refl|]. destruct (resolve s src) as [a|]; [|apply hext_refl].
      destruct (cell_at s a) as [c|]; [|apply hext_refl].
      destruct (changes ct s (k_cls c) ch); try apply hext_refl.
      apply bind_hext. destruct (replace H ct late fx s a x) as [s1 r1] eqn:Ed. eapply replace_hext; eauto.
    - destruct (resolve s x) as [a|]; [|apply hext_refl]. simpl. apply hext_eq.
      apply (fold_detach_frame fx (tree_of s a) s).
    - destruct (resolve s x) as [a|]; [|apply hext_refl].
      destruct (detach_self_frame fx s a) as [Hh _]. destruct (detach_self fx s a). apply hext_eq. exact Hh.
    - apply hext_eq. reflexivity.
    - destruct (resolve s x); apply hext_refl.
    - destruct (resolve s src) as [a|]; [|apply hext_refl]. destruct (ser_st s a); [apply hext_eq; reflexivity|apply hext_refl].
    - destruct (negb _); [apply hext_refl|]. destruct (slot_get slot (slots s)) as [v|]; [|apply hext_refl].
      pose proof (deser_hpre (length (heap s)) (S (sdepth v)) s v (le_n _)) as M. unfold asobj.
      destruct (deser H ct late fx (S (sdepth v)) s v) as [s1 a'|s1|]; simpl in *; [| |apply hext_refl];
        destruct M as [Hl Hn]; exists (skipn (length (heap s)) (heap s1)); apply prefix_ext; auto.
  Qed.

  Theorem heap_frame s o a : a < length (heap s) ->
    nth_error (heap (fst (step H ct late fx s o))) a = nth_error (heap s) a.
  Proof. intro Ha. destruct (step_hext s o) as [e ->]. now apply nth_error_app1. Qed.

  Theorem run_heap_frame l : forall s a, a < length (heap s) ->
    nth_error (heap (run H ct late fx s l)) a = nth_error (heap s) a.
  Proof.
    induction l as [|o l IH]; simpl; auto. intros s a Ha.
    rewrite IH; [now apply heap_frame|]. destruct (step_hext s o) as [e ->]. rewrite app_length. lia.
  Qed.
End FrameProofs.

(* ================= no fuelled loop runs out ================= *)
Section Fuel.
  Variable H : pystr -> pystr.
  Variable ct : ctable.
  Variable late : st -> nat -> bool.

  Lemma dc_replace_no_fuel s a ch : snd (dc_replace H ct late s a ch) <> FuelOut.
  Proof.
    unfold dc_replace. destruct (cell_at s a); [|discriminate]. destruct (dc_check _ _ _); [discriminate|].
    pose proof (construct_no_fuel H ct late s (k_cls c) (new_origin c ch) (new_props c ch) (new_kids c ch)) as M.
    destruct (construct _ _ _ _ _ _ _ _); try discriminate. congruence.
  Qed.
  Lemma bind_snd dst r : snd r <> FuelOut -> snd (bind dst r) <> FuelOut.
  Proof. destruct r as [s1 [| a | b | e | | |]]; simpl; auto. Qed.

  Lemma deser_no_fuel fx : forall fuel s v, sdepth v < fuel -> deser H ct late fx fuel s v <> DFuel.
  Proof.
    induction fuel as [|f IH]; intros s v Hd; [lia|]. destruct v as [i c o ps ks]. simpl.
    destruct (lookup i (reg s)); [discriminate|].
    pose (P := fun _ : st => True).
    match goal with |- context [mapM_d ?g s ks] => set (G := g) end.
    assert (Hin : forall t k, In k ks -> P t ->
               G t k <> DFuel /\ forall t', (G t k = DLate t' \/ exists y, G t k = DOk t' y) -> P t').
    { intros t k Hk _. split; [|intros; exact I]. unfold G.
      destruct (mapM_d_no_fuel (deser H ct late fx f) P (snd (snd k))) with (s := t) as [Hn _]; [|exact I|].
      - intros t1 x Hx _. split; [|intros; exact I]. apply IH. pose proof (sdepth_kid ks k x Hk Hx). simpl in Hd. lia.
      - destruct (mapM_d (deser H ct late fx f) t (snd (snd k))); [discriminate|discriminate|congruence]. }
    destruct (mapM_d_no_fuel G P ks Hin s I) as [Hn _].
    destruct (mapM_d G s ks) as [s1 ks'|s1|]; [|discriminate|congruence].
    pose proof (construct_no_fuel H ct late s1 c o ps ks') as Hc.
    destruct (construct H ct late s1 c o ps ks') as [s2 a|s2|] eqn:Eco; [|discriminate|congruence].
    apply construct_ok in Eco as [Ea _]. apply alloc_shape in Ea as [i' [_ [-> [_ ->]]]].
    unfold cell_at; simpl. rewrite nth_error_app2, Nat.sub_diag by lia. simpl. destruct (pystr_eqb _ _); discriminate.
  Qed.
  Lemma asobj_no_fuel fx s v : asobj H ct late fx s v <> DFuel.
  Proof. unfold asobj. apply deser_no_fuel. lia. Qed.

  Lemma mapO_some {A B} (f : A -> option B) l : (forall x, In x l -> f x <> None) -> mapO f l <> None.
  Proof.
    induction l as [|x l IH]; simpl; intros Hf; [discriminate|].
    destruct (f x) eqn:E; [|exfalso; eapply Hf; eauto]. destruct (mapO f l) eqn:E2; [discriminate|].
    exfalso. apply IH; auto.
  Qed.
  (* as_dict never fails on a held tree: children have smaller addresses *)
  Lemma ser_total hp : (forall a c, nth_error hp a = Some c -> forall k, In k (all_kids c) -> k < a) ->
    forall fuel a, a < fuel -> a < length hp -> ser hp fuel a <> None.
  Proof.
    intros Hwf. induction fuel as [|f IH]; intros a Hf Ha; [lia|]. simpl.
    destruct (nth_error hp a) as [c|] eqn:E; [|apply nth_error_None in E; lia].
    match goal with |- context [mapO ?g (k_kids c)] => assert (Hm : mapO g (k_kids c) <> None) end.
    { apply mapO_some. intros k Hk.
      assert (Hi : mapO (ser hp f) (snd (snd k)) <> None).
      { apply mapO_some. intros x Hx.
        assert (x < a) by (eapply Hwf; eauto; unfold all_kids; apply in_flat_map; eauto). apply IH; lia. }
      destruct (mapO (ser hp f) (snd (snd k))); [discriminate|congruence]. }
    destruct (mapO _ (k_kids c)); [discriminate|congruence].
  Qed.

  Theorem step_no_fuel_out s o : RInv s -> snd (step H ct late true s o) <> FuelOut.
  Proof.
    intros [Hs _]. unfold step. destruct (step_raw H ct late true s o) as [s' r] eqn:E. simpl.
    replace r with (snd (step_raw H ct late true s o)) by now rewrite E. clear E.
    destruct o as [dst c og ps ks|dst src|dst src ch|dst src ch|x|x|v|x k|src slot|slot dst]; simpl.
    - destruct (negb _); [discriminate|]. destruct (new_args ct s c ps ks); try discriminate.
      pose proof (construct_no_fuel H ct late s c og ps x) as M.
      destruct (construct H ct late s c og ps x); try discriminate. congruence.
    - destruct (negb _); [discriminate|]. destruct (resolve s src) as [a|] eqn:Er; [|discriminate].
      pose proof (dup_never_out_of_fuel H ct late s a Hs (resolve_lt _ _ _ Er)) as M.
      destruct (dup H ct late (length (heap s)) s a); try discriminate. congruence.
    - destruct (negb _); [discriminate|]. destruct (resolve s src) as [a|]; [|discriminate].
      destruct (cell_at s a) as [c|]; [|discriminate]. destruct (changes ct s (k_cls c) ch); try discriminate.
      apply bind_snd. apply dc_replace_no_fuel.
    - destruct (negb _); [discriminate|]. destruct (resolve s src) as [a|]; [|discriminate].
      destruct (cell_at s a) as [c|] eqn:Ec; [|discriminate]. destruct (changes ct s (k_cls c) ch); try discriminate.
      apply bind_snd. unfold replace. rewrite Ec.
      pose proof (dc_replace_no_fuel (fst (detach_self true s a)) a x) as Hn.
      destruct (dc_replace H ct late (fst (detach_self true s a)) a x) as [s2 r2]. simpl in Hn.
      destruct r2; try discriminate; auto.
      destruct (match lookup (k_id c) (reg s) with Some b => _ | None => None end); discriminate.
    - destruct (resolve s x); discriminate.
    - destruct (resolve s x); [|discriminate]. destruct (detach_self true s n). discriminate.
    - discriminate.
    - destruct (resolve s x); discriminate.
    - destruct (resolve s src) as [a|] eqn:Er; [|discriminate].
      pose proof (ser_total (heap s) (I_heap _ Hs) (S a) a (Nat.lt_succ_diag_r a) (resolve_lt _ _ _ Er)) as M.
      unfold ser_st. destruct (ser (heap s) (S a) a); [discriminate|congruence].
    - destruct (negb _); [discriminate|]. destruct (slot_get slot (slots s)) as [v|]; [|discriminate].
      pose proof (asobj_no_fuel true s v) as M.
      destruct (asobj H ct late true s v); [simpl; discriminate|discriminate|congruence].
  Qed.
End Fuel.

(* ================= example states (premises of the theorems are inhabited) ================= *)
Definition ex_ct : ctable :=
  [{| cd_name := lit "A"; cd_bases := [];
      cd_own := [{| fd_name := lit "v"; fd_role := RProp; fd_compare := true; fd_init := true; fd_kwonly := false |};
                 {| fd_name := lit "note"; fd_role := RProp; fd_compare := false; fd_init := true; fd_kwonly := false |}] |};
   {| cd_name := lit "B"; cd_bases := [];
      cd_own := [{| fd_name := lit "xs"; fd_role := RChild KTup; fd_compare := true; fd_init := true; fd_kwonly := false |}] |}].
Definition ex_leaf (dst : nat) (v : Z) : op :=
  New dst (lit "A") ONo [(lit "v", VInt v); (lit "note", VStr (lit "n"))] [].
Definition ex_ops : list op :=
  [ex_leaf 0 1; ex_leaf 1 1; New 2 (lit "B") ONo [] [(lit "xs", (ShMany, [(0, 0); (1, 0)]))];
   DetachSelf (0, 0); Drop 1].
(* a one-character "digest": plenty of collisions *)
Definition ex_H (s : pystr) : pystr := firstn 1 (rev s).
Definition ex_state : st := run ex_H ex_ct no_late true (init_st 4) ex_ops.

Lemma ex_state_inv : RInv ex_state.
Proof. apply run_inv. apply inv_init. Qed.
