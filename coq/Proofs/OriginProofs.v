From Oak Require Import Model.Origin.
From Coq Require Import ZifyBool.
Local Open Scope Z_scope.

Ltac unf := unfold pmin, pmax, contains, overlaps, r_lt, r_le, p_ge, p_gt in *; unfold p_le, p_lt in *.

(* ---------- guards ---------- *)
Lemma mk_point_guard i l c :
  (exists p, mk_point i l c = Some p /\ p_idx p = i /\ p_line p = l /\ p_col p = c) <->
  (0 <= i /\ 1 <= l /\ 0 <= c).
Proof.
  unfold mk_point. split.
  - intros (p & E & _). destruct (i <? 0) eqn:?, (l <? 1) eqn:?, (c <? 0) eqn:?; try discriminate; lia.
  - intros (Hi & Hl & Hc).
    destruct (i <? 0) eqn:?, (l <? 1) eqn:?, (c <? 0) eqn:?; try lia.
    eexists; repeat split.
Qed.

Lemma mk_point_reject i l c : mk_point i l c = None <-> (i < 0 \/ l < 1 \/ c < 0).
Proof.
  unfold mk_point. destruct (i <? 0) eqn:?, (l <? 1) eqn:?, (c <? 0) eqn:?; split; intros; try discriminate; try lia; auto.
Qed.

Lemma mk_range_guard s e :
  mk_range s e = (if p_idx e <? p_idx s then None else Some {| r_start := s; r_end := e |}).
Proof. reflexivity. Qed.

Lemma mk_range_wf s e r : wf_point s -> wf_point e -> mk_range s e = Some r -> wf_range r.
Proof.
  unfold mk_range, wf_range. unf. intros Hs He. destruct (p_idx e <? p_idx s) eqn:E; [discriminate|].
  intros [= <-]; simpl. repeat split; try apply Hs; try apply He. lia.
Qed.

Lemma mk_range_reject s e : mk_range s e = None <-> p_idx e < p_idx s.
Proof. unfold mk_range. unf. destruct (p_idx e <? p_idx s) eqn:E; split; intros; try discriminate; try reflexivity; lia. Qed.

(* ---------- containment is a partial order (on index intervals) ---------- *)
Lemma contains_refl a : contains a a = true.
Proof. unf. lia. Qed.
Lemma contains_trans a b c : contains a b = true -> contains b c = true -> contains a c = true.
Proof. unf. lia. Qed.
Lemma contains_antisym a b : contains a b = true -> contains b a = true ->
  p_idx (r_start a) = p_idx (r_start b) /\ p_idx (r_end a) = p_idx (r_end b).
Proof. unf. lia. Qed.
Lemma contains_spec a b : contains a b = true <->
  p_idx (r_start a) <= p_idx (r_start b) /\ p_idx (r_end b) <= p_idx (r_end a).
Proof. unf. lia. Qed.

(* ---------- overlap ---------- *)
Lemma overlaps_sym a b : overlaps a b = overlaps b a.
Proof. unf. lia. Qed.
Lemma overlaps_spec a b : overlaps a b = true <->
  p_idx (r_start b) <= p_idx (r_end a) /\ p_idx (r_start a) <= p_idx (r_end b).
Proof. unf. lia. Qed.
Lemma overlaps_touching a b : wf_range a -> wf_range b ->
  p_idx (r_end a) = p_idx (r_start b) -> overlaps a b = true.
Proof. unfold wf_range. unf. lia. Qed.
Lemma overlaps_refl a : wf_range a -> overlaps a a = true.
Proof. unfold wf_range. unf. lia. Qed.

(* ---------- strict order ---------- *)
Lemma r_lt_spec a b : r_lt a b = true <-> p_idx (r_end a) < p_idx (r_start b).
Proof. unf. lia. Qed.
Lemma r_le_spec a b : r_le a b = true <-> p_idx (r_end a) <= p_idx (r_start b).
Proof. unf. lia. Qed.
Lemma r_lt_irrefl a : wf_range a -> r_lt a a = false.
Proof. unfold wf_range. unf. lia. Qed.
Lemma r_lt_trans a b c : wf_range b -> r_lt a b = true -> r_lt b c = true -> r_lt a c = true.
Proof. unfold wf_range. unf. lia. Qed.
Lemma r_lt_disjoint a b : wf_range a -> wf_range b -> r_lt a b = true -> overlaps a b = false.
Proof. unfold wf_range. unf. lia. Qed.

(* ---------- hull ---------- *)
Lemma pmin_idx a b : p_idx (pmin a b) = Z.min (p_idx a) (p_idx b).
Proof. unf. destruct (p_idx b <? p_idx a) eqn:E; lia. Qed.
Lemma pmax_idx a b : p_idx (pmax a b) = Z.max (p_idx a) (p_idx b).
Proof. unf. destruct (p_idx a <? p_idx b) eqn:E; lia. Qed.
Lemma pmin_wf a b : wf_point a -> wf_point b -> wf_point (pmin a b).
Proof. unfold pmin. destruct (p_lt b a); auto. Qed.
Lemma pmax_wf a b : wf_point a -> wf_point b -> wf_point (pmax a b).
Proof. unfold pmax. destruct (p_gt b a); auto. Qed.

Lemma hull_total a b : wf_range a -> wf_range b ->
  exists h, hull a b = Some h /\ wf_range h
    /\ p_idx (r_start h) = Z.min (p_idx (r_start a)) (p_idx (r_start b))
    /\ p_idx (r_end h) = Z.max (p_idx (r_end a)) (p_idx (r_end b)).
Proof.
  intros (Has & Hae & Ha) (Hbs & Hbe & Hb). unfold hull, mk_range.
  assert (E : p_gt (pmin (r_start a) (r_start b)) (pmax (r_end a) (r_end b)) = false).
  { unfold p_gt, p_lt. rewrite pmin_idx, pmax_idx. lia. }
  rewrite E. eexists; split; [reflexivity|]. cbn [r_start r_end].
  split; [|split; [apply pmin_idx | apply pmax_idx]].
  unfold wf_range; cbn [r_start r_end]. split; [|split].
  - apply pmin_wf; auto.
  - apply pmax_wf; auto.
  - rewrite pmin_idx, pmax_idx. lia.
Qed.

Lemma hull_contains a b h : wf_range a -> wf_range b -> hull a b = Some h ->
  contains h a = true /\ contains h b = true.
Proof.
  intros Ha Hb E. destruct (hull_total a b Ha Hb) as (h' & E' & _ & Hs & He).
  rewrite E in E'. injection E' as <-. rewrite !contains_spec. lia.
Qed.

(* smallest such range: any range containing both contains the hull *)
Lemma hull_least a b h c : wf_range a -> wf_range b -> hull a b = Some h ->
  contains c a = true -> contains c b = true -> contains c h = true.
Proof.
  intros Ha Hb E. destruct (hull_total a b Ha Hb) as (h' & E' & _ & Hs & He).
  rewrite E in E'. injection E' as <-. rewrite !contains_spec. lia.
Qed.

(* index-level algebra *)
Definition idx_eq (a b : range) : Prop :=
  p_idx (r_start a) = p_idx (r_start b) /\ p_idx (r_end a) = p_idx (r_end b).

Lemma hull_comm_idx a b h1 h2 : wf_range a -> wf_range b ->
  hull a b = Some h1 -> hull b a = Some h2 -> idx_eq h1 h2.
Proof.
  intros Ha Hb E1 E2.
  destruct (hull_total a b Ha Hb) as (x & Ex & _ & Hs & He).
  destruct (hull_total b a Hb Ha) as (y & Ey & _ & Hs' & He').
  rewrite E1 in Ex; rewrite E2 in Ey. injection Ex as <-. injection Ey as <-.
  unfold idx_eq. lia.
Qed.

Lemma hull_idem a : wf_range a -> hull a a = Some a.
Proof.
  intros (_ & _ & Ha). unfold hull, mk_range, pmin, pmax, p_gt, p_lt.
  rewrite !Z.ltb_irrefl. destruct a as [s e]; simpl in *.
  destruct (p_idx e <? p_idx s) eqn:E; [lia|reflexivity].
Qed.

Lemma hull_assoc_idx a b c ab bc l r : wf_range a -> wf_range b -> wf_range c ->
  hull a b = Some ab -> hull b c = Some bc -> hull ab c = Some l -> hull a bc = Some r -> idx_eq l r.
Proof.
  intros Ha Hb Hc E1 E2 E3 E4.
  destruct (hull_total a b Ha Hb) as (x & Ex & Wx & Hs & He). rewrite E1 in Ex; injection Ex as <-.
  destruct (hull_total b c Hb Hc) as (y & Ey & Wy & Hs' & He'). rewrite E2 in Ey; injection Ey as <-.
  destruct (hull_total ab c Wx Hc) as (z & Ez & _ & Hs2 & He2). rewrite E3 in Ez; injection Ez as <-.
  destruct (hull_total a bc Ha Wy) as (w & Ew & _ & Hs3 & He3). rewrite E4 in Ew; injection Ew as <-.
  unfold idx_eq. lia.
Qed.

(* full dataclass equality under consistency: equal index => equal point (points of one text) *)
Definition consistent (ps : list point) : Prop :=
  forall p q, In p ps -> In q ps -> p_idx p = p_idx q -> p = q.

Lemma pmin_comm a b : (p_idx a = p_idx b -> a = b) -> pmin a b = pmin b a.
Proof. unf. intros C. destruct (p_idx b <? p_idx a) eqn:E1, (p_idx a <? p_idx b) eqn:E2; try lia; auto;
  try (apply C; lia); symmetry; apply C; lia. Qed.
Lemma pmax_comm a b : (p_idx a = p_idx b -> a = b) -> pmax a b = pmax b a.
Proof. unf. intros C. destruct (p_idx b <? p_idx a) eqn:E1, (p_idx a <? p_idx b) eqn:E2; try lia; auto;
  try (apply C; lia); symmetry; apply C; lia. Qed.

Lemma hull_comm a b :
  consistent [r_start a; r_end a; r_start b; r_end b] -> hull a b = hull b a.
Proof.
  intros C. unfold hull. rewrite (pmin_comm (r_start a) (r_start b)), (pmax_comm (r_end a) (r_end b)); auto.
  - intros; apply C; simpl; auto.
  - intros; apply C; simpl; auto.
Qed.

Lemma pmin_in a b : pmin a b = a \/ pmin a b = b.
Proof. unfold pmin. destruct (p_lt b a); auto. Qed.
Lemma pmax_in a b : pmax a b = a \/ pmax a b = b.
Proof. unfold pmax. destruct (p_gt b a); auto. Qed.

Lemma pmin_assoc a b c : consistent [a; b; c] -> pmin (pmin a b) c = pmin a (pmin b c).
Proof.
  intros C.
  assert (Cab : p_idx a = p_idx b -> a = b) by (intros; apply C; simpl; auto).
  assert (Cac : p_idx a = p_idx c -> a = c) by (intros; apply C; simpl; auto).
  assert (Cbc : p_idx b = p_idx c -> b = c) by (intros; apply C; simpl; auto).
  unf.
  destruct (p_idx b <? p_idx a) eqn:E1; destruct (p_idx c <? p_idx b) eqn:E2;
    try rewrite E1; try rewrite E2;
    destruct (p_idx c <? p_idx a) eqn:E3; try rewrite E1; auto; try lia.
Qed.
Lemma pmax_assoc a b c : consistent [a; b; c] -> pmax (pmax a b) c = pmax a (pmax b c).
Proof.
  intros C.
  unf.
  destruct (p_idx a <? p_idx b) eqn:E1; destruct (p_idx b <? p_idx c) eqn:E2;
    try rewrite E1; try rewrite E2;
    destruct (p_idx a <? p_idx c) eqn:E3; try rewrite E1; auto; try lia.
Qed.

Lemma hull_assoc a b c ab bc : wf_range a -> wf_range b -> wf_range c ->
  consistent [r_start a; r_start b; r_start c] -> consistent [r_end a; r_end b; r_end c] ->
  hull a b = Some ab -> hull b c = Some bc -> hull ab c = hull a bc.
Proof.
  intros Ha Hb Hc Cs Ce E1 E2.
  unfold hull, mk_range in E1, E2.
  destruct (p_gt _ _) in E1; [discriminate|]. injection E1 as <-.
  destruct (p_gt _ _) in E2; [discriminate|]. injection E2 as <-.
  unfold hull. simpl. rewrite pmin_assoc, pmax_assoc; auto.
Qed.

(* ---------- slices ---------- *)
Lemma slice_length text a b : 0 <= a <= b -> b <= Z.of_nat (length text) ->
  Z.of_nat (length (slice text a b)) = b - a.
Proof. intros. unfold slice. rewrite firstn_length, skipn_length. lia. Qed.

(* the slice is exactly the characters at positions a .. b-1 *)
Lemma slice_spec pre mid post a b :
  Z.of_nat (length pre) = a -> Z.of_nat (length mid) = b - a ->
  slice (pre ++ mid ++ post) a b = mid.
Proof.
  intros Ha Hb. unfold slice.
  replace (Z.to_nat a) with (length pre) by lia.
  rewrite skipn_app, skipn_all, Nat.sub_diag. simpl.
  replace (Z.to_nat (b - a)) with (length mid) by lia.
  rewrite firstn_app, firstn_all, Nat.sub_diag. simpl. now rewrite app_nil_r.
Qed.

(* ---------- + on origins ---------- *)
Lemma add_code_hull sa ra sb rb a b :
  code_pos a = Some (sa, ra) -> code_pos b = Some (sb, rb) ->
  wf_range ra -> wf_range rb ->
  source_eqb sa sb = true -> overlaps ra rb = true ->
  exists h, hull ra rb = Some h /\ add a b = Some (OCode sa h)
    /\ contains h ra = true /\ contains h rb = true
    /\ get_raw (OCode sa h) =
       match source_raw sa with
       | Some t => RStr (slice t (Z.min (p_idx (r_start ra)) (p_idx (r_start rb)))
                                 (Z.max (p_idx (r_end ra)) (p_idx (r_end rb))))
       | None => RNone
       end.
Proof.
  intros Ea Eb Wa Wb Es Eo.
  destruct (hull_total ra rb Wa Wb) as (h & Eh & Wh & Hs & He).
  exists h. split; auto. split.
  - unfold add. rewrite Ea, Eb, Es, Eo, Eh. reflexivity.
  - destruct (hull_contains ra rb h Wa Wb Eh) as [C1 C2]. repeat split; auto.
    simpl. rewrite Hs, He. reflexivity.
Qed.

Lemma add_other a b :
  (match code_pos a, code_pos b with
   | Some (sa, ra), Some (sb, rb) => source_eqb sa sb && overlaps ra rb = false
   | _, _ => True
   end) -> add a b = Some (merge [a; b]).
Proof.
  unfold add. destruct (code_pos a) as [[sa ra]|]; auto.
  destruct (code_pos b) as [[sb rb]|]; auto. intros ->. reflexivity.
Qed.

(* ---------- merge: flat, ordered, without NoOrigin ---------- *)
Definition members (o : origin) : list origin := flatten1 o.

Lemma flatten1_simple o : flat o -> forallb simple (flatten1 o) = true.
Proof. destruct o; simpl; auto. intros [_ H]; exact H. Qed.

Lemma flat_map_simple l : Forall flat l -> forallb simple (flat_map flatten1 l) = true.
Proof.
  induction 1 as [|o l Ho _ IH]; simpl; auto.
  rewrite forallb_app, IH, flatten1_simple; auto.
Qed.

Theorem merge_flat l : Forall flat l ->
  let r := merge l in
  flat r
  /\ (match l with [o] => r = o | _ =>
        match flat_map flatten1 l with
        | [] => r = ONo
        | [o] => r = o
        | ms => r = OMulti ms
        end end)
  /\ (match l with [_] => True | _ => members r = flat_map members l end).
Proof.
  intros Hl. unfold merge.
  destruct l as [|o [|o' l']].
  - simpl. auto.
  - inversion Hl; subst. simpl. auto.
  - set (L := o :: o' :: l') in *.
    pose proof (flat_map_simple L Hl) as Hs.
    destruct (flat_map flatten1 L) as [|m [|m' ms]] eqn:E; cbn [flat]; repeat split; auto.
    + destruct m; simpl in *; auto; discriminate.
    + unfold members. simpl. destruct m; simpl in *; auto; try discriminate.
    + simpl. lia.
Qed.

(* a single surviving operand is returned as the operand itself *)
Lemma merge_one_left o : simple o = true -> merge [o; ONo] = o.
Proof. destruct o; simpl; intros; auto; discriminate. Qed.
Lemma merge_one_right o : simple o = true -> merge [ONo; o] = o.
Proof. destruct o; simpl; intros; auto; discriminate. Qed.
Lemma merge_none l : Forall (fun o => o = ONo) l -> merge l = ONo.
Proof.
  intros H.
  assert (E : flat_map flatten1 l = []).
  { induction H as [|x xs -> _ IH]; simpl; auto. }
  unfold merge. rewrite E. destruct l as [|o [|o' l']]; auto.
  inversion H; subst; auto.
Qed.

(* source of a multi-origin *)
Lemma multi_source_common s0 rest : all_same_source s0 rest = true -> multi_source (s0 :: rest) = s0.
Proof. simpl. intros ->. reflexivity. Qed.
Lemma multi_source_set s0 rest : all_same_source s0 rest = false -> multi_source (s0 :: rest) = SSet (s0 :: rest).
Proof. simpl. intros ->. reflexivity. Qed.

(* fqn composition *)
Lemma ofqn_multi l : ofqn (OMulti l) =
  source_fqn (multi_source (map osource l)) ++ lit "::" ++ lit "PositionSet(" ++ join (lit "||") (map pos_fqn l) ++ lit ")".
Proof. reflexivity. Qed.
Lemma source_fqn_set l : source_fqn (SSet l) = lit "SourceSet(" ++ join (lit "||") (map source_fqn l) ++ lit ")".
Proof. reflexivity. Qed.
Lemma ofqn_simple o : simple o = true -> ofqn o = source_fqn (osource o) ++ lit "::" ++ pos_fqn o.
Proof. destruct o; simpl; intros; auto; discriminate. Qed.

(* concat is the left fold of + *)
Lemma concat_nil o : concat o [] = Some o.
Proof. reflexivity. Qed.
Lemma concat_cons o x l : concat o (x :: l) = match add o x with Some a => concat a l | None => None end.
Proof. reflexivity. Qed.

(* + preserves flatness, and never fails on well-formed ranges *)
Definition wf_origin (o : origin) : Prop :=
  match o with
  | OCode _ r => wf_range r
  | OMulti l => Forall (fun m => match m with OCode _ r => wf_range r | _ => True end) l
  | _ => True
  end.

Lemma empty_range_wf : wf_range empty_range.
Proof. unfold wf_range, wf_point; simpl; lia. Qed.

Lemma add_total a b : wf_origin a -> wf_origin b -> flat a -> flat b ->
  exists r, add a b = Some r /\ flat r.
Proof.
  intros Wa Wb Fa Fb. unfold add.
  assert (M : flat (merge [a; b])).
  { apply (merge_flat [a; b]). repeat constructor; auto. }
  destruct (code_pos a) as [[sa ra]|] eqn:Ea; [|eauto].
  destruct (code_pos b) as [[sb rb]|] eqn:Eb; [|eauto].
  destruct (source_eqb sa sb && overlaps ra rb); [|eauto].
  assert (Wra : wf_range ra).
  { destruct a; simpl in Ea; try discriminate; injection Ea as <- <-; auto using empty_range_wf. }
  assert (Wrb : wf_range rb).
  { destruct b; simpl in Eb; try discriminate; injection Eb as <- <-; auto using empty_range_wf. }
  destruct (hull_total ra rb Wra Wrb) as (h & -> & _). eexists; split; eauto. exact I.
Qed.
